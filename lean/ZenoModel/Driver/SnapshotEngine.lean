/-
Driver engine `snapshot` (C18): runs a schedule of ingest / ingestField / flush / scanStart /
deliver events through Model/Snapshot.lean with the sequence operations of Model/Seq.lean
plugged in, and reports what every delivery hands out.  `view` pseudo-events report the table
as of that moment (`Snap.view`) — used for the pre-scan view and for tying ingest / flush.
-/
import ZenoModel.Driver.StoreEngine
import ZenoModel.Model.Snapshot

namespace Zeno.Drv
open Lean

/-- a point as the row store gets it: key index, timestamp, parameters -/
structure SPoint where
  key : Nat
  ts : Int
  pt : Pt
  deriving Inhabited

/-- does `Sequence.UpdateValue` write into the receiver's bytes (branch "Updating existing
    entry on sequence" without growth) -/
def inPlaceSq (res : Int) (s : Sq) (ts : Int) : Bool :=
  let ts := roundUp ts res
  match s with
  | none => false
  | some q =>
    let untl := if q.hi = 0 then ts else q.hi
    let tb := roundUntilUp 0 res untl
    if ¬ (ts > tb) then false
    else
      let start := q.hi
      let gapPeriods := (ts - start).tdiv res
      let maxPeriods := (ts - tb).tdiv res
      if start < tb ∨ gapPeriods > maxPeriods then false
      else if ts > start then false
      else
        let period := ((start - ts).tdiv res).toNat
        decide (period + 1 ≤ q.cells.length)

/-- the row store's sequence operations as a `Snap.Cfg`; `tb` = truncation bound (constant: the
    harness stays far inside the retention window) -/
def sqCfg (fields : List Field) (res tb : Int) : Snap.Cfg Seq SPoint where
  nf := fields.length
  keyOf := fun p => p.key
  upd := fun f cur p =>
    (Sq.updateValue dummyExt (fields.getD f default).ex res cur p.ts p.pt 0).getD ⟨0, []⟩
  inPlace := fun _ cur p => inPlaceSq res cur p.ts
  merge := fun f a b => Sq.merge (fields.getD f default).ex res a b tb
  wr := fun row =>
    let cols := row.map (fun c => Sq.truncate c res tb 0)
    if cols.any (fun c => c.isSome) then some cols else none

def parseMode : String → R Snap.CopyMode
  | "shared" => pure .shared
  | "arrays" => pure .arrays
  | "deep" => pure .deep
  | m => throw s!"snapshot: unknown copy mode {m}"

def optRowJson : Option (Snap.Row Seq) → Json
  | none => Json.null
  | some r => Json.arr (r.map sqJson).toArray

/-- index of a key in the key table, adding it when new -/
def keyIndex (keys : Array Zeno.Key) (k : Zeno.Key) : Array Zeno.Key × Nat :=
  match keys.findIdx? (· == k) with
  | some i => (keys, i)
  | none => (keys.push k, keys.size)

/-- engine `snapshot`, op `run`: schedule → what every delivery / view hands out.
    The environment of Model/Snapshot.lean is the truncation bound `tb = now − retention`:
    with `"clock": true` the driver follows the database clock (`table.insert`: a point older
    than `now − retention` is skipped, an accepted one moves the clock; `advance` =
    `VerifAdvanceClock`), otherwise `tb` is the constant of the request.  `"reread": "clock"`
    runs the variant whose deliveries use the bound of the moment of delivery. -/
def snapshotEngine (j : Json) : R Json := do
  let tcfg ← parseCfg (← obj j "cfg")
  let mode ← parseMode (← str j "mode")
  let tb0 ← time j "tb"
  let clock := boolD j "clock" false
  let reread := match j.getObjVal? "reread" with
    | .ok (Json.str "clock") => true
    | _ => false
  let cfgOf : Int → Snap.Cfg Seq SPoint := fun tb => sqCfg tcfg.fields tcfg.res tb
  let rr : Int → Int → Int := if reread then (fun _ cur => cur) else Snap.keepCaptured
  let evs ← arr j "events"
  let mut now : Int := 0
  let mut st : Snap.EState Seq Int := { cur := if clock then 0 - tcfg.retention else tb0 }
  let mut keys : Array Zeno.Key := #[]
  let mut outs : Array Json := #[]
  for e in evs do
    match (← str e "ev") with
    | "ingest" | "ingestField" =>
        let rp ← parseRawPoint (← obj e "p")
        let (keys', ki) := keyIndex keys (reslice tcfg rp.dims)
        keys := keys'
        if clock && rp.ts < now - tcfg.retention then
          -- `table.insert`: too old, only the offset advances
          outs := outs.push (Json.mkObj [("accepted", Json.bool false)])
        else
          if clock then
            now := max now rp.ts
            st := (Snap.estep cfgOf mode rr st (.setEnv (now - tcfg.retention))).1
          -- `doInsert`: one memstore insert per value row of the point (a point without any
          -- usable value inserts nothing); generated points are single-valued
          let isField := (← str e "ev") == "ingestField"
          let f ← if isField then nat e "f" else pure 0
          for vals in pointRowsD false rp do
            let p : SPoint := { key := ki, ts := rp.ts, pt := mkPt rp vals }
            if isField then
              st := (Snap.estep cfgOf mode rr st (.base (.ingestField p f))).1
            else
              st := (Snap.estep cfgOf mode rr st (.base (.ingest p))).1
          outs := outs.push Json.null
    | "advance" =>
        let t ← time e "t"
        if clock then
          now := max now t
          st := (Snap.estep cfgOf mode rr st (.setEnv (now - tcfg.retention))).1
        outs := outs.push Json.null
    | "flush" =>
        st := (Snap.estep cfgOf mode rr st (.base (.flush (boolD e "raw" true)))).1
        outs := outs.push Json.null
    | "scanStart" =>
        st := (Snap.estep cfgOf mode rr st (.base .scanStart)).1
        outs := outs.push (Json.mkObj [("sid", Json.num (Int.ofNat (st.base.scans.length - 1)))])
    | "deliver" =>
        let (keys', ki) := keyIndex keys (← parseKey (← obj e "key"))
        keys := keys'
        let sid ← nat e "sid"
        match (Snap.estep cfgOf mode rr st (.base (.deliver sid ki))).2 with
        | some (_, _, r) => outs := outs.push (Json.mkObj [("row", optRowJson r)])
        | none => outs := outs.push (Json.mkObj [("row", Json.null)])
    | "view" =>
        let (keys', ki) := keyIndex keys (← parseKey (← obj e "key"))
        keys := keys'
        outs := outs.push (Json.mkObj [("row", optRowJson (Snap.eview cfgOf st ki))])
    | o => throw s!"snapshot: unknown event {o}"
  pure (Json.mkObj [("outs", Json.arr outs), ("keys", Json.arr (keys.map keyJson))])

end Zeno.Drv
