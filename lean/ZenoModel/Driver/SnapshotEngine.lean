/-
Driver engine `snapshot` (C18): runs a schedule of ingest / ingestField / flush / scanStart /
deliver events through Model/Snapshot.lean with the sequence operations of Model/Seq.lean
plugged in, and reports what every delivery hands out.  `view` pseudo-events report the table
as of that moment (`Snap.view`) — used for the pre-scan view and for tying ingest / flush.
-/
import ZenoModel.Driver.StoreEngine
import ZenoModel.Model.Snapshot

namespace Zeno.Drv
open Lean

/-- a point as the row store gets it: key index, timestamp, parameters -/
structure SPoint where
  key : Nat
  ts : Int
  pt : Pt
  deriving Inhabited

/-- does `Sequence.UpdateValue` write into the receiver's bytes (branch "Updating existing
    entry on sequence" without growth) -/
def inPlaceSq (res : Int) (s : Sq) (ts : Int) : Bool :=
  let ts := roundUp ts res
  match s with
  | none => false
  | some q =>
    let untl := if q.hi = 0 then ts else q.hi
    let tb := roundUntilUp 0 res untl
    if ¬ (ts > tb) then false
    else
      let start := q.hi
      let gapPeriods := (ts - start).tdiv res
      let maxPeriods := (ts - tb).tdiv res
      if start < tb ∨ gapPeriods > maxPeriods then false
      else if ts > start then false
      else
        let period := ((start - ts).tdiv res).toNat
        decide (period + 1 ≤ q.cells.length)

/-- the row store's sequence operations as a `Snap.Cfg`; `tb` = truncation bound (constant: the
    harness stays far inside the retention window) -/
def sqCfg (fields : List Field) (res tb : Int) : Snap.Cfg Seq SPoint where
  nf := fields.length
  keyOf := fun p => p.key
  upd := fun f cur p =>
    (Sq.updateValue dummyExt (fields.getD f default).ex res cur p.ts p.pt 0).getD ⟨0, []⟩
  inPlace := fun _ cur p => inPlaceSq res cur p.ts
  merge := fun f a b => Sq.merge (fields.getD f default).ex res a b tb
  wr := fun row =>
    let cols := row.map (fun c => Sq.truncate c res tb 0)
    if cols.any (fun c => c.isSome) then some cols else none

def parseMode : String → R Snap.CopyMode
  | "shared" => pure .shared
  | "arrays" => pure .arrays
  | "deep" => pure .deep
  | m => throw s!"snapshot: unknown copy mode {m}"

def optRowJson : Option (Snap.Row Seq) → Json
  | none => Json.null
  | some r => Json.arr (r.map sqJson).toArray

/-- index of a key in the key table, adding it when new -/
def keyIndex (keys : Array Zeno.Key) (k : Zeno.Key) : Array Zeno.Key × Nat :=
  match keys.findIdx? (· == k) with
  | some i => (keys, i)
  | none => (keys.push k, keys.size)

/-- engine `snapshot`, op `run`: schedule → what every delivery / view hands out -/
def snapshotEngine (j : Json) : R Json := do
  let tcfg ← parseCfg (← obj j "cfg")
  let mode ← parseMode (← str j "mode")
  let tb ← time j "tb"
  let cfg := sqCfg tcfg.fields tcfg.res tb
  let evs ← arr j "events"
  let mut st : Snap.State Seq := {}
  let mut keys : Array Zeno.Key := #[]
  let mut outs : Array Json := #[]
  for e in evs do
    match (← str e "ev") with
    | "ingest" | "ingestField" =>
        let rp ← parseRawPoint (← obj e "p")
        let (keys', ki) := keyIndex keys (reslice tcfg rp.dims)
        keys := keys'
        -- `doInsert`: one memstore insert per value row of the point (a point without any
        -- usable value inserts nothing); generated points are single-valued
        let isField := (← str e "ev") == "ingestField"
        let f ← if isField then nat e "f" else pure 0
        for vals in pointRowsD false rp do
          let p : SPoint := { key := ki, ts := rp.ts, pt := mkPt rp vals }
          if isField then
            st := (Snap.step cfg mode st (.ingestField p f)).1
          else
            st := (Snap.step cfg mode st (.ingest p)).1
        outs := outs.push Json.null
    | "flush" =>
        st := (Snap.step cfg mode st (.flush (boolD e "raw" true))).1
        outs := outs.push Json.null
    | "scanStart" =>
        st := (Snap.step cfg mode st .scanStart).1
        outs := outs.push (Json.mkObj [("sid", Json.num (Int.ofNat (st.scans.length - 1)))])
    | "deliver" =>
        let (keys', ki) := keyIndex keys (← parseKey (← obj e "key"))
        keys := keys'
        let sid ← nat e "sid"
        match (Snap.step cfg mode st (.deliver sid ki)).2 with
        | some (_, _, r) => outs := outs.push (Json.mkObj [("row", optRowJson r)])
        | none => outs := outs.push (Json.mkObj [("row", Json.null)])
    | "view" =>
        let (keys', ki) := keyIndex keys (← parseKey (← obj e "key"))
        keys := keys'
        outs := outs.push (Json.mkObj [("row", optRowJson (Snap.view cfg st ki))])
    | o => throw s!"snapshot: unknown event {o}"
  pure (Json.mkObj [("outs", Json.arr outs), ("keys", Json.arr (keys.map keyJson))])

end Zeno.Drv
