/-
Driver engine `report` (C13): runs a plan of Model/Report.lean under a fault schedule.

Request  {"engine":"report","op":"run","cfg":{…},"deadline":null|n,"now":n,"plan":PLAN,
          "fault":FAULT,"caller":"embedded"|"rpc"|"web","web":{…}}
  cfg    {"d3","d15","d4","subq","subqStats","recover": bool (default true), "coalesce":"perIteration" (default) |"abortAll"}
  ROW    {"k":key,"t":ts,"v":[vals…],"p":part,"sz":web size estimate}
  FAULT  {"kind":"none"} | {"kind":"failAt","k":n} | {"kind":"stopAt","k":n} | {"kind":"panicAt","k":n} |
         {"kind":"sleepAt","k":n,"d":n} | {"kind":"sizeCap","max":n}
  PLAN   {"op":"mock","rows":[ROW],"failAt":null|n,"sleepAt":null|[k,d]}
         {"op":"table","file":[[ROW,bool]],"mem":[ROW],"includeMem":b,"oomAt":null|c,
                       "co":null|{"deadline":null|n,"first":b,"fault":FAULT}}
         {"op":"cluster","parts":[{"rows":[ROW],"outcome":{"kind":"ok"|"noHandler"|"failAfter"|"silentAfter"|"retryAfter"|"eofAfter"|"endErrorAfter","k":n}
                                   (or "attempts":[{"kind":"stale"}|OUTCOME …], the queue of handlers)}],
                         "events":[{"e":"msg","p":n,"early":b}|{"e":"tick","d":n}|{"e":"timeout"}],"unflat":b}
         {"op":"filter","mod":m,"rem":r,"errKey":null|key,"panicKeys":[key],"minVal":null|x,"p":PLAN}
                                                                          keep ⇔ key % m ≠ r  (minVal: ⇔ first value > x)
         {"op":"subq","sub":PLAN,"neg":b,"p":PLAN}                       keep ⇔ (key ∈ dims) xor neg, dim = key
         {"op":"group","div":d,"crosstab":b,"p":PLAN}                    group key = key / d, first-appearance order, values summed
         {"op":"flatten","p":PLAN}   {"op":"unflatten","p":PLAN}
         {"op":"sort","desc":b,"p":PLAN}                                 by (key, ts)
         {"op":"offset","n":n,"p":PLAN}   {"op":"limit","n":n,"p":PLAN}
  web    {"max":n,"timeout":n,"lag":n,"finalSize":n,"fullCount":n,"rowSize":n}
Response {"rows":[ROW],"err":null|class,"stats":null|{total,successful,missing},"stopped":b,"told":b,
          "took":n, "rpc":{"end":"error"|"eor"}, "web":{"status":…,"http":n,"rows":[ROW],"err":…}}
-/
import ZenoModel.Driver.Codec
import ZenoModel.Model.Report

namespace Zeno.Drv
open Lean Zeno.Report

def rpNatOpt (j : Json) (k : String) : R (Option Nat) :=
  match j.getObjVal? k with
  | .ok v => if v.isNull then pure none else do pure (some (← v.getNat?))
  | .error _ => pure none

def rpRow (j : Json) : R (Row × Nat) := do
  let k ← nat j "k"
  let t := (← rpNatOpt j "t").getD 0
  let vs ← match j.getObjVal? "v" with
    | .ok v => (← v.getArr?).toList.mapM (·.getNat?)
    | .error _ => pure []
  let p := (← rpNatOpt j "p").getD 0
  let sz := (← rpNatOpt j "sz").getD 0
  pure ({ key := k, ts := t, vals := vs, part := p }, sz)

def rpRowJson (r : Row) : Json :=
  Json.mkObj [("k", Json.num (Int.ofNat r.key)), ("t", Json.num (Int.ofNat r.ts)),
    ("v", Json.arr (r.vals.map (fun (n : Nat) => Json.num (Int.ofNat n))).toArray), ("p", Json.num (Int.ofNat r.part))]

def rpRows (j : Json) (k : String) : R (List (Row × Nat)) := do
  match j.getObjVal? k with
  | .ok v => if v.isNull then pure [] else (← v.getArr?).toList.mapM rpRow
  | .error _ => pure []

def rpFault (j : Json) : R UFault := do
  match (← str j "kind") with
  | "none" => pure .none
  | "failAt" => pure (.failAt (← nat j "k"))
  | "stopAt" => pure (.stopAt (← nat j "k"))
  | "sleepAt" => pure (.sleepAt (← nat j "k") (← nat j "d"))
  | "sizeCap" => pure (.sizeCap (← nat j "max"))
  | "panicAt" => pure (.panicAt (← nat j "k"))
  | k => throw s!"report: unknown fault {k}"

/-- the other iteration of a batch (`SELECT * FROM t`: flatten, then its caller) as a callback
    over its row counter; after a sleep its own flatten guard answers with the deadline error
    when its deadline has passed -/
def rpCoSink (f : UFault) (deadline : Option Nat) : Sink Nat where
  onRow := fun n now _ =>
    let g : Guard := ⟨deadline⟩
    match f with
    | .failAt k => if n == k then (n + 1, 0, .fail .consumer) else (n + 1, 0, g.proceed now)
    | .stopAt k => if n == k then (n + 1, 0, .stop) else (n + 1, 0, g.proceed now)
    | .sleepAt k d => if n == k then (n + 1, d, g.proceed (now + d)) else (n + 1, 0, g.proceed now)
    | _ => (n + 1, 0, g.proceed now)

def rpAddVals : List Nat → List Nat → List Nat
  | [], ys => ys
  | xs, [] => xs
  | x :: xs, y :: ys => (x + y) :: rpAddVals xs ys

/-- group: first-appearance order of `key / d`, values summed per period -/
def rpGroup (d : Nat) (rows : List Row) : List Row :=
  rows.foldl (fun acc r =>
    let g := r.key / (if d == 0 then 1 else d)
    if acc.any (fun a => a.key == g) then
      acc.map (fun a => if a.key == g then { a with vals := rpAddVals a.vals r.vals } else a)
    else acc ++ [{ key := g, ts := 0, vals := r.vals, part := 0 }]) []

def rpLe (desc : Bool) (a b : Row) : Bool :=
  let lt := a.key < b.key || (a.key == b.key && a.ts ≤ b.ts)
  let gt := b.key < a.key || (a.key == b.key && b.ts ≤ a.ts)
  if desc then gt else lt

def rpInsert (desc : Bool) (x : Row) : List Row → List Row
  | [] => [x]
  | y :: ys => if rpLe desc x y then x :: y :: ys else y :: rpInsert desc x ys

def rpSort (desc : Bool) (rows : List Row) : List Row := rows.foldr (rpInsert desc) []

def rpFlatten (r : Row) : List Row :=
  (List.range r.vals.length).map (fun i => { key := r.key, ts := r.ts + i, vals := [r.vals.getD i 0], part := r.part })

def rpOutcome (j : Json) : R PartOutcome := do
  match (← str j "kind") with
  | "ok" => pure .ok
  | "noHandler" => pure .noHandler
  | "failAfter" => pure (.failAfter (← nat j "k"))
  | "silentAfter" => pure (.silentAfter (← nat j "k"))
  | "retryAfter" => pure (.retryAfter (← nat j "k"))
  | "eofAfter" => pure (.eofAfter (← nat j "k"))
  | "endErrorAfter" => pure (.endErrorAfter (← nat j "k"))
  | k => throw s!"report: unknown outcome {k}"

/-- a partition's queue of handlers: `[{"kind":"stale"} | OUTCOME …]` -/
def rpAttempts (j : Json) : R (List Attempt) := do
  (← j.getArr?).toList.mapM (fun a => do
    if (← str a "kind") == "stale" then pure Attempt.stale else pure (Attempt.answer (← rpOutcome a)))

def rpEvent (j : Json) : R CEvent := do
  match (← str j "e") with
  | "msg" => pure (.msg (← nat j "p") (boolD j "early" false))
  | "tick" => pure (.tick (← nat j "d"))
  | "timeout" => pure .timeout
  | k => throw s!"report: unknown event {k}"

/-- plan, and the size table of all rows mentioned in it -/
partial def rpPlan (j : Json) : R (Plan × List (Row × Nat)) := do
  match (← str j "op") with
  | "mock" =>
    let rows ← rpRows j "rows"
    let sl ← match j.getObjVal? "sleepAt" with
      | .ok v => if v.isNull then pure none else do
          let a ← v.getArr?
          if a.size ≠ 2 then throw "sleepAt needs [k,d]"
          pure (some (← a[0]!.getNat?, ← a[1]!.getNat?))
      | .error _ => pure none
    pure (.mock (rows.map (·.1)) (← rpNatOpt j "failAt") sl, rows)
  | "table" =>
    let file ← (← arr j "file").toList.mapM (fun e => do
      let a ← e.getArr?
      if a.size ≠ 2 then throw "file entry needs [row, bool]"
      pure (← rpRow a[0]!, ← a[1]!.getBool?))
    let mem ← rpRows j "mem"
    let co ← match j.getObjVal? "co" with
      | .ok v => if v.isNull then pure none else do
          pure (some { sink := rpCoSink (← rpFault (← obj v "fault")) (← rpNatOpt v "deadline"), deadline := ← rpNatOpt v "deadline",
                       first := boolD v "first" false : CoIter })
      | .error _ => pure none
    pure (.table { file := file.map (fun (x, b) => (x.1, b)), mem := mem.map (·.1), includeMem := boolD j "includeMem" true,
                   oomAt := ← rpNatOpt j "oomAt", co := co }, file.map (·.1) ++ mem)
  | "cluster" =>
    let parts ← (← arr j "parts").toList.mapM (fun e => do
      let rows ← rpRows e "rows"
      -- "attempts" (the queue of handlers) takes precedence over a single "outcome"
      let oc ← match e.getObjVal? "attempts" with
        | .ok a => do pure (effectiveOutcome (← rpAttempts a))
        | .error _ => rpOutcome (← obj e "outcome")
      pure (({ rows := rows.map (·.1), outcome := oc } : Part), rows))
    let evs ← (← arr j "events").toList.mapM rpEvent
    pure (.cluster { parts := parts.map (·.1), events := evs, unflat := boolD j "unflat" false }, (parts.map (·.2)).flatten)
  | "filter" =>
    let (p, sz) ← rpPlan (← obj j "p")
    let m ← nat j "mod"
    let rm ← nat j "rem"
    let ek ← rpNatOpt j "errKey"
    let mv ← rpNatOpt j "minVal"
    -- rows whose evaluation panics (a dimension of an unexpected type under SUBSTR/SPLIT/LEN)
    let pks : List Nat := match j.getObjVal? "panicKeys" with
      | .ok (Json.arr a) => a.toList.filterMap (fun x => x.getNat?.toOption)
      | _ => []
    let incl : Row → Incl := fun r =>
      if pks.contains r.key then .err .panic
      else if ek == some r.key then .err .filter
      else match mv with
        | some x => if x < r.vals.headD 0 then .keep r else .drop     -- HAVING a > x
        | none => if m == 0 || r.key % m != rm then .keep r else .drop
    pure (.filter incl p, sz)
  | "subq" =>
    let (sub, sz1) ← rpPlan (← obj j "sub")
    let (p, sz2) ← rpPlan (← obj j "p")
    let neg := boolD j "neg" false
    pure (.subqFilter sub (·.key) (fun dims r => (dims.contains r.key) != neg) p, sz1 ++ sz2)
  | "group" =>
    let (p, sz) ← rpPlan (← obj j "p")
    pure (.group { gf := rpGroup (← nat j "div"), crosstab := boolD j "crosstab" false } p, sz)
  | "flatten" => let (p, sz) ← rpPlan (← obj j "p"); pure (.flatten rpFlatten p, sz)
  | "unflatten" => let (p, sz) ← rpPlan (← obj j "p"); pure (.unflatten (fun r => r) p, sz)
  | "sort" => let (p, sz) ← rpPlan (← obj j "p"); pure (.sort (rpSort (boolD j "desc" false)) p, sz)
  | "offset" => let (p, sz) ← rpPlan (← obj j "p"); pure (.offset (← nat j "n") p, sz)
  | "limit" => let (p, sz) ← rpPlan (← obj j "p"); pure (.limit (← nat j "n") p, sz)
  | k => throw s!"report: unknown plan op {k}"

def rpCfg (j : Json) : R Cfg := do
  let c := match j.getObjVal? "cfg" with
    | .ok v => v
    | .error _ => Json.mkObj []
  let co := match c.getObjVal? "coalesce" with
    | .ok (Json.str "abortAll") => Coalesce.abortAll
    | _ => Coalesce.perIteration
  pure { d3 := boolD c "d3" true, d15 := boolD c "d15" true, d4 := boolD c "d4" true, subq := boolD c "subq" true,
         subqStats := boolD c "subqStats" true, recover := boolD c "recover" true, coalesce := co }

def rpErrJson : Option Err → Json
  | none => Json.null
  | some e => Json.str e.str

def rpStatsJson : Option Stats → Json
  | none => Json.null
  | some s => Json.mkObj [("total", Json.num (Int.ofNat s.total)), ("successful", Json.num (Int.ofNat s.successful)),
      ("missing", Json.arr (s.missing.map (fun (n : Nat) => Json.num (Int.ofNat n))).toArray)]

def rpRowsJson (rs : List Row) : Json := Json.arr (rs.map rpRowJson).toArray

def reportEngine (j : Json) : R Json := do
  let op ← str j "op"
  if op != "run" then throw s!"report: unknown op {op}"
  let cfg ← rpCfg j
  let (plan, sizes) ← rpPlan (← obj j "plan")
  let size : Row → Nat := fun r =>
    match sizes.find? (fun (x, _) => x.key == r.key && x.ts == r.ts && x.part == r.part) with
    | some (_, s) => s
    | none => match sizes.find? (fun (x, _) => x.key == r.key && x.part == r.part) with
      | some (_, s) => s
      | none => 0
  let now := (← rpNatOpt j "now").getD 0
  let env : Env := { cfg := cfg, deadline := ← rpNatOpt j "deadline" }
  let fault ← match j.getObjVal? "fault" with
    | .ok v => rpFault v
    | .error _ => pure .none
  let caller := match j.getObjVal? "caller" with
    | .ok (Json.str s) => s
    | _ => "embedded"
  match caller with
  | "embedded" =>
    let o := embedded env plan fault size now
    pure (Json.mkObj [("rows", rpRowsJson o.rows), ("err", rpErrJson o.err), ("stats", rpStatsJson o.stats),
      ("stopped", Json.bool o.stopped), ("told", Json.bool o.told), ("took", Json.num (Int.ofNat (o.now - now)))])
  | "rpc" =>
    let o := rpcQuery env plan now
    let (e, err, stats) := match o.fin with
      | .streamError e => ("error", some e, none)
      | .endOfResults s => ("eor", none, s)
    pure (Json.mkObj [("rows", rpRowsJson o.rows), ("err", rpErrJson err), ("stats", rpStatsJson stats),
      ("rpc", Json.mkObj [("end", Json.str e)])])
  | "web" =>
    let wj ← obj j "web"
    let full ← nat wj "fullCount"
    let fsz ← nat wj "finalSize"
    -- "rowSize": the estimate of every row the callback sees (same dimensions, same number of
    -- values); absent: looked up per table row
    let size' : Row → Nat := match ← rpNatOpt wj "rowSize" with
      | some n => fun _ => n
      | none => size
    let w : WebOpts := { maxResponseBytes := ← nat wj "max", queryTimeout := ← nat wj "timeout",
                         lag := (← rpNatOpt wj "lag").getD 0, rowSize := size',
                         finalSize := fun rows => if rows.length == full then fsz else 0 }
    let ce := webExecQuery cfg w plan now
    let (http, rows) := webRespond ce
    let st := match ce.status with
      | .success => "success" | .error => "error" | .pending => "pending"
    pure (Json.mkObj [("web", Json.mkObj [("status", Json.str st), ("http", Json.num (Int.ofNat http)),
      ("rows", rpRowsJson rows), ("err", rpErrJson ce.err), ("stats", rpStatsJson ce.stats)])])
  | c => throw s!"report: unknown caller {c}"

end Zeno.Drv
