/-
Driver engine `cluster` (C10, C12): Model/Route.lean and Model/Repl.lean.

Op `route`:
  {"engine":"cluster","op":"route","keys":["g","d"],"dims":[["d","x"],["g","1"]],"n":3,"hash":12345}
  → {"sorted":[…],"input":[["d","x"],["g","1"]],"partition":p}
  (`hash` = the 32-bit hash value of the input, computed by the harness with the real murmur3:
   the hash function is the model's uninterpreted parameter)

Op `accept` (trace acceptance):
  {"engine":"cluster","op":"accept","tables":[0,1],"fixed":true,
   "followers":[{"id":10,"part":0},…],"leaders":[1,2],
   "points":[{"pid":[0,1],"where":[true,false]},…],        -- per point id, per table index
   "events":[{"ev":"insert","l":1,"off":1,"pt":0},
             {"ev":"connect","l":1,"f":10},
             {"ev":"join","l":1,"f":10,"claims":[[0,0],[1,0]],"starts":[[0,0],[1,0]]},
                 -- claims: table offsets shown by the request, starts: observed spec offsets (ranks)
             {"ev":"cursor","l":1,"off":0},                       -- observed rewind offset (check only)
             {"ev":"route","l":1,"off":1,"incl":[10,10,11]},
             {"ev":"msg","f":10,"l":1,"off":1}, {"ev":"recv","f":10,"t":0,"l":1,"off":1,"flag":true},
             {"ev":"msgdone","f":10,"l":1,"off":1}, {"ev":"apply","f":10,"t":0,"l":1,"off":1,"flag":true},
             {"ev":"persist","f":10,"t":0,"flag":true},   -- flag: filestore with data (true) / offset file only (false)
             {"ev":"snapshot","f":10}, {"ev":"stopFollower","f":10},
             {"ev":"restoreSnapshot","f":10}, {"ev":"startFollower","f":10}, {"ev":"cutLink","l":1,"f":10},
             {"ev":"stopLeader","l":1}, {"ev":"startLeader","l":1}]}
  → {"accepted":bool,"rejectedAt":i|null,"event":"…","mismatches":["…"],
     "tables":[{"f":10,"t":0,"l":1,"apps":[…],"memOff":n,"routed":[…],"up":true}…],
     "quiescent":bool}
-/
import ZenoModel.Driver.Codec
import ZenoModel.Model.Route
import ZenoModel.Model.Repl

namespace Zeno.Drv
open Lean Zeno.Repl

def clNatArr (j : Json) : R (List Nat) := do (← j.getArr?).toList.mapM (·.getNat?)

def clNatList (l : List Nat) : Json := Json.arr (l.map (fun (n : Nat) => Json.num (Int.ofNat n))).toArray

structure ClPoint where
  pid : List Nat
  whereOk : List Bool

def clParsePoint (j : Json) : R ClPoint := do
  let pid ← clNatArr (← obj j "pid")
  let w ← (← arr j "where").toList.mapM (fun b => b.getBool?)
  pure { pid := pid, whereOk := w }

/-- one line of the trace: a model event, or a check of an observed value -/
inductive ClItem
  | ev (e : Event) (starts : List (Nat × Nat)) (incl : Option (List Nat))
  | cursor (l : Nat) (off : Nat)

def clParseItem (j : Json) : R ClItem := do
  let f := (nat j "f")
  let l := (nat j "l")
  let t := (nat j "t")
  let off := (nat j "off")
  match (← str j "ev") with
  | "insert" => pure (.ev (.insert (← l) { off := ← off, pt := ← nat j "pt" }) [] none)
  | "connect" => pure (.ev (.connect (← l) (← f)) [] none)
  | "join" => do
      let pairs := fun (k : String) => match j.getObjVal? k with
        | .ok v => do (← v.getArr?).toList.mapM (fun p => do
            let a ← clNatArr p
            match a with
            | [x, y] => pure (x, y)
            | _ => throw "pairs = [[table, offset]…]")
        | .error _ => pure []
      let starts ← pairs "starts"
      let claims ← pairs "claims"
      pure (.ev (.join (← l) (← f) (fun t => (claims.lookup t).getD 0)) starts none)
  | "cursor" => pure (.cursor (← l) (← off))
  | "route" => do
      let incl ← match j.getObjVal? "incl" with
        | .ok v => do pure (some (← clNatArr v))
        | .error _ => pure none
      pure (.ev (.route (← l) (← off)) [] incl)
  | "msg" => pure (.ev (.msg (← f) (← l) (← off)) [] none)
  | "recv" => pure (.ev (.recv (← f) (← t) (← l) (← off) (boolD j "flag" false)) [] none)
  | "msgdone" => pure (.ev (.msgdone (← f) (← l) (← off)) [] none)
  | "apply" => pure (.ev (.apply (← f) (← t) (← l) (← off) (boolD j "flag" false)) [] none)
  | "persist" => pure (.ev (.persist (← f) (← t) (boolD j "flag" true)) [] none)
  | "snapshot" => pure (.ev (.snapshot (← f)) [] none)
  | "stopFollower" => pure (.ev (.stopFollower (← f)) [] none)
  | "restoreSnapshot" => pure (.ev (.restoreSnapshot (← f)) [] none)
  | "startFollower" => pure (.ev (.startFollower (← f)) [] none)
  | "cutLink" => pure (.ev (.cutLink (← l) (← f)) [] none)
  | "stopLeader" => pure (.ev (.stopLeader (← l)) [] none)
  | "startLeader" => pure (.ev (.startLeader (← l)) [] none)
  | e => throw s!"cluster: unknown event {e}"

def clCount (x : Nat) (l : List Nat) : Nat := (l.filter (· == x)).length

def clInfl (s : State) (f : Nat) (l : Nat) : String :=
  match s.inflight f l with
  | some (o, rem) => s!"inflight=({o},{rem})"
  | none => "inflight=none"

/-- the part of the state a rejected event was judged on -/
def clWhy (cx : Ctx) (s : State) : Event → String
  | .insert l e => s!"insert: lup={s.lup l} top={top (s.wal l)} off={e.off}"
  | .connect l f => s!"connect: lup={s.lup l} fup={s.fup f} {clInfl s f l}"
  | .join l f claim => s!"join: lup={s.lup l} reqPending={s.reqPending l f} connected={s.connected l f} {clInfl s f l} claims={cx.tables.map claim} recovered={cx.tables.map (fun t => s.startOff f t l)} priors={cx.tables.map (fun t => s.prior f t l)}"
  | .route l o => s!"route: lup={s.lup l} cursor={s.cursor l} next={(nextEntry (s.wal l) (s.cursor l)).map (·.off)} observed={o}"
  | .msg f l o => s!"msg: fup={s.fup f} linkUp={s.linkUp l f} connected={s.connected l f} queue={s.queue l f} {clInfl s f l} observed={o}"
  | .recv f t l o fwd => s!"recv: {clInfl s f l} prior={s.prior f t l} observed=({t},{l},{o},{fwd})"
  | .msgdone f l _ => s!"msgdone: {clInfl s f l}"
  | .apply f t l o k => s!"apply: fup={s.fup f} pending={s.pending f t l} entry={(entryAt (s.wal l) o).map (·.pt)} wants={(entryAt (s.wal l) o).map (fun e => wants cx t (cx.part f) e.pt)} observed=({o},{k})"
  | .persist f t d => s!"persist: fup={s.fup f} dirty={s.dirty f t} data={d}"
  | .stopFollower f => s!"stopFollower: fup={s.fup f}"
  | .restoreSnapshot f => s!"restoreSnapshot: fup={s.fup f}"
  | .startFollower f => s!"startFollower: fup={s.fup f}"
  | .stopLeader l => s!"stopLeader: lup={s.lup l}"
  | .startLeader l => s!"startLeader: lup={s.lup l}"
  | _ => ""

/-- run the trace; stops at the first rejected event -/
def clRun (cx : Ctx) : State → List ClItem → Nat → List String → (State × Option Nat × List String)
  | s, [], _, mm => (s, none, mm)
  | s, .cursor l off :: rest, i, mm =>
      let mm := if s.cursor l = off then mm
        else mm ++ [s!"event {i}: leader {l} rewound its WAL reader to {off}, model cursor is {s.cursor l}"]
      clRun cx s rest (i + 1) mm
  | s, .ev e starts incl :: rest, i, mm =>
      -- cross-checks of observed values that the transition itself does not read
      let mm := match e, incl with
        | .route l _, some inc =>
            (match nextEntry (s.wal l) (s.cursor l) with
             | some en =>
                let bad := (s.joined l).filter (fun f => copies cx (s.spec l) en f != clCount f inc)
                let stray := inc.filter (fun f => !(s.joined l).contains f)
                if bad.isEmpty && stray.isEmpty then mm
                else mm ++ [s!"event {i}: leader {l} included {inc} for offset {en.off}; model disagrees for followers {bad ++ stray}"]
             | none => mm)
        | _, _ => mm
      match step cx s e with
      | none => (s, some i, mm ++ [s!"event {i} rejected: {clWhy cx s e}"])
      | some s' =>
        let mm := match e with
          | .join l f _ =>
              starts.foldl (fun mm (t, o) =>
                if s'.spec l t f = some o then mm
                else mm ++ [s!"event {i}: leader {l} starts follower {f} table {t} at {o}, model says {repr (s'.spec l t f)}"]) mm
          | _ => mm
        clRun cx s' rest (i + 1) mm

def clusterEngine (j : Json) : R Json := do
  match (← str j "op") with
  | "route" =>
      let keys ← (← arr j "keys").toList.mapM (·.getStr?)
      let dims ← (← arr j "dims").toList.mapM (fun p => do
        let a ← p.getArr?
        if a.size ≠ 2 then throw "dims = [[name, bytes]…]"
        pure (← a[0]!.getStr?, ← a[1]!.getStr?))
      let n ← nat j "n"
      let hv ← nat j "hash"
      let sorted := sortKeys keys
      let input := hashInput sorted dims
      let p := partitionFor (fun _ => hv) sorted dims n
      pure (Json.mkObj [
        ("sorted", Json.arr (sorted.map Json.str).toArray),
        ("input", Json.arr (input.map (fun (k, v) => Json.arr #[Json.str k, Json.str v])).toArray),
        ("partition", Json.num (Int.ofNat p))])
  | "accept" =>
      let tables ← clNatArr (← obj j "tables")
      let leaders ← clNatArr (← obj j "leaders")
      let fols ← (← arr j "followers").toList.mapM (fun f => do pure (← nat f "id", ← nat f "part"))
      let points ← (← arr j "points").toList.mapM clParsePoint
      let items ← (← arr j "events").toList.mapM clParseItem
      let cx : Ctx := {
        tables := tables
        part := fun f => ((fols.lookup f).getD 0)
        pid := fun t pt => match points[pt]? with
          | some p => p.pid.getD t 0
          | none => 0
        whereOk := fun t pt => match points[pt]? with
          | some p => p.whereOk.getD t false
          | none => false
        fixedEarliest := boolD j "fixed" true }
      let (s, rej, mm) := clRun cx State.init items 0 []
      let tabs := fols.flatMap (fun (f, _) => tables.flatMap (fun t => leaders.map (fun l =>
        Json.mkObj [("f", Json.num (Int.ofNat f)), ("t", Json.num (Int.ofNat t)), ("l", Json.num (Int.ofNat l)),
          ("apps", clNatList (s.memApps f t l)), ("memOff", Json.num (Int.ofNat (s.memOff f t l))),
          ("routed", clNatList (routedOffs cx (s.wal l) t f)), ("up", Json.bool (s.fup f))])))
      let quiescent := leaders.all (fun l => s.lup l && s.cursor l == top (s.wal l) &&
        fols.all (fun (f, _) => s.fup f && s.linkUp l f && (s.queue l f).isEmpty && (s.inflight f l).isNone &&
          tables.all (fun t => (s.pending f t l).isEmpty && (s.spec l t f).isSome)))
      pure (Json.mkObj [
        ("accepted", Json.bool rej.isNone),
        ("rejectedAt", match rej with | some i => Json.num (Int.ofNat i) | none => Json.null),
        ("mismatches", Json.arr (mm.map Json.str).toArray),
        ("tables", Json.arr tabs.toArray),
        ("quiescent", Json.bool quiescent)])
  | op => throw s!"cluster: unknown op {op}"

end Zeno.Drv
