import ZenoModel.Driver.Codec
import ZenoModel.Model.Codec

namespace Zeno.Drv
open Lean

/-- a closure slot: JSON string (registry key) or null (nil func) -/
def slotOf (j : Json) (k : String) : Slot :=
  match j.getObjVal? k with
  | .ok (Json.str s) => some s
  | _ => none

def slotJson : Slot → Json
  | some s => Json.str s
  | none => Json.null

/-- Go-level expression object (`GEx`) from the harness's reflection dump -/
partial def parseGEx (j : Json) : R GEx := do
  match (← str j "k") with
  | "field" => pure (.field (← str j "n"))
  | "const" => pure (.const (← rat j "v"))
  | "bounded" => pure (.bounded (← parseGEx (← obj j "w")) (← rat j "lo") (← rat j "hi"))
  | "agg" => pure (.agg (← str j "name") (← parseGEx (← obj j "w")) (slotOf j "update") (slotOf j "merge"))
  | "if" => pure (.ifE (← nat j "c") (← parseGEx (← obj j "w")) (← nat j "width"))
  | "avg" => pure (.avg (← parseGEx (← obj j "v")) (← parseGEx (← obj j "w")))
  | "bin" => pure (.bin (← str j "op") (← parseGEx (← obj j "l")) (← parseGEx (← obj j "r"))
      (boolD j "deagg" false) (slotOf j "calc"))
  | "shift" => pure (.shift (← parseGEx (← obj j "w")) (← int j "off") (← nat j "width"))
  | "unary" => pure (.unary (← str j "name") (slotOf j "fn") (← parseGEx (← obj j "w")) (← nat j "width"))
  | "ptile" => pure (.ptile (← parseGEx (← obj j "v")) (← parseGEx (← obj j "p")) (← int j "min") (← int j "max")
      (← int j "prec") (← int j "hdr") (← nat j "width"))
  | "ptileopt" => pure (.ptileOpt (← parseGEx (← obj j "emb")) (← parseGEx (← obj j "wrapped")) (← parseGEx (← obj j "p")))
  | k => throw s!"unknown gex kind {k}"

def istr (i : Int) : Json := Json.str (toString i)
def nnum (n : Nat) : Json := Json.num (Int.ofNat n)

partial def gexJson : GEx → Json
  | .field n => Json.mkObj [("k", "field"), ("n", Json.str n)]
  | .const v => Json.mkObj [("k", "const"), ("v", Json.str (ratStr v))]
  | .bounded w lo hi => Json.mkObj [("k", "bounded"), ("w", gexJson w), ("lo", Json.str (ratStr lo)), ("hi", Json.str (ratStr hi))]
  | .agg name w u m => Json.mkObj [("k", "agg"), ("name", Json.str name), ("w", gexJson w), ("update", slotJson u), ("merge", slotJson m)]
  | .ifE c w width => Json.mkObj [("k", "if"), ("c", nnum c), ("w", gexJson w), ("width", nnum width)]
  | .avg v w => Json.mkObj [("k", "avg"), ("v", gexJson v), ("w", gexJson w)]
  | .bin op l r da cf => Json.mkObj [("k", "bin"), ("op", Json.str op), ("l", gexJson l), ("r", gexJson r),
      ("deagg", Json.bool da), ("calc", slotJson cf)]
  | .shift w off width => Json.mkObj [("k", "shift"), ("w", gexJson w), ("off", istr off), ("width", nnum width)]
  | .unary name fn w width => Json.mkObj [("k", "unary"), ("name", Json.str name), ("fn", slotJson fn), ("w", gexJson w), ("width", nnum width)]
  | .ptile v p mn mx pr hdr width => Json.mkObj [("k", "ptile"), ("v", gexJson v), ("p", gexJson p), ("min", istr mn),
      ("max", istr mx), ("prec", istr pr), ("hdr", istr hdr), ("width", nnum width)]
  | .ptileOpt emb w p => Json.mkObj [("k", "ptileopt"), ("emb", gexJson emb), ("wrapped", gexJson w), ("p", gexJson p)]

/-- the wire tree, in the shape the harness's msgpack reader produces from the real bytes -/
partial def wireJson : Wire → Json
  | .nil => Json.null
  | .str s => Json.mkObj [("s", Json.str s)]
  | .num r => Json.mkObj [("f", Json.str (ratStr r))]
  | .int i => Json.mkObj [("i", istr i)]
  | .bool b => Json.mkObj [("b", Json.bool b)]
  | .cond c => Json.mkObj [("cond", nnum c)]
  | .ext id body => Json.mkObj [("ext", nnum id), ("body", wireJson body)]
  | .mnil => Json.mkObj [("map", Json.arr #[])]
  | .mcons k v rest =>
      let tail := match wireJson rest with
        | Json.obj kvs => match kvs.get? "map" with
          | some (Json.arr a) => a
          | _ => #[]
        | _ => #[]
      Json.mkObj [("map", Json.arr (#[Json.arr #[Json.str k, wireJson v]] ++ tail))]
  | .tnil => Json.mkObj [("tup", Json.arr #[])]
  | .tcons v rest =>
      let tail := match wireJson rest with
        | Json.obj kvs => match kvs.get? "tup" with
          | some (Json.arr a) => a
          | _ => #[]
        | _ => #[]
      Json.mkObj [("tup", Json.arr (#[wireJson v] ++ tail))]

/-- behavioural summary through `toEx`: which constructor-level `Ex` the object behaves as -/
def optB (o : Option Bool) : Json := match o with | some b => Json.bool b | none => Json.null

/-- engine `codec`: ops on Go-level expression objects -/
def codecEngine (j : Json) : R Json := do
  let op ← str j "op"
  match op with
  | "roundtrip" =>
      let g ← parseGEx (← obj j "g")
      let w := enc g
      let d := dec w
      let cfg : Int → Int → Int → Int → Nat := fun _ _ _ _ => 0
      pure (Json.mkObj [
        ("wire", wireJson w),
        ("dec", match d with | some g' => gexJson g' | none => Json.null),
        ("linked", Json.bool g.linked),
        ("width", nnum g.encodedWidth),
        ("validate", Json.bool g.validate),
        ("decValidate", optB (d.map GEx.validate)),
        ("hasModel", Json.bool (g.toEx cfg false).isSome),
        ("decHasModel", optB (d.map (fun g' => (g'.toEx cfg false).isSome))),
        ("sameModel", optB (d.map (fun g' => g'.toEx cfg false == g.toEx cfg false && g'.toEx cfg true == g.toEx cfg true))),
        ("shift", match g.toEx cfg false with | some e => istr e.shiftOf | none => Json.null),
        ("isConstant", optB ((g.toEx cfg false).map Ex.isConstant))])
  | _ => throw s!"codec: unknown op {op}"

end Zeno.Drv
