import ZenoModel.Driver.Codec
import ZenoModel.Model.Crash

/-!
Driver engine `crash` (C02): trace acceptance for the crash-recovery protocol model of one
table.  Op `accept`: a list of observed events → accepted? (+ index of the first rejected
event), the model's final content as per-entry multiplicities, whether a flush started in the
middle of an entry (D12 shape) and which branches of the model fired.

One pseudo-event exists only here: `crashAsync` — the process was killed from outside (or at a
hook of another goroutine), so the last durable action of this table may have happened without
its hook line being written.  The driver tries `crash` first and, if the rest of the trace is
then rejected, `renamed; crash` resp. `offRenamed; crash` when the model is between the sync
and the rename of a flush file resp. of the offset file.  `step` itself is untouched.
-/

namespace Zeno.Drv
open Lean Zeno.Crash

inductive CEv where
  | ev (e : Event)
  | crashAsync
  | oldFileAuto   -- `oldfile.remove` (the hook does not name the file): the newest file that
                  -- `removeOldFiles` may delete, i.e. index 2 when an offset file exists, else 3

def parseCEv (j : Json) : R CEv := do
  match (← str j "e") with
  | "walAppend" => pure (.ev (.walAppend { off := ← nat j "off", skip := boolD j "skip" false, k := ← nat j "k" }))
  | "walAck" => pure (.ev (.walAck (← nat j "off")))
  | "apply" => pure (.ev (.apply (← nat j "off")))
  | "skip" => pure (.ev (.skip (← nat j "off")))
  | "pass" => pure (.ev .pass)
  | "flushBegin" => pure (.ev .flushBegin)
  | "tmpWritten" => pure (.ev .tmpWritten)
  | "tmpSynced" => pure (.ev .tmpSynced)
  | "renamed" => pure (.ev .renamed)
  | "swapped" => pure (.ev .swapped)
  | "offTmpWritten" => pure (.ev .offTmpWritten)
  | "offRenamed" => pure (.ev .offRenamed)
  | "oldFileRemoved" =>
    match j.getObjVal? "i" with
    | .ok v => pure (.ev (.oldFileRemoved (← v.getNat?)))
    | .error _ => pure .oldFileAuto
  | "crash" => pure (.ev .crash)
  | "crashAsync" => pure .crashAsync
  | "reopen" => pure (.ev (.reopen (← nat j "start")))
  | "catchUp" => pure (.ev .catchUp)
  | e => throw s!"unknown crash event {e}"

structure Acc where
  st : State
  rejectedAt : Option Nat := none
  midFlush : List Nat := []      -- labels of entries that were cut by a flush
  completions : Nat := 0         -- unlogged durable actions assumed at a `crashAsync`
  branches : List String := []

def evName : Event → String
  | .walAppend _ => "walAppend" | .walAck _ => "walAck" | .apply _ => "apply" | .skip _ => "skip"
  | .pass => "pass" | .flushBegin => "flushBegin" | .tmpWritten => "tmpWritten"
  | .tmpSynced => "tmpSynced" | .renamed => "renamed" | .swapped => "swapped"
  | .offTmpWritten => "offTmpWritten" | .offRenamed => "offRenamed"
  | .oldFileRemoved _ => "oldFileRemoved" | .crash => "crash" | .reopen _ => "reopen"
  | .catchUp => "catchUp"

/-- branch label of an accepted step (for the input-distribution histogram) -/
def branchOf (s : State) (e : Event) : String :=
  match e with
  | .apply _ =>
    match s.wal[s.rd]? with
    | some x => if s.pend + 1 = x.k then (if x.k = 1 then "apply:scalar" else "apply:last-of-array") else "apply:array-partial"
    | none => "apply"
  | .crash =>
    match s.phase with
    | .idle => if s.pend = 0 then "crash:idle" else "crash:mid-entry"
    | .began => "crash:flush-began" | .tmpWritten _ => "crash:tmp-written"
    | .tmpSynced _ => "crash:tmp-synced" | .renamed _ => "crash:renamed-not-swapped"
    | .offTmp _ => "crash:offset-tmp"
  | .reopen _ =>
    if s.files.isEmpty then (if s.offFile = 0 then "reopen:empty" else "reopen:offset-file-only")
    else if headFilePos s < s.offFile then "reopen:offset-file-ahead" else "reopen:file-ahead"
  | .flushBegin => if s.pend = 0 then "flushBegin" else "flushBegin:mid-entry"
  | e => evName e
where headFilePos (s : State) : Nat := match s.files with | f :: _ => f.pos | [] => 0

def stepAcc (a : Acc) (e : Event) (_i : Nat) : Option Acc :=
  match step a.st e with
  | some s' =>
    let mid := if midEntryFlush a.st e then
        match a.st.wal[a.st.rd]? with | some x => a.midFlush ++ [x.off] | none => a.midFlush
      else a.midFlush
    some { a with st := s', midFlush := mid, branches := branchOf a.st e :: a.branches }
  | none => none

/-- accept with backtracking at `crashAsync`; returns the accumulated result, with
    `rejectedAt = some i` when no alternative is accepted -/
def acceptGo : Nat → Acc → List CEv → Nat → Acc
  | 0, a, _, _ => a
  | _, a, [], _ => a
  | fuel + 1, a, .ev e :: rest, i =>
    match stepAcc a e i with
    | some a' => acceptGo fuel a' rest (i + 1)
    | none => { a with rejectedAt := some i }
  | fuel + 1, a, .oldFileAuto :: rest, i =>
    match stepAcc a (.oldFileRemoved (if a.st.offFile = 0 then 3 else 2)) i with
    | some a' => acceptGo fuel a' rest (i + 1)
    | none => { a with rejectedAt := some i }
  | fuel + 1, a, .crashAsync :: rest, i =>
    let plain := match stepAcc a .crash i with
      | some a' => acceptGo fuel a' rest (i + 1)
      | none => { a with rejectedAt := some i }
    if plain.rejectedAt.isNone then plain
    else
      let extra : Option Event := match a.st.phase with
        | .tmpSynced _ => some .renamed
        | .offTmp _ => some .offRenamed
        | _ => none
      match extra with
      | none => plain
      | some x =>
        match stepAcc a x i with
        | none => plain
        | some a1 =>
          match stepAcc { a1 with completions := a1.completions + 1 } .crash i with
          | none => plain
          | some a2 =>
            let alt := acceptGo fuel a2 rest (i + 1)
            if alt.rejectedAt.isNone then alt else plain

def countOf (c : List App) (off : Nat) : Nat := (c.filter (fun a => a.1 == off)).length

def fileJson (f : File) : Json :=
  Json.mkObj [("pos", Json.num (Int.ofNat f.pos)), ("napps", Json.num (Int.ofNat f.apps.length)), ("complete", Json.bool f.complete)]

def crashEngine (j : Json) : R Json := do
  match (← str j "op") with
  | "accept" =>
    let evs ← (← arr j "events").toList.mapM parseCEv
    -- optional configuration (default 0/0): source the entries are tagged with / looked up under
    let tag := (j.getObjValAs? Nat "tagSrc").toOption.getD 0
    let look := (j.getObjValAs? Nat "lookSrc").toOption.getD tag
    let r := acceptGo (evs.length + 1) { st := State.initCfg tag look } evs 0
    let s := r.st
    let content := s.wal.map (fun e =>
      Json.arr #[Json.num (Int.ofNat e.off), Json.num (Int.ofNat (countOf s.content e.off))])
    let expect := s.wal.map (fun e =>
      Json.arr #[Json.num (Int.ofNat e.off), Json.num (Int.ofNat e.apps.length)])
    pure (Json.mkObj [
      ("accepted", Json.bool r.rejectedAt.isNone),
      ("rejectedAt", match r.rejectedAt with | some i => Json.num (Int.ofNat i) | none => Json.null),
      ("content", Json.arr content.toArray),
      ("spec", Json.arr expect.toArray),
      ("midFlush", Json.arr (r.midFlush.map (fun (n : Nat) => Json.num (Int.ofNat n))).toArray),
      ("completions", Json.num (Int.ofNat r.completions)),
      ("up", Json.bool s.up),
      ("rd", Json.num (Int.ofNat s.rd)),
      ("pend", Json.num (Int.ofNat s.pend)),
      ("memPos", Json.num (Int.ofNat s.memPos)),
      ("offFile", Json.num (Int.ofNat s.offFile)),
      ("walLen", Json.num (Int.ofNat s.wal.length)),
      ("files", Json.arr (s.files.map fileJson).toArray),
      ("branches", Json.arr (r.branches.reverse.eraseDups.map Json.str).toArray)])
  | op => throw s!"unknown crash op {op}"

end Zeno.Drv
