import ZenoModel.Driver.StoreEngine
import ZenoModel.Model.Query
import ZenoModel.Model.QuerySpec

namespace Zeno.Drv
open Lean

def intD (j : Json) (k : String) : R Int :=
  match j.getObjVal? k with
  | .ok v => do parseInt (← v.getStr?)
  | .error _ => pure 0

def timeD (j : Json) (k : String) : R Int :=
  match j.getObjVal? k with
  | .ok v => do parseTime (← v.getStr?)
  | .error _ => pure 0

def parseQuery (j : Json) : R Query := do
  let outFields ← (← arr j "fields").toList.mapM parseField
  let groupBy ← match j.getObjVal? "groupBy" with
    | .ok (Json.arr a) => a.toList.mapM (·.getStr?)
    | _ => pure []
  pure { outFields := outFields, selectAll := boolD j "selectAll" false, groupByAll := boolD j "groupByAll" true,
         groupBy := groupBy, resolution := ← intD j "resolution", stride := ← intD j "stride",
         asOf := ← timeD j "asOf", hi := ← timeD j "until", asOfOffset := ← intD j "asOfOffset",
         untilOffset := ← intD j "untilOffset", hasSpecificFields := boolD j "hasSpecificFields" false,
         hasHaving := boolD j "hasHaving" false, hasWhere := boolD j "hasWhere" false }

def parseMeta (j : Json) : R KeyMeta := do
  let conds ← match j.getObjVal? "conds" with
    | .ok v => do (← v.getArr?).toList.mapM (·.getNat?)
    | _ => pure []
  pure { key := ← parseKey (← obj j "key"), whereOk := boolD j "where" true, conds := conds }

def qerrStr : QErr → String
  | .asOfBeforeTable => "asOfBeforeTable"
  | .strideNotMultiple => "strideNotMultiple"
  | .resolutionTooFine => "resolutionTooFine"
  | .resolutionNotMultiple => "resolutionNotMultiple"
  | .noFields => "noFields"

/-- engine `query`: a store script (ingest / flush) followed by queries -/
def queryEngine (j : Json) : R Json := do
  let cfg ← parseCfg (← obj j "cfg")
  let ops ← arr j "ops"
  let mut st := Store.init cfg
  for op in ops do
    match (← str op "op") with
    | "ingest" => st := (st.ingest dummyExt cfg (← parseRawPoint (← obj op "p"))).1
    | "flush" => st := st.flush cfg (boolD op "sorted" false)
    | _ => pure ()
  let metas ← (← arr j "metas").toList.mapM parseMeta
  let queries ← arr j "queries"
  -- raw points for the spec
  let mut pts : Array RawPoint := #[]
  for op in ops do
    if (← str op "op") == "ingest" then pts := pts.push (← parseRawPoint (← obj op "p"))
  let rowsJson := fun (rows : List QRow) => Json.arr (rows.map (fun r =>
    Json.mkObj [("ts", Json.str (timeStr r.ts)), ("key", keyJson r.key),
      ("vals", Json.arr (r.vals.map (fun v => Json.str (ratStr v))).toArray)])).toArray
  let mut outs : Array Json := #[]
  for qj in queries do
    let q ← parseQuery qj
    -- per-query WHERE bits override the shared metas
    let qmetas ← match qj.getObjVal? "metas" with
      | .ok (Json.arr a) => a.toList.mapM parseMeta
      | _ => pure metas
    match runQuery dummyExt cfg st q qmetas (boolD qj "mem" true) with
    | .error e => outs := outs.push (Json.mkObj [("err", Json.str (qerrStr e))])
    | .ok rows =>
        let spec := fun (dup : Bool) => match specQuery dummyExt cfg dup pts.toList q qmetas with
          | .ok r => rowsJson r
          | .error e => Json.str (qerrStr e)
        let ev := match emptyBucketVals dummyExt q with
          | some vs => Json.arr (vs.map (fun v => Json.str (ratStr v))).toArray
          | none => Json.null
        let grouped := match planLocal cfg st.now q with
          | .ok pl => pl.needsGroupBy
          | .error _ => false
        outs := outs.push (Json.mkObj [("rows", rowsJson rows), ("spec", spec false), ("specDup", spec true),
          ("emptyVals", ev), ("grouped", Json.bool grouped)])
  pure (Json.mkObj [("outs", Json.arr outs), ("now", Json.str (timeStr st.now))])

end Zeno.Drv
