import ZenoModel.Driver.Codec
import ZenoModel.Model.Auth
import ZenoModel.Model.AuthSession

namespace Zeno.Drv
open Lean

/-- `[{"k": key, "v": [values…]}, …]` -/
def parseMetadata (j : Json) : R Metadata := do
  (← j.getArr?).toList.mapM (fun e => do
    let k ← str e "k"
    let vs ← (← arr e "v").toList.mapM (·.getStr?)
    pure (k, vs))

/-- `null` or `{"decodes": b, "exp": "<int>", "org": b}` -/
def parseCookie (j : Json) : R (Option Cookie) := do
  if j.isNull then return none
  let d ← (← obj j "decodes").getBool?
  let e ← int j "exp"
  let o ← (← obj j "org").getBool?
  return some { decodes := d, expiration := e, orgVerified := o }


def parseOrgAnswer : String → R OrgAnswer
  | "inOrg" => pure .inOrg | "notInOrg" => pure .notInOrg | "httpError" => pure .httpError
  | "garbage" => pure .garbage | "unreachable" => pure .unreachable
  | s => throw s!"auth: unknown org answer {s}"

def parseTokenAnswer (j : Json) : R TokenAnswer := do
  match (← str j "kind") with
  | "token" => pure (.token (← nat j "principal"))
  | "noToken" => pure .noToken
  | "garbage" => pure .garbage
  | "unreachable" => pure .unreachable
  | s => throw s!"auth: unknown token answer {s}"

def parseCookieCred (j : Json) : R CookieCred := do
  match (← str j "kind") with
  | "none" => pure .none
  | "forged" => pure .forged
  | "issued" => pure (.issued (← nat j "id"))
  | s => throw s!"auth: unknown cookie credential {s}"

def parseSession (j : Json) : R Session := do
  pure { principal := ← nat j "principal", expiry := ← int j "exp", verified := boolD j "verified" true }

def sessionJson (c : Session) : Json :=
  Json.mkObj [("principal", Json.num (Int.ofNat c.principal)), ("exp", Json.str (toString c.expiry)),
    ("verified", Json.bool c.verified)]

def parsePolicy : String → R Policy
  | "code" => pure Policy.code
  | "beforeD17" => pure Policy.beforeD17
  | "refreshOnErrNil" => pure Policy.refreshOnErrNil
  | "refreshOnError" => pure Policy.refreshOnError
  | "callbackBeforeCheck" => pure Policy.callbackBeforeCheck
  | s => throw s!"auth: unknown policy {s}"

def parseSReq (j : Json) : R SReq := do
  let target ← match (← str j "target") with
    | "data" => pure (Target.data (← str j "route"))
    | "callback" => pure Target.callback
    | s => throw s!"auth: unknown target {s}"
  pure { target := target, header := ← str j "header", cookie := ← parseCookieCred (← obj j "cookie"),
         now := ← int j "now", stateOk := boolD j "stateOk" false,
         tokenAns := ← parseTokenAnswer (← obj j "token"), orgAns := ← parseOrgAnswer (← str j "org") }

def srespJson (r : SResp) : Json :=
  Json.mkObj [("outcome", Json.str r.outcome.str),
    ("setCookie", match r.setCookie with | none => Json.null | some c => sessionJson c),
    ("askedToken", Json.bool r.askedToken),
    ("askedOrgs", match r.askedOrgs with | none => Json.null | some p => Json.num (Int.ofNat p)),
    ("branch", Json.str r.branch)]

/-- engine `auth`: one access decision per line.
    * op `rpc`: `{handler, password, hasMd, md}` ↦ `{decision: allow|refuse, guarded, branch}`
      (`allow` = the handler body goes on to the database / the stream);
    * op `webseq`: `{clientID, clientSecret, password, init: [session…], steps: [request…], policy?}` ↦
      `{steps: [{outcome, setCookie, askedToken, askedOrgs, branch}…], issued: n}` — the session state machine
      of `Model/AuthSession.lean` run over a whole request sequence;
    * op `web`: `{route, clientID, clientSecret, password, header, cookie, now}` ↦
      `{decision: allow|deny|redirect, guarded, branch}`;
    `"buggy": true` selects the pre-fix decision functions (D10/D11), used only to
    document the findings. -/
def authEngine (j : Json) : R Json := do
  let op ← str j "op"
  let buggy := boolD j "buggy" false
  match op with
  | "rpc" =>
      let hn ← str j "handler"
      let some k := Rpc.ofGoName hn | throw s!"auth: unknown rpc handler {hn}"
      let pw ← str j "password"
      let req : RpcReq := { hasMd := boolD j "hasMd" true, md := ← parseMetadata (← obj j "md") }
      let guarded := if buggy then k.guardedBuggy else k.guarded
      let served := if buggy then rpcServeBuggy k pw req else rpcServe k pw req
      let branch := if guarded then rpcAuthorizeBranch pw req else "handler-not-guarded"
      pure (Json.mkObj [("decision", Json.str (if served then "allow" else "refuse")),
        ("guarded", Json.bool guarded), ("branch", Json.str branch)])
  | "web" =>
      let route ← str j "route"
      let o : WebOpts := { oauthClientID := ← str j "clientID", oauthClientSecret := ← str j "clientSecret",
                           password := ← str j "password" }
      let req : WebReq := { authHeader := ← str j "header", cookie := ← parseCookie (← obj j "cookie") }
      let now ← int j "now"
      match webServeB buggy route o req now with
      | none => throw s!"auth: unknown web route {route}"
      | some (d, branch) =>
        pure (Json.mkObj [("decision", Json.str d.str),
          ("guarded", Json.bool ((webRouteGuarded route).getD false)), ("branch", Json.str branch)])
  | "webseq" =>
      let o : WebOpts := { oauthClientID := ← str j "clientID", oauthClientSecret := ← str j "clientSecret",
                           password := ← str j "password" }
      let pol ← match j.getObjVal? "policy" with
        | .ok v => parsePolicy (← v.getStr?)
        | .error _ => pure Policy.code
      let init ← (← arr j "init").toList.mapM parseSession
      let reqs ← (← arr j "steps").toList.mapM parseSReq
      let tr := sessionTrace pol o init reqs
      pure (Json.mkObj [("steps", Json.arr (tr.map (fun e => srespJson e.2.2)).toArray),
        ("issued", Json.num (Int.ofNat (sessionRun pol o init reqs).length))])
  | _ => throw s!"auth: unknown op {op}"

end Zeno.Drv
