import ZenoModel.Driver.Codec
import ZenoModel.Model.Auth

namespace Zeno.Drv
open Lean

/-- `[{"k": key, "v": [values…]}, …]` -/
def parseMetadata (j : Json) : R Metadata := do
  (← j.getArr?).toList.mapM (fun e => do
    let k ← str e "k"
    let vs ← (← arr e "v").toList.mapM (·.getStr?)
    pure (k, vs))

/-- `null` or `{"decodes": b, "exp": "<int>", "org": b}` -/
def parseCookie (j : Json) : R (Option Cookie) := do
  if j.isNull then return none
  let d ← (← obj j "decodes").getBool?
  let e ← int j "exp"
  let o ← (← obj j "org").getBool?
  return some { decodes := d, expiration := e, orgVerified := o }

/-- engine `auth`: one access decision per line.
    * op `rpc`: `{handler, password, hasMd, md}` ↦ `{decision: allow|refuse, guarded, branch}`
      (`allow` = the handler body goes on to the database / the stream);
    * op `web`: `{route, clientID, clientSecret, password, header, cookie, now}` ↦
      `{decision: allow|deny|redirect, guarded, branch}`;
    `"buggy": true` selects the pre-fix decision functions (D10/D11), used only to
    document the findings. -/
def authEngine (j : Json) : R Json := do
  let op ← str j "op"
  let buggy := boolD j "buggy" false
  match op with
  | "rpc" =>
      let hn ← str j "handler"
      let some k := Rpc.ofGoName hn | throw s!"auth: unknown rpc handler {hn}"
      let pw ← str j "password"
      let req : RpcReq := { hasMd := boolD j "hasMd" true, md := ← parseMetadata (← obj j "md") }
      let guarded := if buggy then k.guardedBuggy else k.guarded
      let served := if buggy then rpcServeBuggy k pw req else rpcServe k pw req
      let branch := if guarded then rpcAuthorizeBranch pw req else "handler-not-guarded"
      pure (Json.mkObj [("decision", Json.str (if served then "allow" else "refuse")),
        ("guarded", Json.bool guarded), ("branch", Json.str branch)])
  | "web" =>
      let route ← str j "route"
      let o : WebOpts := { oauthClientID := ← str j "clientID", oauthClientSecret := ← str j "clientSecret",
                           password := ← str j "password" }
      let req : WebReq := { authHeader := ← str j "header", cookie := ← parseCookie (← obj j "cookie") }
      let now ← int j "now"
      match webServeB buggy route o req now with
      | none => throw s!"auth: unknown web route {route}"
      | some (d, branch) =>
        pure (Json.mkObj [("decision", Json.str d.str),
          ("guarded", Json.bool ((webRouteGuarded route).getD false)), ("branch", Json.str branch)])
  | _ => throw s!"auth: unknown op {op}"

end Zeno.Drv
