import ZenoModel.Driver.Codec
import ZenoModel.Model.SeqHeap

namespace Zeno.Drv
open Lean

/-- a slice as JSON: null (nil) or {"buf","off","len","cap","hi"} -/
def parseSV (j : Json) : R SV := do
  if j.isNull then return SV.nil
  let v : View := ⟨← nat j "buf", ← nat j "off", ← nat j "len", ← nat j "cap"⟩
  return ⟨some v, ← time j "hi"⟩

def natJ (n : Nat) : Json := Json.num (Int.ofNat n)

def svJson (s : SV) : Json :=
  match s.sl with
  | none => Json.null
  | some v => Json.mkObj [("buf", natJ v.buf), ("off", natJ v.off), ("len", natJ v.len), ("cap", natJ v.cap),
      ("hi", Json.str (timeStr s.hi))]

def writeJson (w : Write) : Json := Json.arr #[natJ w.buf, natJ w.off, natJ w.len]

def effJson (e : Eff) : Json :=
  Json.mkObj [("out", svJson e.out), ("allocs", Json.arr (e.allocs.map natJ).toArray),
    ("writes", Json.arr (e.writes.map writeJson).toArray)]

/-- engine `heap`: one effect function per line → predicted result geometry, allocations and
    write list -/
def heapEngine (j : Json) : R Json := do
  let op ← str j "op"
  match op with
  | "truncate" =>
      let n ← nat j "n"
      let s ← parseSV (← obj j "seq")
      let w ← nat j "w"
      let res ← int j "res"
      pure (effJson (truncateEff n s w res (← time j "asof") (← time j "until")))
  | "truncate_buggy" =>
      let s ← parseSV (← obj j "seq")
      let w ← nat j "w"
      let res ← int j "res"
      pure (effJson (truncateEffBuggy s w res (← time j "asof") (← time j "until")))
  | "merge" =>
      let n ← nat j "n"
      let a ← parseSV (← obj j "a")
      let b ← parseSV (← obj j "b")
      let w ← nat j "w"
      let res ← int j "res"
      pure (effJson (mergeEff n a b w res (← time j "tb")))
  | "update" =>
      let n ← nat j "n"
      let s ← parseSV (← obj j "seq")
      let w ← nat j "w"
      let res ← int j "res"
      pure (effJson (updateValueEff n s w res (← time j "ts") (← time j "tb")))
  | "valueat" =>
      let s ← parseSV (← obj j "seq")
      let e ← parseEx (← obj j "e")
      let res ← int j "res"
      let r := valueAtEff s e res (← time j "t")
      pure (Json.mkObj [("read", match r.read with | none => Json.null | some w => writeJson w),
        ("writes", Json.arr (r.writes.map writeJson).toArray), ("width", natJ e.bytes)])
  | "submerge" =>
      -- one output column of bytetree.node.doUpdate (vals branch), any number of steps:
      -- out = out.SubMerge(in, metadata, …) for every step whose input column has a sub-merger
      let n ← nat j "n"
      let e ← parseEx (← obj j "e")
      let inExs ← (← arr j "inExs").toList.mapM parseEx
      let out ← parseSV (← obj j "out")
      let res ← int j "res"
      let otherRes ← int j "otherRes"
      let asOf ← time j "asof"
      let hi ← time j "until"
      let stride ← int j "stride"
      -- through bytetree.New ("dedup": true) later input columns with the same printed expression are not merged
      let sms := if boolD j "dedup" false then dedupInputs inExs (e.subMergers inExs) else e.subMergers inExs
      let steps ← (← arr j "steps").toList.mapM (fun s => do
        let i ← nat s "i"
        let inp ← parseSV (← obj s "in")
        let p ← parsePt (← obj s "pt")
        pure (i, inp, p))
      let step := fun (acc : Nat × SV × List Json) (x : Nat × SV × Pt) =>
        let (n, cur, js) := acc
        let (i, inp, p) := x
        match sms.getD i none, inExs[i]? with
        | some sm, some inEx =>
            let r := subMergeEff n e inEx sm res otherRes cur inp p asOf hi stride
            (n + r.allocs.length, r.out, js ++ [Json.mkObj [("n", natJ n), ("eff", effJson r)]])
        | _, _ => (n, cur, js ++ [Json.null])
      let (n', out', js) := steps.foldl step (n, out, [])
      pure (Json.mkObj [("steps", Json.arr js.toArray), ("out", svJson out'), ("n", natJ n'),
        ("used", Json.arr (sms.map (fun o => Json.bool o.isSome)).toArray),
        ("w", natJ e.bytes), ("ows", Json.arr (inExs.map (fun x => natJ x.bytes)).toArray)])
  | "querycol" =>
      -- scan → rowMerger → group → flatten on one stored column (queryColEff)
      let n0 ← nat j "n"
      let fe ← parseEx (← obj j "fe")
      let e ← parseEx (← obj j "e")
      let tres ← int j "tres"
      let tb ← time j "tb"
      let qres ← int j "qres"
      let asOf ← time j "asof"
      let hi ← time j "until"
      let stride ← int j "stride"
      let rows ← (← arr j "rows").toList.mapM (fun r => do
        let mem ← parseSV (← obj r "mem")
        let p ← parsePt (← obj r "pt")
        let file ← match r.getObjVal? "file" with
          | .ok f =>
              if f.isNull then pure none
              else pure (some (← nat f "rowLen", ← nat f "off", ← nat f "len", ← time f "hi"))
          | .error _ => pure none
        pure ({ mem := mem, file := file, pt := p } : SrcRow))
      let ts ← (← arr j "ts").toList.mapM (fun t => do parseTime (← t.getStr?))
      match (e.subMergers [fe]).headD none with
      | none => pure (Json.mkObj [("used", Json.bool false)])
      | some sm =>
        -- per row, so that the harness can follow the buffer numbering
        let step := fun (acc : QState × List Json) (r : SrcRow) =>
          let st := queryRowEff fe e sm tres tb qres asOf hi stride acc.1 r
          let f := fileRowEff acc.1.n r.file
          let m := rowMergerEff f.n f.col r.mem fe.bytes tres tb
          (st, acc.2 ++ [Json.mkObj [("n", natJ st.n), ("out", svJson st.out), ("merged", svJson m.out),
            ("fileBuf", match r.file with | none => Json.null | some _ => natJ acc.1.n),
            ("nwrites", natJ st.writes.length)]])
        let (_, js) := rows.foldl step (⟨n0, SV.nil, []⟩, [])
        let q := queryColEff n0 fe e sm tres tb qres asOf hi stride rows ts
        pure (Json.mkObj [("used", Json.bool true), ("rows", Json.arr js.toArray), ("out", svJson q.out),
          ("n", natJ q.n), ("writes", Json.arr (q.writes.map writeJson).toArray),
          ("reads", Json.arr (ts.map (fun t => match (valueAtEff q.out e qres t).read with
            | none => Json.null | some w => writeJson w)).toArray)])
  | "treecopy" | "treecopy_shared" =>
      -- nodes in walk order; "cols": null = a nil data slice
      let nObj ← nat j "nObj"
      let nodes ← (← arr j "nodes").toList.mapM (fun nd => do
        let cj ← obj nd "cols"
        let data ← if cj.isNull then pure none else do
          pure (some (← (← cj.getArr?).toList.mapM parseSV))
        pure ({ obj := ← nat nd "obj", dataArr := ← nat nd "dataArr", data := data } : TNode))
      let nodesJson := fun (ns : List TNode) => Json.arr (ns.map (fun nd => Json.mkObj [("obj", natJ nd.obj),
        ("dataArr", natJ nd.dataArr), ("cols", match nd.data with
          | none => Json.null
          | some cols => Json.arr (cols.map svJson).toArray)])).toArray
      if op == "treecopy_shared" then
        -- the code before /repo 63b81da
        pure (Json.mkObj [("nodes", nodesJson (treeCopyEffShared nObj nodes)), ("allocs", Json.arr #[]),
          ("writes", Json.arr #[])])
      else
        let cp := treeCopyEff nObj (← nat j "nArr") (← nat j "n") nodes
        pure (Json.mkObj [("nodes", nodesJson cp.nodes), ("allocs", Json.arr (cp.allocs.map natJ).toArray),
          ("writes", Json.arr (cp.writes.map writeJson).toArray)])
  | _ => throw s!"heap: unknown op {op}"

end Zeno.Drv
