import ZenoModel.Driver.Codec
import ZenoModel.Model.SubMerge

namespace Zeno.Drv
open Lean

/-- engine `seq`: one `encoding.Sequence` / `expr.Expr` operation per line -/
def seqEngine (j : Json) : R Json := do
  let op ← str j "op"
  match op with
  | "acc" =>
      let e ← parseEx (← obj j "e")
      let pts ← (← arr j "pts").toList.mapM parsePt
      let cs := e.acc dummyExt pts
      pure (Json.mkObj [("cells", cellsJson cs), ("val", optRatJson (e.val dummyExt cs))])
  | "exmerge" =>
      let e ← parseEx (← obj j "e")
      let xs ← parseCells (← obj j "x")
      let ys ← parseCells (← obj j "y")
      let cs := e.mrg xs ys
      pure (Json.mkObj [("cells", cellsJson cs), ("val", optRatJson (e.val dummyExt cs))])
  | "update" =>
      let e ← parseEx (← obj j "e")
      let res ← int j "res"
      let s ← parseSq (← obj j "seq")
      let ts ← time j "ts"
      let p ← parsePt (← obj j "pt")
      let tb ← time j "tb"
      pure (Json.mkObj [("seq", sqJson (Sq.updateValue dummyExt e res s ts p tb))])
  | "merge" =>
      let e ← parseEx (← obj j "e")
      let res ← int j "res"
      let a ← parseSq (← obj j "a")
      let b ← parseSq (← obj j "b")
      let tb ← time j "tb"
      pure (Json.mkObj [("seq", sqJson (Sq.merge e res a b tb))])
  | "truncate" =>
      let e ← parseEx (← obj j "e")
      let _ := e
      let res ← int j "res"
      let s ← parseSq (← obj j "seq")
      let asOf ← time j "asof"
      let hi ← time j "until"
      pure (Json.mkObj [("seq", sqJson (Sq.truncate s res asOf hi))])
  | "valueat" =>
      let e ← parseEx (← obj j "e")
      let res ← int j "res"
      let s ← parseSq (← obj j "seq")
      let t ← time j "t"
      pure (Json.mkObj [("val", optRatJson (Sq.valueAtTime dummyExt s e res t))])
  | "submerge" =>
      -- one output column of bytetree.node.doUpdate (params == nil branch)
      let e ← parseEx (← obj j "e")
      let inExs ← (← arr j "inExs").toList.mapM parseEx
      let ins ← (← arr j "ins").toList.mapM parseSq
      let out ← parseSq (← obj j "out")
      let res ← int j "res"
      let otherRes ← int j "otherRes"
      let asOf ← time j "asof"
      let hi ← time j "until"
      let stride ← int j "stride"
      let p ← parsePt (← obj j "pt")
      let sms := e.subMergers inExs
      let step := fun (acc : Sq) (x : (Option SM × Ex) × Sq) =>
        match x.1.1 with
        | none => acc
        | some sm => Sq.subMerge e x.1.2 sm res otherRes acc x.2 p asOf hi stride
      let r := ((sms.zip inExs).zip ins).foldl step out
      pure (Json.mkObj [("seq", sqJson r), ("used", Json.arr (sms.map (fun o => Json.bool o.isSome)).toArray)])
  | "round" =>
      let t ← time j "t"
      let res ← int j "res"
      let hi ← time j "hi"
      pure (Json.mkObj [
        ("up", Json.str (timeStr (roundUp t res))),
        ("down", Json.str (timeStr (roundDown t res))),
        ("untilUp", Json.str (timeStr (roundUntilUp t res hi))),
        ("untilDown", Json.str (timeStr (roundUntilDown t res hi)))])
  | _ => throw s!"seq: unknown op {op}"

end Zeno.Drv
