/-
Driver engine `plan` (C11): Model/Plan.lean.

Ops:
  pushdown {partition_by:[..], chain:[level…]}   (outermost SELECT first)
      level = {crosstab:bool, order_by:n, limit:n, offset:n, group_by_all:bool,
               where_sub:bool, group_by:[{name, params:[[param, oneToOne]…]}…]}
      → {allowed, allowed_pre_fix02}
  rewrite  {syn:{sel,from,time_range,where,group_by,having,order_by,limit}, info:{has_having,
            having_sql,group_by_all,params:[..],has_group_by,period,stride}, crosstab_args}
      → {sql (after the fix: AST based), pre_fix_sql (text surgery as found; null = error),
         canonical (the rendering of syn)}
  eval     {query, src:{res,hi}, rows:[row…]}  → {rows}     local plan (`run`)
  cluster  {query, src, partition_by, parts:[[row…]…]} → {rows, pushdown}  (`clusterRun`, table query)
      query = {fields:[{name,e}], having:e|null, by:[{name, params}], by_all, crosstab,
               crosstab_total, res, stride, order_by:[{f,d}], limit, offset}
      row   = {key:[[dim,value]…], ts, vals:[[name,rat]…], where:bool, conds:[ids], gb:[value|null…]
               (one per `by`), ctab:"…"}
  shipped  {slots, shipped, leader} → {accepted, positional}   (`partitionLists`: the contract of
           Opts.SubQueryResults — one list per IN-subquery of the statement, positionally)
  goexpr results (WHERE, IF conditions, GROUP BY and CROSSTAB expressions) travel with the
  rows; the functions of the model's `Query` are look-ups by key.
-/
import ZenoModel.Driver.SortEngine
import ZenoModel.Model.Plan

namespace Zeno.Drv
open Lean Zeno.Plan

def plOptStr (j : Json) (k : String) : Option String :=
  match j.getObjVal? k with
  | .ok (Json.str s) => some s
  | _ => none

def plNatD (j : Json) (k : String) (d : Nat) : Nat :=
  match j.getObjVal? k with
  | .ok v => (v.getNat?.toOption).getD d
  | .error _ => d

def plParseGBSummary (j : Json) : R GroupBy := do
  let name ← str j "name"
  let ps ← (← arr j "params").toList.mapM (fun p => do
    let a ← p.getArr?
    if a.size ≠ 2 then throw "param pair expected"
    pure ((← a[0]!.getStr?), (a[1]!.getBool?.toOption).getD false))
  pure { name := name, params := ps, eval := fun _ => none }

def plParseLevel (j : Json) : R Query := do
  let gbs ← (← arr j "group_by").toList.mapM plParseGBSummary
  pure { fields := []
         by_ := gbs
         byAll := boolD j "group_by_all" true
         whereSub := boolD j "where_sub" false
         ctab := if boolD j "crosstab" false then some (fun _ => "") else none
         olo := { orderBy := List.replicate (plNatD j "order_by" 0) { field := "_", desc := false },
                  limit := plNatD j "limit" 0, offset := plNatD j "offset" 0 } }

def plMkTree : List Query → R QTree
  | [] => throw "empty chain"
  | [q] => pure (.table q)
  | q :: rest => do pure (.sub q (← plMkTree rest))

def plStrList (j : Json) (k : String) : R (List String) := do
  (← arr j k).toList.mapM (·.getStr?)

def plChars (j : Json) (k : String) : List Char :=
  match plOptStr j k with
  | some s => s.toList
  | none => []

def plOptChars (j : Json) (k : String) : Option (List Char) := (plOptStr j k).map (·.toList)

structure plRowInfo where
  whr : Bool
  conds : List Nat
  gb : List (Option DimVal)
  ctab : String

def plParseKey (j : Json) : R DKey := do
  (← j.getArr?).toList.mapM (parsePair parseDimVal)

def plParseRow (j : Json) : R (PRow × plRowInfo) := do
  let key ← plParseKey (← obj j "key")
  let ts ← int j "ts"
  let vals ← (← arr j "vals").toList.mapM (parsePair (fun v => do parseRat (← v.getStr?)))
  let conds ← match j.getObjVal? "conds" with
    | .ok v => do (← v.getArr?).toList.mapM (·.getNat?)
    | _ => pure []
  let gb ← match j.getObjVal? "gb" with
    | .ok v => do (← v.getArr?).toList.mapM (fun g => if g.isNull then pure none else do pure (some (← parseDimVal g)))
    | _ => pure []
  pure (⟨key, ts, vals⟩, { whr := boolD j "where" true, conds := conds, gb := gb,
                            ctab := (plOptStr j "ctab").getD "" })

def plInfoOf (tbl : List (DKey × plRowInfo)) (k : DKey) : Option plRowInfo :=
  (tbl.find? (fun p => p.1 == k)).map (·.2)

def plParseQuery (j : Json) (tbl : List (DKey × plRowInfo)) : R Query := do
  let fields ← (← arr j "fields").toList.mapM (fun f => do pure ((← str f "name"), (← parseEx (← obj f "e"))))
  let having ← match j.getObjVal? "having" with
    | .ok v => if v.isNull then pure none else do pure (some (← parseEx v))
    | _ => pure none
  let gbs ← (← arr j "by").toList.mapM plParseGBSummary
  let gbs := gbs.zipIdx.map (fun (g, i) =>
    -- a GROUP BY expression reads the key through its params only: look up a table row that
    -- agrees with the key on those params (the leader evaluates it on partition-side keys)
    { g with eval := fun k =>
        match tbl.find? (fun p => g.allParams.all (fun n => p.1.get n == k.get n)) with
        | some p => (p.2.gb.getD i none)
        | none => none })
  let order ← match j.getObjVal? "order_by" with
    | .ok v => do (← v.getArr?).toList.mapM parseOrderBy
    | _ => pure []
  pure { fields := fields
         having := having
         whr := fun k => match plInfoOf tbl k with | some inf => inf.whr | none => false
         conds := fun k => match plInfoOf tbl k with | some inf => inf.conds | none => []
         by_ := gbs
         byAll := boolD j "by_all" true
         ctab := if boolD j "crosstab" false then
             some (fun k => match plInfoOf tbl k with | some inf => inf.ctab | none => "")
           else none
         ctabTotal := boolD j "crosstab_total" false
         res := ← int j "res"
         stride := ← int j "stride"
         olo := { orderBy := order, limit := plNatD j "limit" 0, offset := plNatD j "offset" 0 } }

def plParseSrc (j : Json) : R Src := do
  pure { res := ← int j "res", hi := ← int j "hi" }

def planEngine (j : Json) : R Json := do
  let op ← str j "op"
  match op with
  | "pushdown" =>
      let pk ← plStrList j "partition_by"
      let levels ← (← arr j "chain").toList.mapM plParseLevel
      let t ← plMkTree levels
      let tgb := match j.getObjVal? "table_group_by" with
        | .ok v => ((v.getArr?.toOption).getD #[]).toList.map (fun x => (x.getStr?.toOption).getD "")
        | _ => []
      pure (Json.mkObj [("allowed", Json.bool (pushdownAllowedT tgb pk t)),
                        ("allowed_pre_fix02", Json.bool (pushdownAllowedPre pk t))])
  | "rewrite" =>
      let sj ← obj j "syn"
      let ij ← obj j "info"
      let syn : QSyn := { sel := plChars sj "sel", frm := plChars sj "from", timeRange := plChars sj "time_range",
                          whr := plOptChars sj "where", groupBy := plOptChars sj "group_by",
                          having := plOptChars sj "having", orderBy := plOptChars sj "order_by",
                          limit := plOptChars sj "limit" }
      let info : RwInfo := { hasHaving := boolD ij "has_having" false, havingSQL := plChars ij "having_sql",
                             groupByAll := boolD ij "group_by_all" false,
                             params := (← plStrList ij "params").map (·.toList),
                             hasGroupBy := boolD ij "has_group_by" false,
                             period := plChars ij "period", stride := plChars ij "stride" }
      let ct := plOptChars j "crosstab_args"
      let pre := rewriteTextPre (render syn) syn.frm info
      pure (Json.mkObj [("sql", Json.str (String.ofList (rewriteText syn info ct))),
                        ("pre_fix_sql", match pre with | some t => Json.str (String.ofList t) | none => Json.null),
                        ("canonical", Json.str (String.ofList (render syn)))])
  | "eval" =>
      let rs ← (← arr j "rows").toList.mapM plParseRow
      let tbl := rs.map (fun (r, i) => (r.key, i))
      let q ← plParseQuery (← obj j "query") tbl
      let s ← plParseSrc (← obj j "src")
      pure (Json.mkObj [("rows", rowsJson (run dummyExt q s (rs.map (·.1))))])
  | "cluster" =>
      let parts ← (← arr j "parts").toList.mapM (fun p => do (← p.getArr?).toList.mapM plParseRow)
      let tbl := parts.flatten.map (fun (r, i) => (r.key, i))
      let q ← plParseQuery (← obj j "query") tbl
      let s ← plParseSrc (← obj j "src")
      let pk ← plStrList j "partition_by"
      let ps := parts.map (fun p => p.map (·.1))
      pure (Json.mkObj [("rows", rowsJson (clusterRun dummyExt pk ps (.table q) s)),
                        ("pushdown", Json.bool (pushdownAllowed pk (.table q)))])
  | "shipped" =>
      -- {slots: n, shipped: [[value…]…] | null, leader: [[value…]…]}  (values as strings)
      let n := plNatD j "slots" 0
      let lists := fun (k : String) => match j.getObjVal? k with
        | .ok (Json.arr a) => some (a.toList.map (fun l => match l with
            | Json.arr vs => vs.toList.map (fun v => some (DimVal.str ((v.getStr?.toOption).getD "")))
            | _ => []))
        | _ => none
      let leader : List InVals := (lists "leader").getD []
      let own : List InVals := List.replicate n []
      match lists "shipped" with
      | none => pure (Json.mkObj [("accepted", Json.bool (n == 0)), ("positional", Json.bool (n == 0))])
      | some shipped =>
        pure (Json.mkObj [("accepted", Json.bool (decide (partitionLists shipped own = shipped) && shipped.length == n)),
                          ("positional", Json.bool (decide (shipped = leader)))])
  | _ => throw s!"plan: unknown op {op}"

end Zeno.Drv
