import ZenoModel.Driver.QueryEngine
import ZenoModel.Model.SubQuery

namespace Zeno.Drv
open Lean

/-- one materialised flat row: {"ts": ns, "key": {...}, "vals": {name: rat}} -/
def parseSubRow (j : Json) : R AccRow := do
  let vals ← match j.getObjVal? "vals" with
    | .ok (Json.obj kvs) => kvs.toList.mapM (fun (k, v) => do pure (k, ← parseRat (← v.getStr?)))
    | _ => pure []
  pure { key := ← parseKey (← obj j "key"), period := ← time j "ts", pt := { vals := vals } }

def srcJson (s : SrcWin) : Json :=
  Json.mkObj [("res", Json.str (toString s.res)), ("asOf", Json.str (timeStr s.asOf)), ("until", Json.str (timeStr s.hi))]

/-- engine `subquery`: an outer query over the materialised rows of a sub-query.
    in:  cfg, now, inner (query summary, as for `query`), rows (flat rows of the inner query),
         outer (query summary; `metas` keyed by the ROW keys),
         unflattenHaving (does the real `Unflatten` compute the HAVING helper? default false)
    out: src (the window the inner plan answers), rows (`runOver`), spec (`specOver`), emptyVals;
         or innerErr / err -/
def subQueryEngine (j : Json) : R Json := do
  let cfg ← parseCfg (← obj j "cfg")
  let now ← time j "now"
  let inner ← parseQuery (← obj j "inner")
  let oj ← obj j "outer"
  let outer ← parseQuery oj
  let metas ← match oj.getObjVal? "metas" with
    | .ok (Json.arr a) => a.toList.mapM parseMeta
    | _ => pure []
  let rows ← (← arr j "rows").toList.mapM parseSubRow
  let rowsJson := fun (rows : List QRow) => Json.arr (rows.map (fun r =>
    Json.mkObj [("ts", Json.str (timeStr r.ts)), ("key", keyJson r.key),
      ("vals", Json.arr (r.vals.map (fun v => Json.str (ratStr v))).toArray)])).toArray
  match planWin (tableSrc cfg now) now inner with
  | .error e => pure (Json.mkObj [("innerErr", Json.str (qerrStr e))])
  | .ok src =>
    let ev := match emptyBucketVals dummyExt outer with
      | some vs => Json.arr (vs.map (fun v => Json.str (ratStr v))).toArray
      | none => Json.null
    match runOver dummyExt src now rows outer metas (boolD j "unflattenHaving" false) with
    | .error e => pure (Json.mkObj [("src", srcJson src), ("err", Json.str (qerrStr e))])
    | .ok r =>
      let spec := match specOver dummyExt src now rows outer metas with
        | .ok r => rowsJson r
        | .error e => Json.str (qerrStr e)
      pure (Json.mkObj [("src", srcJson src), ("rows", rowsJson r), ("spec", spec), ("emptyVals", ev)])

end Zeno.Drv
