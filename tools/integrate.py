#!/usr/bin/env python3
"""Integrate a sub-check hand-off (handoff/<Cxx>.md) into the shared files:
lean/Main.lean, lean/ZenoModel.lean, harness/cmd/zvh/engines.go, tools/props.py,
MANIFEST.json, DESIGN.md (§11).  usage: tools/integrate.py Cxx"""
import json
import os
import re
import sys

ROOT = os.path.dirname(os.path.dirname(os.path.abspath(__file__)))


def blocks_after(text, marker, lang):
    """code blocks of the given language that follow the first occurrence of marker, up to the next backticked file heading"""
    i = text.find(marker)
    if i < 0:
        return []
    rest = text[i + len(marker):]
    # stop at the next heading-like line that names another file
    stop = re.search(r"\n`[^`\n]+`[^\n]*\n```", rest[1:])
    out = []
    for m in re.finditer(r"```" + lang + r"\n(.*?)```", rest, re.S):
        out.append(m.group(1))
        break
    return out


def main():
    c = sys.argv[1]
    md = open(os.path.join(ROOT, "handoff", c + ".md")).read()

    # --- Main.lean
    p = os.path.join(ROOT, "lean", "Main.lean")
    s = open(p).read()
    for blk in blocks_after(md, "`lean/Main.lean`", "lean"):
        for line in blk.splitlines():
            line = re.sub(r"\s+--.*$", "", line).rstrip()
            if line.startswith("import ") and line not in s:
                s = s.replace("import ZenoModel.Driver.StoreEngine\n", "import ZenoModel.Driver.StoreEngine\n" + line + "\n", 1)
            m = re.match(r"\s*\|\s*\"(\w+)\"\s*=>\s*(.+)$", line)
            if m and ('"%s" =>' % m.group(1)) not in s:
                s = s.replace('  | "store" => storeEngine j\n', '  | "store" => storeEngine j\n  | "%s" => %s\n' % (m.group(1), m.group(2)), 1)
    open(p, "w").write(s)

    # --- ZenoModel.lean
    p = os.path.join(ROOT, "lean", "ZenoModel.lean")
    s = open(p).read()
    for blk in blocks_after(md, "`lean/ZenoModel.lean`", "lean"):
        for line in blk.splitlines():
            line = re.sub(r"\s+--.*$", "", line).rstrip()
            if line.startswith("import ") and line not in s:
                s += line + "\n"
    open(p, "w").write(s)

    # --- engines.go
    p = os.path.join(ROOT, "harness", "cmd", "zvh", "engines.go")
    s = open(p).read()
    for blk in blocks_after(md, "`harness/cmd/zvh/engines.go`", "go"):
        for line in blk.splitlines():
            line = re.sub(r"\s+//.*$", "", line).strip()
            m = re.match(r'"(zvh/engines/\w+)"', line)
            if m and m.group(0) not in s:
                s = s.replace('\t"zvh/engines/seq"\n', '\t%s\n\t"zvh/engines/seq"\n' % m.group(0), 1)
            m = re.match(r'engines\["(\w+)"\]\s*=\s*(.+)$', line)
            if m and ('engines["%s"]' % m.group(1)) not in s:
                s = s.replace('\tengines["seq"] = seq.Engine{}\n', '\tengines["seq"] = seq.Engine{}\n\t%s\n' % line, 1)
            m = re.match(r'ownsReplay\["(\w+)"\]', line)
            if m and line not in s:
                s = s.replace('\tengines["seq"] = seq.Engine{}\n', '\tengines["seq"] = seq.Engine{}\n\t%s\n' % line, 1)
    open(p, "w").write(s)

    # --- props.py
    p = os.path.join(ROOT, "tools", "props.py")
    s = open(p).read()
    i = md.find("`tools/props.py`")
    m = re.search(r"```python\n(.*?)```", md[i:], re.S) if i >= 0 else None
    if m and ('"%s":' % c) not in s:
        s = s.rstrip()
        assert s.endswith("}")
        s = s[:-1] + m.group(1).rstrip() + "\n}\n"
        open(p, "w").write(s)

    # --- MANIFEST.json
    p = os.path.join(ROOT, "MANIFEST.json")
    man = json.load(open(p))
    i = md.find("`MANIFEST.json`")
    found = []
    for m in re.finditer(r"```json\n(.*?)```", md[i:], re.S):
        try:
            obj = json.loads(m.group(1))
        except Exception:
            continue
        found.append(obj)
    for obj in found:
        if isinstance(obj, dict) and "property_id" in obj and "quick_cmd" in obj:
            man["checks"] = [x for x in man["checks"] if x["property_id"] != obj["property_id"]] + [obj]
            man["not_applicable"] = [x for x in man.get("not_applicable", []) if x["property_id"] != obj["property_id"]]
        elif isinstance(obj, dict) and "serves_properties" in obj:
            man["engines"] = [e for e in man["engines"] if e["name"] != obj["name"]] + [obj]
    json.dump(man, open(p, "w"), indent=1)

    # --- DESIGN.md §11
    p = os.path.join(ROOT, "DESIGN.md")
    d = open(p).read()
    m = re.search(r"\n## 2\.[^\n]*\n(.*?)(\n## 3|\Z)", md, re.S)
    if m and ("### %s —" % c) not in d[d.find("## 11."):]:
        sec = "### %s — as built\n\n%s\n\n" % (c, m.group(1).strip())
        k = d.find("## 12. Observations")
        d = (d[:k] + sec + d[k:]) if k >= 0 else (d.rstrip() + "\n\n" + sec)
        open(p, "w").write(d)
    print("integrated", c, "checks:", [x["property_id"] for x in man["checks"]])


if __name__ == "__main__":
    main()
