#!/bin/sh
# Re-runs every kept seeded change against the check of its own property (tools/seedtest.sh each).
# usage: tools/seedall.sh [ids...]   (default: all directories under seeded/ except rejected)
cd /verif || exit 2
ids="$@"
[ -z "$ids" ] && ids=$(ls seeded | grep -v rejected)
for id in $ids; do
  prop=$(echo $id | cut -d- -f1)
  if ! git -C /repo apply --check /verif/seeded/$id/patch.diff 2>/dev/null; then echo "--- $prop on $id"; echo "PATCH DOES NOT APPLY to /repo HEAD"; continue; fi
  tools/seedtest.sh /verif/seeded/$id $prop 2>&1 | grep -v '^KNOWN' | cut -c1-160
done
