#!/bin/sh
# Runs the repository's baseline suite (guard off) and compares with BASELINE.json's stable_pass list.
export GOFLAGS=-mod=mod GOPROXY=off GOSUMDB=off GOTOOLCHAIN=local
cd "${ZENO_REPO:-/repo}" || exit 2
go test -json -vet=off -count=1 -timeout 25m ./... > /tmp/zv_baseline_run.json 2>/dev/null
python3 - <<'PY'
import json,sys
base=json.load(open('/root/.vp/BASELINE.json'))
stable=set(base['stable_pass'])
res={}
for l in open('/tmp/zv_baseline_run.json'):
    try: e=json.loads(l)
    except Exception: continue
    if e.get('Action') in('pass','fail') and e.get('Test'):
        res[e['Package']+'::'+e['Test']]=e['Action']
missing=[t for t in sorted(stable) if res.get(t)!='pass']
print('stable:',len(stable),'passing now:',len(stable)-len(missing))
for t in missing: print('  NOT PASS', t, res.get(t))
sys.exit(1 if missing else 0)
PY
