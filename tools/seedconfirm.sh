#!/bin/sh
# usage: tools/seedconfirm.sh <id> <package dir for the demo, relative> <-run regex>
# Confirms a delivered seeded change in the scratch worktree /tmp/seedv (created from /repo HEAD when absent):
# the demonstration must FAIL with patch.diff applied and PASS without it.  Nothing is kept in /tmp/seedv.
export GOFLAGS=-mod=mod GOPROXY=off GOSUMDB=off GOTOOLCHAIN=local
s=$1; pkg=$2; re=$3
[ -d /tmp/seedv ] || { git -C /repo worktree prune; git -C /repo worktree add --detach /tmp/seedv HEAD -q || exit 2; }
cd /tmp/seedv || exit 2
git checkout -q -- .; git clean -fdq
cp /tmp/seed-out/$s/*_test.go $pkg/ || exit 2
git apply /tmp/seed-out/$s/patch.diff || { echo "$s: patch does not apply"; exit 2; }
go build ./... || { echo "$s: build fails"; exit 2; }
GOMAXPROCS=8 go test -count=1 -vet=off -run "$re" ./$pkg/ > /tmp/seedv.$s.with 2>&1; echo "$s with patch: exit $? ($(grep -c -- '--- FAIL' /tmp/seedv.$s.with) failing tests)"
git apply -R /tmp/seed-out/$s/patch.diff
GOMAXPROCS=8 go test -count=1 -vet=off -run "$re" ./$pkg/ > /tmp/seedv.$s.without 2>&1; echo "$s without patch: exit $? ($(tail -1 /tmp/seedv.$s.without))"
git checkout -q -- .; git clean -fdq
rm -f /tmp/seedv.$s.with /tmp/seedv.$s.without
