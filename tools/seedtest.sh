#!/bin/sh
# usage: tools/seedtest.sh <seed-dir (absolute)> <Cxx> [<Cyy> ...]
# Applies <seed-dir>/patch.diff to /repo, runs the named checks, undoes the patch.  The evidence files are
# saved before and restored afterwards: evidence/ must only ever hold records of runs on the unchanged tree.
d=$1; shift
cd /repo || exit 2
git diff --quiet || { echo "repo working tree not clean"; exit 2; }
git apply "$d/patch.diff" || exit 2
cd /verif
sav=$(mktemp -d /verif/out/evsave.XXXXXX)
cp -a evidence/. "$sav"/
for c in "$@"; do
  echo "--- $c on $(basename $d)"
  ./check $c 2>/dev/null | grep -E "^(VIOLATION|OK|KNOWN)" | cut -c1-220
done
git -C /repo checkout -- .
git -C /repo status --short | head -3
rm -rf evidence && mkdir evidence && cp -a "$sav"/. evidence/ && rm -rf "$sav"
