#!/bin/sh
# usage: tools/seedtest.sh <seed-dir> <Cxx> [<Cyy> ...] : applies <seed-dir>/patch.diff to /repo, runs the checks, undoes it
d=$1; shift
cd /repo || exit 2
git diff --quiet || { echo "repo working tree not clean"; exit 2; }
git apply "$d/patch.diff" || exit 2
cd /verif
for c in "$@"; do
  echo "--- $c on $(basename $d)"
  ./check $c 2>/dev/null | grep -E "^(VIOLATION|OK|KNOWN)" | cut -c1-220
done
git -C /repo checkout -- .
git -C /repo status --short | head -3
