package main

// C13 facts (go/ast only, no type checking): every call on the query path whose `error`
// result is discarded.
//
// Query path (non-test files):
//	core/*.go, planner/*.go, cluster_query.go, query.go, web/query.go, web/cache.go   – all functions
//	row_store.go            – methods named iterate
//	table.go                – iterate, coalesceIterations, coalesceIteration, processIterations, doProcessIterations
//	rpc/server/rpc_server.go – Query, HandleRemoteQueries
//
// A site is reported when a call whose results include `error`
//	blank : has that result assigned to `_`  (x, _ := f() / _ = f() / var x, _ = f())
//	stmt  : is an expression statement (all results dropped)
//	defer : is the call of a defer statement
//	go    : is the call of a go statement
//
// Callee signatures are resolved syntactically:
//  1. identifiers through the parser's object resolution: parameters and variables whose
//     declared type is a func type or a named func type of the repo (core.OnRow, OnFields, …),
//     variables assigned a func literal, variables assigned from a call whose declared result
//     at that position is a func type (runSubQueries := planSubQueries(..));
//  2. struct fields of func type (f.Include(..)) by field name;
//  3. functions and methods DECLARED in the repo (FuncDecl, interface method) by name; a
//     package-qualified call pkg.F is matched against package pkg only; a method call x.M is
//     matched against every declaration of M — it is reported if ANY of them returns an error
//     (conservative: the receiver type is not known without type checking);
//  4. a short list of external callees that return errors and do occur on this path
//     (io.Closer.Close, Write, bolt Bucket.Put/Delete, grpc SendMsg/RecvMsg, fmt.Fprint*, binary.Read, …).
//
// Emitted as
//
//	structure ErrDrop := { file, func, callee, how : String, nth : Nat }
//
// where nth numbers the sites with the same (file, func, callee, how) in source order, so
// that unrelated edits (line numbers) do not disturb the expectation table in Props/C13.lean.

import (
	"fmt"
	"go/ast"
	"go/parser"
	"go/token"
	"os"
	"path/filepath"
	"sort"
	"strconv"
	"strings"
)

func init() {
	factGens = append(factGens, factGen{"errdrop", genErrDropFacts})
}

type edSig struct {
	pkg     string
	recv    string // receiver base type, "" for functions, "iface:<name>" for interface methods
	results []ast.Expr
}

type edIndex struct {
	funcs      map[string][]edSig      // function / method / interface method name -> declarations
	funcTypes  map[string]*ast.FuncType // "pkg.Name" and "Name" -> named func type
	fieldFuncs map[string][]*ast.FuncType // struct field name -> func types
	repoPkgs   map[string]bool
}

func edIsErrorType(e ast.Expr) bool {
	id, ok := e.(*ast.Ident)
	return ok && id.Name == "error"
}

func edFlattenResults(ft *ast.FuncType) []ast.Expr {
	var out []ast.Expr
	if ft == nil || ft.Results == nil {
		return out
	}
	for _, f := range ft.Results.List {
		n := len(f.Names)
		if n == 0 {
			n = 1
		}
		for i := 0; i < n; i++ {
			out = append(out, f.Type)
		}
	}
	return out
}

func edErrPositions(results []ast.Expr) []int {
	var out []int
	for i, r := range results {
		if edIsErrorType(r) {
			out = append(out, i)
		}
	}
	return out
}

// external callees known to return an error (last result), by selector name
var edExternMethods = map[string]bool{
	"Close": true, "Write": true, "SendMsg": true, "RecvMsg": true, "Put": true, "Delete": true,
	"Flush": true, "Sync": true, "CloseSend": true, "WriteString": true, "Encode": true, "Decode": true,
	"Update": false, "View": false, // bolt db.Update/View are always checked where used; left to rule 3 if redeclared
}
var edExternFuncs = map[string]bool{
	"fmt.Fprint": true, "fmt.Fprintf": true, "fmt.Fprintln": true, "io.Copy": true, "io.ReadFull": true,
	"binary.Read": true, "binary.Write": true, "os.Remove": true, "os.RemoveAll": true, "os.Rename": true,
	"json.Unmarshal": true, "url.QueryUnescape": true,
}

func edBuildIndex(repo string) (*edIndex, []string) {
	idx := &edIndex{funcs: map[string][]edSig{}, funcTypes: map[string]*ast.FuncType{}, fieldFuncs: map[string][]*ast.FuncType{}, repoPkgs: map[string]bool{}}
	var errs []string
	fset := token.NewFileSet()
	filepath.Walk(repo, func(path string, info os.FileInfo, err error) error {
		if err != nil {
			return nil
		}
		if info.IsDir() {
			n := info.Name()
			if path != repo && (strings.HasPrefix(n, ".") || n == "vendor" || n == "testsupport") {
				return filepath.SkipDir
			}
			return nil
		}
		if !strings.HasSuffix(path, ".go") || strings.HasSuffix(path, "_test.go") {
			return nil
		}
		f, perr := parser.ParseFile(fset, path, nil, parser.SkipObjectResolution)
		if perr != nil {
			errs = append(errs, "errdrop: cannot parse "+path+": "+perr.Error())
			return nil
		}
		pkg := f.Name.Name
		idx.repoPkgs[pkg] = true
		for _, d := range f.Decls {
			switch t := d.(type) {
			case *ast.FuncDecl:
				_, recv := auRecvOf(t)
				idx.funcs[t.Name.Name] = append(idx.funcs[t.Name.Name], edSig{pkg, recv, edFlattenResults(t.Type)})
			case *ast.GenDecl:
				for _, sp := range t.Specs {
					ts, ok := sp.(*ast.TypeSpec)
					if !ok {
						continue
					}
					switch tt := ts.Type.(type) {
					case *ast.FuncType:
						idx.funcTypes[pkg+"."+ts.Name.Name] = tt
						if _, dup := idx.funcTypes[ts.Name.Name]; !dup {
							idx.funcTypes[ts.Name.Name] = tt
						}
					case *ast.InterfaceType:
						for _, m := range tt.Methods.List {
							ft, ok := m.Type.(*ast.FuncType)
							if !ok {
								continue
							}
							for _, n := range m.Names {
								idx.funcs[n.Name] = append(idx.funcs[n.Name], edSig{pkg, "iface:" + ts.Name.Name, edFlattenResults(ft)})
							}
						}
					case *ast.StructType:
						for _, fl := range tt.Fields.List {
							ft := idx.asFuncType(fl.Type, pkg)
							if ft == nil {
								continue
							}
							for _, n := range fl.Names {
								idx.fieldFuncs[n.Name] = append(idx.fieldFuncs[n.Name], ft)
							}
						}
					}
				}
			}
		}
		return nil
	})
	return idx, errs
}

// asFuncType resolves a type expression to a func type when it is one or names one of the repo.
func (idx *edIndex) asFuncType(e ast.Expr, pkg string) *ast.FuncType {
	switch t := e.(type) {
	case *ast.FuncType:
		return t
	case *ast.Ident:
		if ft, ok := idx.funcTypes[pkg+"."+t.Name]; ok {
			return ft
		}
		return idx.funcTypes[t.Name]
	case *ast.SelectorExpr:
		if x, ok := t.X.(*ast.Ident); ok {
			return idx.funcTypes[x.Name+"."+t.Sel.Name]
		}
	case *ast.ParenExpr:
		return idx.asFuncType(t.X, pkg)
	}
	return nil
}

// resultsOfCall returns the declared result types of the callee, or nil when unknown;
// how it was resolved is returned for the summary.
func (idx *edIndex) resultsOfCall(call *ast.CallExpr, pkg string, imports map[string]bool, depth int) ([]ast.Expr, string) {
	switch fn := call.Fun.(type) {
	case *ast.FuncLit:
		return edFlattenResults(fn.Type), "funclit"
	case *ast.ParenExpr:
		c2 := *call
		c2.Fun = fn.X
		return idx.resultsOfCall(&c2, pkg, imports, depth)
	case *ast.Ident:
		if fn.Obj != nil {
			switch d := fn.Obj.Decl.(type) {
			case *ast.Field:
				if ft := idx.asFuncType(d.Type, pkg); ft != nil {
					return edFlattenResults(ft), "param"
				}
				return nil, ""
			case *ast.ValueSpec:
				if d.Type != nil {
					if ft := idx.asFuncType(d.Type, pkg); ft != nil {
						return edFlattenResults(ft), "var"
					}
				}
				for i, n := range d.Names {
					if n.Name == fn.Name && i < len(d.Values) {
						if fl, ok := d.Values[i].(*ast.FuncLit); ok {
							return edFlattenResults(fl.Type), "var"
						}
					}
				}
				return nil, ""
			case *ast.AssignStmt:
				for i, l := range d.Lhs {
					li, ok := l.(*ast.Ident)
					if !ok || li.Name != fn.Name {
						continue
					}
					if len(d.Rhs) == len(d.Lhs) {
						if fl, ok := d.Rhs[i].(*ast.FuncLit); ok {
							return edFlattenResults(fl.Type), "var"
						}
					}
					if len(d.Rhs) == 1 && depth < 3 {
						if rc, ok := d.Rhs[0].(*ast.CallExpr); ok {
							rs, _ := idx.resultsOfCall(rc, pkg, imports, depth+1)
							if i < len(rs) {
								if ft := idx.asFuncType(rs[i], pkg); ft != nil {
									return edFlattenResults(ft), "var"
								}
							}
						}
					}
				}
				return nil, ""
			case *ast.FuncDecl:
				return edFlattenResults(d.Type), "func"
			}
		}
		// a function of the same package declared in another file
		for _, s := range idx.funcs[fn.Name] {
			if s.pkg == pkg && s.recv == "" {
				return s.results, "func"
			}
		}
		return nil, ""
	case *ast.SelectorExpr:
		name := fn.Sel.Name
		if x, ok := fn.X.(*ast.Ident); ok && x.Obj == nil && imports[x.Name] {
			// package-qualified
			if idx.repoPkgs[x.Name] {
				for _, s := range idx.funcs[name] {
					if s.pkg == x.Name && s.recv == "" {
						return s.results, "func"
					}
				}
				if ft, ok := idx.funcTypes[x.Name+"."+name]; ok { // conversion to a func type: not a call
					_ = ft
				}
				return nil, ""
			}
			if edExternFuncs[x.Name+"."+name] {
				return []ast.Expr{ast.NewIdent("_"), ast.NewIdent("error")}, "extern"
			}
			return nil, ""
		}
		// struct field of func type
		if fts := idx.fieldFuncs[name]; len(fts) > 0 {
			for _, ft := range fts {
				rs := edFlattenResults(ft)
				if len(edErrPositions(rs)) > 0 {
					return rs, "field"
				}
			}
		}
		// method declared in the repo (any receiver)
		var best []ast.Expr
		for _, s := range idx.funcs[name] {
			if s.recv == "" {
				continue
			}
			if len(edErrPositions(s.results)) > 0 {
				if best == nil || len(s.results) == len(call.Args)+0 {
					best = s.results
				}
			}
		}
		if best != nil {
			return best, "method"
		}
		if edExternMethods[name] {
			return []ast.Expr{ast.NewIdent("error")}, "extern"
		}
	}
	return nil, ""
}

type errDropFact struct {
	File   string `json:"file"`
	Func   string `json:"func"`
	Callee string `json:"callee"`
	How    string `json:"how"`
	Nth    int    `json:"nth"`
	Line   int    `json:"line"`
	Via    string `json:"via"`
}

type edTarget struct {
	rel   string
	funcs map[string]bool // nil = all
}

func edTargets(repo string) ([]edTarget, []string) {
	var ts []edTarget
	var errs []string
	for _, dir := range []string{"core", "planner"} {
		ents, err := os.ReadDir(filepath.Join(repo, dir))
		if err != nil {
			errs = append(errs, "errdrop: cannot read "+dir+": "+err.Error())
			continue
		}
		for _, e := range ents {
			n := e.Name()
			if strings.HasSuffix(n, ".go") && !strings.HasSuffix(n, "_test.go") {
				ts = append(ts, edTarget{dir + "/" + n, nil})
			}
		}
	}
	ts = append(ts,
		edTarget{"cluster_query.go", nil},
		edTarget{"query.go", nil},
		edTarget{"web/query.go", nil},
		edTarget{"web/cache.go", nil},
		edTarget{"row_store.go", map[string]bool{"iterate": true}},
		edTarget{"table.go", map[string]bool{"iterate": true, "coalesceIterations": true, "coalesceIteration": true, "processIterations": true, "doProcessIterations": true}},
		edTarget{"rpc/server/rpc_server.go", map[string]bool{"Query": true, "HandleRemoteQueries": true}},
	)
	return ts, errs
}

func extractErrDrops(repo string) ([]errDropFact, []string) {
	idx, errs := edBuildIndex(repo)
	targets, terrs := edTargets(repo)
	errs = append(errs, terrs...)
	var facts []errDropFact
	nFuncs := 0
	for _, tg := range targets {
		path := filepath.Join(repo, tg.rel)
		fset := token.NewFileSet()
		f, err := parser.ParseFile(fset, path, nil, 0) // with object resolution
		if err != nil {
			errs = append(errs, "errdrop: cannot parse "+tg.rel+": "+err.Error())
			continue
		}
		pkg := f.Name.Name
		imports := map[string]bool{}
		for _, im := range f.Imports {
			p, _ := strconv.Unquote(im.Path.Value)
			name := p[strings.LastIndex(p, "/")+1:]
			if im.Name != nil {
				name = im.Name.Name
			}
			imports[name] = true
		}
		found := map[string]bool{}
		for _, d := range f.Decls {
			fd, ok := d.(*ast.FuncDecl)
			if !ok || fd.Body == nil {
				continue
			}
			if tg.funcs != nil && !tg.funcs[fd.Name.Name] {
				continue
			}
			found[fd.Name.Name] = true
			nFuncs++
			fname := fd.Name.Name
			if _, recv := auRecvOf(fd); recv != "" {
				fname = recv + "." + fname
			}
			counts := map[string]int{}
			add := func(call *ast.CallExpr, how, via string) {
				callee := strings.Join(strings.Fields(nodeText(fset, call.Fun)), " ")
				if len(callee) > 60 {
					callee = callee[:57] + "..."
				}
				key := callee + "|" + how
				facts = append(facts, errDropFact{File: tg.rel, Func: fname, Callee: callee, How: how, Nth: counts[key],
					Line: fset.Position(call.Pos()).Line, Via: via})
				counts[key]++
			}
			dropsAll := func(call *ast.CallExpr, how string) {
				rs, via := idx.resultsOfCall(call, pkg, imports, 0)
				if len(edErrPositions(rs)) > 0 {
					add(call, how, via)
				}
			}
			checkAssign := func(lhs []ast.Expr, rhs []ast.Expr) {
				if len(rhs) == 1 {
					call, ok := rhs[0].(*ast.CallExpr)
					if !ok {
						return
					}
					rs, via := idx.resultsOfCall(call, pkg, imports, 0)
					if len(rs) != len(lhs) {
						return
					}
					for _, p := range edErrPositions(rs) {
						if id, ok := lhs[p].(*ast.Ident); ok && id.Name == "_" {
							add(call, "blank", via)
							return
						}
					}
					return
				}
				if len(rhs) == len(lhs) {
					for i, r := range rhs {
						call, ok := r.(*ast.CallExpr)
						if !ok {
							continue
						}
						id, ok := lhs[i].(*ast.Ident)
						if !ok || id.Name != "_" {
							continue
						}
						rs, via := idx.resultsOfCall(call, pkg, imports, 0)
						if len(rs) == 1 && edIsErrorType(rs[0]) {
							add(call, "blank", via)
						}
					}
				}
			}
			ast.Inspect(fd.Body, func(n ast.Node) bool {
				switch s := n.(type) {
				case *ast.ExprStmt:
					if call, ok := s.X.(*ast.CallExpr); ok {
						dropsAll(call, "stmt")
					}
				case *ast.DeferStmt:
					dropsAll(s.Call, "defer")
				case *ast.GoStmt:
					dropsAll(s.Call, "go")
				case *ast.AssignStmt:
					checkAssign(s.Lhs, s.Rhs)
				case *ast.ValueSpec:
					lhs := make([]ast.Expr, len(s.Names))
					for i, n := range s.Names {
						lhs[i] = n
					}
					checkAssign(lhs, s.Values)
				}
				return true
			})
		}
		for name := range tg.funcs {
			if !found[name] {
				errs = append(errs, fmt.Sprintf("errdrop: function %s not found in %s (query path moved?)", name, tg.rel))
			}
		}
	}
	if nFuncs == 0 {
		errs = append(errs, "errdrop: no function of the query path was found")
	}
	sort.SliceStable(facts, func(i, j int) bool {
		if facts[i].File != facts[j].File {
			return facts[i].File < facts[j].File
		}
		return facts[i].Line < facts[j].Line
	})
	return facts, errs
}

func genErrDropFacts(repo string) (string, []string, interface{}) {
	facts, errs := extractErrDrops(repo)
	var sb strings.Builder
	sb.WriteString("/-! C13: calls on the query path whose `error` result is discarded (tools/extract/errdrop.go).\n")
	sb.WriteString("    how = blank (assigned to `_`) | stmt (expression statement) | defer | go;\n")
	sb.WriteString("    nth numbers equal (file, func, callee, how) in source order. -/\n")
	sb.WriteString("structure ErrDrop where\n  file : String\n  func : String\n  callee : String\n  how : String\n  nth : Nat\nderiving DecidableEq, Repr\n\n")
	if len(errs) > 0 {
		sb.WriteString("-- extraction failed: " + strings.ReplaceAll(strings.Join(errs, "; "), "\n", " ") + "\n")
		sb.WriteString("example : False := by decide -- C13 facts could not be regenerated\n\n")
		return sb.String(), errs, map[string]interface{}{"failed": true}
	}
	sb.WriteString("def errorDrops : List ErrDrop := [\n")
	for i, f := range facts {
		sep := ","
		if i == len(facts)-1 {
			sep = ""
		}
		fmt.Fprintf(&sb, "  { file := %s, func := %s, callee := %s, how := %s, nth := %d }%s  -- line %d (%s)\n",
			auLeanStr(f.File), auLeanStr(f.Func), auLeanStr(f.Callee), auLeanStr(f.How), f.Nth, sep, f.Line, f.Via)
	}
	sb.WriteString("]\n\n")
	return sb.String(), nil, map[string]interface{}{"error_drops": facts}
}
