package main

// C18 facts (go/ast only): what the PER-ROW code of a table scan reads from shared mutable
// state.  A scan must take its whole environment (clock / truncation bound, field lists, file
// store, memstore copy) once, before the first row; anything evaluated per row follows the
// database while the scan runs and the result matches no single instant.
//
// Scan path in row_store.go:
//	rowStore.iterate   – the func literal handed to fs.iterate
//	fileStore.iterate  – the bodies of its for/range loops and every func literal in it
//	rowMerger, rowMapper – the closures they return
// In that per-row code are listed
//	scanPerRowReads      every selector chain rooted at a receiver / table / db identifier
//	                     (fs, rs, t, db): field reads, method calls and method values on
//	                     fs.t, fs.rs, rs.t, db.clock, … with the number of occurrences
//	scanPerRowParamCalls every call of a function-valued PARAMETER of the enclosing function
//	                     (a captured function evaluated per row, e.g. a `truncateBefore func()`)
// and, for the two helpers,
//	scanHelperArgs       the argument expressions of each call of rowMerger / rowMapper in
//	                     fileStore.iterate (a method value such as fs.t.truncateBefore among
//	                     them hands the closure a live view of the table).
// The expectations live in Props/C18.lean (`scan_path_reads_expected`).

import (
	"fmt"
	"go/ast"
	"go/parser"
	"go/token"
	"go/types"
	"path/filepath"
	"sort"
	"strconv"
	"strings"
)

func init() {
	factGens = append(factGens, factGen{"scanreads", genScanReadFacts})
}

type srItem struct {
	fn, expr string
	n        int
}

func srRoot(e ast.Expr) string {
	for {
		switch t := e.(type) {
		case *ast.SelectorExpr:
			e = t.X
		case *ast.Ident:
			return t.Name
		default:
			return ""
		}
	}
}

func srFuncName(fn *ast.FuncDecl) string {
	if fn.Recv != nil && len(fn.Recv.List) == 1 {
		t := fn.Recv.List[0].Type
		if st, ok := t.(*ast.StarExpr); ok {
			t = st.X
		}
		if id, ok := t.(*ast.Ident); ok {
			return id.Name + "." + fn.Name.Name
		}
	}
	return fn.Name.Name
}

func genScanReadFacts(repo string) (string, []string, interface{}) {
	var errs []string
	fset := token.NewFileSet()
	f, err := parser.ParseFile(fset, filepath.Join(repo, "row_store.go"), nil, 0)
	if err != nil {
		errs = append(errs, "scanreads: "+err.Error())
	}
	reads := map[string]*srItem{}
	pcalls := map[string]*srItem{}
	var helperArgs []string
	found := map[string]bool{}
	add := func(m map[string]*srItem, fn, expr string) {
		k := fn + "\x00" + expr
		if m[k] == nil {
			m[k] = &srItem{fn: fn, expr: expr}
		}
		m[k].n++
	}
	roots := map[string]bool{"fs": true, "rs": true, "t": true, "db": true}
	if f != nil {
		for _, d := range f.Decls {
			fn, ok := d.(*ast.FuncDecl)
			if !ok || fn.Body == nil {
				continue
			}
			name := srFuncName(fn)
			if name != "rowStore.iterate" && name != "fileStore.iterate" && name != "rowMerger" && name != "rowMapper" {
				continue
			}
			found[name] = true
			params := map[string]bool{}
			for _, p := range fn.Type.Params.List {
				if _, isFunc := p.Type.(*ast.FuncType); isFunc {
					for _, n := range p.Names {
						params[n.Name] = true
					}
				}
			}
			// per-row regions
			var regions []ast.Node
			ast.Inspect(fn.Body, func(n ast.Node) bool {
				switch t := n.(type) {
				case *ast.FuncLit:
					if name == "rowStore.iterate" {
						return false // only the consumer closure handed to fs.iterate (below) is per-row
					}
					regions = append(regions, t.Body)
					return false
				case *ast.ForStmt:
					if name == "fileStore.iterate" {
						regions = append(regions, t.Body)
						return false
					}
				case *ast.RangeStmt:
					if name == "fileStore.iterate" {
						regions = append(regions, t.Body)
						return false
					}
				case *ast.CallExpr:
					if name == "rowStore.iterate" && types.ExprString(t.Fun) == "fs.iterate" {
						for _, a := range t.Args {
							if fl, ok := a.(*ast.FuncLit); ok {
								regions = append(regions, fl.Body)
							}
						}
						return false
					}
					if name == "fileStore.iterate" {
						if id, ok := t.Fun.(*ast.Ident); ok && (id.Name == "rowMerger" || id.Name == "rowMapper") {
							var as []string
							for _, a := range t.Args {
								as = append(as, types.ExprString(a))
							}
							helperArgs = append(helperArgs, fmt.Sprintf("  (%s, [%s])", strconv.Quote(id.Name), quoteAll(as)))
						}
					}
				}
				return true
			})
			for _, reg := range regions {
				ast.Inspect(reg, func(n ast.Node) bool {
					switch t := n.(type) {
					case *ast.SelectorExpr:
						if roots[srRoot(t)] {
							add(reads, name, types.ExprString(t))
							return false
						}
					case *ast.CallExpr:
						if id, ok := t.Fun.(*ast.Ident); ok && params[id.Name] {
							add(pcalls, name, id.Name)
						}
					}
					return true
				})
			}
		}
		for _, n := range []string{"rowStore.iterate", "fileStore.iterate", "rowMerger", "rowMapper"} {
			if !found[n] {
				errs = append(errs, "scanreads: "+n+" not found in row_store.go")
			}
		}
	}
	render := func(m map[string]*srItem) string {
		var items []*srItem
		for _, it := range m {
			items = append(items, it)
		}
		sort.Slice(items, func(i, j int) bool {
			if items[i].fn != items[j].fn {
				return items[i].fn < items[j].fn
			}
			return items[i].expr < items[j].expr
		})
		var lines []string
		for _, it := range items {
			lines = append(lines, fmt.Sprintf("  { func := %s, expr := %s, n := %d }", strconv.Quote(it.fn), strconv.Quote(it.expr), it.n))
		}
		return strings.Join(lines, ",\n")
	}
	var sb strings.Builder
	sb.WriteString("/-! C18: what the per-row code of a table scan (rowStore.iterate -> fileStore.iterate ->\n")
	sb.WriteString("    rowMerger / rowMapper closures) reads from shared state (tools/extract/scanreads.go). -/\n")
	sb.WriteString("structure ScanRead where\n  func : String\n  expr : String\n  n : Nat\nderiving DecidableEq, Repr\n\n")
	if len(errs) > 0 {
		sb.WriteString("-- extraction failed: " + strings.ReplaceAll(strings.Join(errs, "; "), "\n", " ") + "\n")
		sb.WriteString("example : False := by decide -- C18 facts could not be regenerated\n\n")
	}
	sb.WriteString("def scanPerRowReads : List ScanRead := [\n" + render(reads) + "\n]\n\n")
	sb.WriteString("def scanPerRowParamCalls : List ScanRead := [\n" + render(pcalls) + "\n]\n\n")
	sb.WriteString("def scanHelperArgs : List (String × List String) := [\n" + strings.Join(helperArgs, ",\n") + "\n]\n\n")
	return sb.String(), errs, map[string]int{"reads": len(reads), "paramCalls": len(pcalls), "helperCalls": len(helperArgs)}
}

func quoteAll(xs []string) string {
	var q []string
	for _, x := range xs {
		q = append(q, strconv.Quote(x))
	}
	return strings.Join(q, ", ")
}
