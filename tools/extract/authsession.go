package main

// C19 facts, part 2 (go/ast only): where the web package WRITES the session cookie and
// under which answers of the identity provider each such call is reached.
//
// A cookie write is a call of `http.SetCookie(...)`, a `<x>.Header().Set/Add("Set-Cookie", ...)`,
// or a call of a function/method of package web that (transitively) contains one (a
// "cookie-writing helper" such as a factored-out `startSession`).  A function that calls
// `userInOrg` itself is a boundary: its own sites carry its guards, calls of it are not sites.  Every such call
// becomes
//
//	structure CookieWriteSite := { fn, callee, inHelper, noCheck, onInOrg, onNotInOrg, onError }
//
// fn: enclosing function; callee: "http.SetCookie", "Header.Set-Cookie" or the helper's
// name; inHelper: fn is itself an unexported cookie-writing helper that is called from
// within the package and is not a registered route handler and not `authenticate` (its
// call sites are listed, so the site inside it needs no guard of its own).
//
// The four reachability flags come from a small path-sensitive walk over the
// structured AST of fn, once per possible result of `<recv>.userInOrg(...)`:
// (true,nil) / (false,nil) / (_,err).  The walk binds the two left-hand identifiers of
// `a, b := <recv>.userInOrg(...)` and evaluates if-conditions built from them
// (`a`, `!a`, `b == nil`, `b != nil`, `&&`, `||`, parentheses); every other condition is
// taken both ways; a later assignment to a bound identifier unbinds it; `return` ends a
// path; loops run zero or one time; switch/select clauses are all possible.
//   noCheck    : the site is reachable on a path on which userInOrg has not been called;
//   onInOrg    : reachable after userInOrg with (true,nil);  onNotInOrg: (false,nil);
//   onError    : (_,err).
// This is a may-analysis without types, aliases or inter-procedural value flow: a
// verification wrapped in another helper is not recognised (the site then shows as
// noCheck, i.e. the obligation breaks and has to be looked at).
//
// Missing `userInOrg`, or no cookie write at all, is a problem string (never an empty list).

import (
	"fmt"
	"go/ast"
	"go/parser"
	"go/token"
	"os"
	"path/filepath"
	"sort"
	"strings"
)

func init() {
	factGens = append(factGens, factGen{"authsession", genAuthSessionFacts})
}

type cookieSiteFact struct {
	Fn         string `json:"fn"`
	Callee     string `json:"callee"`
	InHelper   bool   `json:"in_helper"`
	NoCheck    bool   `json:"no_check"`
	OnInOrg    bool   `json:"on_in_org"`
	OnNotInOrg bool   `json:"on_not_in_org"`
	OnError    bool   `json:"on_error"`
	pos        token.Pos
	file       string
	line       int
}

// symbolic values of the two results of userInOrg
const (
	ausSymInOrg = 1
	ausSymErr   = 2
)

type ausState struct {
	checked bool
	env     map[string]int
}

func (s ausState) clone() ausState {
	e := make(map[string]int, len(s.env))
	for k, v := range s.env {
		e[k] = v
	}
	return ausState{s.checked, e}
}

func (s ausState) key() string {
	ks := make([]string, 0, len(s.env))
	for k, v := range s.env {
		ks = append(ks, fmt.Sprintf("%s=%d", k, v))
	}
	sort.Strings(ks)
	return fmt.Sprintf("%v|%s", s.checked, strings.Join(ks, ","))
}

func ausDedupe(in []ausState) []ausState {
	seen := map[string]bool{}
	var out []ausState
	for _, s := range in {
		k := s.key()
		if !seen[k] {
			seen[k] = true
			out = append(out, s)
		}
	}
	return out
}

type ausWalker struct {
	outcome int // 0 = (true,nil), 1 = (false,nil), 2 = (_,err)
	sites   map[token.Pos]*cookieSiteFact
}

// 3-valued condition evaluation: 1 true, 0 false, -1 unknown
func (w *ausWalker) eval(e ast.Expr, st ausState) int {
	switch x := e.(type) {
	case *ast.ParenExpr:
		return w.eval(x.X, st)
	case *ast.Ident:
		if x.Name == "true" {
			return 1
		}
		if x.Name == "false" {
			return 0
		}
		if st.env[x.Name] == ausSymInOrg {
			if w.outcome == 0 {
				return 1
			}
			if w.outcome == 1 {
				return 0
			}
			return -1 // value returned together with an error: unspecified
		}
		return -1
	case *ast.UnaryExpr:
		if x.Op == token.NOT {
			v := w.eval(x.X, st)
			if v < 0 {
				return -1
			}
			return 1 - v
		}
		return -1
	case *ast.BinaryExpr:
		switch x.Op {
		case token.LAND:
			a, b := w.eval(x.X, st), w.eval(x.Y, st)
			if a == 0 || b == 0 {
				return 0
			}
			if a == 1 && b == 1 {
				return 1
			}
			return -1
		case token.LOR:
			a, b := w.eval(x.X, st), w.eval(x.Y, st)
			if a == 1 || b == 1 {
				return 1
			}
			if a == 0 && b == 0 {
				return 0
			}
			return -1
		case token.EQL, token.NEQ:
			var id *ast.Ident
			if l, ok := x.X.(*ast.Ident); ok && auIsIdent(x.Y, "nil") {
				id = l
			} else if r, ok := x.Y.(*ast.Ident); ok && auIsIdent(x.X, "nil") {
				id = r
			}
			if id != nil && st.env[id.Name] == ausSymErr {
				isNil := w.outcome != 2
				if (x.Op == token.EQL) == isNil {
					return 1
				}
				return 0
			}
		}
	}
	return -1
}

// visit records every site inside node n as reached in state st.
func (w *ausWalker) visit(n ast.Node, st ausState) {
	if n == nil {
		return
	}
	ast.Inspect(n, func(m ast.Node) bool {
		if c, ok := m.(*ast.CallExpr); ok {
			if s := w.sites[c.Pos()]; s != nil {
				if !st.checked {
					s.NoCheck = true
				} else {
					switch w.outcome {
					case 0:
						s.OnInOrg = true
					case 1:
						s.OnNotInOrg = true
					case 2:
						s.OnError = true
					}
				}
			}
		}
		return true
	})
}

func ausIsUserInOrgCall(e ast.Expr) bool {
	c, ok := e.(*ast.CallExpr)
	if !ok {
		return false
	}
	s, ok := c.Fun.(*ast.SelectorExpr)
	return ok && s.Sel.Name == "userInOrg"
}

func ausDefinedNames(stmts []ast.Stmt) []string {
	var out []string
	for _, s := range stmts {
		if a, ok := s.(*ast.AssignStmt); ok && a.Tok == token.DEFINE {
			for _, l := range a.Lhs {
				if id, ok := l.(*ast.Ident); ok {
					out = append(out, id.Name)
				}
			}
		}
		if d, ok := s.(*ast.DeclStmt); ok {
			if g, ok := d.Decl.(*ast.GenDecl); ok {
				for _, sp := range g.Specs {
					if v, ok := sp.(*ast.ValueSpec); ok {
						for _, id := range v.Names {
							out = append(out, id.Name)
						}
					}
				}
			}
		}
	}
	return out
}

// block runs a nested block: names it declares are out of scope afterwards.
func (w *ausWalker) block(b *ast.BlockStmt, in []ausState) []ausState {
	if b == nil {
		return in
	}
	out := w.stmts(b.List, in)
	names := ausDefinedNames(b.List)
	for i := range out {
		out[i] = out[i].clone()
		for _, n := range names {
			delete(out[i].env, n)
		}
	}
	return ausDedupe(out)
}

func (w *ausWalker) stmts(list []ast.Stmt, in []ausState) []ausState {
	cur := in
	for _, s := range list {
		if len(cur) == 0 {
			return cur
		}
		cur = ausDedupe(w.stmt(s, cur))
	}
	return cur
}

func (w *ausWalker) simple(s ast.Stmt, in []ausState) []ausState {
	var out []ausState
	for _, st := range in {
		w.visit(s, st)
		ns := st.clone()
		if a, ok := s.(*ast.AssignStmt); ok {
			if len(a.Rhs) == 1 && ausIsUserInOrgCall(a.Rhs[0]) && len(a.Lhs) == 2 {
				ns.checked = true
				if id, ok := a.Lhs[0].(*ast.Ident); ok && id.Name != "_" {
					ns.env[id.Name] = ausSymInOrg
				}
				if id, ok := a.Lhs[1].(*ast.Ident); ok && id.Name != "_" {
					ns.env[id.Name] = ausSymErr
				}
			} else {
				for _, l := range a.Lhs {
					if id, ok := l.(*ast.Ident); ok {
						delete(ns.env, id.Name)
					}
				}
			}
		}
		out = append(out, ns)
	}
	return out
}

func (w *ausWalker) stmt(s ast.Stmt, in []ausState) []ausState {
	switch x := s.(type) {
	case *ast.BlockStmt:
		return w.block(x, in)
	case *ast.LabeledStmt:
		return w.stmt(x.Stmt, in)
	case *ast.ReturnStmt:
		for _, st := range in {
			w.visit(x, st)
		}
		return nil
	case *ast.IfStmt:
		cur := in
		if x.Init != nil {
			cur = w.simple(x.Init, cur)
		}
		var thenIn, elseIn []ausState
		for _, st := range cur {
			w.visit(x.Cond, st)
			switch w.eval(x.Cond, st) {
			case 1:
				thenIn = append(thenIn, st)
			case 0:
				elseIn = append(elseIn, st)
			default:
				thenIn = append(thenIn, st)
				elseIn = append(elseIn, st)
			}
		}
		out := w.block(x.Body, thenIn)
		if x.Else != nil {
			out = append(out, w.stmt(x.Else, elseIn)...)
		} else {
			out = append(out, elseIn...)
		}
		if x.Init != nil {
			names := ausDefinedNames([]ast.Stmt{x.Init})
			for i := range out {
				out[i] = out[i].clone()
				for _, n := range names {
					delete(out[i].env, n)
				}
			}
		}
		return out
	case *ast.ForStmt:
		cur := in
		if x.Init != nil {
			cur = w.simple(x.Init, cur)
		}
		for _, st := range cur {
			w.visit(x.Cond, st)
			w.visit(x.Post, st)
		}
		return append(w.block(x.Body, cur), cur...)
	case *ast.RangeStmt:
		for _, st := range in {
			w.visit(x.X, st)
		}
		return append(w.block(x.Body, in), in...)
	case *ast.SwitchStmt:
		cur := in
		if x.Init != nil {
			cur = w.simple(x.Init, cur)
		}
		for _, st := range cur {
			w.visit(x.Tag, st)
		}
		return w.clauses(x.Body, cur)
	case *ast.TypeSwitchStmt:
		cur := in
		if x.Init != nil {
			cur = w.simple(x.Init, cur)
		}
		cur = w.simple(x.Assign, cur)
		return w.clauses(x.Body, cur)
	case *ast.SelectStmt:
		return w.clauses(x.Body, in)
	default:
		return w.simple(s, in)
	}
}

func (w *ausWalker) clauses(body *ast.BlockStmt, in []ausState) []ausState {
	out := append([]ausState{}, in...) // no clause taken
	for _, c := range body.List {
		switch cc := c.(type) {
		case *ast.CaseClause:
			for _, st := range in {
				for _, e := range cc.List {
					w.visit(e, st)
				}
			}
			out = append(out, w.stmts(cc.Body, in)...)
		case *ast.CommClause:
			cur := in
			if cc.Comm != nil {
				cur = w.simple(cc.Comm, cur)
			}
			out = append(out, w.stmts(cc.Body, cur)...)
		}
	}
	return out
}

// ausDirectWrite: http.SetCookie(...) or <x>.Set/Add("Set-Cookie", ...)
func ausDirectWrite(c *ast.CallExpr) string {
	if auIsSel(c.Fun, "http", "SetCookie") {
		return "http.SetCookie"
	}
	if s, ok := c.Fun.(*ast.SelectorExpr); ok && (s.Sel.Name == "Set" || s.Sel.Name == "Add") && len(c.Args) >= 1 {
		if v, ok := auStrLit(c.Args[0]); ok && strings.EqualFold(v, "Set-Cookie") {
			return "Header.Set-Cookie"
		}
	}
	return ""
}

func ausCalleeName(c *ast.CallExpr) string {
	switch f := c.Fun.(type) {
	case *ast.Ident:
		return f.Name
	case *ast.SelectorExpr:
		if _, ok := f.X.(*ast.Ident); ok {
			return f.Sel.Name
		}
	}
	return ""
}

func extractCookieSites(repo string) ([]cookieSiteFact, []string) {
	var errs []string
	dir := filepath.Join(repo, "web")
	entries, err := os.ReadDir(dir)
	if err != nil {
		return nil, []string{fmt.Sprintf("C19 session facts: cannot read %s: %v", dir, err)}
	}
	fset := token.NewFileSet()
	type fn struct {
		decl *ast.FuncDecl
		file string
	}
	funcs := map[string]fn{}
	var order []string
	for _, e := range entries {
		if e.IsDir() || !strings.HasSuffix(e.Name(), ".go") || strings.HasSuffix(e.Name(), "_test.go") {
			continue
		}
		f, err := parser.ParseFile(fset, filepath.Join(dir, e.Name()), nil, 0)
		if err != nil {
			errs = append(errs, fmt.Sprintf("C19 session facts: cannot parse web/%s: %v", e.Name(), err))
			continue
		}
		for _, d := range f.Decls {
			if fd, ok := d.(*ast.FuncDecl); ok && fd.Body != nil {
				if _, dup := funcs[fd.Name.Name]; dup {
					errs = append(errs, fmt.Sprintf("C19 session facts: two functions named %s in package web (methods are identified by name only)", fd.Name.Name))
				}
				funcs[fd.Name.Name] = fn{fd, e.Name()}
				order = append(order, fd.Name.Name)
			}
		}
	}
	if _, ok := funcs["userInOrg"]; !ok {
		errs = append(errs, "C19 session facts: method userInOrg not found in web/*.go")
	}
	// functions that ask the identity provider themselves are judged by their own guards:
	// a call OF such a function is not a cookie-write site and does not make the caller a writer
	verifier := map[string]bool{}
	for name, f := range funcs {
		ast.Inspect(f.decl.Body, func(n ast.Node) bool {
			if c, ok := n.(*ast.CallExpr); ok && ausIsUserInOrgCall(c) {
				verifier[name] = true
			}
			return true
		})
	}
	// cookie-writing functions: fixpoint over direct writes and calls of (non-verifying) writers
	writers := map[string]bool{}
	for changed := true; changed; {
		changed = false
		for name, f := range funcs {
			if writers[name] {
				continue
			}
			ast.Inspect(f.decl.Body, func(n ast.Node) bool {
				if c, ok := n.(*ast.CallExpr); ok {
					if ausDirectWrite(c) != "" {
						writers[name] = true
					} else if cn := ausCalleeName(c); writers[cn] && !verifier[cn] {
						if _, isLocal := funcs[cn]; isLocal {
							writers[name] = true
						}
					}
				}
				return true
			})
			if writers[name] {
				changed = true
			}
		}
	}
	// callers inside the package, registered route handlers
	called := map[string]bool{}
	for _, f := range funcs {
		ast.Inspect(f.decl.Body, func(n ast.Node) bool {
			if c, ok := n.(*ast.CallExpr); ok {
				if _, isLocal := funcs[ausCalleeName(c)]; isLocal {
					called[ausCalleeName(c)] = true
				}
			}
			return true
		})
	}
	routes, _, _ := extractWeb(repo)
	routed := map[string]bool{}
	for _, r := range routes {
		if r.Handler != "" {
			routed[r.Handler] = true
		}
	}
	var out []cookieSiteFact
	for _, name := range order {
		f := funcs[name]
		sites := map[token.Pos]*cookieSiteFact{}
		var poss []token.Pos
		ast.Inspect(f.decl.Body, func(n ast.Node) bool {
			c, ok := n.(*ast.CallExpr)
			if !ok {
				return true
			}
			callee := ausDirectWrite(c)
			if callee == "" {
				if cn := ausCalleeName(c); writers[cn] && !verifier[cn] {
					if _, isLocal := funcs[cn]; isLocal {
						callee = cn
					}
				}
			}
			if callee != "" {
				p := fset.Position(c.Pos())
				sites[c.Pos()] = &cookieSiteFact{Fn: name, Callee: callee, pos: c.Pos(), file: f.file, line: p.Line}
				poss = append(poss, c.Pos())
			}
			return true
		})
		if len(sites) == 0 {
			continue
		}
		for outcome := 0; outcome < 3; outcome++ {
			w := &ausWalker{outcome: outcome, sites: sites}
			w.stmts(f.decl.Body.List, []ausState{{checked: false, env: map[string]int{}}})
		}
		unexported := name != "" && strings.ToLower(name[:1]) == name[:1]
		helper := writers[name] && called[name] && !routed[name] && name != "authenticate" && unexported
		sort.Slice(poss, func(i, j int) bool { return poss[i] < poss[j] })
		for _, p := range poss {
			s := sites[p]
			s.InHelper = helper
			out = append(out, *s)
		}
	}
	if len(out) == 0 {
		errs = append(errs, "C19 session facts: no call that writes a cookie (http.SetCookie / Set-Cookie header) found in web/*.go")
	}
	return out, errs
}

func genAuthSessionFacts(repo string) (string, []string, interface{}) {
	sites, errs := extractCookieSites(repo)
	var sb strings.Builder
	sb.WriteString("/-! C19: calls that write the session cookie and the answers of the identity provider under\n")
	sb.WriteString("    which each is reached (tools/extract/authsession.go; path-sensitive may-analysis, no types). -/\n")
	sb.WriteString("structure CookieWriteSite where\n  fn : String\n  callee : String\n  inHelper : Bool\n  noCheck : Bool\n  onInOrg : Bool\n  onNotInOrg : Bool\n  onError : Bool\nderiving DecidableEq, Repr\n\n")
	if len(errs) > 0 {
		sb.WriteString("-- extraction failed: " + strings.ReplaceAll(strings.Join(errs, "; "), "\n", " ") + "\n")
		sb.WriteString("example : False := by decide -- C19 session facts could not be regenerated\n\n")
		return sb.String(), errs, map[string]interface{}{"failed": true}
	}
	sb.WriteString("/-- web/*.go: every call that writes a cookie or calls a cookie-writing helper, in source order -/\n")
	sb.WriteString("def cookieWriteSites : List CookieWriteSite := [\n")
	for i, s := range sites {
		sep := ","
		if i == len(sites)-1 {
			sep = ""
		}
		fmt.Fprintf(&sb, "  { fn := %s, callee := %s, inHelper := %s, noCheck := %s, onInOrg := %s, onNotInOrg := %s, onError := %s }%s  -- web/%s:%d\n",
			auLeanStr(s.Fn), auLeanStr(s.Callee), auLeanBool(s.InHelper), auLeanBool(s.NoCheck), auLeanBool(s.OnInOrg),
			auLeanBool(s.OnNotInOrg), auLeanBool(s.OnError), sep, s.file, s.line)
	}
	sb.WriteString("]\n\n")
	return sb.String(), nil, map[string]interface{}{"cookie_write_sites": sites}
}
