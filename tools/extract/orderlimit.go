package main

// C09 facts (go/ast only): how the planner wraps ORDER BY / OFFSET / LIMIT around a flat row
// source, and what the ORDER BY operator retains.
//
// The Lean model's `addOrderLimitOffset` applies `limitOffset` to the COMPLETE sorted list, and
// the theorem `query_spec` is about that composition.  A sorter that is told the LIMIT (or any
// other bound) and keeps only a prefix of the ordered rows is outside the model: the slice
// m..m+n-1 is then taken from an incomplete list as soon as the result is larger than the
// sorter's buffer — behaviour that depends on the SIZE of the result, which small generated
// cases never reach.  These facts pin the structure so that such a sorter cannot slip in
// untied:
//
//	oloSteps        planner/planner.go addOrderLimitOffset: its top-level statements in order.
//	                `if <cond> { <lhs> = <callee>(<args>) }` becomes {cond, lhs, callee, args};
//	                any other statement (except the final return) becomes {cond := "", lhs := "",
//	                callee := "<stmt>", args := [its source text]}.
//	oloReturn       the expression of the final return statement.
//	sortCtor        core/sort.go func Sort: source text of its body statements (which sorter it
//	                builds, with which fields).
//	sorterCollect   core/sort.go (*sorter).Iterate: source text of the statements of the func
//	                literal handed to s.source.Iterate (what happens to every incoming row).
//	sorterFields    the field list of struct sorter ("name type" or embedded type).
//
// Props/C09Facts.lean compares them with the hand-written expectation (`decide`): the sorter
// call must be exactly core.Sort(flat, query.OrderBy...), OFFSET then LIMIT are wrapped after
// it, and the sorter appends every row and nothing else.

import (
	"bytes"
	"fmt"
	"go/ast"
	"go/parser"
	"go/printer"
	"go/token"
	"path/filepath"
	"strings"
)

func init() {
	factGens = append(factGens, factGen{"orderlimit", genOrderLimitFacts})
}

type oloStep struct {
	Cond   string   `json:"cond"`
	Lhs    string   `json:"lhs"`
	Callee string   `json:"callee"`
	Args   []string `json:"args"`
	Line   int      `json:"line"`
}

func olText(fset *token.FileSet, n ast.Node) string {
	var b bytes.Buffer
	printer.Fprint(&b, fset, n)
	// one line, single spaces
	return strings.Join(strings.Fields(b.String()), " ")
}

func olFunc(f *ast.File, recv, name string) *ast.FuncDecl {
	for _, d := range f.Decls {
		fd, ok := d.(*ast.FuncDecl)
		if !ok || fd.Name.Name != name || fd.Body == nil {
			continue
		}
		r := ""
		if fd.Recv != nil && len(fd.Recv.List) == 1 {
			t := fd.Recv.List[0].Type
			if s, ok := t.(*ast.StarExpr); ok {
				t = s.X
			}
			if id, ok := t.(*ast.Ident); ok {
				r = id.Name
			}
		}
		if r == recv {
			return fd
		}
	}
	return nil
}

type orderLimitFacts struct {
	Steps         []oloStep `json:"steps"`
	Return        string    `json:"return"`
	SortCtor      []string  `json:"sort_ctor"`
	SorterCollect []string  `json:"sorter_collect"`
	SorterFields  []string  `json:"sorter_fields"`
}

func extractOrderLimit(repo string) (orderLimitFacts, []string) {
	var out orderLimitFacts
	var errs []string
	fset := token.NewFileSet()

	// ---- planner/planner.go addOrderLimitOffset
	pf, err := parser.ParseFile(fset, filepath.Join(repo, "planner", "planner.go"), nil, parser.SkipObjectResolution)
	if err != nil {
		return out, []string{"orderlimit: cannot parse planner/planner.go: " + err.Error()}
	}
	fd := olFunc(pf, "", "addOrderLimitOffset")
	if fd == nil {
		return out, []string{"orderlimit: func addOrderLimitOffset not found in planner/planner.go"}
	}
	stmts := fd.Body.List
	for i, s := range stmts {
		line := fset.Position(s.Pos()).Line
		if r, ok := s.(*ast.ReturnStmt); ok && i == len(stmts)-1 {
			rs := make([]string, len(r.Results))
			for k, e := range r.Results {
				rs[k] = olText(fset, e)
			}
			out.Return = strings.Join(rs, ", ")
			continue
		}
		step := oloStep{Line: line}
		ok := false
		if is, isIf := s.(*ast.IfStmt); isIf && is.Init == nil && is.Else == nil && len(is.Body.List) == 1 {
			if as, isAs := is.Body.List[0].(*ast.AssignStmt); isAs && as.Tok == token.ASSIGN && len(as.Lhs) == 1 && len(as.Rhs) == 1 {
				if call, isCall := as.Rhs[0].(*ast.CallExpr); isCall {
					step.Cond = olText(fset, is.Cond)
					step.Lhs = olText(fset, as.Lhs[0])
					step.Callee = olText(fset, call.Fun)
					for k, a := range call.Args {
						t := olText(fset, a)
						if call.Ellipsis.IsValid() && k == len(call.Args)-1 {
							t += "..."
						}
						step.Args = append(step.Args, t)
					}
					ok = true
				}
			}
		}
		if !ok {
			step.Callee = "<stmt>"
			step.Args = []string{olText(fset, s)}
		}
		out.Steps = append(out.Steps, step)
	}
	if out.Return == "" {
		errs = append(errs, "orderlimit: addOrderLimitOffset does not end in a return statement")
	}

	// ---- core/sort.go
	sf, err := parser.ParseFile(fset, filepath.Join(repo, "core", "sort.go"), nil, parser.SkipObjectResolution)
	if err != nil {
		return out, append(errs, "orderlimit: cannot parse core/sort.go: "+err.Error())
	}
	if ctor := olFunc(sf, "", "Sort"); ctor == nil {
		errs = append(errs, "orderlimit: func Sort not found in core/sort.go")
	} else {
		for _, s := range ctor.Body.List {
			out.SortCtor = append(out.SortCtor, olText(fset, s))
		}
	}
	for _, d := range sf.Decls {
		gd, ok := d.(*ast.GenDecl)
		if !ok || gd.Tok != token.TYPE {
			continue
		}
		for _, sp := range gd.Specs {
			ts := sp.(*ast.TypeSpec)
			st, ok := ts.Type.(*ast.StructType)
			if !ok || ts.Name.Name != "sorter" {
				continue
			}
			for _, f := range st.Fields.List {
				if len(f.Names) == 0 {
					out.SorterFields = append(out.SorterFields, olText(fset, f.Type))
				}
				for _, n := range f.Names {
					out.SorterFields = append(out.SorterFields, n.Name+" "+olText(fset, f.Type))
				}
			}
		}
	}
	if len(out.SorterFields) == 0 {
		errs = append(errs, "orderlimit: struct sorter not found in core/sort.go")
	}
	it := olFunc(sf, "sorter", "Iterate")
	if it == nil {
		errs = append(errs, "orderlimit: method (*sorter).Iterate not found in core/sort.go")
	} else {
		var lit *ast.FuncLit
		ast.Inspect(it.Body, func(n ast.Node) bool {
			if c, ok := n.(*ast.CallExpr); ok && lit == nil {
				if strings.HasSuffix(olText(fset, c.Fun), ".source.Iterate") {
					for _, a := range c.Args {
						if fl, ok := a.(*ast.FuncLit); ok {
							lit = fl
						}
					}
				}
			}
			return lit == nil
		})
		if lit == nil {
			errs = append(errs, "orderlimit: (*sorter).Iterate hands no func literal to <x>.source.Iterate")
		} else {
			for _, s := range lit.Body.List {
				out.SorterCollect = append(out.SorterCollect, olText(fset, s))
			}
		}
	}
	return out, errs
}

func olLeanStrs(xs []string) string {
	q := make([]string, len(xs))
	for i, x := range xs {
		q[i] = auLeanStr(x)
	}
	return "[" + strings.Join(q, ", ") + "]"
}

func genOrderLimitFacts(repo string) (string, []string, interface{}) {
	facts, errs := extractOrderLimit(repo)
	var sb strings.Builder
	sb.WriteString("/-! C09: the planner's ORDER BY / OFFSET / LIMIT wrapping and what the sorter retains (tools/extract/orderlimit.go). -/\n")
	sb.WriteString("structure OLOStep where\n  cond : String\n  lhs : String\n  callee : String\n  args : List String\nderiving DecidableEq, Repr\n\n")
	if len(errs) > 0 {
		sb.WriteString("-- extraction failed: " + strings.ReplaceAll(strings.Join(errs, "; "), "\n", " ") + "\n")
		sb.WriteString("example : False := by decide -- C09 order/limit facts could not be regenerated\n\n")
		return sb.String(), errs, map[string]interface{}{"failed": true}
	}
	sb.WriteString("def oloSteps : List OLOStep := [\n")
	for i, s := range facts.Steps {
		sep := ","
		if i == len(facts.Steps)-1 {
			sep = ""
		}
		fmt.Fprintf(&sb, "  { cond := %s, lhs := %s, callee := %s, args := %s }%s  -- line %d\n",
			auLeanStr(s.Cond), auLeanStr(s.Lhs), auLeanStr(s.Callee), olLeanStrs(s.Args), sep, s.Line)
	}
	sb.WriteString("]\n\n")
	fmt.Fprintf(&sb, "def oloReturn : String := %s\n\n", auLeanStr(facts.Return))
	fmt.Fprintf(&sb, "def sortCtor : List String := %s\n\n", olLeanStrs(facts.SortCtor))
	fmt.Fprintf(&sb, "def sorterFields : List String := %s\n\n", olLeanStrs(facts.SorterFields))
	fmt.Fprintf(&sb, "def sorterCollect : List String := %s\n\n", olLeanStrs(facts.SorterCollect))
	return sb.String(), nil, map[string]interface{}{"orderlimit": facts}
}
