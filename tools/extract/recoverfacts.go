package main

// C13 facts (go/ast only): the recover boundaries of the packages a query runs through.
//
// A recover boundary is a function (declaration or literal) with a statement
// `defer func() { … recover() … }()` directly in its body.  A panic raised below it (goexpr's
// SUBSTR/SPLIT/LEN on a value of an unexpected type in a WHERE / GROUP BY expression, a consumer
// callback, …) ends in that deferred closure; what the closure does with the recovered value
// decides whether the query's caller hears about it.  For every boundary in the scanned
// directories (., planner, web, rpc, rpc/server, core; _test files excluded):
//
//	assigns      identifiers assigned with `=` in the deferred closure that are not declared in it
//	namedErr     one of them is a NAMED result of the enclosing function whose type is `error`
//	             (only an assignment to a named result survives the unwinding: a local variable
//	             that the function `return`s was already copied to the result slot — or, after a
//	             panic, never was — so the caller gets the zero values `(false, nil)`)
//	sends        the closure contains a channel send (the planner's sub-query goroutine reports
//	             through its result channel)
//	hasErrResult the enclosing function has a result of type `error` (named or not)
//	reach        "named" if namedErr; else "send" if sends; else "void" if !hasErrResult (the
//	             function has no error to return: the closure only logs; ingestion and follow
//	             paths); else "lost"
//
// Props/C13.lean demands reach ≠ "lost" for every boundary and pins the five boundaries of the
// query path (table.go safeOnValue, planner sub-query goroutine, web doQuery, rpc/server Query,
// cluster_query.go queryForRemote) to their reach, so removing one of them is seen as well.

import (
	"fmt"
	"go/ast"
	"go/parser"
	"go/token"
	"os"
	"path/filepath"
	"sort"
	"strings"
)

func init() {
	factGens = append(factGens, factGen{"recover", genRecoverFacts})
}

type recoverBoundary struct {
	File         string   `json:"file"`
	Func         string   `json:"func"`
	Assigns      []string `json:"assigns"`
	NamedErr     bool     `json:"named_err"`
	Sends        bool     `json:"sends"`
	HasErrResult bool     `json:"has_err_result"`
	Reach        string   `json:"reach"`
	Line         int      `json:"line"`
}

var recoverDirs = []string{".", "planner", "web", "rpc", "rpc/server", "core"}

func rcCallsRecover(n ast.Node) bool {
	found := false
	ast.Inspect(n, func(m ast.Node) bool {
		if c, ok := m.(*ast.CallExpr); ok {
			if id, ok := c.Fun.(*ast.Ident); ok && id.Name == "recover" && len(c.Args) == 0 {
				found = true
			}
		}
		return !found
	})
	return found
}

// rcBoundary describes the deferred closure `lit` of the function with type `ft`.
func rcBoundary(fset *token.FileSet, file, name string, ft *ast.FuncType, lit *ast.FuncLit, pos token.Pos) recoverBoundary {
	b := recoverBoundary{File: file, Func: name, Line: fset.Position(pos).Line}
	namedErr := map[string]bool{}
	if ft.Results != nil {
		for _, f := range ft.Results.List {
			if id, ok := f.Type.(*ast.Ident); ok && id.Name == "error" {
				b.HasErrResult = true
				for _, n := range f.Names {
					if n.Name != "_" {
						namedErr[n.Name] = true
					}
				}
			}
		}
	}
	declared := map[string]bool{}
	assigned := map[string]bool{}
	ast.Inspect(lit.Body, func(m ast.Node) bool {
		switch t := m.(type) {
		case *ast.AssignStmt:
			for _, l := range t.Lhs {
				if id, ok := l.(*ast.Ident); ok && id.Name != "_" {
					if t.Tok == token.DEFINE {
						declared[id.Name] = true
					} else {
						assigned[id.Name] = true
					}
				}
			}
		case *ast.ValueSpec:
			for _, n := range t.Names {
				declared[n.Name] = true
			}
		case *ast.SendStmt:
			b.Sends = true
		}
		return true
	})
	for n := range assigned {
		if declared[n] {
			continue
		}
		b.Assigns = append(b.Assigns, n)
		if namedErr[n] {
			b.NamedErr = true
		}
	}
	sort.Strings(b.Assigns)
	switch {
	case b.NamedErr:
		b.Reach = "named"
	case b.Sends:
		b.Reach = "send"
	case !b.HasErrResult:
		b.Reach = "void"
	default:
		b.Reach = "lost"
	}
	return b
}

func extractRecover(repo string) ([]recoverBoundary, []string) {
	var out []recoverBoundary
	var errs []string
	for _, dir := range recoverDirs {
		ents, err := os.ReadDir(filepath.Join(repo, dir))
		if err != nil {
			errs = append(errs, "recover: cannot read "+dir+": "+err.Error())
			continue
		}
		for _, e := range ents {
			if e.IsDir() || !strings.HasSuffix(e.Name(), ".go") || strings.HasSuffix(e.Name(), "_test.go") {
				continue
			}
			rel := filepath.ToSlash(filepath.Join(dir, e.Name()))
			fset := token.NewFileSet()
			f, err := parser.ParseFile(fset, filepath.Join(repo, dir, e.Name()), nil, parser.SkipObjectResolution)
			if err != nil {
				errs = append(errs, "recover: cannot parse "+rel+": "+err.Error())
				continue
			}
			// visit every function body; the defer must stand in THAT function (not in a nested literal)
			var visitFunc func(name string, ft *ast.FuncType, body *ast.BlockStmt)
			visitFunc = func(name string, ft *ast.FuncType, body *ast.BlockStmt) {
				if body == nil {
					return
				}
				nlit := 0
				ast.Inspect(body, func(m ast.Node) bool {
					switch t := m.(type) {
					case *ast.DeferStmt:
						if lit, ok := t.Call.Fun.(*ast.FuncLit); ok && rcCallsRecover(lit.Body) {
							out = append(out, rcBoundary(fset, rel, name, ft, lit, t.Pos()))
							return false
						}
					case *ast.FuncLit:
						nlit++
						visitFunc(fmt.Sprintf("%s.func%d", name, nlit), t.Type, t.Body)
						return false
					}
					return true
				})
			}
			for _, d := range f.Decls {
				if fd, ok := d.(*ast.FuncDecl); ok {
					visitFunc(fd.Name.Name, fd.Type, fd.Body)
				}
			}
		}
	}
	if len(out) == 0 && len(errs) == 0 {
		errs = append(errs, "recover: no recover boundary found at all")
	}
	return out, errs
}

func genRecoverFacts(repo string) (string, []string, interface{}) {
	bs, errs := extractRecover(repo)
	var sb strings.Builder
	sb.WriteString("/-! C13: recover boundaries of the query path's packages (tools/extract/recoverfacts.go). -/\n")
	sb.WriteString("structure RecoverBoundary where\n  file : String\n  func : String\n  assigns : List String\n  namedErr : Bool\n  sends : Bool\n  hasErrResult : Bool\n  reach : String\nderiving DecidableEq, Repr\n\n")
	if len(errs) > 0 {
		sb.WriteString("-- extraction failed: " + strings.ReplaceAll(strings.Join(errs, "; "), "\n", " ") + "\n")
		sb.WriteString("example : False := by decide -- C13 recover-boundary facts could not be regenerated\n\n")
		return sb.String(), errs, map[string]interface{}{"failed": true}
	}
	sb.WriteString("def recoverBoundaries : List RecoverBoundary := [\n")
	for i, b := range bs {
		sep := ","
		if i == len(bs)-1 {
			sep = ""
		}
		var as []string
		for _, a := range b.Assigns {
			as = append(as, auLeanStr(a))
		}
		fmt.Fprintf(&sb, "  { file := %s, func := %s, assigns := [%s], namedErr := %s, sends := %s, hasErrResult := %s, reach := %s }%s  -- line %d\n",
			auLeanStr(b.File), auLeanStr(b.Func), strings.Join(as, ", "), auLeanBool(b.NamedErr), auLeanBool(b.Sends), auLeanBool(b.HasErrResult), auLeanStr(b.Reach), sep, b.Line)
	}
	sb.WriteString("]\n\n")
	return sb.String(), nil, map[string]interface{}{"recover_boundaries": bs}
}
