package main

// C19 facts (go/ast only, no type checking).
//
// rpc/server/rpc_server.go — every method that takes a grpc.ServerStream (found
// structurally, so a newly added stream handler shows up; `authorize`, the guard
// itself, is excluded by name and must exist) becomes
//
//	structure RpcHandler := { name, authorizeChecked, guardBeforeUse }
//
// authorizeChecked: at the TOP LEVEL of the body there is either
//	x := s.authorize(stream)  immediately followed by  if x != nil { return x }
// or
//	if x := s.authorize(stream); x != nil { return x }
// guardBeforeUse: that guard's statement index is smaller than the index of the first
// top-level statement (other than the guard) that auMentions `<recv>.db` or the stream
// parameter.  This is dominance approximated by statement order at the top level of
// the body (no CFG): a guard nested in a block is NOT counted, a use hidden in a
// helper that is called without the stream or s.db is NOT seen.
//
// web/*.go (non-test) — every route registration (calls of HandleFunc/Handle on a
// router and of HandlerFunc/Handler on a PathPrefix(..)/Path(..) chain) becomes
//
//	structure WebRoute := { path, prefixMatch, handler }   (handler = method name, "" if not a method value)
//
// and every method whose first two parameters are (http.ResponseWriter, *http.Request)
//
//	structure WebHandler := { name, guardFirst, delegatesTo }
//
// guardFirst: the first statement is `if !<recv>.authenticate(<p1>, <p2>) { ...; return }`
// (no init, no else, block ends in a bare return).  delegatesTo: the body is the single
// statement `<recv>.Y(<p1>, <p2>, ...)` (then Y, else "").
//
// Anything expected that is not found is a problem string (the run fails); an empty
// list is never emitted silently.

import (
	"fmt"
	"go/ast"
	"go/parser"
	"go/token"
	"os"
	"path/filepath"
	"sort"
	"strconv"
	"strings"
)

func init() {
	factGens = append(factGens, factGen{"auth", genAuthFacts})
}

func auLeanStr(s string) string { return strconv.Quote(s) }
func auLeanBool(b bool) string {
	if b {
		return "true"
	}
	return "false"
}

// auMentions reports whether node n contains the selector <x>.<sel> (sel == "" matches
// any reference to identifier x).
func auMentions(n ast.Node, x, sel string) bool {
	found := false
	ast.Inspect(n, func(m ast.Node) bool {
		if found || m == nil {
			return false
		}
		switch e := m.(type) {
		case *ast.SelectorExpr:
			if id, ok := e.X.(*ast.Ident); ok && id.Name == x && sel != "" && e.Sel.Name == sel {
				found = true
				return false
			}
		case *ast.Ident:
			if sel == "" && e.Name == x {
				found = true
				return false
			}
		}
		return true
	})
	return found
}

func auIsSel(e ast.Expr, x, sel string) bool {
	s, ok := e.(*ast.SelectorExpr)
	if !ok {
		return false
	}
	id, ok := s.X.(*ast.Ident)
	return ok && id.Name == x && s.Sel.Name == sel
}

func auIsIdent(e ast.Expr, name string) bool {
	id, ok := e.(*ast.Ident)
	return ok && id.Name == name
}

// recvName returns the receiver identifier and the receiver's base type name.
func auRecvOf(fd *ast.FuncDecl) (string, string) {
	if fd.Recv == nil || len(fd.Recv.List) != 1 {
		return "", ""
	}
	f := fd.Recv.List[0]
	name := ""
	if len(f.Names) == 1 {
		name = f.Names[0].Name
	}
	t := f.Type
	if st, ok := t.(*ast.StarExpr); ok {
		t = st.X
	}
	if id, ok := t.(*ast.Ident); ok {
		return name, id.Name
	}
	return name, ""
}

// auFlatParams lists (name, type) of all parameters in order.
func auFlatParams(fd *ast.FuncDecl) [][2]interface{} {
	var out [][2]interface{}
	if fd.Type.Params == nil {
		return out
	}
	for _, f := range fd.Type.Params.List {
		if len(f.Names) == 0 {
			out = append(out, [2]interface{}{"", f.Type})
			continue
		}
		for _, n := range f.Names {
			out = append(out, [2]interface{}{n.Name, f.Type})
		}
	}
	return out
}

// auIsAuthorizeCall: <recv>.authorize(<stream>)
func auIsAuthorizeCall(e ast.Expr, recv, stream string) bool {
	c, ok := e.(*ast.CallExpr)
	if !ok || !auIsSel(c.Fun, recv, "authorize") || len(c.Args) != 1 {
		return false
	}
	return auIsIdent(c.Args[0], stream)
}

// isErrCheckReturn: `if x != nil { return x }` (no init unless given, no else)
func auIsNilCheckReturning(s *ast.IfStmt, x string) bool {
	if s.Else != nil {
		return false
	}
	b, ok := s.Cond.(*ast.BinaryExpr)
	if !ok || b.Op != token.NEQ || !auIsIdent(b.X, x) || !auIsIdent(b.Y, "nil") {
		return false
	}
	if len(s.Body.List) != 1 {
		return false
	}
	r, ok := s.Body.List[0].(*ast.ReturnStmt)
	return ok && len(r.Results) == 1 && auIsIdent(r.Results[0], x)
}

// singleAssignFrom: `x := call` / `x = call` with one lhs ident; returns x.
func auSingleAssign(s ast.Stmt) (string, ast.Expr) {
	a, ok := s.(*ast.AssignStmt)
	if !ok || len(a.Lhs) != 1 || len(a.Rhs) != 1 {
		return "", nil
	}
	id, ok := a.Lhs[0].(*ast.Ident)
	if !ok || id.Name == "_" {
		return "", nil
	}
	return id.Name, a.Rhs[0]
}

type rpcHandlerFact struct {
	Name             string `json:"name"`
	AuthorizeChecked bool   `json:"authorize_checked"`
	GuardBeforeUse   bool   `json:"guard_before_use"`
	guardIdx         int
	firstUse         int
}

func analyseRpcHandler(fd *ast.FuncDecl, recv, stream string) rpcHandlerFact {
	h := rpcHandlerFact{Name: fd.Name.Name, guardIdx: -1, firstUse: -1}
	stmts := fd.Body.List
	guardStmts := map[int]bool{}
	for i, s := range stmts {
		// form 2: if x := s.authorize(stream); x != nil { return x }
		if ifs, ok := s.(*ast.IfStmt); ok && ifs.Init != nil {
			if x, rhs := auSingleAssign(ifs.Init); x != "" && auIsAuthorizeCall(rhs, recv, stream) && auIsNilCheckReturning(ifs, x) {
				h.guardIdx = i
				guardStmts[i] = true
				break
			}
		}
		// form 1: x := s.authorize(stream) ; if x != nil { return x }
		if x, rhs := auSingleAssign(s); x != "" && auIsAuthorizeCall(rhs, recv, stream) && i+1 < len(stmts) {
			if ifs, ok := stmts[i+1].(*ast.IfStmt); ok && ifs.Init == nil && auIsNilCheckReturning(ifs, x) {
				h.guardIdx = i
				guardStmts[i] = true
				guardStmts[i+1] = true
				break
			}
		}
	}
	for i, s := range stmts {
		if guardStmts[i] {
			continue
		}
		if auMentions(s, recv, "db") || auMentions(s, stream, "") {
			h.firstUse = i
			break
		}
	}
	h.AuthorizeChecked = h.guardIdx >= 0
	h.GuardBeforeUse = h.AuthorizeChecked && (h.firstUse < 0 || h.guardIdx < h.firstUse)
	return h
}

func extractRpcHandlers(repo string) ([]rpcHandlerFact, []string) {
	var errs []string
	path := filepath.Join(repo, "rpc", "server", "rpc_server.go")
	fset := token.NewFileSet()
	f, err := parser.ParseFile(fset, path, nil, 0)
	if err != nil {
		return nil, []string{fmt.Sprintf("C19 facts: cannot parse %s: %v", path, err)}
	}
	var out []rpcHandlerFact
	sawAuthorize := false
	for _, d := range f.Decls {
		fd, ok := d.(*ast.FuncDecl)
		if !ok || fd.Body == nil {
			continue
		}
		recv, _ := auRecvOf(fd)
		if recv == "" {
			continue
		}
		stream := ""
		for _, p := range auFlatParams(fd) {
			if auIsSel(p[1].(ast.Expr), "grpc", "ServerStream") {
				stream = p[0].(string)
			}
		}
		if stream == "" {
			continue
		}
		if fd.Name.Name == "authorize" {
			sawAuthorize = true
			continue
		}
		out = append(out, analyseRpcHandler(fd, recv, stream))
	}
	if !sawAuthorize {
		errs = append(errs, "C19 facts: method `authorize(stream grpc.ServerStream)` not found in rpc/server/rpc_server.go")
	}
	if len(out) == 0 {
		errs = append(errs, "C19 facts: no method with a grpc.ServerStream parameter found in rpc/server/rpc_server.go")
	}
	// cross-check with the rpc.Server interface (rpc/rpc.go): every interface method must
	// have been found as a handler (otherwise the structural search is missing something)
	ipath := filepath.Join(repo, "rpc", "rpc.go")
	if fi, err := parser.ParseFile(token.NewFileSet(), ipath, nil, 0); err != nil {
		errs = append(errs, fmt.Sprintf("C19 facts: cannot parse %s: %v", ipath, err))
	} else {
		have := map[string]bool{}
		for _, h := range out {
			have[h.Name] = true
		}
		foundIface := false
		ast.Inspect(fi, func(n ast.Node) bool {
			ts, ok := n.(*ast.TypeSpec)
			if !ok || ts.Name.Name != "Server" {
				return true
			}
			it, ok := ts.Type.(*ast.InterfaceType)
			if !ok {
				return true
			}
			foundIface = true
			for _, m := range it.Methods.List {
				for _, nm := range m.Names {
					if !have[nm.Name] {
						errs = append(errs, fmt.Sprintf("C19 facts: rpc.Server interface method %s has no handler with a grpc.ServerStream parameter in rpc_server.go", nm.Name))
					}
				}
			}
			return false
		})
		if !foundIface {
			errs = append(errs, "C19 facts: interface `Server` not found in rpc/rpc.go")
		}
	}
	return out, errs
}

type webRouteFact struct {
	Path        string `json:"path"`
	PrefixMatch bool   `json:"prefix"`
	Handler     string `json:"handler"`
	expr        string
	pos         token.Pos
}

type webHandlerFact struct {
	Name        string `json:"name"`
	GuardFirst  bool   `json:"guard_first"`
	DelegatesTo string `json:"delegates_to"`
}

func auStrLit(e ast.Expr) (string, bool) {
	b, ok := e.(*ast.BasicLit)
	if !ok || b.Kind != token.STRING {
		return "", false
	}
	s, err := strconv.Unquote(b.Value)
	return s, err == nil
}

// auChainPath walks down x.PathPrefix("..").Methods(..)... looking for the path.
func auChainPath(e ast.Expr) (path string, prefix bool, ok bool) {
	for {
		c, isCall := e.(*ast.CallExpr)
		if !isCall {
			return "", false, false
		}
		s, isSelector := c.Fun.(*ast.SelectorExpr)
		if !isSelector {
			return "", false, false
		}
		if (s.Sel.Name == "PathPrefix" || s.Sel.Name == "Path") && len(c.Args) == 1 {
			p, good := auStrLit(c.Args[0])
			return p, s.Sel.Name == "PathPrefix", good
		}
		e = s.X
	}
}

func auHandlerMethodName(e ast.Expr) string {
	if s, ok := e.(*ast.SelectorExpr); ok {
		if _, ok := s.X.(*ast.Ident); ok {
			return s.Sel.Name
		}
	}
	return ""
}

func auIsHTTPType(e ast.Expr, star bool, name string) bool {
	if star {
		st, ok := e.(*ast.StarExpr)
		if !ok {
			return false
		}
		e = st.X
	}
	return auIsSel(e, "http", name)
}

func extractWeb(repo string) ([]webRouteFact, []webHandlerFact, []string) {
	var errs []string
	dir := filepath.Join(repo, "web")
	entries, err := os.ReadDir(dir)
	if err != nil {
		return nil, nil, []string{fmt.Sprintf("C19 facts: cannot read %s: %v", dir, err)}
	}
	var names []string
	for _, e := range entries {
		if !e.IsDir() && strings.HasSuffix(e.Name(), ".go") && !strings.HasSuffix(e.Name(), "_test.go") {
			names = append(names, e.Name())
		}
	}
	sort.Strings(names)
	var routes []webRouteFact
	var handlers []webHandlerFact
	sawAuthenticate, sawConfigure := false, false
	for _, name := range names {
		fset := token.NewFileSet()
		f, err := parser.ParseFile(fset, filepath.Join(dir, name), nil, 0)
		if err != nil {
			errs = append(errs, fmt.Sprintf("C19 facts: cannot parse web/%s: %v", name, err))
			continue
		}
		for _, d := range f.Decls {
			fd, ok := d.(*ast.FuncDecl)
			if !ok || fd.Body == nil {
				continue
			}
			if fd.Recv == nil && fd.Name.Name == "Configure" {
				sawConfigure = true
			}
			// route registrations anywhere in this function
			ast.Inspect(fd.Body, func(n ast.Node) bool {
				c, ok := n.(*ast.CallExpr)
				if !ok {
					return true
				}
				s, ok := c.Fun.(*ast.SelectorExpr)
				if !ok {
					return true
				}
				switch s.Sel.Name {
				case "HandleFunc", "Handle":
					if len(c.Args) != 2 {
						return true
					}
					p, good := auStrLit(c.Args[0])
					if !good {
						errs = append(errs, fmt.Sprintf("C19 facts: web/%s: route registered with a non-literal path: %s", name, nodeText(fset, c)))
						return true
					}
					routes = append(routes, webRouteFact{Path: p, PrefixMatch: false, Handler: auHandlerMethodName(c.Args[1]), expr: nodeText(fset, c.Args[1]), pos: c.Pos()})
				case "HandlerFunc", "Handler":
					if len(c.Args) != 1 {
						return true
					}
					if id, isPkg := s.X.(*ast.Ident); isPkg && id.Name == "http" {
						return true // http.HandlerFunc(f) conversion, not a registration
					}
					p, prefix, good := auChainPath(s.X)
					if !good {
						errs = append(errs, fmt.Sprintf("C19 facts: web/%s: cannot determine the path of route registration %s", name, nodeText(fset, c)))
						return true
					}
					routes = append(routes, webRouteFact{Path: p, PrefixMatch: prefix, Handler: auHandlerMethodName(c.Args[0]), expr: nodeText(fset, c.Args[0]), pos: c.Pos()})
				}
				return true
			})
			// handler-shaped methods
			recv, rtype := auRecvOf(fd)
			if recv == "" || rtype == "" {
				continue
			}
			ps := auFlatParams(fd)
			if len(ps) < 2 || !auIsHTTPType(ps[0][1].(ast.Expr), false, "ResponseWriter") || !auIsHTTPType(ps[1][1].(ast.Expr), true, "Request") {
				continue
			}
			p1, p2 := ps[0][0].(string), ps[1][0].(string)
			if fd.Name.Name == "authenticate" {
				sawAuthenticate = true
				continue
			}
			h := webHandlerFact{Name: fd.Name.Name}
			stmts := fd.Body.List
			if len(stmts) > 0 {
				if ifs, ok := stmts[0].(*ast.IfStmt); ok && ifs.Init == nil && ifs.Else == nil {
					if u, ok := ifs.Cond.(*ast.UnaryExpr); ok && u.Op == token.NOT {
						if c, ok := u.X.(*ast.CallExpr); ok && auIsSel(c.Fun, recv, "authenticate") && len(c.Args) == 2 &&
							auIsIdent(c.Args[0], p1) && auIsIdent(c.Args[1], p2) && len(ifs.Body.List) > 0 {
							if r, ok := ifs.Body.List[len(ifs.Body.List)-1].(*ast.ReturnStmt); ok && len(r.Results) == 0 {
								h.GuardFirst = true
							}
						}
					}
				}
			}
			if len(stmts) == 1 {
				if es, ok := stmts[0].(*ast.ExprStmt); ok {
					if c, ok := es.X.(*ast.CallExpr); ok && len(c.Args) >= 2 && auIsIdent(c.Args[0], p1) && auIsIdent(c.Args[1], p2) {
						if s, ok := c.Fun.(*ast.SelectorExpr); ok && auIsIdent(s.X, recv) {
							h.DelegatesTo = s.Sel.Name
						}
					}
				}
			}
			handlers = append(handlers, h)
		}
	}
	if !sawConfigure {
		errs = append(errs, "C19 facts: func Configure not found in web/*.go")
	}
	if !sawAuthenticate {
		errs = append(errs, "C19 facts: method authenticate(http.ResponseWriter, *http.Request) not found in web/*.go")
	}
	if len(routes) == 0 {
		errs = append(errs, "C19 facts: no route registration (HandleFunc/Handle/HandlerFunc/Handler) found in web/*.go")
	}
	if len(handlers) == 0 {
		errs = append(errs, "C19 facts: no handler method (http.ResponseWriter, *http.Request, ...) found in web/*.go")
	}
	have := map[string]bool{}
	for _, h := range handlers {
		have[h.Name] = true
	}
	for _, r := range routes {
		if r.Handler != "" && !have[r.Handler] {
			errs = append(errs, fmt.Sprintf("C19 facts: route %s is served by %s, which is not a method (http.ResponseWriter, *http.Request, ...) found in web/*.go", r.Path, r.expr))
		}
	}
	for _, h := range handlers {
		if h.DelegatesTo != "" && !have[h.DelegatesTo] {
			errs = append(errs, fmt.Sprintf("C19 facts: handler %s delegates to %s, which was not found", h.Name, h.DelegatesTo))
		}
	}
	sort.SliceStable(handlers, func(i, j int) bool { return handlers[i].Name < handlers[j].Name })
	return routes, handlers, errs
}

func genAuthFacts(repo string) (string, []string, interface{}) {
	rpcs, errs := extractRpcHandlers(repo)
	routes, handlers, werrs := extractWeb(repo)
	errs = append(errs, werrs...)
	var sb strings.Builder
	sb.WriteString("/-! C19: authorization call sites (tools/extract/auth.go).\n")
	sb.WriteString("    `guardBeforeUse` is dominance approximated by statement order at the top level of the body. -/\n")
	sb.WriteString("structure RpcHandler where\n  name : String\n  authorizeChecked : Bool\n  guardBeforeUse : Bool\nderiving DecidableEq, Repr\n\n")
	sb.WriteString("structure WebRoute where\n  path : String\n  prefixMatch : Bool\n  handler : String\nderiving DecidableEq, Repr\n\n")
	sb.WriteString("structure WebHandler where\n  name : String\n  guardFirst : Bool\n  delegatesTo : String\nderiving DecidableEq, Repr\n\n")
	if len(errs) > 0 {
		// never leave usable (possibly empty) tables behind when extraction failed
		sb.WriteString("-- extraction failed: " + strings.ReplaceAll(strings.Join(errs, "; "), "\n", " ") + "\n")
		sb.WriteString("example : False := by decide -- C19 facts could not be regenerated\n\n")
		return sb.String(), errs, map[string]interface{}{"failed": true}
	}
	sb.WriteString("/-- rpc/server/rpc_server.go: methods taking a grpc.ServerStream (except `authorize`), in source order -/\n")
	sb.WriteString("def rpcHandlers : List RpcHandler := [\n")
	for i, h := range rpcs {
		sep := ","
		if i == len(rpcs)-1 {
			sep = ""
		}
		fmt.Fprintf(&sb, "  { name := %s, authorizeChecked := %s, guardBeforeUse := %s }%s\n", auLeanStr(h.Name), auLeanBool(h.AuthorizeChecked), auLeanBool(h.GuardBeforeUse), sep)
	}
	sb.WriteString("]\n\n")
	sb.WriteString("/-- web/*.go: route registrations in registration order (handler = method name, \"\" when not a method value) -/\n")
	sb.WriteString("def webRoutes : List WebRoute := [\n")
	for i, r := range routes {
		sep := ","
		if i == len(routes)-1 {
			sep = ""
		}
		fmt.Fprintf(&sb, "  { path := %s, prefixMatch := %s, handler := %s }%s  -- %s\n", auLeanStr(r.Path), auLeanBool(r.PrefixMatch), auLeanStr(r.Handler), sep, strings.ReplaceAll(r.expr, "\n", " "))
	}
	sb.WriteString("]\n\n")
	sb.WriteString("/-- web/*.go: methods (http.ResponseWriter, *http.Request, ...) except `authenticate`, sorted by name -/\n")
	sb.WriteString("def webHandlers : List WebHandler := [\n")
	for i, h := range handlers {
		sep := ","
		if i == len(handlers)-1 {
			sep = ""
		}
		fmt.Fprintf(&sb, "  { name := %s, guardFirst := %s, delegatesTo := %s }%s\n", auLeanStr(h.Name), auLeanBool(h.GuardFirst), auLeanStr(h.DelegatesTo), sep)
	}
	sb.WriteString("]\n\n")
	return sb.String(), nil, map[string]interface{}{"rpc_handlers": rpcs, "web_routes": routes, "web_handlers": handlers}
}
