package main

// C13 facts (go/ast only): the exits of the receive loop of rpc/server/rpc_server.go
// HandleRemoteQueries — the leader-side handler that sends a query to one follower and relays
// its rows to queryCluster.  How the loop is left decides whether queryCluster counts the
// partition as successful (nil error), retries it on another handler (common.Retriable) or
// lists it as missing (any other error).
//
// The loop is the `for` statement inside the func literal passed to RegisterQueryHandler whose
// body calls `<stream>.RecvMsg`.  Its exits are the `break` statements that leave it (unlabelled
// ones not nested in an inner for / switch / select, labelled ones naming its label) and the
// `return` statements in it (func literals excluded).  For each exit:
//
//	cond      the conditions of the enclosing `if`s inside the loop, innermost first, joined by
//	          " && " (an else branch contributes "!(cond)")
//	setsErr   break: a statement `finalErr = …` / `finalErr := …` stands directly in one of the
//	          enclosing blocks before the exit; return: the last result is not the identifier nil
//	afterEnd  cond mentions `EndOfResults` un-negated (the end-of-results message was received)
//
// Props/C13.lean demands setsErr ∨ afterEnd for every exit: a new exit that silently ends the
// loop (e.g. on io.EOF) fails that obligation.

import (
	"fmt"
	"go/ast"
	"go/parser"
	"go/token"
	"path/filepath"
	"strings"
)

func init() {
	factGens = append(factGens, factGen{"remoteloop", genRemoteLoopFacts})
}

type remoteLoopExit struct {
	Kind     string `json:"kind"`
	Cond     string `json:"cond"`
	SetsErr  bool   `json:"sets_err"`
	AfterEnd bool   `json:"after_end"`
	Line     int    `json:"line"`
}

func rlContainsRecv(n ast.Node) bool {
	found := false
	ast.Inspect(n, func(m ast.Node) bool {
		if c, ok := m.(*ast.CallExpr); ok {
			if s, ok := c.Fun.(*ast.SelectorExpr); ok && s.Sel.Name == "RecvMsg" {
				found = true
			}
		}
		return !found
	})
	return found
}

func rlAssignsFinalErr(s ast.Stmt) bool {
	a, ok := s.(*ast.AssignStmt)
	if !ok {
		return false
	}
	for _, l := range a.Lhs {
		if id, ok := l.(*ast.Ident); ok && id.Name == "finalErr" {
			return true
		}
	}
	return false
}

type rlFrame struct {
	cond  string
	block *ast.BlockStmt
}

func extractRemoteLoop(repo string) ([]remoteLoopExit, []string) {
	path := filepath.Join(repo, "rpc", "server", "rpc_server.go")
	fset := token.NewFileSet()
	f, err := parser.ParseFile(fset, path, nil, parser.SkipObjectResolution)
	if err != nil {
		return nil, []string{"remoteloop: cannot parse rpc_server.go: " + err.Error()}
	}
	var fd *ast.FuncDecl
	for _, d := range f.Decls {
		if x, ok := d.(*ast.FuncDecl); ok && x.Name.Name == "HandleRemoteQueries" && x.Body != nil {
			fd = x
		}
	}
	if fd == nil {
		return nil, []string{"remoteloop: HandleRemoteQueries not found in rpc/server/rpc_server.go"}
	}
	// the handler closure: the func literal passed to RegisterQueryHandler
	var lit *ast.FuncLit
	ast.Inspect(fd.Body, func(n ast.Node) bool {
		if c, ok := n.(*ast.CallExpr); ok && lit == nil {
			if s, ok := c.Fun.(*ast.SelectorExpr); ok && s.Sel.Name == "RegisterQueryHandler" {
				for _, a := range c.Args {
					if fl, ok := a.(*ast.FuncLit); ok {
						lit = fl
					}
				}
			}
		}
		return lit == nil
	})
	if lit == nil {
		return nil, []string{"remoteloop: no func literal is passed to RegisterQueryHandler in HandleRemoteQueries"}
	}
	// the receive loop and its label
	var loop *ast.ForStmt
	label := ""
	var find func(stmts []ast.Stmt)
	find = func(stmts []ast.Stmt) {
		for _, s := range stmts {
			lbl := ""
			if ls, ok := s.(*ast.LabeledStmt); ok {
				lbl = ls.Label.Name
				s = ls.Stmt
			}
			if fs, ok := s.(*ast.ForStmt); ok && loop == nil && rlContainsRecv(fs.Body) {
				loop, label = fs, lbl
				return
			}
		}
	}
	find(lit.Body.List)
	if loop == nil {
		return nil, []string{"remoteloop: no top-level for loop calling RecvMsg in the handler closure"}
	}
	var exits []remoteLoopExit
	var walk func(stmts []ast.Stmt, frames []rlFrame, breakable bool)
	condOf := func(frames []rlFrame) string {
		var cs []string
		for i := len(frames) - 1; i >= 0; i-- {
			if frames[i].cond != "" {
				cs = append(cs, frames[i].cond)
			}
		}
		return strings.Join(cs, " && ")
	}
	setsBefore := func(frames []rlFrame, pos token.Pos) bool {
		for _, fr := range frames {
			for _, s := range fr.block.List {
				if s.Pos() < pos && rlAssignsFinalErr(s) {
					return true
				}
			}
		}
		return false
	}
	add := func(kind string, frames []rlFrame, pos token.Pos, setsErr bool) {
		c := strings.Join(strings.Fields(condOf(frames)), " ")
		after := false
		for _, part := range strings.Split(c, " && ") {
			if strings.Contains(part, "EndOfResults") && !strings.HasPrefix(part, "!(") && !strings.Contains(part, "!m.EndOfResults") {
				after = true
			}
		}
		exits = append(exits, remoteLoopExit{Kind: kind, Cond: c, SetsErr: setsErr, AfterEnd: after, Line: fset.Position(pos).Line})
	}
	// breakable: an unlabelled break here leaves OUR loop
	walk = func(stmts []ast.Stmt, frames []rlFrame, breakable bool) {
		for _, s := range stmts {
			switch t := s.(type) {
			case *ast.BranchStmt:
				if t.Tok == token.BREAK && ((t.Label == nil && breakable) || (t.Label != nil && t.Label.Name == label && label != "")) {
					add("break", frames, t.Pos(), setsBefore(frames, t.Pos()))
				}
			case *ast.ReturnStmt:
				sets := false
				if n := len(t.Results); n > 0 {
					id, isIdent := t.Results[n-1].(*ast.Ident)
					sets = !(isIdent && id.Name == "nil")
				}
				add("return", frames, t.Pos(), sets)
			case *ast.IfStmt:
				cond := nodeText(fset, t.Cond)
				walk(t.Body.List, append(append([]rlFrame{}, frames...), rlFrame{cond, t.Body}), breakable)
				switch e := t.Else.(type) {
				case *ast.BlockStmt:
					walk(e.List, append(append([]rlFrame{}, frames...), rlFrame{"!(" + cond + ")", e}), breakable)
				case *ast.IfStmt:
					blk := &ast.BlockStmt{List: []ast.Stmt{e}}
					walk(blk.List, append(append([]rlFrame{}, frames...), rlFrame{"!(" + cond + ")", blk}), breakable)
				}
			case *ast.BlockStmt:
				walk(t.List, append(append([]rlFrame{}, frames...), rlFrame{"", t}), breakable)
			case *ast.ForStmt:
				walk(t.Body.List, append(append([]rlFrame{}, frames...), rlFrame{"", t.Body}), false)
			case *ast.RangeStmt:
				walk(t.Body.List, append(append([]rlFrame{}, frames...), rlFrame{"", t.Body}), false)
			case *ast.SwitchStmt:
				for _, cc := range t.Body.List {
					if c, ok := cc.(*ast.CaseClause); ok {
						blk := &ast.BlockStmt{List: c.Body}
						walk(c.Body, append(append([]rlFrame{}, frames...), rlFrame{"case", blk}), false)
					}
				}
			case *ast.TypeSwitchStmt:
				for _, cc := range t.Body.List {
					if c, ok := cc.(*ast.CaseClause); ok {
						blk := &ast.BlockStmt{List: c.Body}
						walk(c.Body, append(append([]rlFrame{}, frames...), rlFrame{"case", blk}), false)
					}
				}
			case *ast.SelectStmt:
				for _, cc := range t.Body.List {
					if c, ok := cc.(*ast.CommClause); ok {
						blk := &ast.BlockStmt{List: c.Body}
						walk(c.Body, append(append([]rlFrame{}, frames...), rlFrame{"case", blk}), false)
					}
				}
			case *ast.LabeledStmt:
				walk([]ast.Stmt{t.Stmt}, frames, breakable)
			}
		}
	}
	walk(loop.Body.List, []rlFrame{{"", loop.Body}}, true)
	if len(exits) == 0 {
		return nil, []string{"remoteloop: the receive loop of HandleRemoteQueries has no exit"}
	}
	return exits, nil
}

func genRemoteLoopFacts(repo string) (string, []string, interface{}) {
	exits, errs := extractRemoteLoop(repo)
	var sb strings.Builder
	sb.WriteString("/-! C13: exits of the receive loop of rpc/server HandleRemoteQueries (tools/extract/remoteloop.go). -/\n")
	sb.WriteString("structure RemoteLoopExit where\n  kind : String\n  cond : String\n  setsErr : Bool\n  afterEnd : Bool\nderiving DecidableEq, Repr\n\n")
	if len(errs) > 0 {
		sb.WriteString("-- extraction failed: " + strings.ReplaceAll(strings.Join(errs, "; "), "\n", " ") + "\n")
		sb.WriteString("example : False := by decide -- C13 remote-loop facts could not be regenerated\n\n")
		return sb.String(), errs, map[string]interface{}{"failed": true}
	}
	sb.WriteString("def remoteLoopExits : List RemoteLoopExit := [\n")
	for i, e := range exits {
		sep := ","
		if i == len(exits)-1 {
			sep = ""
		}
		fmt.Fprintf(&sb, "  { kind := %s, cond := %s, setsErr := %s, afterEnd := %s }%s  -- line %d\n",
			auLeanStr(e.Kind), auLeanStr(e.Cond), auLeanBool(e.SetsErr), auLeanBool(e.AfterEnd), sep, e.Line)
	}
	sb.WriteString("]\n\n")
	return sb.String(), nil, map[string]interface{}{"remote_loop_exits": exits}
}
