package main

// C16 facts (go/ast): for the code that turns client input into queries and
// points,
//   * every single-value type assertion `x.(T)` (not `v, ok := x.(T)`, not the
//     tag of a type switch) with file, enclosing function, asserted type, the
//     source text of `x`, and whether it is guarded: inside a type-switch case
//     clause for the same expression and type, preceded in an enclosing block by
//     an `ok`-checked assertion of the same expression to the same type whose
//     failure leaves the function, inside `case T:` of a type switch on `y` after
//     `reflect.TypeOf(x) != reflect.TypeOf(y)` made the function return, or inside
//     a function with a deferred recover();
//   * the functions that have a deferred recover() (the boundaries the C16 model
//     relies on);
//   * the keys of the function dispatch tables of sql/sql.go and expr/math.go.
// Sites are identified by file + function + expression text, never by line.

import (
	"fmt"
	"go/ast"
	"go/parser"
	"go/token"
	"os"
	"path/filepath"
	"sort"
	"strconv"
	"strings"
)

func init() {
	factGens = append(factGens, factGen{"asserts", genAssertFacts})
}

// files scanned for assertion sites (globs relative to the repository root)
var asAssertScope = []string{"sql/*.go", "planner/*.go", "core/*.go", "insert.go", "query.go", "web/insert.go", "rpc/server/rpc_server.go"}

// files scanned for deferred recover()
var asRecoverScope = []string{"insert.go", "table.go", "query.go", "cluster_follow.go", "cluster_query.go", "web/query.go", "web/insert.go", "rpc/server/rpc_server.go", "sql/*.go", "planner/*.go"}

type asSite struct {
	file, fn, typ, expr string
	guarded             bool
	why                 string
}

func asLeanStr(s string) string { return strconv.Quote(s) }

func asOneLine(s string) string { return strings.Join(strings.Fields(s), " ") }

func asExpandScope(repo string, globs []string) ([]string, []string) {
	var files, errs []string
	for _, g := range globs {
		m, err := filepath.Glob(filepath.Join(repo, g))
		if err != nil || len(m) == 0 {
			errs = append(errs, fmt.Sprintf("asserts: no file matches %s", g))
			continue
		}
		for _, f := range m {
			if strings.HasSuffix(f, "_test.go") {
				continue
			}
			files = append(files, f)
		}
	}
	sort.Strings(files)
	return files, errs
}

func asFuncName(fd *ast.FuncDecl, fset *token.FileSet) string {
	if fd.Recv != nil && len(fd.Recv.List) > 0 {
		return "(" + asOneLine(nodeText(fset, fd.Recv.List[0].Type)) + ")." + fd.Name.Name
	}
	return fd.Name.Name
}

// asHasDeferredRecover: `defer func() { ... recover() ... }()` directly in the body.
func asHasDeferredRecover(body *ast.BlockStmt) bool {
	if body == nil {
		return false
	}
	for _, st := range body.List {
		ds, ok := st.(*ast.DeferStmt)
		if !ok {
			continue
		}
		fl, ok := ds.Call.Fun.(*ast.FuncLit)
		if !ok {
			continue
		}
		found := false
		ast.Inspect(fl.Body, func(n ast.Node) bool {
			if ce, ok := n.(*ast.CallExpr); ok {
				if id, ok := ce.Fun.(*ast.Ident); ok && id.Name == "recover" && len(ce.Args) == 0 {
					found = true
				}
			}
			return !found
		})
		if found {
			return true
		}
	}
	return false
}

// asLeaves reports whether the statement list unconditionally leaves the function
// or loop iteration (return / panic / continue / break as last statement).
func asLeaves(list []ast.Stmt) bool {
	if len(list) == 0 {
		return false
	}
	switch s := list[len(list)-1].(type) {
	case *ast.ReturnStmt:
		return true
	case *ast.BranchStmt:
		return s.Tok == token.CONTINUE || s.Tok == token.BREAK
	case *ast.ExprStmt:
		if ce, ok := s.X.(*ast.CallExpr); ok {
			if id, ok := ce.Fun.(*ast.Ident); ok && id.Name == "panic" {
				return true
			}
		}
	}
	return false
}

type asWalker struct {
	fset   *token.FileSet
	file   string
	sites  []asSite
	typeEq [][2]string // pairs (x, y) whose dynamic types were checked to be equal at the top of the current function
}

// typeEqPairs finds, among the top-level statements of a function body,
//
//	if reflect.TypeOf(x) != reflect.TypeOf(y) { …leave… }
//
// (directly or through variables assigned from reflect.TypeOf).
func (w *asWalker) typeEqPairs(body *ast.BlockStmt) [][2]string {
	var out [][2]string
	typeOfVar := map[string]string{} // ident -> x of reflect.TypeOf(x)
	typeOfArg := func(e ast.Expr) string {
		if id, ok := e.(*ast.Ident); ok {
			return typeOfVar[id.Name]
		}
		ce, ok := e.(*ast.CallExpr)
		if !ok || len(ce.Args) != 1 {
			return ""
		}
		if asOneLine(nodeText(w.fset, ce.Fun)) != "reflect.TypeOf" {
			return ""
		}
		return asOneLine(nodeText(w.fset, ce.Args[0]))
	}
	for _, st := range body.List {
		switch s := st.(type) {
		case *ast.AssignStmt:
			if s.Tok == token.DEFINE && len(s.Lhs) == len(s.Rhs) {
				for i := range s.Lhs {
					if id, ok := s.Lhs[i].(*ast.Ident); ok {
						if x := typeOfArg(s.Rhs[i]); x != "" {
							typeOfVar[id.Name] = x
						}
					}
				}
			}
		case *ast.IfStmt:
			be, ok := s.Cond.(*ast.BinaryExpr)
			if !ok || be.Op != token.NEQ || !asLeaves(s.Body.List) {
				continue
			}
			x, y := typeOfArg(be.X), typeOfArg(be.Y)
			if x != "" && y != "" {
				out = append(out, [2]string{x, y}, [2]string{y, x})
			}
		}
	}
	return out
}

// okChecked looks, in the statements before index i of a block, for
//
//	v, ok := X.(T)   followed by   if !ok { …leave… }
//
// with the same X and T as the given assertion.
func (w *asWalker) okChecked(list []ast.Stmt, upto int, x, t string) bool {
	for i := 0; i < upto; i++ {
		as, ok := list[i].(*ast.AssignStmt)
		if !ok || len(as.Lhs) != 2 || len(as.Rhs) != 1 {
			continue
		}
		ta, ok := as.Rhs[0].(*ast.TypeAssertExpr)
		if !ok || ta.Type == nil {
			continue
		}
		if asOneLine(nodeText(w.fset, ta.X)) != x || asOneLine(nodeText(w.fset, ta.Type)) != t {
			continue
		}
		okName, isIdent := as.Lhs[1].(*ast.Ident)
		if !isIdent {
			continue
		}
		// the very next statements must contain `if !ok { leave }`
		for j := i + 1; j < upto; j++ {
			is, ok := list[j].(*ast.IfStmt)
			if !ok {
				continue
			}
			un, ok := is.Cond.(*ast.UnaryExpr)
			if !ok || un.Op != token.NOT {
				continue
			}
			if id, ok := un.X.(*ast.Ident); ok && id.Name == okName.Name && asLeaves(is.Body.List) {
				return true
			}
		}
	}
	return false
}

type asFrame struct {
	list []ast.Stmt // statements of an enclosing block
	idx  int        // index of the statement we are inside
}

type asTsCase struct {
	x     string   // switched expression
	types []string // types of the case clause we are inside
}

func (w *asWalker) walkFunc(fn string, recovered bool, body *ast.BlockStmt) {
	if body == nil {
		return
	}
	w.typeEq = w.typeEqPairs(body)
	w.walkStmts(fn, recovered, body.List, nil, nil)
	w.typeEq = nil
}

func (w *asWalker) walkStmts(fn string, recovered bool, list []ast.Stmt, frames []asFrame, cases []asTsCase) {
	for i, st := range list {
		fr := append(append([]asFrame{}, frames...), asFrame{list, i})
		w.walkStmt(fn, recovered, st, fr, cases)
	}
}

func (w *asWalker) walkStmt(fn string, recovered bool, st ast.Stmt, frames []asFrame, cases []asTsCase) {
	switch s := st.(type) {
	case *ast.BlockStmt:
		w.walkStmts(fn, recovered, s.List, frames, cases)
	case *ast.IfStmt:
		if s.Init != nil {
			w.walkStmt(fn, recovered, s.Init, frames, cases)
		}
		w.walkExpr(fn, recovered, s.Cond, frames, cases, false)
		w.walkStmts(fn, recovered, s.Body.List, frames, cases)
		if s.Else != nil {
			w.walkStmt(fn, recovered, s.Else, frames, cases)
		}
	case *ast.ForStmt:
		if s.Init != nil {
			w.walkStmt(fn, recovered, s.Init, frames, cases)
		}
		if s.Cond != nil {
			w.walkExpr(fn, recovered, s.Cond, frames, cases, false)
		}
		if s.Post != nil {
			w.walkStmt(fn, recovered, s.Post, frames, cases)
		}
		w.walkStmts(fn, recovered, s.Body.List, frames, cases)
	case *ast.RangeStmt:
		w.walkExpr(fn, recovered, s.X, frames, cases, false)
		w.walkStmts(fn, recovered, s.Body.List, frames, cases)
	case *ast.SwitchStmt:
		if s.Init != nil {
			w.walkStmt(fn, recovered, s.Init, frames, cases)
		}
		if s.Tag != nil {
			w.walkExpr(fn, recovered, s.Tag, frames, cases, false)
		}
		for _, c := range s.Body.List {
			cc := c.(*ast.CaseClause)
			for _, e := range cc.List {
				w.walkExpr(fn, recovered, e, frames, cases, false)
			}
			w.walkStmts(fn, recovered, cc.Body, frames, cases)
		}
	case *ast.TypeSwitchStmt:
		if s.Init != nil {
			w.walkStmt(fn, recovered, s.Init, frames, cases)
		}
		// the tag `x.(type)` itself is not a site
		var tag *ast.TypeAssertExpr
		switch a := s.Assign.(type) {
		case *ast.AssignStmt:
			tag, _ = a.Rhs[0].(*ast.TypeAssertExpr)
		case *ast.ExprStmt:
			tag, _ = a.X.(*ast.TypeAssertExpr)
		}
		x := ""
		if tag != nil {
			x = asOneLine(nodeText(w.fset, tag.X))
			w.walkExpr(fn, recovered, tag.X, frames, cases, false)
		}
		for _, c := range s.Body.List {
			cc := c.(*ast.CaseClause)
			var ts []string
			for _, e := range cc.List {
				ts = append(ts, asOneLine(nodeText(w.fset, e)))
			}
			w.walkStmts(fn, recovered, cc.Body, frames, append(append([]asTsCase{}, cases...), asTsCase{x, ts}))
		}
	case *ast.SelectStmt:
		for _, c := range s.Body.List {
			cc := c.(*ast.CommClause)
			if cc.Comm != nil {
				w.walkStmt(fn, recovered, cc.Comm, frames, cases)
			}
			w.walkStmts(fn, recovered, cc.Body, frames, cases)
		}
	case *ast.AssignStmt:
		twoValue := len(s.Lhs) == 2 && len(s.Rhs) == 1
		for _, e := range s.Lhs {
			w.walkExpr(fn, recovered, e, frames, cases, false)
		}
		for _, e := range s.Rhs {
			w.walkExpr(fn, recovered, e, frames, cases, twoValue)
		}
	case *ast.DeclStmt:
		if gd, ok := s.Decl.(*ast.GenDecl); ok {
			for _, sp := range gd.Specs {
				if vs, ok := sp.(*ast.ValueSpec); ok {
					twoValue := len(vs.Names) == 2 && len(vs.Values) == 1
					for _, e := range vs.Values {
						w.walkExpr(fn, recovered, e, frames, cases, twoValue)
					}
				}
			}
		}
	case *ast.ExprStmt:
		w.walkExpr(fn, recovered, s.X, frames, cases, false)
	case *ast.ReturnStmt:
		for _, e := range s.Results {
			w.walkExpr(fn, recovered, e, frames, cases, false)
		}
	case *ast.GoStmt:
		w.walkExpr(fn, recovered, s.Call, frames, cases, false)
	case *ast.DeferStmt:
		w.walkExpr(fn, recovered, s.Call, frames, cases, false)
	case *ast.SendStmt:
		w.walkExpr(fn, recovered, s.Chan, frames, cases, false)
		w.walkExpr(fn, recovered, s.Value, frames, cases, false)
	case *ast.IncDecStmt:
		w.walkExpr(fn, recovered, s.X, frames, cases, false)
	case *ast.LabeledStmt:
		w.walkStmt(fn, recovered, s.Stmt, frames, cases)
	}
}

// walkExpr visits an expression; commaOk says that e itself is the right-hand
// side of a two-value assignment (then e, if an assertion, is the checked form).
func (w *asWalker) walkExpr(fn string, recovered bool, e ast.Expr, frames []asFrame, cases []asTsCase, commaOk bool) {
	if e == nil {
		return
	}
	if ta, ok := e.(*ast.TypeAssertExpr); ok && ta.Type != nil {
		if !commaOk {
			w.record(fn, recovered, ta, frames, cases)
		}
		w.walkExpr(fn, recovered, ta.X, frames, cases, false)
		return
	}
	ast.Inspect(e, func(n ast.Node) bool {
		switch x := n.(type) {
		case *ast.FuncLit:
			// a closure: same enclosing function name; its own deferred recover counts too
			w.walkStmts(fn, recovered || asHasDeferredRecover(x.Body), x.Body.List, nil, cases)
			return false
		case *ast.TypeAssertExpr:
			if x == e {
				return true
			}
			if x.Type != nil {
				w.record(fn, recovered, x, frames, cases)
			}
			w.walkExpr(fn, recovered, x.X, frames, cases, false)
			return false
		}
		return true
	})
}

func (w *asWalker) record(fn string, recovered bool, ta *ast.TypeAssertExpr, frames []asFrame, cases []asTsCase) {
	x := asOneLine(nodeText(w.fset, ta.X))
	t := asOneLine(nodeText(w.fset, ta.Type))
	site := asSite{file: w.file, fn: fn, typ: t, expr: x}
	switch {
	case recovered:
		site.guarded, site.why = true, "recover"
	default:
		for _, c := range cases {
			if c.x == x && len(c.types) == 1 && c.types[0] == t {
				site.guarded, site.why = true, "typeswitch"
			}
		}
		if !site.guarded {
			// inside `case T:` of a type switch on y, after the dynamic types of x and y were checked to be equal
			for _, c := range cases {
				if len(c.types) == 1 && c.types[0] == t {
					for _, p := range w.typeEq {
						if p[0] == x && p[1] == c.x {
							site.guarded, site.why = true, "reflect"
						}
					}
				}
			}
		}
		if !site.guarded {
			for _, fr := range frames {
				if w.okChecked(fr.list, fr.idx, x, t) {
					site.guarded, site.why = true, "okcheck"
					break
				}
			}
		}
	}
	w.sites = append(w.sites, site)
}

func genAssertFacts(repo string) (string, []string, interface{}) {
	var errs []string
	var sb strings.Builder
	sb.WriteString("/-- one single-value type assertion `x.(T)` in the code that handles client input (C16) -/\n")
	sb.WriteString("structure AssertSite where\n  file : String\n  fn : String\n  typ : String\n  expr : String\n  guarded : Bool\n  why : String\nderiving Repr, DecidableEq\n\n")

	files, e1 := asExpandScope(repo, asAssertScope)
	errs = append(errs, e1...)
	var sites []asSite
	for _, path := range files {
		fset := token.NewFileSet()
		f, err := parser.ParseFile(fset, path, nil, 0)
		if err != nil {
			errs = append(errs, fmt.Sprintf("asserts: %v", err))
			continue
		}
		rel, _ := filepath.Rel(repo, path)
		w := &asWalker{fset: fset, file: filepath.ToSlash(rel)}
		for _, d := range f.Decls {
			switch x := d.(type) {
			case *ast.FuncDecl:
				w.walkFunc(asFuncName(x, fset), asHasDeferredRecover(x.Body), x.Body)
			case *ast.GenDecl:
				for _, sp := range x.Specs {
					if vs, ok := sp.(*ast.ValueSpec); ok {
						name := "var"
						if len(vs.Names) > 0 {
							name = "var " + vs.Names[0].Name
						}
						for _, v := range vs.Values {
							w.walkExpr(name, false, v, nil, nil, false)
						}
					}
				}
			}
		}
		sites = append(sites, w.sites...)
	}
	sort.SliceStable(sites, func(i, j int) bool {
		a, b := sites[i], sites[j]
		if a.file != b.file {
			return a.file < b.file
		}
		if a.fn != b.fn {
			return a.fn < b.fn
		}
		if a.expr != b.expr {
			return a.expr < b.expr
		}
		return a.typ < b.typ
	})
	sb.WriteString("def assertSites : List AssertSite := [\n")
	nUnguarded := 0
	for i, s := range sites {
		if !s.guarded {
			nUnguarded++
		}
		sep := ","
		if i == len(sites)-1 {
			sep = ""
		}
		fmt.Fprintf(&sb, "  ⟨%s, %s, %s, %s, %v, %s⟩%s\n", asLeanStr(s.file), asLeanStr(s.fn), asLeanStr(s.typ), asLeanStr(s.expr), s.guarded, asLeanStr(s.why), sep)
	}
	sb.WriteString("]\n\n")

	// ---- functions with a deferred recover()
	rfiles, e2 := asExpandScope(repo, asRecoverScope)
	errs = append(errs, e2...)
	var recs [][2]string
	for _, path := range rfiles {
		fset := token.NewFileSet()
		f, err := parser.ParseFile(fset, path, nil, 0)
		if err != nil {
			errs = append(errs, fmt.Sprintf("asserts: %v", err))
			continue
		}
		rel, _ := filepath.Rel(repo, path)
		for _, d := range f.Decls {
			fd, ok := d.(*ast.FuncDecl)
			if !ok || fd.Body == nil {
				continue
			}
			if asHasDeferredRecover(fd.Body) {
				recs = append(recs, [2]string{filepath.ToSlash(rel), asFuncName(fd, fset)})
			}
			// goroutines started by the function that protect themselves
			seen := false
			ast.Inspect(fd.Body, func(n ast.Node) bool {
				if gs, ok := n.(*ast.GoStmt); ok {
					if fl, ok := gs.Call.Fun.(*ast.FuncLit); ok && asHasDeferredRecover(fl.Body) && !seen {
						seen = true
						recs = append(recs, [2]string{filepath.ToSlash(rel), asFuncName(fd, fset) + " (goroutine)"})
					}
				}
				return true
			})
		}
	}
	sort.Slice(recs, func(i, j int) bool { return recs[i][0]+recs[i][1] < recs[j][0]+recs[j][1] })
	sb.WriteString("/-- functions with a deferred `recover()` (file, function) -/\ndef recoverFuncs : List (String × String) := [\n")
	for i, r := range recs {
		sep := ","
		if i == len(recs)-1 {
			sep = ""
		}
		fmt.Fprintf(&sb, "  (%s, %s)%s\n", asLeanStr(r[0]), asLeanStr(r[1]), sep)
	}
	sb.WriteString("]\n\n")

	// ---- dispatch tables: keys of the package-level map literals
	tables := map[string][]string{}
	order := []string{}
	for _, spec := range []struct{ file string }{{"sql/sql.go"}, {"expr/math.go"}} {
		path := filepath.Join(repo, spec.file)
		if _, err := os.Stat(path); err != nil {
			errs = append(errs, fmt.Sprintf("asserts: %v", err))
			continue
		}
		fset := token.NewFileSet()
		f, err := parser.ParseFile(fset, path, nil, 0)
		if err != nil {
			errs = append(errs, fmt.Sprintf("asserts: %v", err))
			continue
		}
		for _, d := range f.Decls {
			gd, ok := d.(*ast.GenDecl)
			if !ok || gd.Tok != token.VAR {
				continue
			}
			for _, sp := range gd.Specs {
				vs, ok := sp.(*ast.ValueSpec)
				if !ok || len(vs.Names) != 1 || len(vs.Values) != 1 {
					continue
				}
				cl, ok := vs.Values[0].(*ast.CompositeLit)
				if !ok {
					continue
				}
				mt, ok := cl.Type.(*ast.MapType)
				if !ok {
					continue
				}
				if id, ok := mt.Key.(*ast.Ident); !ok || id.Name != "string" {
					continue
				}
				var keys []string
				for _, el := range cl.Elts {
					kv, ok := el.(*ast.KeyValueExpr)
					if !ok {
						continue
					}
					bl, ok := kv.Key.(*ast.BasicLit)
					if !ok || bl.Kind != token.STRING {
						errs = append(errs, fmt.Sprintf("asserts: non-literal key in %s", vs.Names[0].Name))
						continue
					}
					k, _ := strconv.Unquote(bl.Value)
					keys = append(keys, k)
				}
				name := vs.Names[0].Name
				tables[name] = keys
				order = append(order, name)
			}
		}
	}
	sb.WriteString("/-- keys of the string-keyed map literals of sql/sql.go and expr/math.go, in source order -/\ndef sqlFuncTables : List (String × List String) := [\n")
	for i, name := range order {
		qs := make([]string, len(tables[name]))
		for j, k := range tables[name] {
			qs[j] = asLeanStr(k)
		}
		sep := ","
		if i == len(order)-1 {
			sep = ""
		}
		fmt.Fprintf(&sb, "  (%s, [%s])%s\n", asLeanStr(name), strings.Join(qs, ", "), sep)
	}
	sb.WriteString("]\n\n")

	consts, ops, e3 := asCrosshiftFacts(repo)
	errs = append(errs, e3...)
	sb.WriteString("/-- integer constants declared at package level in sql/sql.go (name, value) -/\ndef sqlConsts : List (String × Int) := [\n")
	for i, c := range consts {
		sep := ","
		if i == len(consts)-1 {
			sep = ""
		}
		fmt.Fprintf(&sb, "  (%s, (%s : Int))%s\n", asLeanStr(c[0]), c[1], sep)
	}
	sb.WriteString("]\n\n")
	sb.WriteString("/-- the statements of (*selectClause).addCrosshiftExpr that read or write cutoff, interval and limit, in source order -/\ndef crosshiftOps : List String := [")
	for i, o := range ops {
		if i > 0 {
			sb.WriteString(", ")
		}
		sb.WriteString(asLeanStr(o))
	}
	sb.WriteString("]\n\n")

	shape, e4 := asPrescanShape(repo)
	errs = append(errs, e4...)
	sb.WriteString("/-- control skeleton of sql.checkLiteralIdentifiers (the pre-scan that must agree with sqlparser's tokenizer): every branch\n    condition, loop header, return and update of the position, in source order -/\ndef prescanShape : List String := [\n")
	for i, l := range shape {
		sep := ","
		if i == len(shape)-1 {
			sep = ""
		}
		fmt.Fprintf(&sb, "  %s%s\n", asLeanStr(l), sep)
	}
	sb.WriteString("]\n\n")

	return sb.String(), errs, map[string]interface{}{"assert_sites": len(sites), "unguarded": nUnguarded, "recover_funcs": len(recs), "tables": len(order),
		"sql_consts": len(consts), "crosshift_ops": ops, "prescan_shape": len(shape)}
}

// ---- numeric guards of CROSSHIFT (C16 update: sign / magnitude of client-controlled parameters)

// asCrosshiftFacts extracts (1) the integer constants of sql/sql.go and (2) the order of the
// statements of addCrosshiftExpr that decide how often its loop runs.  Each recognised
// statement becomes one op name; a statement that touches cutoff / interval / limit in a way
// the extractor does not recognise becomes "other:<source text>", which no expectation matches.
//
//	parseCutoff    cutoff, … := nodeToDuration(e.Exprs[1])
//	zeroCutoff     if cutoff == 0 { return … }
//	parseInterval  interval, … := nodeToDuration(e.Exprs[2])
//	zeroInterval   if interval == 0 { return … }
//	absInterval    if interval < 0 { interval = -1 * interval }
//	limitIsCutoff  limit := cutoff
//	absLimit       if cutoff < 0 { limit = cutoff * -1 }
//	cap            if limit/interval > maxCrosshiftFields { return … }
//	loop           for i := time.Duration(0); i < limit; i += interval { … }
//	loopGuarded    … whose body contains  if interval >= limit-i { break }
func asCrosshiftFacts(repo string) ([][2]string, []string, []string) {
	var errs []string
	path := filepath.Join(repo, "sql", "sql.go")
	fset := token.NewFileSet()
	f, err := parser.ParseFile(fset, path, nil, 0)
	if err != nil {
		return nil, nil, []string{fmt.Sprintf("asserts: %v", err)}
	}
	text := func(n ast.Node) string { return asOneLine(nodeText(fset, n)) }
	var consts [][2]string
	for _, d := range f.Decls {
		gd, ok := d.(*ast.GenDecl)
		if !ok || gd.Tok != token.CONST {
			continue
		}
		for _, sp := range gd.Specs {
			vs, ok := sp.(*ast.ValueSpec)
			if !ok {
				continue
			}
			for i, name := range vs.Names {
				if i >= len(vs.Values) {
					continue
				}
				if bl, ok := vs.Values[i].(*ast.BasicLit); ok && bl.Kind == token.INT {
					if v, err := strconv.ParseInt(bl.Value, 0, 64); err == nil {
						consts = append(consts, [2]string{name.Name, strconv.FormatInt(v, 10)})
					}
				}
			}
		}
	}
	var fn *ast.FuncDecl
	for _, d := range f.Decls {
		if fd, ok := d.(*ast.FuncDecl); ok && fd.Name.Name == "addCrosshiftExpr" {
			fn = fd
		}
	}
	if fn == nil || fn.Body == nil {
		return consts, nil, append(errs, "asserts: function addCrosshiftExpr not found in sql/sql.go")
	}
	watched := map[string]bool{"cutoff": true, "interval": true, "limit": true}
	mentions := func(n ast.Node) bool {
		found := false
		ast.Inspect(n, func(x ast.Node) bool {
			if id, ok := x.(*ast.Ident); ok && watched[id.Name] {
				found = true
			}
			return !found
		})
		return found
	}
	returns := func(b *ast.BlockStmt) bool { return b != nil && asLeaves(b.List) }
	negOf := func(e ast.Expr, name string) bool { // -1 * x, x * -1, -x
		t := text(e)
		return t == "-1 * "+name || t == name+" * -1" || t == "-"+name
	}
	var ops []string
	for _, st := range fn.Body.List {
		switch s := st.(type) {
		case *ast.AssignStmt:
			if len(s.Lhs) >= 1 && len(s.Rhs) == 1 {
				lhs := text(s.Lhs[0])
				rhs := text(s.Rhs[0])
				switch {
				case lhs == "cutoff" && s.Tok == token.DEFINE && strings.HasPrefix(rhs, "nodeToDuration("):
					ops = append(ops, "parseCutoff")
					continue
				case lhs == "interval" && s.Tok == token.DEFINE && strings.HasPrefix(rhs, "nodeToDuration("):
					ops = append(ops, "parseInterval")
					continue
				case lhs == "limit" && s.Tok == token.DEFINE && rhs == "cutoff" && len(s.Lhs) == 1:
					ops = append(ops, "limitIsCutoff")
					continue
				}
			}
		case *ast.IfStmt:
			if s.Init == nil && s.Else == nil {
				cond := text(s.Cond)
				switch {
				case cond == "cutoff == 0" && returns(s.Body):
					ops = append(ops, "zeroCutoff")
					continue
				case cond == "interval == 0" && returns(s.Body):
					ops = append(ops, "zeroInterval")
					continue
				case cond == "limit/interval > maxCrosshiftFields" && returns(s.Body):
					ops = append(ops, "cap")
					continue
				case cond == "interval < 0" && len(s.Body.List) == 1:
					if as, ok := s.Body.List[0].(*ast.AssignStmt); ok && as.Tok == token.ASSIGN && len(as.Lhs) == 1 && len(as.Rhs) == 1 &&
						text(as.Lhs[0]) == "interval" && negOf(as.Rhs[0], "interval") {
						ops = append(ops, "absInterval")
						continue
					}
				case cond == "cutoff < 0" && len(s.Body.List) == 1:
					if as, ok := s.Body.List[0].(*ast.AssignStmt); ok && as.Tok == token.ASSIGN && len(as.Lhs) == 1 && len(as.Rhs) == 1 &&
						text(as.Lhs[0]) == "limit" && negOf(as.Rhs[0], "cutoff") {
						ops = append(ops, "absLimit")
						continue
					}
				}
			}
		case *ast.ForStmt:
			if s.Init != nil && s.Cond != nil && s.Post != nil &&
				text(s.Init) == "i := time.Duration(0)" && text(s.Cond) == "i < limit" && text(s.Post) == "i += interval" {
				guarded := false
				writes := false
				for _, bs := range s.Body.List {
					if is, ok := bs.(*ast.IfStmt); ok && is.Init == nil && is.Else == nil && text(is.Cond) == "interval >= limit-i" && len(is.Body.List) == 1 {
						if br, ok := is.Body.List[0].(*ast.BranchStmt); ok && br.Tok == token.BREAK && br.Label == nil {
							guarded = true
							continue
						}
					}
					// nothing else in the body may assign to the loop's bounds or counter
					ast.Inspect(bs, func(x ast.Node) bool {
						switch a := x.(type) {
						case *ast.AssignStmt:
							for _, l := range a.Lhs {
								if t := text(l); t == "i" || watched[t] {
									writes = true
								}
							}
						case *ast.IncDecStmt:
							if t := text(a.X); t == "i" || watched[t] {
								writes = true
							}
						}
						return true
					})
				}
				switch {
				case writes:
					ops = append(ops, "other:loop body writes to its bounds")
				case guarded:
					ops = append(ops, "loopGuarded")
				default:
					ops = append(ops, "loop")
				}
				continue
			}
		}
		if mentions(st) {
			t := text(st)
			if len(t) > 80 {
				t = t[:80]
			}
			ops = append(ops, "other:"+t)
		}
	}
	return consts, ops, errs
}

// ---- the pre-scan's control skeleton (C16 update: lexer agreement)

// asPrescanShape lists, in source order, every branch condition (if / case / default), loop
// header, return statement, break / continue, assignment and increment of
// sql.checkLiteralIdentifiers, as source text.  The Lean model of the pre-scan
// (Model/SqlLex.lean) is a transcription of exactly this skeleton.
func asPrescanShape(repo string) ([]string, []string) {
	path := filepath.Join(repo, "sql", "sql.go")
	fset := token.NewFileSet()
	f, err := parser.ParseFile(fset, path, nil, 0)
	if err != nil {
		return nil, []string{fmt.Sprintf("asserts: %v", err)}
	}
	var fn *ast.FuncDecl
	for _, d := range f.Decls {
		if fd, ok := d.(*ast.FuncDecl); ok && fd.Name.Name == "checkLiteralIdentifiers" && fd.Recv == nil {
			fn = fd
		}
	}
	if fn == nil || fn.Body == nil {
		return nil, []string{"asserts: function checkLiteralIdentifiers not found in sql/sql.go"}
	}
	text := func(n ast.Node) string {
		if n == nil {
			return ""
		}
		return asOneLine(nodeText(fset, n))
	}
	var out []string
	ast.Inspect(fn.Body, func(n ast.Node) bool {
		switch x := n.(type) {
		case *ast.IfStmt:
			out = append(out, "if "+text(x.Cond))
		case *ast.ForStmt:
			out = append(out, "for "+text(x.Init)+"; "+text(x.Cond)+"; "+text(x.Post))
		case *ast.SwitchStmt:
			out = append(out, "switch "+text(x.Tag))
		case *ast.CaseClause:
			if x.List == nil {
				out = append(out, "default")
			} else {
				parts := make([]string, len(x.List))
				for i, e := range x.List {
					parts[i] = text(e)
				}
				out = append(out, "case "+strings.Join(parts, ", "))
			}
		case *ast.ReturnStmt:
			parts := make([]string, len(x.Results))
			for i, e := range x.Results {
				parts[i] = text(e)
			}
			out = append(out, "return "+strings.Join(parts, ", "))
		case *ast.BranchStmt:
			out = append(out, x.Tok.String())
		case *ast.IncDecStmt:
			if id, ok := x.X.(*ast.Ident); ok && id.Name == "i" {
				out = append(out, text(x))
			}
		case *ast.AssignStmt:
			if len(x.Rhs) == 1 {
				if fl, ok := x.Rhs[0].(*ast.FuncLit); ok {
					// a local helper: its name and signature, the body follows
					out = append(out, text(x.Lhs[0])+" := "+text(fl.Type))
					return true
				}
			}
			out = append(out, text(x))
		}
		return true
	})
	return out, nil
}
