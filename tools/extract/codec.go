package main

// Facts for C20 (data crossing the RPC boundary keeps its meaning).
//
//   Facts.codecTypes     one entry per `msgpack.RegisterExt(id, &T{})` found anywhere in
//                        the repository: ext id, package, type name, exported / unexported /
//                        embedded struct fields, the fields reflection writes (exported and
//                        anonymous ones, declaration order), presence of custom EncodeMsgpack /
//                        DecodeMsgpack methods, the receiver fields the custom encoder
//                        passes to enc.Encode*(...) (in order; and which interface-typed ones it
//                        passes directly to the variadic enc.Encode, which skips the ext header), the receiver fields the custom
//                        decoder assigns (`e.X = …`, `&e.X` handed to dec.Decode) and the
//                        ones it decodes positionally (in order)
//   Facts.codecMsgTypes  the struct types declared in rpc/rpc.go (the gRPC messages) and the
//                        repository struct types reachable from their fields: exported and
//                        unexported fields (msgpack encodes them by reflection)
//   Facts.codecAggNames / codecBinOps / codecUnaryFns
//                        the keys of the registries the custom decoders restore closures from
//
// Everything is found by walking the source; a type registered tomorrow shows up without
// touching this file.  Anything expected but not found is a problem string (the run fails).

import (
	"fmt"
	"go/ast"
	"go/parser"
	"go/token"
	"os"
	"path/filepath"
	"sort"
	"strconv"
	"strings"
)

func init() {
	factGens = append(factGens, factGen{"codec", genCodecFacts})
}

const cdMsgpackImport = "github.com/getlantern/msgpack"
const cdZenoImport = "github.com/getlantern/zenodb"

type codecPkg struct {
	dir   string // relative to repo, "." for the root
	fset  *token.FileSet
	files []*ast.File
}

type codecType struct {
	id          int
	pkg         string
	name        string
	pointer     bool
	exported    []string
	unexported  []string
	embedded    []string
	wireFields  []string // what reflection writes: exported and anonymous fields, declaration order
	customEnc   bool
	customDec   bool
	encFields   []string
	encDirectIf []string // interface-typed fields passed directly to enc.Encode(…)
	decAssigned []string
	decPos      []string
}

func codecLoadPkgs(repo string) (map[string]*codecPkg, []string) {
	pkgs := map[string]*codecPkg{}
	var errs []string
	filepath.Walk(repo, func(path string, info os.FileInfo, err error) error {
		if err != nil {
			return nil
		}
		base := filepath.Base(path)
		if info.IsDir() {
			if path != repo && (strings.HasPrefix(base, ".") || strings.HasPrefix(base, "_") || base == "vendor" || base == "testdata") {
				return filepath.SkipDir
			}
			return nil
		}
		if !strings.HasSuffix(base, ".go") || strings.HasSuffix(base, "_test.go") {
			return nil
		}
		dir, _ := filepath.Rel(repo, filepath.Dir(path))
		p := pkgs[dir]
		if p == nil {
			p = &codecPkg{dir: dir, fset: token.NewFileSet()}
			pkgs[dir] = p
		}
		f, perr := parser.ParseFile(p.fset, path, nil, 0)
		if perr != nil {
			errs = append(errs, fmt.Sprintf("codec: cannot parse %s: %v", path, perr))
			return nil
		}
		if f.Name.Name == "main" && dir != "." {
			// commands do not define wire types; still scanned for RegisterExt below
		}
		p.files = append(p.files, f)
		return nil
	})
	return pkgs, errs
}

// cdImportName returns the local name under which file f imports path ("" if it does not).
func cdImportName(f *ast.File, path string) string {
	for _, im := range f.Imports {
		p, _ := strconv.Unquote(im.Path.Value)
		if p != path {
			continue
		}
		if im.Name != nil {
			return im.Name.Name
		}
		return filepath.Base(path)
	}
	return ""
}

func (p *codecPkg) findStruct(name string) *ast.StructType {
	for _, f := range p.files {
		for _, d := range f.Decls {
			gd, ok := d.(*ast.GenDecl)
			if !ok || gd.Tok != token.TYPE {
				continue
			}
			for _, s := range gd.Specs {
				ts := s.(*ast.TypeSpec)
				if ts.Name.Name == name {
					if st, ok := ts.Type.(*ast.StructType); ok {
						return st
					}
					return nil
				}
			}
		}
	}
	return nil
}

func (p *codecPkg) findTypeSpec(name string) (*ast.TypeSpec, *ast.File) {
	for _, f := range p.files {
		for _, d := range f.Decls {
			gd, ok := d.(*ast.GenDecl)
			if !ok || gd.Tok != token.TYPE {
				continue
			}
			for _, s := range gd.Specs {
				ts := s.(*ast.TypeSpec)
				if ts.Name.Name == name {
					return ts, f
				}
			}
		}
	}
	return nil, nil
}

func (p *codecPkg) findMethod(typ, method string) *ast.FuncDecl {
	for _, f := range p.files {
		for _, d := range f.Decls {
			fd, ok := d.(*ast.FuncDecl)
			if !ok || fd.Recv == nil || len(fd.Recv.List) != 1 || fd.Name.Name != method {
				continue
			}
			t := fd.Recv.List[0].Type
			if st, ok := t.(*ast.StarExpr); ok {
				t = st.X
			}
			if id, ok := t.(*ast.Ident); ok && id.Name == typ {
				return fd
			}
		}
	}
	return nil
}

func cdEmbeddedName(t ast.Expr) string {
	switch x := t.(type) {
	case *ast.Ident:
		return x.Name
	case *ast.StarExpr:
		return cdEmbeddedName(x.X)
	case *ast.SelectorExpr:
		return x.Sel.Name
	}
	return "?"
}

func cdStructFields(st *ast.StructType) (exported, unexported, embedded, wire []string) {
	for _, f := range st.Fields.List {
		if len(f.Names) == 0 {
			n := cdEmbeddedName(f.Type)
			embedded = append(embedded, n)
			wire = append(wire, n)
			// msgpack keeps anonymous fields even when their type name is unexported
			if ast.IsExported(n) {
				exported = append(exported, n)
			} else {
				unexported = append(unexported, n)
			}
			continue
		}
		for _, n := range f.Names {
			if n.Name == "_" {
				continue
			}
			if ast.IsExported(n.Name) {
				exported = append(exported, n.Name)
				wire = append(wire, n.Name)
			} else {
				unexported = append(unexported, n.Name)
			}
		}
	}
	return
}

func cdRecvName(fd *ast.FuncDecl) string {
	if len(fd.Recv.List[0].Names) == 0 {
		return ""
	}
	return fd.Recv.List[0].Names[0].Name
}

// cdRecvField returns X when e is `recv.X` (parentheses ignored).
func cdRecvField(e ast.Expr, recv string) (string, bool) {
	for {
		p, ok := e.(*ast.ParenExpr)
		if !ok {
			break
		}
		e = p.X
	}
	s, ok := e.(*ast.SelectorExpr)
	if !ok {
		return "", false
	}
	id, ok := s.X.(*ast.Ident)
	if !ok || id.Name != recv || recv == "" {
		return "", false
	}
	return s.Sel.Name, true
}

func cdAddUniq(xs []string, x string) []string {
	for _, y := range xs {
		if y == x {
			return xs
		}
	}
	return append(xs, x)
}

func cdFirstParam(fd *ast.FuncDecl) string {
	if fd.Type.Params == nil || len(fd.Type.Params.List) == 0 || len(fd.Type.Params.List[0].Names) == 0 {
		return ""
	}
	return fd.Type.Params.List[0].Names[0].Name
}

// cdDecoderFacts: fields assigned (`e.X = …`, `e.X, … = …`, `&e.X` as an argument of any
// call) and the fields decoded positionally (`dec.Decode(&e.a, &e.b)`, in order).
func cdDecoderFacts(fd *ast.FuncDecl) (assigned, positional []string) {
	recv := cdRecvName(fd)
	dec := cdFirstParam(fd)
	ast.Inspect(fd.Body, func(n ast.Node) bool {
		switch x := n.(type) {
		case *ast.AssignStmt:
			for _, l := range x.Lhs {
				if f, ok := cdRecvField(l, recv); ok {
					assigned = cdAddUniq(assigned, f)
				}
			}
		case *ast.CallExpr:
			isDecode := false
			if s, ok := x.Fun.(*ast.SelectorExpr); ok {
				if id, ok := s.X.(*ast.Ident); ok && id.Name == dec && strings.HasPrefix(s.Sel.Name, "Decode") {
					isDecode = true
				}
			}
			for _, a := range x.Args {
				u, ok := a.(*ast.UnaryExpr)
				if !ok || u.Op != token.AND {
					continue
				}
				if f, ok := cdRecvField(u.X, recv); ok {
					assigned = cdAddUniq(assigned, f)
					if isDecode {
						positional = append(positional, f)
					}
				}
			}
		}
		return true
	})
	return
}

// cdEncoderFacts: receiver fields handed to enc.Encode*(…) (anywhere inside an argument), in
// order, and those handed over *directly* as an argument of the variadic enc.Encode(…):
// that entry point calls a CustomEncoder argument's EncodeMsgpack itself, without the ext
// header a registered type needs to be decodable from an interface.
func cdEncoderFacts(fd *ast.FuncDecl) (fields, direct []string) {
	recv := cdRecvName(fd)
	enc := cdFirstParam(fd)
	ast.Inspect(fd.Body, func(n ast.Node) bool {
		x, ok := n.(*ast.CallExpr)
		if !ok {
			return true
		}
		s, ok := x.Fun.(*ast.SelectorExpr)
		if !ok {
			return true
		}
		id, ok := s.X.(*ast.Ident)
		if !ok || id.Name != enc || !strings.HasPrefix(s.Sel.Name, "Encode") {
			return true
		}
		for _, a := range x.Args {
			if f, ok := cdRecvField(a, recv); ok {
				fields = append(fields, f)
				if s.Sel.Name == "Encode" {
					direct = append(direct, f)
				}
				continue
			}
			ast.Inspect(a, func(m ast.Node) bool {
				if e, ok := m.(ast.Expr); ok {
					if f, ok := cdRecvField(e, recv); ok {
						fields = append(fields, f)
						return false
					}
				}
				return true
			})
		}
		return false
	})
	return
}

// interfaceFields lists the struct fields whose type is an interface (a literal interface
// type, or a name declared as an interface in the same package).
func (p *codecPkg) interfaceFields(st *ast.StructType) []string {
	var out []string
	for _, f := range st.Fields.List {
		isIface := false
		switch t := f.Type.(type) {
		case *ast.InterfaceType:
			isIface = true
		case *ast.Ident:
			if ts, _ := p.findTypeSpec(t.Name); ts != nil {
				_, isIface = ts.Type.(*ast.InterfaceType)
			}
		}
		if isIface {
			for _, n := range f.Names {
				out = append(out, n.Name)
			}
		}
	}
	return out
}

func cdLeanStr(s string) string { return strconv.Quote(s) }

func cdLeanStrList(xs []string) string {
	q := make([]string, len(xs))
	for i, x := range xs {
		q[i] = cdLeanStr(x)
	}
	return "[" + strings.Join(q, ", ") + "]"
}

func cdLeanBool(b bool) string {
	if b {
		return "true"
	}
	return "false"
}

// cdRegistryKeys collects the first (string literal) argument of calls to the given functions
// inside package p, in source order.
func cdRegistryKeys(p *codecPkg, funcs ...string) []string {
	var keys []string
	for _, f := range cdSortedFiles(p) {
		ast.Inspect(f, func(n ast.Node) bool {
			c, ok := n.(*ast.CallExpr)
			if !ok || len(c.Args) == 0 {
				return true
			}
			id, ok := c.Fun.(*ast.Ident)
			if !ok {
				return true
			}
			match := false
			for _, fn := range funcs {
				if id.Name == fn {
					match = true
				}
			}
			if !match {
				return true
			}
			if lit, ok := c.Args[0].(*ast.BasicLit); ok && lit.Kind == token.STRING {
				s, _ := strconv.Unquote(lit.Value)
				keys = append(keys, s)
			}
			return true
		})
	}
	return keys
}

func cdSortedFiles(p *codecPkg) []*ast.File {
	fs := append([]*ast.File(nil), p.files...)
	sort.Slice(fs, func(i, j int) bool {
		return p.fset.Position(fs[i].Pos()).Filename < p.fset.Position(fs[j].Pos()).Filename
	})
	return fs
}

// cdMapLiteralKeys returns the string keys of the composite literal assigned to package
// variable `name`.
func cdMapLiteralKeys(p *codecPkg, name string) []string {
	var keys []string
	for _, f := range cdSortedFiles(p) {
		for _, d := range f.Decls {
			gd, ok := d.(*ast.GenDecl)
			if !ok || gd.Tok != token.VAR {
				continue
			}
			for _, s := range gd.Specs {
				vs := s.(*ast.ValueSpec)
				for i, n := range vs.Names {
					if n.Name != name || i >= len(vs.Values) {
						continue
					}
					cl, ok := vs.Values[i].(*ast.CompositeLit)
					if !ok {
						continue
					}
					for _, el := range cl.Elts {
						kv, ok := el.(*ast.KeyValueExpr)
						if !ok {
							continue
						}
						if lit, ok := kv.Key.(*ast.BasicLit); ok && lit.Kind == token.STRING {
							k, _ := strconv.Unquote(lit.Value)
							keys = append(keys, k)
						}
					}
				}
			}
		}
	}
	return keys
}

type cdMsgType struct {
	pkg, name            string
	exported, unexported []string
}

// cdCollectMsgTypes starts from every struct declared in rpc/rpc.go and follows field types
// into repository packages.
func cdCollectMsgTypes(pkgs map[string]*codecPkg) ([]cdMsgType, []string) {
	var errs []string
	rp := pkgs["rpc"]
	if rp == nil {
		return nil, []string{"codec: package rpc not found"}
	}
	type key struct{ pkg, name string }
	seen := map[key]bool{}
	var out []cdMsgType
	var visit func(p *codecPkg, f *ast.File, t ast.Expr)
	var visitNamed func(p *codecPkg, name string)
	visitNamed = func(p *codecPkg, name string) {
		k := key{p.dir, name}
		if seen[k] {
			return
		}
		seen[k] = true
		ts, f := p.findTypeSpec(name)
		if ts == nil {
			return // predeclared or not in this package (e.g. string, int64)
		}
		if st, ok := ts.Type.(*ast.StructType); ok {
			ex, un, _, _ := cdStructFields(st)
			out = append(out, cdMsgType{p.dir, name, ex, un})
			for _, fl := range st.Fields.List {
				visit(p, f, fl.Type)
			}
			return
		}
		visit(p, f, ts.Type)
	}
	visit = func(p *codecPkg, f *ast.File, t ast.Expr) {
		switch x := t.(type) {
		case *ast.Ident:
			visitNamed(p, x.Name)
		case *ast.StarExpr:
			visit(p, f, x.X)
		case *ast.ArrayType:
			visit(p, f, x.Elt)
		case *ast.MapType:
			visit(p, f, x.Key)
			visit(p, f, x.Value)
		case *ast.SelectorExpr:
			id, ok := x.X.(*ast.Ident)
			if !ok {
				return
			}
			for _, im := range f.Imports {
				ip, _ := strconv.Unquote(im.Path.Value)
				local := filepath.Base(ip)
				if im.Name != nil {
					local = im.Name.Name
				}
				if local != id.Name {
					continue
				}
				if ip == cdZenoImport {
					if q := pkgs["."]; q != nil {
						visitNamed(q, x.Sel.Name)
					}
				} else if strings.HasPrefix(ip, cdZenoImport+"/") {
					if q := pkgs[strings.TrimPrefix(ip, cdZenoImport+"/")]; q != nil {
						visitNamed(q, x.Sel.Name)
					}
				}
			}
		}
	}
	var rpcFile *ast.File
	for _, f := range rp.files {
		if filepath.Base(rp.fset.Position(f.Pos()).Filename) == "rpc.go" {
			rpcFile = f
		}
	}
	if rpcFile == nil {
		return nil, []string{"codec: rpc/rpc.go not found"}
	}
	for _, d := range rpcFile.Decls {
		gd, ok := d.(*ast.GenDecl)
		if !ok || gd.Tok != token.TYPE {
			continue
		}
		for _, s := range gd.Specs {
			ts := s.(*ast.TypeSpec)
			if _, ok := ts.Type.(*ast.StructType); ok {
				visitNamed(rp, ts.Name.Name)
			}
		}
	}
	// messages declared outside rpc/rpc.go but sent/received by its handlers
	for _, extra := range [][2]string{{"common", "Follow"}, {"common", "QueryMetaData"}} {
		q := pkgs[extra[0]]
		if q == nil || q.findStruct(extra[1]) == nil {
			errs = append(errs, fmt.Sprintf("codec: message struct %s.%s not found", extra[0], extra[1]))
			continue
		}
		visitNamed(q, extra[1])
	}
	sort.Slice(out, func(i, j int) bool {
		if out[i].pkg != out[j].pkg {
			return out[i].pkg < out[j].pkg
		}
		return out[i].name < out[j].name
	})
	if len(out) == 0 {
		errs = append(errs, "codec: no message struct found in rpc/rpc.go")
	}
	return out, errs
}

func genCodecFacts(repo string) (string, []string, interface{}) {
	pkgs, errs := codecLoadPkgs(repo)
	var types []codecType
	dirs := make([]string, 0, len(pkgs))
	for d := range pkgs {
		dirs = append(dirs, d)
	}
	sort.Strings(dirs)
	for _, d := range dirs {
		p := pkgs[d]
		for _, f := range cdSortedFiles(p) {
			mp := cdImportName(f, cdMsgpackImport)
			if mp == "" {
				continue
			}
			ast.Inspect(f, func(n ast.Node) bool {
				c, ok := n.(*ast.CallExpr)
				if !ok {
					return true
				}
				s, ok := c.Fun.(*ast.SelectorExpr)
				if !ok || s.Sel.Name != "RegisterExt" {
					return true
				}
				if id, ok := s.X.(*ast.Ident); !ok || id.Name != mp {
					return true
				}
				where := p.fset.Position(c.Pos()).String()
				if len(c.Args) != 2 {
					errs = append(errs, "codec: RegisterExt with unexpected arity at "+where)
					return true
				}
				lit, ok := c.Args[0].(*ast.BasicLit)
				if !ok || lit.Kind != token.INT {
					errs = append(errs, "codec: RegisterExt id is not an integer literal at "+where)
					return true
				}
				id, _ := strconv.Atoi(lit.Value)
				arg := c.Args[1]
				ct := codecType{id: id, pkg: d}
				if u, ok := arg.(*ast.UnaryExpr); ok && u.Op == token.AND {
					ct.pointer = true
					arg = u.X
				}
				cl, ok := arg.(*ast.CompositeLit)
				if !ok {
					errs = append(errs, "codec: RegisterExt value is not a composite literal at "+where)
					return true
				}
				tid, ok := cl.Type.(*ast.Ident)
				if !ok {
					errs = append(errs, "codec: RegisterExt of a type from another package at "+where)
					return true
				}
				ct.name = tid.Name
				st := p.findStruct(ct.name)
				if st == nil {
					errs = append(errs, fmt.Sprintf("codec: registered type %s is not a struct declared in package %s (%s)", ct.name, d, where))
					return true
				}
				ct.exported, ct.unexported, ct.embedded, ct.wireFields = cdStructFields(st)
				if m := p.findMethod(ct.name, "EncodeMsgpack"); m != nil {
					ct.customEnc = true
					var direct []string
					ct.encFields, direct = cdEncoderFacts(m)
					ifs := p.interfaceFields(st)
					for _, f := range direct {
						for _, g := range ifs {
							if f == g {
								ct.encDirectIf = append(ct.encDirectIf, f)
							}
						}
					}
				}
				if m := p.findMethod(ct.name, "DecodeMsgpack"); m != nil {
					ct.customDec = true
					ct.decAssigned, ct.decPos = cdDecoderFacts(m)
				}
				types = append(types, ct)
				return true
			})
		}
	}
	sort.SliceStable(types, func(i, j int) bool { return types[i].id < types[j].id })
	if len(types) == 0 {
		errs = append(errs, "codec: no msgpack.RegisterExt call found in the repository")
	}
	hasExpr := false
	for _, t := range types {
		if t.pkg == "expr" {
			hasExpr = true
		}
	}
	if !hasExpr {
		errs = append(errs, "codec: no msgpack.RegisterExt call found in package expr")
	}

	msgs, merrs := cdCollectMsgTypes(pkgs)
	errs = append(errs, merrs...)

	var aggNames, binOps, unaryFns []string
	if ep := pkgs["expr"]; ep != nil {
		aggNames = cdRegistryKeys(ep, "registerAggregate")
		binOps = cdRegistryKeys(ep, "registerBinaryExpr", "registerCond")
		unaryFns = cdMapLiteralKeys(ep, "unaryMathFNs")
		sort.Strings(unaryFns)
	}
	if len(aggNames) == 0 {
		errs = append(errs, "codec: no registerAggregate(\"…\") call found in expr")
	}
	if len(binOps) == 0 {
		errs = append(errs, "codec: no registerBinaryExpr/registerCond(\"…\") call found in expr")
	}
	if len(unaryFns) == 0 {
		errs = append(errs, "codec: map literal unaryMathFNs not found in expr")
	}

	var sb strings.Builder
	sb.WriteString("/-- one `msgpack.RegisterExt(id, &T{})` (C20) -/\n")
	sb.WriteString("structure CodecType where\n  extId : Nat\n  pkg : String\n  name : String\n  exported : List String\n  unexported : List String\n  embedded : List String\n  wireFields : List String\n  customEnc : Bool\n  customDec : Bool\n  encFields : List String\n  encDirectIface : List String\n  decAssigned : List String\n  decPositional : List String\n  deriving DecidableEq, Repr\n\n")
	sb.WriteString("def codecTypes : List CodecType := [\n")
	for i, t := range types {
		sep := ","
		if i == len(types)-1 {
			sep = ""
		}
		fmt.Fprintf(&sb, "  { extId := %d, pkg := %s, name := %s, exported := %s, unexported := %s, embedded := %s, wireFields := %s,\n    customEnc := %s, customDec := %s, encFields := %s, encDirectIface := %s, decAssigned := %s, decPositional := %s }%s\n",
			t.id, cdLeanStr(t.pkg), cdLeanStr(t.name), cdLeanStrList(t.exported), cdLeanStrList(t.unexported), cdLeanStrList(t.embedded), cdLeanStrList(t.wireFields),
			cdLeanBool(t.customEnc), cdLeanBool(t.customDec), cdLeanStrList(t.encFields), cdLeanStrList(t.encDirectIf), cdLeanStrList(t.decAssigned), cdLeanStrList(t.decPos), sep)
	}
	sb.WriteString("]\n\n")
	sb.WriteString("/-- a struct that travels as (part of) a gRPC message, encoded by reflection (C20) -/\n")
	sb.WriteString("structure CodecMsgType where\n  pkg : String\n  name : String\n  exported : List String\n  unexported : List String\n  deriving DecidableEq, Repr\n\n")
	sb.WriteString("def codecMsgTypes : List CodecMsgType := [\n")
	for i, m := range msgs {
		sep := ","
		if i == len(msgs)-1 {
			sep = ""
		}
		fmt.Fprintf(&sb, "  { pkg := %s, name := %s, exported := %s, unexported := %s }%s\n",
			cdLeanStr(m.pkg), cdLeanStr(m.name), cdLeanStrList(m.exported), cdLeanStrList(m.unexported), sep)
	}
	sb.WriteString("]\n\n")
	fmt.Fprintf(&sb, "def codecAggNames : List String := %s\n", cdLeanStrList(aggNames))
	fmt.Fprintf(&sb, "def codecBinOps : List String := %s\n", cdLeanStrList(binOps))
	fmt.Fprintf(&sb, "def codecUnaryFns : List String := %s\n\n", cdLeanStrList(unaryFns))

	names := []string{}
	for _, t := range types {
		names = append(names, fmt.Sprintf("%d:%s.%s", t.id, t.pkg, t.name))
	}
	mnames := []string{}
	for _, m := range msgs {
		mnames = append(mnames, m.pkg+"."+m.name)
	}
	return sb.String(), errs, map[string]interface{}{"ext_types": names, "msg_types": mnames,
		"agg": aggNames, "bin": binOps, "unary": unaryFns}
}
