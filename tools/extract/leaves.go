package main

// Translator for the straight-line float64/bool closures of expr/aggregates.go,
// expr/calcs.go, expr/conds.go, avg.calc and bounded.test.  Accepted subset:
// parameters, numeric literals, math.MaxFloat64, + - * /, comparisons, && || !,
// parentheses, `if c { ... }` (optionally with else) and `return e`.  Anything
// else is reported as untranslatable (the run then fails; no stale definition is
// kept).

import (
	"fmt"
	"go/ast"
	"go/parser"
	"go/token"
	"path/filepath"
	"sort"
	"strconv"
	"strings"
)

type leafDef struct {
	name   string
	params []string // lean binder text
	ret    string
	body   string
}

var opNames = map[string]string{
	"+": "add", "-": "sub", "*": "mul", "/": "div",
	"<": "lt", "<=": "le", "=": "eq", "<>": "ne", ">=": "ge", ">": "gt",
	"AND": "and", "OR": "or",
}

type translator struct {
	rename map[string]string
	errs   []string
}

func (t *translator) fail(format string, args ...interface{}) string {
	t.errs = append(t.errs, fmt.Sprintf(format, args...))
	return "UNTRANSLATABLE"
}

func (t *translator) expr(e ast.Expr) string {
	switch x := e.(type) {
	case *ast.ParenExpr:
		return "(" + t.expr(x.X) + ")"
	case *ast.Ident:
		if r, ok := t.rename[x.Name]; ok {
			return r
		}
		if x.Name == "true" || x.Name == "false" {
			return x.Name
		}
		return x.Name
	case *ast.BasicLit:
		switch x.Kind {
		case token.INT:
			return "(" + x.Value + " : Rat)"
		case token.FLOAT:
			f, err := strconv.ParseFloat(x.Value, 64)
			if err != nil {
				return t.fail("bad float literal %s", x.Value)
			}
			// decimal literal -> exact rational of its decimal text
			parts := strings.SplitN(x.Value, ".", 2)
			if len(parts) == 2 && !strings.ContainsAny(x.Value, "eE") {
				den := "1" + strings.Repeat("0", len(parts[1]))
				return fmt.Sprintf("((%s%s : Rat) / %s)", parts[0], parts[1], den)
			}
			return t.fail("unsupported float literal %v", f)
		}
		return t.fail("unsupported literal %s", x.Value)
	case *ast.SelectorExpr:
		if id, ok := x.X.(*ast.Ident); ok {
			full := id.Name + "." + x.Sel.Name
			if full == "math.MaxFloat64" {
				return "maxFloat"
			}
			if r, ok := t.rename[full]; ok {
				return r
			}
			return t.fail("unsupported selector %s", full)
		}
		return t.fail("unsupported selector")
	case *ast.UnaryExpr:
		switch x.Op {
		case token.NOT:
			return "(!" + t.expr(x.X) + ")"
		case token.SUB:
			return "(-" + t.expr(x.X) + ")"
		}
		return t.fail("unsupported unary %s", x.Op)
	case *ast.BinaryExpr:
		l, r := t.expr(x.X), t.expr(x.Y)
		switch x.Op {
		case token.ADD:
			return "(" + l + " + " + r + ")"
		case token.SUB:
			return "(" + l + " - " + r + ")"
		case token.MUL:
			return "(" + l + " * " + r + ")"
		case token.QUO:
			return "(" + l + " / " + r + ")"
		case token.LSS:
			return "decide (" + l + " < " + r + ")"
		case token.LEQ:
			return "decide (" + l + " ≤ " + r + ")"
		case token.GTR:
			return "decide (" + l + " > " + r + ")"
		case token.GEQ:
			return "decide (" + l + " ≥ " + r + ")"
		case token.EQL:
			return "decide (" + l + " = " + r + ")"
		case token.NEQ:
			return "decide (" + l + " ≠ " + r + ")"
		case token.LAND:
			return "(" + l + " && " + r + ")"
		case token.LOR:
			return "(" + l + " || " + r + ")"
		}
		return t.fail("unsupported binary %s", x.Op)
	}
	return t.fail("unsupported expression %T", e)
}

// stmts translates a statement list that must end in a return on every path.
func (t *translator) stmts(list []ast.Stmt) string {
	if len(list) == 0 {
		return t.fail("fall off the end without return")
	}
	switch s := list[0].(type) {
	case *ast.ReturnStmt:
		if len(s.Results) != 1 {
			return t.fail("return with %d results", len(s.Results))
		}
		return t.expr(s.Results[0])
	case *ast.IfStmt:
		if s.Init != nil {
			return t.fail("if with init")
		}
		rest := list[1:]
		thenPart := t.stmts(append(append([]ast.Stmt{}, s.Body.List...), rest...))
		var elsePart string
		switch e := s.Else.(type) {
		case nil:
			elsePart = t.stmts(rest)
		case *ast.BlockStmt:
			elsePart = t.stmts(append(append([]ast.Stmt{}, e.List...), rest...))
		case *ast.IfStmt:
			elsePart = t.stmts(append([]ast.Stmt{e}, rest...))
		default:
			return t.fail("unsupported else")
		}
		return "(if " + t.expr(s.Cond) + " then " + thenPart + " else " + elsePart + ")"
	}
	return t.fail("unsupported statement %T", list[0])
}

func leanType(e ast.Expr) string {
	if id, ok := e.(*ast.Ident); ok {
		switch id.Name {
		case "float64":
			return "Rat"
		case "bool":
			return "Bool"
		}
	}
	return "UNSUPPORTED_TYPE"
}

func (t *translator) funcDef(name string, ft *ast.FuncType, body *ast.BlockStmt, extra []string) leafDef {
	d := leafDef{name: name}
	d.params = append(d.params, extra...)
	for _, f := range ft.Params.List {
		ty := leanType(f.Type)
		if ty == "UNSUPPORTED_TYPE" {
			t.fail("%s: unsupported parameter type", name)
		}
		for _, n := range f.Names {
			d.params = append(d.params, fmt.Sprintf("(%s : %s)", n.Name, ty))
		}
	}
	if ft.Results == nil || len(ft.Results.List) != 1 {
		t.fail("%s: needs exactly one result", name)
		d.ret = "Rat"
	} else {
		d.ret = leanType(ft.Results.List[0].Type)
	}
	d.body = t.stmts(body.List)
	return d
}

func strLit(e ast.Expr) (string, bool) {
	if b, ok := e.(*ast.BasicLit); ok && b.Kind == token.STRING {
		s, err := strconv.Unquote(b.Value)
		return s, err == nil
	}
	return "", false
}

// genLeaves returns the text of Generated/Leaves.lean and the list of problems.
func genLeaves(repo string) (string, []string, map[string][]string) {
	fset := token.NewFileSet()
	t := &translator{rename: map[string]string{}}
	var defs []leafDef
	names := map[string][]string{"aggregates": nil, "binary": nil, "conds": nil}

	parse := func(rel string) *ast.File {
		f, err := parser.ParseFile(fset, filepath.Join(repo, rel), nil, 0)
		if err != nil {
			t.fail("cannot parse %s: %v", rel, err)
			return nil
		}
		return f
	}

	for _, rel := range []string{"expr/aggregates.go", "expr/calcs.go", "expr/conds.go"} {
		f := parse(rel)
		if f == nil {
			continue
		}
		ast.Inspect(f, func(n ast.Node) bool {
			call, ok := n.(*ast.CallExpr)
			if !ok {
				return true
			}
			id, ok := call.Fun.(*ast.Ident)
			if !ok {
				return true
			}
			switch id.Name {
			case "registerAggregate":
				if len(call.Args) != 3 {
					t.fail("registerAggregate arity")
					return true
				}
				name, ok := strLit(call.Args[0])
				if !ok {
					t.fail("registerAggregate: non-literal name")
					return true
				}
				names["aggregates"] = append(names["aggregates"], name)
				for i, suffix := range []string{"update", "merge"} {
					fl, ok := call.Args[1+i].(*ast.FuncLit)
					if !ok {
						t.fail("registerAggregate %s: %s is not a function literal", name, suffix)
						continue
					}
					defs = append(defs, t.funcDef("agg_"+name+"_"+suffix, fl.Type, fl.Body, nil))
				}
			case "registerBinaryExpr":
				if len(call.Args) != 2 {
					return true
				}
				op, ok := strLit(call.Args[0])
				if !ok {
					// the generic registration inside registerCond (op is a variable)
					return true
				}
				names["binary"] = append(names["binary"], op)
				fl, ok := call.Args[1].(*ast.FuncLit)
				if !ok {
					t.fail("registerBinaryExpr %s: not a function literal", op)
					return true
				}
				on, ok := opNames[op]
				if !ok {
					on = fmt.Sprintf("op%d", len(names["binary"]))
				}
				defs = append(defs, t.funcDef("bin_"+on, fl.Type, fl.Body, nil))
			case "registerCond":
				if len(call.Args) != 2 {
					return true
				}
				op, ok := strLit(call.Args[0])
				if !ok {
					t.fail("registerCond: non-literal op")
					return true
				}
				names["conds"] = append(names["conds"], op)
				fl, ok := call.Args[1].(*ast.FuncLit)
				if !ok {
					t.fail("registerCond %s: not a function literal", op)
					return true
				}
				on, ok := opNames[op]
				if !ok {
					on = fmt.Sprintf("op%d", len(names["conds"]))
				}
				defs = append(defs, t.funcDef("cond_"+on, fl.Type, fl.Body, nil))
			}
			return true
		})
		// registerCond's own wrapper: must be `if compare(l, r) { return 1 }; return 0`
		if rel == "expr/conds.go" {
			okWrapper := false
			for _, d := range f.Decls {
				fd, ok := d.(*ast.FuncDecl)
				if !ok || fd.Name.Name != "registerCond" {
					continue
				}
				src := nodeText(fset, fd.Body)
				norm := strings.Join(strings.Fields(src), " ")
				want := "{ registerBinaryExpr(cond, func(left float64, right float64) float64 { if compare(left, right) { return 1 } return 0 }) }"
				okWrapper = norm == want
				if !okWrapper {
					t.fail("registerCond wrapper changed: %s", norm)
				}
			}
			if !okWrapper && len(t.errs) == 0 {
				t.fail("registerCond wrapper not found")
			}
		}
	}

	// avg.calc
	if f := parse("expr/avg.go"); f != nil {
		found := false
		for _, d := range f.Decls {
			fd, ok := d.(*ast.FuncDecl)
			if ok && fd.Name.Name == "calc" && fd.Recv != nil {
				defs = append(defs, t.funcDef("avg_calc", fd.Type, fd.Body, nil))
				found = true
			}
		}
		if !found {
			t.fail("avg.calc not found")
		}
	}
	// bounded.test
	if f := parse("expr/bounded.go"); f != nil {
		found := false
		for _, d := range f.Decls {
			fd, ok := d.(*ast.FuncDecl)
			if ok && fd.Name.Name == "test" && fd.Recv != nil && len(fd.Recv.List) == 1 && len(fd.Recv.List[0].Names) == 1 {
				r := fd.Recv.List[0].Names[0].Name
				t.rename[r+".min"] = "lo"
				t.rename[r+".max"] = "hi"
				defs = append(defs, t.funcDef("bounded_test", fd.Type, fd.Body, []string{"(lo hi : Rat)"}))
				delete(t.rename, r+".min")
				delete(t.rename, r+".max")
				found = true
			}
		}
		if !found {
			t.fail("bounded.test not found")
		}
	}

	var sb strings.Builder
	sb.WriteString("-- GENERATED by /verif/tools/extract from /repo/expr/{aggregates,calcs,conds,avg,bounded}.go — do not edit.\n")
	sb.WriteString("set_option linter.unusedVariables false\nnamespace Zeno\n\n")
	sb.WriteString("/-- math.MaxFloat64 as an exact rational -/\n")
	sb.WriteString("def maxFloat : Rat := 2 ^ 1024 - 2 ^ 971\n\n")
	sb.WriteString("namespace Gen\n\n")
	for _, d := range defs {
		fmt.Fprintf(&sb, "def %s %s : %s :=\n  %s\n\n", d.name, strings.Join(d.params, " "), d.ret, d.body)
	}
	for _, k := range []string{"aggregates", "binary", "conds"} {
		l := append([]string{}, names[k]...)
		sort.Strings(l)
		q := make([]string, len(l))
		for i, s := range l {
			q[i] = strconv.Quote(s)
		}
		fmt.Fprintf(&sb, "def registered_%s : List String := [%s]\n\n", k, strings.Join(q, ", "))
	}
	sb.WriteString("end Gen\nend Zeno\n")
	return sb.String(), t.errs, names
}
