package main

// zvextract regenerates /verif/lean/ZenoModel/Generated/*.lean from /repo.
//   zvextract -repo /repo -out /verif/lean/ZenoModel/Generated
// Prints a JSON summary; exit 2 if something could not be translated/extracted.

import (
	"bytes"
	"encoding/json"
	"flag"
	"fmt"
	"go/ast"
	"go/printer"
	"go/token"
	"os"
	"path/filepath"
)

func nodeText(fset *token.FileSet, n ast.Node) string {
	var buf bytes.Buffer
	printer.Fprint(&buf, fset, n)
	return buf.String()
}

func writeIfChanged(path, content string) error {
	old, err := os.ReadFile(path)
	if err == nil && string(old) == content {
		return nil
	}
	return os.WriteFile(path, []byte(content), 0o644)
}

func main() {
	repo := flag.String("repo", "/repo", "repository root")
	out := flag.String("out", "", "output directory for generated Lean files")
	flag.Parse()
	if *out == "" {
		fmt.Fprintln(os.Stderr, "need -out")
		os.Exit(64)
	}
	os.MkdirAll(*out, 0o755)
	summary := map[string]interface{}{}
	var problems []string

	leaves, errs, names := genLeaves(*repo)
	problems = append(problems, errs...)
	summary["leaves"] = names
	if len(errs) > 0 {
		// never keep a stale definition: make the file fail to compile, visibly
		leaves = "-- extraction failed\n#eval (panic! \"Leaves.lean could not be regenerated\" : Unit)\nexample : False := by decide\n"
	}
	if err := writeIfChanged(filepath.Join(*out, "Leaves.lean"), leaves); err != nil {
		problems = append(problems, err.Error())
	}

	facts, ferrs, fsum := genFacts(*repo)
	problems = append(problems, ferrs...)
	summary["facts"] = fsum
	if err := writeIfChanged(filepath.Join(*out, "Facts.lean"), facts); err != nil {
		problems = append(problems, err.Error())
	}

	summary["problems"] = problems
	b, _ := json.MarshalIndent(summary, "", " ")
	fmt.Println(string(b))
	if len(problems) > 0 {
		os.Exit(2)
	}
}
