package main

// Facts for C20, buffer ownership of the gRPC codec (rpc.Codec).
//
// gRPC's HTTP/2 transport copies only the first 16 KB frame of a marshalled message
// synchronously and keeps the rest of the slice BY REFERENCE until its writer goroutine and
// flow control let it out; the sender meanwhile marshals the next message of the stream.
// So `Marshal` must hand out memory nobody writes to again, and `Unmarshal` must not keep
// its input.  What go/ast can establish about that, and what is emitted:
//
//   Facts.codecFns   for Marshal and Unmarshal of the type of the package variable
//                    `rpc.Codec`, looking through every function or method of package rpc
//                    they (transitively) call:
//     pkgVars        package-level variables of package rpc that are referenced (a
//                    sync.Pool, a shared bytes.Buffer, a scratch slice … any state that
//                    outlives the call)
//     recvFields     fields of the codec receiver that are referenced (per-codec state;
//                    rpc.Codec is one shared instance)
//     localCalls     the package-local functions that were looked through
//     mentionsPool   `sync.Pool` is named in a reachable body or in the declaration of a
//                    referenced package variable
//     returnsFresh   (Marshal) every returned byte slice is, syntactically, the direct
//                    result of a call into an imported package (msgpack.Marshal: allocates),
//                    `nil`, or a local variable only ever assigned from such a call,
//                    `make(...)`, or `append([]byte(nil)|[]byte{}, …)`; never a method
//                    call on a local/shared object (`buf.Bytes()`)
//     forwardsInputOnly (Unmarshal) every use of the input parameter is as a direct
//                    argument of a call into an imported package (msgpack.Unmarshal copies
//                    what it keeps): no package-local code slices or stores the receive buffer
//
// Strict on purpose: a harmless reference to package state fails the obligation
// (`C20.marshal_result_is_fresh`) until a human has looked at it.

import (
	"fmt"
	"go/ast"
	"go/token"
	"sort"
	"strings"
)

func init() {
	factGens = append(factGens, factGen{"codecown", genCodecOwnFacts})
}

type cdFnFact struct {
	recv, name   string
	pkgVars      []string
	recvFields   []string
	localCalls   []string
	mentionsPool bool
	returnsFresh bool
	forwardsOnly bool
}

// cdPkgVarDecls maps package-level variable names to their ValueSpec.
func cdPkgVarDecls(p *codecPkg) map[string]*ast.ValueSpec {
	out := map[string]*ast.ValueSpec{}
	for _, f := range p.files {
		for _, d := range f.Decls {
			gd, ok := d.(*ast.GenDecl)
			if !ok || gd.Tok != token.VAR {
				continue
			}
			for _, s := range gd.Specs {
				vs := s.(*ast.ValueSpec)
				for _, n := range vs.Names {
					out[n.Name] = vs
				}
			}
		}
	}
	return out
}

func cdFuncDecls(p *codecPkg) (funcs map[string]*ast.FuncDecl, methods map[string]*ast.FuncDecl) {
	funcs, methods = map[string]*ast.FuncDecl{}, map[string]*ast.FuncDecl{}
	for _, f := range p.files {
		for _, d := range f.Decls {
			fd, ok := d.(*ast.FuncDecl)
			if !ok || fd.Body == nil {
				continue
			}
			if fd.Recv == nil {
				funcs[fd.Name.Name] = fd
				continue
			}
			t := fd.Recv.List[0].Type
			if st, ok := t.(*ast.StarExpr); ok {
				t = st.X
			}
			if id, ok := t.(*ast.Ident); ok {
				methods[id.Name+"."+fd.Name.Name] = fd
			}
		}
	}
	return
}

func cdMentionsSyncPool(n ast.Node) bool {
	found := false
	ast.Inspect(n, func(m ast.Node) bool {
		if s, ok := m.(*ast.SelectorExpr); ok && s.Sel.Name == "Pool" {
			if id, ok := s.X.(*ast.Ident); ok && id.Name == "sync" {
				found = true
			}
		}
		return !found
	})
	return found
}

// cdLocalNames collects the names bound inside fd (parameters, results, receiver, :=, var,
// range) so that they are not mistaken for package-level variables.
func cdLocalNames(fd *ast.FuncDecl) map[string]bool {
	local := map[string]bool{}
	addFields := func(fl *ast.FieldList) {
		if fl == nil {
			return
		}
		for _, f := range fl.List {
			for _, n := range f.Names {
				local[n.Name] = true
			}
		}
	}
	addFields(fd.Recv)
	addFields(fd.Type.Params)
	addFields(fd.Type.Results)
	ast.Inspect(fd.Body, func(n ast.Node) bool {
		switch x := n.(type) {
		case *ast.AssignStmt:
			if x.Tok == token.DEFINE {
				for _, l := range x.Lhs {
					if id, ok := l.(*ast.Ident); ok {
						local[id.Name] = true
					}
				}
			}
		case *ast.ValueSpec:
			for _, n := range x.Names {
				local[n.Name] = true
			}
		case *ast.RangeStmt:
			if x.Tok == token.DEFINE {
				for _, e := range []ast.Expr{x.Key, x.Value} {
					if id, ok := e.(*ast.Ident); ok {
						local[id.Name] = true
					}
				}
			}
		case *ast.FuncLit:
			if x.Type.Params != nil {
				for _, f := range x.Type.Params.List {
					for _, n := range f.Names {
						local[n.Name] = true
					}
				}
			}
		}
		return true
	})
	return local
}

func cdIsImportCall(e ast.Expr, imports map[string]bool) bool {
	c, ok := e.(*ast.CallExpr)
	if !ok {
		return false
	}
	s, ok := c.Fun.(*ast.SelectorExpr)
	if !ok {
		return false
	}
	id, ok := s.X.(*ast.Ident)
	return ok && imports[id.Name]
}

// cdIsFreshExpr: a call into an imported package, make(...), or append onto a nil/empty
// literal slice.
func cdIsFreshExpr(e ast.Expr, imports map[string]bool, local map[string]bool) bool {
	if cdIsImportCall(e, imports) {
		c := e.(*ast.CallExpr)
		id := c.Fun.(*ast.SelectorExpr).X.(*ast.Ident)
		return !local[id.Name]
	}
	c, ok := e.(*ast.CallExpr)
	if !ok {
		return false
	}
	if id, ok := c.Fun.(*ast.Ident); ok {
		switch id.Name {
		case "make":
			return true
		case "append":
			if len(c.Args) == 0 {
				return false
			}
			switch a := c.Args[0].(type) {
			case *ast.CallExpr: // []byte(nil)
				if len(a.Args) == 1 {
					if n, ok := a.Args[0].(*ast.Ident); ok && n.Name == "nil" {
						return true
					}
				}
			case *ast.CompositeLit:
				return len(a.Elts) == 0
			}
		}
	}
	return false
}

func cdReturnsFresh(fd *ast.FuncDecl, imports map[string]bool) bool {
	local := cdLocalNames(fd)
	// every assignment to a local identifier, by name
	assigned := map[string][]ast.Expr{}
	opaque := map[string]bool{} // assigned in a way we do not follow
	ast.Inspect(fd.Body, func(n ast.Node) bool {
		a, ok := n.(*ast.AssignStmt)
		if !ok {
			return true
		}
		if len(a.Rhs) == 1 && len(a.Lhs) >= 1 {
			if id, ok := a.Lhs[0].(*ast.Ident); ok {
				assigned[id.Name] = append(assigned[id.Name], a.Rhs[0])
			}
			for _, l := range a.Lhs[1:] {
				if id, ok := l.(*ast.Ident); ok {
					opaque[id.Name] = true
				}
			}
			return true
		}
		for i, l := range a.Lhs {
			if id, ok := l.(*ast.Ident); ok {
				if i < len(a.Rhs) {
					assigned[id.Name] = append(assigned[id.Name], a.Rhs[i])
				} else {
					opaque[id.Name] = true
				}
			}
		}
		return true
	})
	ok := true
	seen := false
	ast.Inspect(fd.Body, func(n ast.Node) bool {
		if _, isLit := n.(*ast.FuncLit); isLit {
			return false // returns of nested closures are not Marshal's
		}
		r, isRet := n.(*ast.ReturnStmt)
		if !isRet {
			return true
		}
		seen = true
		if len(r.Results) == 0 {
			ok = false // named results: not followed
			return true
		}
		e := r.Results[0]
		if len(r.Results) == 1 {
			// `return f(v)` forwarding both results
			if !cdIsFreshExpr(e, imports, local) {
				ok = false
			}
			return true
		}
		switch x := e.(type) {
		case *ast.Ident:
			if x.Name == "nil" {
				return true
			}
			if opaque[x.Name] || len(assigned[x.Name]) == 0 {
				ok = false
				return true
			}
			for _, rhs := range assigned[x.Name] {
				if !cdIsFreshExpr(rhs, imports, local) {
					ok = false
				}
			}
		default:
			if !cdIsFreshExpr(e, imports, local) {
				ok = false
			}
		}
		return true
	})
	return ok && seen
}

// cdForwardsOnly: every use of the first parameter (the input bytes of Unmarshal) is as a
// direct argument of a call into an imported package — no package-local code slices,
// stores or otherwise sees the receive buffer.
func cdForwardsOnly(fd *ast.FuncDecl, imports map[string]bool) bool {
	name := cdFirstParam(fd)
	if name == "" {
		return false
	}
	local := cdLocalNames(fd)
	ok := true
	uses := 0
	var stack []ast.Node
	ast.Inspect(fd.Body, func(n ast.Node) bool {
		if n == nil {
			stack = stack[:len(stack)-1]
			return true
		}
		if id, isID := n.(*ast.Ident); isID && id.Name == name {
			uses++
			good := false
			if len(stack) > 0 {
				if c, isCall := stack[len(stack)-1].(*ast.CallExpr); isCall && cdIsFreshExpr(c, imports, local) {
					for _, a := range c.Args {
						if a == ast.Expr(id) {
							good = true
						}
					}
				}
			}
			if !good {
				ok = false
			}
		}
		stack = append(stack, n)
		return true
	})
	return ok && uses > 0
}

func genCodecOwnFacts(repo string) (string, []string, interface{}) {
	pkgs, errs := codecLoadPkgs(repo)
	p := pkgs["rpc"]
	var facts []cdFnFact
	if p == nil {
		errs = append(errs, "codecown: package rpc not found")
	} else {
		vars := cdPkgVarDecls(p)
		funcs, methods := cdFuncDecls(p)
		// the codec type: `Codec = &T{}`
		codecType := ""
		if vs, ok := vars["Codec"]; ok {
			for i, n := range vs.Names {
				if n.Name != "Codec" || i >= len(vs.Values) {
					continue
				}
				e := vs.Values[i]
				if u, ok := e.(*ast.UnaryExpr); ok && u.Op == token.AND {
					e = u.X
				}
				if cl, ok := e.(*ast.CompositeLit); ok {
					if id, ok := cl.Type.(*ast.Ident); ok {
						codecType = id.Name
					}
				}
			}
		}
		if codecType == "" {
			errs = append(errs, "codecown: package variable rpc.Codec = &T{} not found")
		}
		for _, mname := range []string{"Marshal", "Unmarshal"} {
			root := methods[codecType+"."+mname]
			if root == nil {
				if codecType != "" {
					errs = append(errs, fmt.Sprintf("codecown: method %s.%s not found", codecType, mname))
				}
				continue
			}
			fact := cdFnFact{recv: codecType, name: mname}
			pkgVarSet, fieldSet, callSet := map[string]bool{}, map[string]bool{}, map[string]bool{}
			visited := map[*ast.FuncDecl]bool{}
			var visit func(fd *ast.FuncDecl)
			visit = func(fd *ast.FuncDecl) {
				if visited[fd] {
					return
				}
				visited[fd] = true
				local := cdLocalNames(fd)
				recv := ""
				recvT := ""
				if fd.Recv != nil {
					recv = cdRecvName(fd)
					t := fd.Recv.List[0].Type
					if st, ok := t.(*ast.StarExpr); ok {
						t = st.X
					}
					if id, ok := t.(*ast.Ident); ok {
						recvT = id.Name
					}
				}
				if cdMentionsSyncPool(fd.Body) {
					fact.mentionsPool = true
				}
				// selector expressions first, so that `x.f` does not count `f` as an identifier
				selSel := map[*ast.Ident]bool{}
				ast.Inspect(fd.Body, func(n ast.Node) bool {
					if s, ok := n.(*ast.SelectorExpr); ok {
						selSel[s.Sel] = true
						if id, ok := s.X.(*ast.Ident); ok && recv != "" && id.Name == recv {
							if m := methods[recvT+"."+s.Sel.Name]; m != nil {
								callSet[recvT+"."+s.Sel.Name] = true
								visit(m)
							} else {
								fieldSet[s.Sel.Name] = true
							}
						}
					}
					return true
				})
				ast.Inspect(fd.Body, func(n ast.Node) bool {
					if kv, ok := n.(*ast.KeyValueExpr); ok {
						// struct literal keys are not variable references
						if id, ok := kv.Key.(*ast.Ident); ok {
							selSel[id] = true
						}
					}
					return true
				})
				ast.Inspect(fd.Body, func(n ast.Node) bool {
					id, ok := n.(*ast.Ident)
					if !ok || selSel[id] || local[id.Name] {
						return true
					}
					if vs, ok := vars[id.Name]; ok {
						pkgVarSet[id.Name] = true
						if cdMentionsSyncPool(vs) {
							fact.mentionsPool = true
						}
					}
					if f := funcs[id.Name]; f != nil {
						callSet[id.Name] = true
						visit(f)
					}
					return true
				})
			}
			visit(root)
			for k := range pkgVarSet {
				fact.pkgVars = append(fact.pkgVars, k)
			}
			for k := range fieldSet {
				fact.recvFields = append(fact.recvFields, k)
			}
			for k := range callSet {
				fact.localCalls = append(fact.localCalls, k)
			}
			sort.Strings(fact.pkgVars)
			sort.Strings(fact.recvFields)
			sort.Strings(fact.localCalls)
			{
				// imports of the file that declares the method
				imports := map[string]bool{}
				for _, f := range p.files {
					if f.Pos() <= root.Pos() && root.End() <= f.End() {
						for _, im := range f.Imports {
							path := strings.Trim(im.Path.Value, `"`)
							name := path[strings.LastIndex(path, "/")+1:]
							if im.Name != nil {
								name = im.Name.Name
							}
							imports[name] = true
						}
					}
				}
				if mname == "Marshal" {
					fact.returnsFresh = cdReturnsFresh(root, imports)
				} else {
					fact.forwardsOnly = cdForwardsOnly(root, imports)
				}
			}
			facts = append(facts, fact)
		}
	}
	var sb strings.Builder
	sb.WriteString("/-- what Marshal / Unmarshal of rpc.Codec can reach besides their arguments (C20, buffer ownership) -/\n")
	sb.WriteString("structure CodecFn where\n  recvType : String\n  name : String\n  pkgVars : List String\n  recvFields : List String\n  localCalls : List String\n  mentionsPool : Bool\n  returnsFresh : Bool\n  forwardsInputOnly : Bool\n  deriving DecidableEq, Repr\n\n")
	sb.WriteString("def codecFns : List CodecFn := [\n")
	var summary []string
	for i, f := range facts {
		sep := ","
		if i == len(facts)-1 {
			sep = ""
		}
		fmt.Fprintf(&sb, "  { recvType := %s, name := %s, pkgVars := %s, recvFields := %s, localCalls := %s, mentionsPool := %s, returnsFresh := %s, forwardsInputOnly := %s }%s\n",
			cdLeanStr(f.recv), cdLeanStr(f.name), cdLeanStrList(f.pkgVars), cdLeanStrList(f.recvFields), cdLeanStrList(f.localCalls),
			cdLeanBool(f.mentionsPool), cdLeanBool(f.returnsFresh), cdLeanBool(f.forwardsOnly), sep)
		summary = append(summary, fmt.Sprintf("%s.%s vars=%v fields=%v pool=%v fresh=%v forwards=%v", f.recv, f.name, f.pkgVars, f.recvFields, f.mentionsPool, f.returnsFresh, f.forwardsOnly))
	}
	sb.WriteString("]\n\n")
	return sb.String(), errs, summary
}
