module zvextract

go 1.21
