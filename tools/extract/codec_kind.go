package main

// Facts for C20, "empty versus absent":
//
//   Facts.codecFieldTags  for every struct that crosses the RPC boundary (the message structs
//                         found from rpc/rpc.go, common.Follow, common.QueryMetaData and
//                         what they contain; every type passed to msgpack.RegisterExt): one
//                         entry per field that msgpack's reflection looks at (exported,
//                         anonymous, or the `_msgpack` marker) with its `msgpack:"…"` struct
//                         tag taken apart: wire name, omitempty, "-" (skip), other options.
//   Facts.codecKindTests  the tests by which RECEIVING code tells message kinds / ends of
//                         streams apart: every comparison of a field of a message-typed
//                         variable with nil / "" / 0, every `len(x.F)` comparison and every
//                         use of a bool field as a condition, anywhere in the repository
//                         (rpc client and server loops, insert loop, …); plus the chain
//                         through the leader's queryCluster (cluster_query.go), which tests
//                         fields of its own `remoteResult` that are filled from callback
//                         parameters that rpc/server/rpc_server.go fills from message fields:
//                           result.key != nil  <-  remoteResult{key: key} in the closure passed
//                           as `onRow`  <-  onRow(m.Key, m.Vals)   ==> RemoteQueryResult.Key, test "nil"
//
//   Facts.codecErrorBeforeEnd  in HandleRemoteQueries' receive loop the test of `m.Error` is not
//                         dominated by the `break` on `m.EndOfResults` (statement order in
//                         the loop body): the follower reports a failed query ON its final message.
//
// test kinds: "nil" (x.F ==/!= nil: sensitive to nil vs empty), "empty" (len(x.F)), "zero"
// ("" or 0), "bool".  The queryCluster chain is recognised structurally; if it is not found
// (refactoring) that is a problem string, never a silently empty list.

import (
	"fmt"
	"go/ast"
	"go/token"
	"path/filepath"
	"reflect"
	"sort"
	"strconv"
	"strings"
)

func init() {
	factGens = append(factGens, factGen{"codeckind", genCodecKindFacts})
}

type ckTag struct {
	pkg, typ, field, goType string
	hasTag                  bool
	wireName                string
	omitEmpty, skip         bool
	opts                    []string
}

type ckTest struct {
	file, fn, msgType, field, test string
}

func ckTypeText(p *codecPkg, e ast.Expr) string {
	return strings.Join(strings.Fields(nodeText(p.fset, e)), " ")
}

func ckStructTags(p *codecPkg, typ string, st *ast.StructType) []ckTag {
	var out []ckTag
	for _, f := range st.Fields.List {
		names := []string{}
		for _, n := range f.Names {
			names = append(names, n.Name)
		}
		if len(f.Names) == 0 {
			names = append(names, cdEmbeddedName(f.Type))
		}
		for _, n := range names {
			if n != "_msgpack" && !ast.IsExported(n) && len(f.Names) != 0 {
				continue
			}
			t := ckTag{pkg: p.dir, typ: typ, field: n, goType: ckTypeText(p, f.Type), wireName: n}
			if f.Tag != nil {
				raw, _ := strconv.Unquote(f.Tag.Value)
				if v, ok := reflect.StructTag(raw).Lookup("msgpack"); ok {
					t.hasTag = true
					parts := strings.Split(v, ",")
					if parts[0] == "-" {
						t.skip = true
					} else if parts[0] != "" {
						t.wireName = parts[0]
					}
					for _, o := range parts[1:] {
						if o == "omitempty" {
							t.omitEmpty = true
						} else if o != "" {
							t.opts = append(t.opts, o)
						}
					}
				}
			}
			out = append(out, t)
		}
	}
	return out
}

// ckRegistered lists (pkg dir, type name) of every msgpack.RegisterExt(id, &T{}) / T{}.
func ckRegistered(pkgs map[string]*codecPkg) [][2]string {
	var out [][2]string
	for d, p := range pkgs {
		for _, f := range p.files {
			mp := cdImportName(f, cdMsgpackImport)
			if mp == "" {
				continue
			}
			ast.Inspect(f, func(n ast.Node) bool {
				c, ok := n.(*ast.CallExpr)
				if !ok || len(c.Args) != 2 {
					return true
				}
				s, ok := c.Fun.(*ast.SelectorExpr)
				if !ok || s.Sel.Name != "RegisterExt" {
					return true
				}
				if id, ok := s.X.(*ast.Ident); !ok || id.Name != mp {
					return true
				}
				arg := c.Args[1]
				if u, ok := arg.(*ast.UnaryExpr); ok {
					arg = u.X
				}
				if cl, ok := arg.(*ast.CompositeLit); ok {
					if id, ok := cl.Type.(*ast.Ident); ok {
						out = append(out, [2]string{d, id.Name})
					}
				}
				return true
			})
		}
	}
	sort.Slice(out, func(i, j int) bool { return out[i][0]+"."+out[i][1] < out[j][0]+"."+out[j][1] })
	return out
}

// ckMsgTypeOf: the message type a type expression denotes (`*rpc.T`, `rpc.T`, `*T`, `T`).
func ckMsgTypeOf(e ast.Expr, msg map[string]bool) string {
	switch x := e.(type) {
	case *ast.StarExpr:
		return ckMsgTypeOf(x.X, msg)
	case *ast.Ident:
		if msg[x.Name] {
			return x.Name
		}
	case *ast.SelectorExpr:
		if msg[x.Sel.Name] {
			return x.Sel.Name
		}
	}
	return ""
}

// ckValueType: the message type of the value an expression builds (&T{}, T{}, new(T)).
func ckValueType(e ast.Expr, msg map[string]bool) string {
	switch x := e.(type) {
	case *ast.UnaryExpr:
		if x.Op == token.AND {
			return ckValueType(x.X, msg)
		}
	case *ast.CompositeLit:
		if x.Type != nil {
			return ckMsgTypeOf(x.Type, msg)
		}
	case *ast.CallExpr:
		if id, ok := x.Fun.(*ast.Ident); ok && id.Name == "new" && len(x.Args) == 1 {
			return ckMsgTypeOf(x.Args[0], msg)
		}
	}
	return ""
}

// ckTracked maps the variables of a function that hold a message to the message type.
func ckTracked(fd *ast.FuncDecl, msg map[string]bool) map[string]string {
	tr := map[string]string{}
	addFields := func(fl *ast.FieldList) {
		if fl == nil {
			return
		}
		for _, f := range fl.List {
			if t := ckMsgTypeOf(f.Type, msg); t != "" {
				for _, n := range f.Names {
					tr[n.Name] = t
				}
			}
		}
	}
	addFields(fd.Type.Params)
	ast.Inspect(fd.Body, func(n ast.Node) bool {
		switch x := n.(type) {
		case *ast.FuncLit:
			addFields(x.Type.Params)
		case *ast.AssignStmt:
			for i, l := range x.Lhs {
				id, ok := l.(*ast.Ident)
				if !ok || i >= len(x.Rhs) || len(x.Lhs) != len(x.Rhs) {
					continue
				}
				if t := ckValueType(x.Rhs[i], msg); t != "" {
					tr[id.Name] = t
				}
			}
		case *ast.ValueSpec:
			if x.Type != nil {
				if t := ckMsgTypeOf(x.Type, msg); t != "" {
					for _, n := range x.Names {
						tr[n.Name] = t
					}
				}
			}
			for i, n := range x.Names {
				if i < len(x.Values) {
					if t := ckValueType(x.Values[i], msg); t != "" {
						tr[n.Name] = t
					}
				}
			}
		}
		return true
	})
	return tr
}

func ckSel(e ast.Expr) (string, string, bool) {
	for {
		p, ok := e.(*ast.ParenExpr)
		if !ok {
			break
		}
		e = p.X
	}
	s, ok := e.(*ast.SelectorExpr)
	if !ok {
		return "", "", false
	}
	id, ok := s.X.(*ast.Ident)
	if !ok {
		return "", "", false
	}
	return id.Name, s.Sel.Name, true
}

func ckIsLit(e ast.Expr, what string) bool {
	switch x := e.(type) {
	case *ast.Ident:
		return what == "nil" && x.Name == "nil"
	case *ast.BasicLit:
		if what == "zero" {
			return x.Value == `""` || x.Value == "0" || x.Value == "``"
		}
		if what == "num" {
			return x.Kind == token.INT
		}
	}
	return false
}

// ckDirectTests: tests on fields of message-typed variables inside fd.
func ckDirectTests(file string, fd *ast.FuncDecl, msg map[string]bool, fieldsOf map[string]map[string]bool) []ckTest {
	tr := ckTracked(fd, msg)
	if len(tr) == 0 {
		return nil
	}
	var out []ckTest
	add := func(x, f, test string) {
		t, ok := tr[x]
		if !ok || !fieldsOf[t][f] {
			return
		}
		out = append(out, ckTest{file, fd.Name.Name, t, f, test})
	}
	var markBool func(e ast.Expr)
	markBool = func(e ast.Expr) {
		switch x := e.(type) {
		case *ast.ParenExpr:
			markBool(x.X)
		case *ast.UnaryExpr:
			if x.Op == token.NOT {
				markBool(x.X)
			}
		case *ast.BinaryExpr:
			if x.Op == token.LAND || x.Op == token.LOR {
				markBool(x.X)
				markBool(x.Y)
			}
		case *ast.SelectorExpr:
			if v, f, ok := ckSel(x); ok {
				add(v, f, "bool")
			}
		}
	}
	ast.Inspect(fd.Body, func(n ast.Node) bool {
		switch x := n.(type) {
		case *ast.IfStmt:
			markBool(x.Cond)
		case *ast.ForStmt:
			if x.Cond != nil {
				markBool(x.Cond)
			}
		case *ast.BinaryExpr:
			switch x.Op {
			case token.EQL, token.NEQ, token.LSS, token.GTR, token.LEQ, token.GEQ:
				for _, pair := range [][2]ast.Expr{{x.X, x.Y}, {x.Y, x.X}} {
					a, b := pair[0], pair[1]
					if v, f, ok := ckSel(a); ok {
						if ckIsLit(b, "nil") {
							add(v, f, "nil")
						} else if ckIsLit(b, "zero") {
							add(v, f, "zero")
						}
					}
					if c, ok := a.(*ast.CallExpr); ok && len(c.Args) == 1 {
						if id, ok := c.Fun.(*ast.Ident); ok && id.Name == "len" && ckIsLit(b, "num") {
							if v, f, ok := ckSel(c.Args[0]); ok {
								add(v, f, "empty")
							}
						}
					}
				}
			}
		}
		return true
	})
	return out
}

// ckClusterChain follows result.<f> ==/!= nil in queryCluster back to message fields.
func ckClusterChain(pkgs map[string]*codecPkg, msg map[string]bool, fieldsOf map[string]map[string]bool) ([]ckTest, []string) {
	root := pkgs["."]
	if root == nil {
		return nil, []string{"codeckind: root package not found"}
	}
	var qc *ast.FuncDecl
	for _, f := range root.files {
		for _, d := range f.Decls {
			if fd, ok := d.(*ast.FuncDecl); ok && fd.Name.Name == "queryCluster" && fd.Body != nil {
				qc = fd
			}
		}
	}
	st := root.findStruct("remoteResult")
	if qc == nil || st == nil {
		return nil, []string{"codeckind: zenodb.(*DB).queryCluster or struct remoteResult not found (the leader's message-kind discrimination moved: update tools/extract/codec_kind.go)"}
	}
	rrFields := map[string]bool{}
	for _, f := range st.Fields.List {
		for _, n := range f.Names {
			rrFields[n.Name] = true
		}
	}
	// variables bound by `x := <-ch`
	recvVars := map[string]bool{}
	ast.Inspect(qc.Body, func(n ast.Node) bool {
		if a, ok := n.(*ast.AssignStmt); ok && len(a.Rhs) == 1 {
			if u, ok := a.Rhs[0].(*ast.UnaryExpr); ok && u.Op == token.ARROW {
				for _, l := range a.Lhs {
					if id, ok := l.(*ast.Ident); ok {
						recvVars[id.Name] = true
					}
				}
			}
		}
		return true
	})
	alias := map[string]string{}
	ast.Inspect(qc.Body, func(n ast.Node) bool {
		if a, ok := n.(*ast.AssignStmt); ok && len(a.Lhs) == 1 && len(a.Rhs) == 1 {
			if v, f, ok := ckSel(a.Rhs[0]); ok && recvVars[v] && rrFields[f] {
				if id, ok := a.Lhs[0].(*ast.Ident); ok {
					alias[id.Name] = f
				}
			}
		}
		return true
	})
	tested := map[string]bool{}
	ast.Inspect(qc.Body, func(n ast.Node) bool {
		b, ok := n.(*ast.BinaryExpr)
		if !ok || (b.Op != token.EQL && b.Op != token.NEQ) {
			return true
		}
		for _, pair := range [][2]ast.Expr{{b.X, b.Y}, {b.Y, b.X}} {
			if !ckIsLit(pair[1], "nil") {
				continue
			}
			if v, f, ok := ckSel(pair[0]); ok && recvVars[v] && rrFields[f] {
				tested[f] = true
			}
			if id, ok := pair[0].(*ast.Ident); ok && alias[id.Name] != "" {
				tested[alias[id.Name]] = true
			}
		}
		return true
	})
	// err is a remoteResult field too but is not filled from a callback parameter
	var testedList []string
	for f := range tested {
		testedList = append(testedList, f)
	}
	sort.Strings(testedList)
	if len(testedList) == 0 {
		return nil, []string{"codeckind: queryCluster no longer tests fields of remoteResult against nil (discrimination changed: update the extractor and the model's leaderKind)"}
	}
	// callback parameter names of planner.QueryClusterFN by position
	var cbNames []string
	if pp := pkgs["planner"]; pp != nil {
		if ts, _ := pp.findTypeSpec("QueryClusterFN"); ts != nil {
			if ft, ok := ts.Type.(*ast.FuncType); ok {
				for _, f := range ft.Params.List {
					for _, n := range f.Names {
						cbNames = append(cbNames, n.Name)
					}
				}
			}
		}
	}
	if len(cbNames) == 0 {
		return nil, []string{"codeckind: planner.QueryClusterFN with named parameters not found"}
	}
	// remoteResult literals inside closures: field <- closure parameter index
	type fill struct {
		field string
		lit   *ast.FuncLit
		param int
	}
	var fills []fill
	var stack []ast.Node
	ast.Inspect(qc.Body, func(n ast.Node) bool {
		if n == nil {
			stack = stack[:len(stack)-1]
			return true
		}
		if cl, ok := n.(*ast.CompositeLit); ok && cl.Type != nil {
			if id, ok := cl.Type.(*ast.Ident); ok && id.Name == "remoteResult" {
				var encl *ast.FuncLit
				for i := len(stack) - 1; i >= 0 && encl == nil; i-- {
					if fl, ok := stack[i].(*ast.FuncLit); ok {
						encl = fl
					}
				}
				if encl != nil {
					var params []string
					for _, f := range encl.Type.Params.List {
						for _, n := range f.Names {
							params = append(params, n.Name)
						}
					}
					for _, el := range cl.Elts {
						kv, ok := el.(*ast.KeyValueExpr)
						if !ok {
							continue
						}
						k, ok1 := kv.Key.(*ast.Ident)
						v, ok2 := kv.Value.(*ast.Ident)
						if ok1 && ok2 && tested[k.Name] {
							for i, pn := range params {
								if pn == v.Name {
									fills = append(fills, fill{k.Name, encl, i})
								}
							}
						}
					}
				}
			}
		}
		stack = append(stack, n)
		return true
	})
	// role of each closure: argument position in the call of the QueryClusterFN
	litVar := map[*ast.FuncLit]string{}
	ast.Inspect(qc.Body, func(n ast.Node) bool {
		if a, ok := n.(*ast.AssignStmt); ok && len(a.Lhs) == len(a.Rhs) {
			for i, r := range a.Rhs {
				if fl, ok := r.(*ast.FuncLit); ok {
					if id, ok := a.Lhs[i].(*ast.Ident); ok {
						litVar[fl] = id.Name
					}
				}
			}
		}
		return true
	})
	role := map[*ast.FuncLit]string{}
	ast.Inspect(qc.Body, func(n ast.Node) bool {
		c, ok := n.(*ast.CallExpr)
		if !ok || len(c.Args) != len(cbNames) {
			return true
		}
		for i, a := range c.Args {
			if fl, ok := a.(*ast.FuncLit); ok {
				role[fl] = cbNames[i]
			}
			if id, ok := a.(*ast.Ident); ok {
				for fl, v := range litVar {
					if v == id.Name {
						role[fl] = cbNames[i]
					}
				}
			}
		}
		return true
	})
	// rpc/server: <callback>(m.X, …)
	type cbArg struct {
		cb    string
		param int
	}
	from := map[cbArg][2]string{}
	if sp := pkgs[filepath.Join("rpc", "server")]; sp != nil {
		for _, f := range sp.files {
			for _, d := range f.Decls {
				fd, ok := d.(*ast.FuncDecl)
				if !ok || fd.Body == nil {
					continue
				}
				tr := ckTracked(fd, msg)
				ast.Inspect(fd.Body, func(n ast.Node) bool {
					c, ok := n.(*ast.CallExpr)
					if !ok {
						return true
					}
					id, ok := c.Fun.(*ast.Ident)
					if !ok {
						return true
					}
					for i, a := range c.Args {
						if v, fld, ok := ckSel(a); ok && tr[v] != "" && fieldsOf[tr[v]][fld] {
							from[cbArg{id.Name, i}] = [2]string{tr[v], fld}
						}
					}
					return true
				})
			}
		}
	}
	var out []ckTest
	var errs []string
	resolved := map[string]bool{}
	for _, fl := range fills {
		cb := role[fl.lit]
		if cb == "" {
			continue
		}
		if mf, ok := from[cbArg{cb, fl.param}]; ok {
			out = append(out, ckTest{"cluster_query.go", "queryCluster", mf[0], mf[1], "nil"})
			resolved[fl.field] = true
		}
	}
	for _, f := range testedList {
		if !resolved[f] && f != "err" {
			errs = append(errs, fmt.Sprintf("codeckind: queryCluster tests result.%s against nil but the chain back to a message field was not recognised", f))
		}
	}
	return out, errs
}

// ckErrorBeforeEnd: in rpc/server/rpc_server.go HandleRemoteQueries' receive loop, is the test
// `m.Error != ""` reached for a message that also has EndOfResults set?  True iff both tests
// are statements of the same block and the Error test comes before the
// `if m.EndOfResults { break }`.  The follower puts its query error ON the final message.
func ckErrorBeforeEnd(pkgs map[string]*codecPkg) (bool, []string) {
	sp := pkgs[filepath.Join("rpc", "server")]
	if sp == nil {
		return false, []string{"codeckind: package rpc/server not found"}
	}
	var fd *ast.FuncDecl
	for _, f := range sp.files {
		for _, d := range f.Decls {
			if x, ok := d.(*ast.FuncDecl); ok && x.Name.Name == "HandleRemoteQueries" && x.Body != nil {
				fd = x
			}
		}
	}
	if fd == nil {
		return false, []string{"codeckind: rpc/server HandleRemoteQueries not found"}
	}
	mentions := func(e ast.Expr, field string) bool {
		found := false
		ast.Inspect(e, func(n ast.Node) bool {
			if s, ok := n.(*ast.SelectorExpr); ok && s.Sel.Name == field {
				found = true
			}
			return !found
		})
		return found
	}
	hasBreak := func(b *ast.BlockStmt) bool {
		found := false
		ast.Inspect(b, func(n ast.Node) bool {
			if br, ok := n.(*ast.BranchStmt); ok && br.Tok == token.BREAK {
				found = true
			}
			return !found
		})
		return found
	}
	result, seen := false, false
	ast.Inspect(fd.Body, func(n ast.Node) bool {
		blk, ok := n.(*ast.BlockStmt)
		if !ok {
			return true
		}
		errIdx, endIdx := -1, -1
		for i, st := range blk.List {
			is, ok := st.(*ast.IfStmt)
			if !ok {
				continue
			}
			if mentions(is.Cond, "Error") && errIdx < 0 {
				errIdx = i
			}
			if mentions(is.Cond, "EndOfResults") && hasBreak(is.Body) && endIdx < 0 {
				endIdx = i
			}
		}
		if errIdx >= 0 && endIdx >= 0 {
			seen = true
			result = errIdx < endIdx
		}
		return true
	})
	if !seen {
		return false, []string{"codeckind: HandleRemoteQueries: the tests of m.Error and of m.EndOfResults (with break) are not statements of one block any more (update tools/extract/codec_kind.go and the model's leaderKind)"}
	}
	return result, nil
}

func genCodecKindFacts(repo string) (string, []string, interface{}) {
	pkgs, errs := codecLoadPkgs(repo)
	msgs, merrs := cdCollectMsgTypes(pkgs)
	errs = append(errs, merrs...)
	msg := map[string]bool{}
	fieldsOf := map[string]map[string]bool{}
	var tags []ckTag
	seen := map[string]bool{}
	addStruct := func(dir, name string) {
		if seen[dir+"."+name] {
			return
		}
		seen[dir+"."+name] = true
		p := pkgs[dir]
		if p == nil {
			return
		}
		st := p.findStruct(name)
		if st == nil {
			return
		}
		tags = append(tags, ckStructTags(p, name, st)...)
	}
	for _, m := range msgs {
		msg[m.name] = true
		fieldsOf[m.name] = map[string]bool{}
		for _, f := range m.exported {
			fieldsOf[m.name][f] = true
		}
		addStruct(m.pkg, m.name)
	}
	for _, r := range ckRegistered(pkgs) {
		addStruct(r[0], r[1])
	}
	if len(tags) == 0 {
		errs = append(errs, "codeckind: no struct fields found for the message types")
	}

	var tests []ckTest
	dirs := make([]string, 0, len(pkgs))
	for d := range pkgs {
		dirs = append(dirs, d)
	}
	sort.Strings(dirs)
	for _, d := range dirs {
		p := pkgs[d]
		for _, f := range cdSortedFiles(p) {
			file := filepath.Join(d, filepath.Base(p.fset.Position(f.Pos()).Filename))
			for _, decl := range f.Decls {
				if fd, ok := decl.(*ast.FuncDecl); ok && fd.Body != nil {
					tests = append(tests, ckDirectTests(file, fd, msg, fieldsOf)...)
				}
			}
		}
	}
	chain, cerrs := ckClusterChain(pkgs, msg, fieldsOf)
	errs = append(errs, cerrs...)
	tests = append(tests, chain...)
	// dedupe, stable order
	uniq := map[ckTest]bool{}
	var ts []ckTest
	for _, t := range tests {
		if !uniq[t] {
			uniq[t] = true
			ts = append(ts, t)
		}
	}
	sort.SliceStable(ts, func(i, j int) bool {
		a, b := ts[i], ts[j]
		if a.msgType != b.msgType {
			return a.msgType < b.msgType
		}
		if a.field != b.field {
			return a.field < b.field
		}
		if a.test != b.test {
			return a.test < b.test
		}
		if a.file != b.file {
			return a.file < b.file
		}
		return a.fn < b.fn
	})
	if len(ts) == 0 {
		errs = append(errs, "codeckind: no message-kind test found in the receiving code")
	}

	var sb strings.Builder
	sb.WriteString("/-- one field of a struct that crosses the RPC boundary, with its msgpack struct tag (C20) -/\n")
	sb.WriteString("structure CodecFieldTag where\n  pkg : String\n  typ : String\n  field : String\n  goType : String\n  hasTag : Bool\n  wireName : String\n  omitEmpty : Bool\n  skip : Bool\n  opts : List String\n  deriving DecidableEq, Repr\n\n")
	sb.WriteString("def codecFieldTags : List CodecFieldTag := [\n")
	for i, t := range tags {
		sep := ","
		if i == len(tags)-1 {
			sep = ""
		}
		fmt.Fprintf(&sb, "  { pkg := %s, typ := %s, field := %s, goType := %s, hasTag := %s, wireName := %s, omitEmpty := %s, skip := %s, opts := %s }%s\n",
			cdLeanStr(t.pkg), cdLeanStr(t.typ), cdLeanStr(t.field), cdLeanStr(t.goType), cdLeanBool(t.hasTag), cdLeanStr(t.wireName),
			cdLeanBool(t.omitEmpty), cdLeanBool(t.skip), cdLeanStrList(t.opts), sep)
	}
	sb.WriteString("]\n\n")
	sb.WriteString("/-- a test by which receiving code tells message kinds / ends of streams apart (C20) -/\n")
	sb.WriteString("structure CodecKindTest where\n  file : String\n  fn : String\n  msgType : String\n  field : String\n  test : String\n  deriving DecidableEq, Repr\n\n")
	sb.WriteString("def codecKindTests : List CodecKindTest := [\n")
	var summary []string
	for i, t := range ts {
		sep := ","
		if i == len(ts)-1 {
			sep = ""
		}
		fmt.Fprintf(&sb, "  { file := %s, fn := %s, msgType := %s, field := %s, test := %s }%s\n",
			cdLeanStr(t.file), cdLeanStr(t.fn), cdLeanStr(t.msgType), cdLeanStr(t.field), cdLeanStr(t.test), sep)
		summary = append(summary, fmt.Sprintf("%s.%s %s (%s %s)", t.msgType, t.field, t.test, t.file, t.fn))
	}
	sb.WriteString("]\n\n")
	ebe, eerrs := ckErrorBeforeEnd(pkgs)
	errs = append(errs, eerrs...)
	sb.WriteString("/-- HandleRemoteQueries reads `m.Error` before it leaves the receive loop on `m.EndOfResults` (C20) -/\n")
	fmt.Fprintf(&sb, "def codecErrorBeforeEnd : Bool := %s\n\n", cdLeanBool(ebe))
	return sb.String(), errs, map[string]interface{}{"tags": len(tags), "kind_tests": summary, "error_before_end": ebe}
}
