package main

// C02 facts (go/ast only): the source id under which a standalone table's WAL offsets are
// STORED and the key under which they are LOOKED UP at start must be the same expression.
//
//	tag     insert.go  (*table).processWALInserts: the third element of the composite literal
//	        `&walRead{data, t.wal.Offset(), <tag>}` (or its `source:` field) — the source every
//	        WAL entry of a non-clustered server is tagged with;
//	carry   insert.go  (*table).processInserts: the source argument handed on to t.insert / t.skip
//	        must be `read.source` (the tag travels unchanged);
//	store   row_store.go (*rowStore).processInserts: the index expression of the assignment
//	        `ms.offsetsBySource[<key>] = insert.offset` — must be `insert.source`;
//	lookup  table.go   (*DB).CreateTable: the index expression of the argument of
//	        `t.startWALProcessing(offsetsBySource[<key>])`.
//
// Emitted as Facts.walSource; the expectation (tag = lookup, the chain in between unchanged)
// is the `decide` theorem Zeno.C02.wal_source_same_expression.  A site that is not found is a
// problem string (refactoring), never a silently empty fact.

import (
	"bytes"
	"fmt"
	"go/ast"
	"go/parser"
	"go/printer"
	"go/token"
	"path/filepath"
	"strings"
)

func init() {
	factGens = append(factGens, factGen{"walsource", genWalSourceFacts})
}

func wsText(fset *token.FileSet, n ast.Node) string {
	var b bytes.Buffer
	printer.Fprint(&b, fset, n)
	return strings.Join(strings.Fields(b.String()), " ")
}

func wsFunc(f *ast.File, recv, name string) *ast.FuncDecl {
	for _, d := range f.Decls {
		fd, ok := d.(*ast.FuncDecl)
		if !ok || fd.Name.Name != name || fd.Body == nil {
			continue
		}
		if recv == "" && fd.Recv == nil {
			return fd
		}
		if fd.Recv != nil && len(fd.Recv.List) == 1 {
			t := fd.Recv.List[0].Type
			if s, ok := t.(*ast.StarExpr); ok {
				t = s.X
			}
			if id, ok := t.(*ast.Ident); ok && id.Name == recv {
				return fd
			}
		}
	}
	return nil
}

func genWalSourceFacts(repo string) (string, []string, interface{}) {
	var errs []string
	fset := token.NewFileSet()
	parse := func(name string) *ast.File {
		f, err := parser.ParseFile(fset, filepath.Join(repo, name), nil, 0)
		if err != nil {
			errs = append(errs, fmt.Sprintf("walsource: cannot parse %s: %v", name, err))
			return nil
		}
		return f
	}
	var tags, carries, stores, lookups []string
	if f := parse("insert.go"); f != nil {
		if fd := wsFunc(f, "table", "processWALInserts"); fd != nil {
			ast.Inspect(fd.Body, func(n ast.Node) bool {
				cl, ok := n.(*ast.CompositeLit)
				if !ok {
					return true
				}
				if id, ok := cl.Type.(*ast.Ident); !ok || id.Name != "walRead" {
					return true
				}
				found := false
				for _, e := range cl.Elts {
					if kv, ok := e.(*ast.KeyValueExpr); ok {
						if k, ok := kv.Key.(*ast.Ident); ok && k.Name == "source" {
							tags = append(tags, wsText(fset, kv.Value))
							found = true
						}
					}
				}
				if !found && len(cl.Elts) == 3 {
					if _, keyed := cl.Elts[2].(*ast.KeyValueExpr); !keyed {
						tags = append(tags, wsText(fset, cl.Elts[2]))
					}
				}
				return true
			})
		} else {
			errs = append(errs, "walsource: (*table).processWALInserts not found in insert.go")
		}
		if fd := wsFunc(f, "table", "processInserts"); fd != nil {
			ast.Inspect(fd.Body, func(n ast.Node) bool {
				call, ok := n.(*ast.CallExpr)
				if !ok {
					return true
				}
				sel, ok := call.Fun.(*ast.SelectorExpr)
				if !ok || (sel.Sel.Name != "insert" && sel.Sel.Name != "skip") || len(call.Args) == 0 {
					return true
				}
				if x, ok := sel.X.(*ast.Ident); !ok || x.Name != "t" {
					return true
				}
				carries = append(carries, sel.Sel.Name+":"+wsText(fset, call.Args[len(call.Args)-1]))
				return true
			})
		} else {
			errs = append(errs, "walsource: (*table).processInserts not found in insert.go")
		}
	}
	if f := parse("row_store.go"); f != nil {
		if fd := wsFunc(f, "rowStore", "processInserts"); fd != nil {
			ast.Inspect(fd.Body, func(n ast.Node) bool {
				as, ok := n.(*ast.AssignStmt)
				if !ok || len(as.Lhs) != 1 || len(as.Rhs) != 1 {
					return true
				}
				ix, ok := as.Lhs[0].(*ast.IndexExpr)
				if !ok || !strings.HasSuffix(wsText(fset, ix.X), "offsetsBySource") {
					return true
				}
				if wsText(fset, as.Rhs[0]) == "insert.offset" {
					stores = append(stores, wsText(fset, ix.Index))
				}
				return true
			})
		} else {
			errs = append(errs, "walsource: (*rowStore).processInserts not found in row_store.go")
		}
	}
	if f := parse("table.go"); f != nil {
		if fd := wsFunc(f, "DB", "CreateTable"); fd != nil {
			ast.Inspect(fd.Body, func(n ast.Node) bool {
				call, ok := n.(*ast.CallExpr)
				if !ok || len(call.Args) != 1 {
					return true
				}
				sel, ok := call.Fun.(*ast.SelectorExpr)
				if !ok || sel.Sel.Name != "startWALProcessing" {
					return true
				}
				if ix, ok := call.Args[0].(*ast.IndexExpr); ok {
					lookups = append(lookups, wsText(fset, ix.Index))
				} else {
					lookups = append(lookups, "?:"+wsText(fset, call.Args[0]))
				}
				return true
			})
		} else {
			errs = append(errs, "walsource: (*DB).CreateTable not found in table.go")
		}
	}
	if len(tags) == 0 {
		errs = append(errs, "walsource: no walRead{..} literal in processWALInserts (where is the WAL source tagged?)")
	}
	if len(stores) == 0 {
		errs = append(errs, "walsource: no `offsetsBySource[..] = insert.offset` in rowStore.processInserts")
	}
	if len(lookups) == 0 {
		errs = append(errs, "walsource: no startWALProcessing(offsetsBySource[..]) call in CreateTable")
	}
	q := func(xs []string) string {
		qs := make([]string, len(xs))
		for i, x := range xs {
			qs[i] = fmt.Sprintf("%q", x)
		}
		return "[" + strings.Join(qs, ", ") + "]"
	}
	var sb strings.Builder
	sb.WriteString("/-- C02: where a standalone table's WAL source id comes from and where it is used (see tools/extract/walsource.go) -/\n")
	sb.WriteString("structure WalSource where\n  tags : List String\n  carries : List String\n  stores : List String\n  lookups : List String\n  deriving Repr, DecidableEq\n\n")
	sb.WriteString(fmt.Sprintf("def walSource : WalSource :=\n  { tags := %s,\n    carries := %s,\n    stores := %s,\n    lookups := %s }\n\n", q(tags), q(carries), q(stores), q(lookups)))
	return sb.String(), errs, map[string]interface{}{"tags": tags, "carries": carries, "stores": stores, "lookups": lookups}
}
