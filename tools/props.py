"""Per-property configuration of the checks: Lean modules holding the property
theorems, theorems that must exist, and correspondence engines with case counts."""

TB_FLOAT = "float64 modelled as Rat (no rounding, overflow, NaN/Inf); inputs kept in the exactly-representable range"
TB_TIME = "time.Time/Duration as unbounded Int nanoseconds (no int64 wrap; float floor/ceil in RoundTimeUntil* exact below 2^53 ns)"

PROPS = {
    "C05": {
        "lean": ["ZenoModel.Props.C05"],
        "theorems": ["merge_homomorphism", "merge_homomorphism3", "value_after_merge", "merge_comm",
                     "merge_assoc", "acc_batches_commute", "truncate_keeps_window",
                     "series_merge_semantics", "series_merge_comm"],
        "engines": [
            {"name": "seq", "n_quick": 4000, "n_thorough": 400000, "n_search": 20000},
        ],
        "trusted_base": [TB_FLOAT, TB_TIME,
                         "leaf closures translated from expr/aggregates.go, calcs.go, conds.go, avg.calc, bounded.test by tools/extract (unverified translator)",
                         "PERCENTILE (hdrhistogram) and unary math functions are outside the theorems (noPtile hypothesis; uninterpreted functions)"],
        "assumptions": ["expressions are those accepted by Validate() and reachable from the SQL grammar (Ex.valid)"],
    },
}
