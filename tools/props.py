"""Per-property configuration of the checks: Lean modules holding the property
theorems, theorems that must exist, and correspondence engines with case counts."""

TB_FLOAT = "float64 modelled as Rat (no rounding, overflow, NaN/Inf); inputs kept in the exactly-representable range"
TB_TIME = "time.Time/Duration as unbounded Int nanoseconds (no int64 wrap; float floor/ceil in RoundTimeUntil* exact below 2^53 ns)"

PROPS = {
    "C05": {
        "lean": ["ZenoModel.Props.C05"],
        "theorems": ["merge_homomorphism", "merge_homomorphism3", "value_after_merge", "merge_comm",
                     "merge_assoc", "acc_batches_commute", "truncate_keeps_window",
                     "series_merge_semantics", "series_merge_comm"],
        "engines": [
            {"name": "seq", "n_quick": 4000, "n_thorough": 400000, "n_search": 20000},
        ],
        "trusted_base": [TB_FLOAT, TB_TIME,
                         "leaf closures translated from expr/aggregates.go, calcs.go, conds.go, avg.calc, bounded.test by tools/extract (unverified translator)",
                         "PERCENTILE (hdrhistogram) and unary math functions are outside the theorems (noPtile hypothesis; uninterpreted functions)"],
        "assumptions": ["expressions are those accepted by Validate() and reachable from the SQL grammar (Ex.valid)"],
    },
    "C09": {
        "lean": ["ZenoModel.Props.C09"],
        "theorems": ["cmpVal_spec", "lessP_eq_lexLt", "less_eq_lexLt", "less_no_panic",
                     "lexLt_irrefl", "lexLt_asymm", "lexLt_trans", "lexLt_incomp_trans", "lexLt_strictWeak",
                     "less_strictWeak", "sort_perm", "sort_sorted",
                     "limit_offset_slice", "limit_at_most", "limit_offset_sublist",
                     "query_spec", "query_unordered", "lessBuggy_violates_spec"],
        "engines": [
            # exh: small-scope enumeration, n is ignored (quick: key lists of length <= 2, thorough: <= 3)
            {"name": "sortlim", "mode": "exh", "n_quick": 0, "n_thorough": 0, "n_search": 0, "search": False},
            {"name": "sortlim", "mode": "core", "n_quick": 6000, "n_thorough": 600000, "n_search": 20000},
            # db: n = number of tables, each queried with 3-6 ORDER BY/LIMIT combinations (x3 queries each)
            {"name": "sortlim", "mode": "db", "n_quick": 120, "n_thorough": 3000, "n_search": 60},
        ],
        "trusted_base": [TB_FLOAT,
                         "Go's sort.Sort returns a permutation that is non-decreasing w.r.t. Less whenever Less is a strict weak order (premise proved: less_strictWeak); the model's own insertion sort is proved (sort_perm, sort_sorted)",
                         "FlatRow.TS / time.Time as unbounded Int nanoseconds; the int64 idx counters of limit/offset as Nat (no wrap); context deadlines and callback errors not modelled (guard.Proceed() = true)",
                         "bytemap.Get returns the stored dynamic value or nil; string order = Lean String order (equal to Go's byte order on valid UTF-8)",
                         "sqlparser / sql.applyOrderBy / applyLimit only sampled end-to-end by the db mode of the sortlim engine (grammar: LIMIT [offset,] rowcount)"],
        "assumptions": ["every ORDER BY column holds, over the rows of the result, nil or values of one dynamic Go type other than uint (Comparable); otherwise core.compare panics (modelled: lessP = none, tied by the engine)",
                        "LIMIT 0 / OFFSET 0 mean 'clause absent' (planner: `if query.Limit > 0`)"],
    },
    "C19": {
        "lean": ["ZenoModel.Props.C19"],
        "theorems": ["rpc_authorize_iff", "rpc_refuses_without_password", "rpc_disclosing_refused",
                     "rpc_right_password_served", "all_disclosing_handlers_guarded", "web_refuses",
                     "web_data_route_refuses", "expired_cookie_refused", "forged_cookie_refused",
                     "no_credential_refused", "wrong_static_token_refused", "fresh_session_served",
                     "all_data_routes_guarded", "d10_witness_unauthenticated_registration_served",
                     "d11_witness_expired_cookie_accepted"],
        "engines": [
            # n = number of rounds; every round is the complete credential lattice with fresh secrets
            {"name": "auth", "n_quick": 2, "n_thorough": 25, "n_search": 1, "timeout_quick": 300},
        ],
        "trusted_base": ["gRPC metadata transport, net/http, gorilla/mux first-match routing and gorilla/securecookie (a value decodes iff it was sealed with the same keys under the same name and is younger than its max age) are trusted libraries",
                         "tools/extract/auth.go (go/ast, unverified): guard-before-use is statement order at the top level of the handler body, not a control-flow dominance analysis",
                         "GitHub is unreachable in the sandbox: userInOrg is only ever observed failing; the re-verification branch (orgVerified = true) is modelled, not exercised",
                         "rpcserver.DB.Follow / RegisterQueryHandler are answered by a recording stand-in behind the rpcserver.DB interface (Query and InsertRaw reach a real embedded zenodb)"],
        "assumptions": ["a session cookie that decodes was issued by this server's /oauth/code flow (the signing keys are secret); how that flow establishes org membership is outside C19's model",
                        "time is compared as integers; the instant expiration == now is modelled (refused unless re-verified) but not exercised against the wall clock"],
    },
    "C20": {
        "lean": ["ZenoModel.Props.C20"],
        "theorems": ["dec_enc", "dec_enc_exact", "second_hop_identity", "update_preserved", "merge_preserved",
                     "get_preserved", "shape_preserved", "facts_match_model", "enc_follows_facts", "facts_cover",
                     "ignorable_is_minimal", "ext_ids_distinct", "custom_codecs_symmetric",
                     "custom_encoders_keep_ext_header", "registries_match", "msg_fields_cover"],
        "engines": [
            {"name": "codec", "mode": "expr", "n_quick": 4000, "n_thorough": 200000, "n_search": 6000},
            {"name": "codec", "mode": "msg", "n_quick": 3000, "n_thorough": 100000, "n_search": 3000},
            {"name": "codec", "mode": "e2e", "n_quick": 80, "n_thorough": 3000, "n_search": 60,
             "timeout_quick": 300, "timeout_thorough": 1500},
        ],
        "trusted_base": [TB_FLOAT,
                         "msgpack (github.com/getlantern/msgpack): reflection encoding of exported struct fields, ext framing, "
                         "generic decoding into map[string]interface{}; modelled as the Wire tree and sampled by comparing the real bytes with the model's enc",
                         "goexpr's own codec for IF conditions (ext ids 70-104), snappy framing and gRPC transport: external, exercised end to end only",
                         "field sets, ext ids, decoder assignments and registry keys regenerated from /repo by tools/extract/codec.go (go/ast, unverified extractor)",
                         "closure identity in the harness is read through reflect/unsafe (func value word compared with the registries' closures)"],
        "assumptions": ["expression objects are built by the package constructors (GEx.linked: every closure field holds the registry's closure for the node's name; ptileOptimized embeds a copy of the *ptile it wraps)",
                        "Validate() is not an observer: binaryExpr.DeAggregated is written but not read back (validate_not_preserved); no caller validates a decoded expression"],
    },

    "C01": {
        "lean": ["ZenoModel.Props.C01"],
        "theorems": ["ingest_refines_spec", "period_of_point", "period_is_least", "counted_once", "clock_agrees", "points_counts_rows"],
        "engines": [
            {"name": "store", "n_quick": 240, "n_thorough": 24000, "n_search": 480, "shards": 8, "shards_thorough": 16,
             "timeout_quick": 600, "timeout_thorough": 5400},
        ],
        "trusted_base": [TB_FLOAT, TB_TIME,
                         "the theorems are about one column (one field of one key) of the row store (Model/Column.lean); the fan-out of a point to its key's row and fields (Model/Store.lean) is tied to the column model by the executable projection check of Model/StoreColumn.lean on every generated case, and to the code by the store engine (raw scans compared sequence by sequence through the verif hook VerifIterate)",
                         "dimension expressions (WHERE, GROUP BY, IF conditions) are evaluated by the real goexpr in the harness and passed to the model",
                         "the radix tree and the file format are finite maps in the model; emsort/snappy framing only sampled",
                         "PERCENTILE fields and unary math are outside the theorems (noPtile)"],
        "assumptions": ["timestamps are after Go's zero time and inside int64 nanoseconds", "flushes happen only where the script forces them (MinFlushLatency set high); timer-driven flushes are exercised by C03's schedule mode only"],
    },
    "C03": {
        "lean": ["ZenoModel.Props.C03"],
        "theorems": ["view_schedule_independent", "clock_schedule_independent", "view_flush", "disk_equals_mem_after_flush", "view_is_merge"],
        "engines": [
            {"name": "store", "n_quick": 240, "n_thorough": 24000, "n_search": 480, "shards": 8, "shards_thorough": 16,
             "timeout_quick": 600, "timeout_thorough": 5400},
        ],
        "trusted_base": [TB_FLOAT, TB_TIME,
                         "one-column theorems; store model tied to the column model by Model/StoreColumn.lean (executable projection check) and to the code by the store engine",
                         "sorted flush changes only the order of rows in the file, which is not part of the model; emsort is trusted to return every chunk it was given",
                         "clean restart between flushes is exercised by the crash engine of C02, not here"],
        "assumptions": ["timestamps after Go's zero time; flushes only where forced"],
    },
    "C14": {
        "lean": ["ZenoModel.Props.C14"],
        "theorems": ["old_point_not_stored", "old_point_not_counted", "live_period_kept", "clock_monotone",
                     "expired_gone_after_truncating_flush", "truncation_bound_tight", "truncating_flush_within_ten", "no_resurrection"],
        "engines": [
            {"name": "store", "mode": "retention", "n_quick": 96, "n_thorough": 9600, "n_search": 192, "shards": 8, "shards_thorough": 16,
             "timeout_quick": 600, "timeout_thorough": 5400},
        ],
        "trusted_base": [TB_FLOAT, TB_TIME,
                         "one-column theorems; store model tied to the column model by Model/StoreColumn.lean and to the code by the store engine (retention mode: retention/resolution ratios 1..6, 20-60 operations, >= 10 flushes)",
                         "the query-window clause (grouped or time-ranged queries never return periods that ended more than one resolution before now - retention) is covered with C07's window theorems and the query engine"],
        "assumptions": ["virtual clock (VirtualTime): now = maximum accepted timestamp, monotone"],
    },
    "C17": {
        "lean": ["ZenoModel.Props.C17"],
        "theorems": ["union_covers", "union_of_one", "orMem_iff", "mapping_is_projection", "no_cross_talk",
                     "coalesced_spec", "coalesced_spec_at", "solo_spec", "coalesced_equals_solo_stream",
                     "coalesced_equals_solo", "stopped_iteration_gets_nothing_more", "receives_prefix",
                     "unfinished_received_all", "includeMem_or_leaks", "blank_rows_differ",
                     "d8_error_aborts_everyone", "d3_d8_rows_lost_silently", "d8_deadline_inherited",
                     "d8_finished_query_gets_foreign_error", "d15_blank_row_ends_solo_scan"],
        "engines": [
            # n = number of generated tables, each with one concurrent batch of 2-8 queries + the same queries alone
            {"name": "coalesce", "n_quick": 40, "n_thorough": 2000, "n_search": 48,
             "timeout_quick": 300, "timeout_thorough": 1500},
        ],
        "trusted_base": ["column values (encoding.Sequence) are opaque content ids; what a scan yields for a table (Table.disk / Table.fresh, merging of file and memstore rows) is M-STORE's business and is taken from solo full-field scans of the real table",
                         "time: a deadline is an expiry index into the shared scan (`some 0` = already expired, none = no deadline); only none / expired / far deadlines are compared exactly, short ones are sampled",
                         "goroutine scheduling, channel hand-off in table.iterate / coalesceIteration and which batches form are observed through the coalesce.* verif events, not modelled; Go's random map order over remainingIterations is irrelevant after the D8 fix (coalesced_spec: the result is a List.map over the iterations)",
                         "the SQL pipeline above the table scan (group / flatten / sort / limit) is not part of this model: SQL queries enter the model batch only with the fields and includeMemStore they ask of the table; their results are compared concurrent vs alone (property oracle)",
                         "context cancellation other than deadlines is ignored by the code (core.Guard only looks at the deadline) and by the model"],
        "assumptions": ["every iteration's field list is duplicate-free (indexOfOutField = first match; the planner's sourceForTable and table.fields satisfy it)",
                        "coalesced_equals_solo: the query's includeMemStore equals the OR over the batch (otherwise known finding C17-includeMemStore-or) and no file row is blank for it (Covers; always true for the table's own fields on an unaltered table; rows without any value are invisible to every consumer in the repo)"],
    },

    "C06": {
        "lean": ["ZenoModel.Props.C06"],
        "theorems": ["regroup_is_reaggregation", "regroup_value", "regroup_order_irrelevant", "bucket_contains",
                     "buckets_partition", "subMerge_targets_bucket", "subMerge_loop_exactly_once", "spec_bucket_is_outPeriod"],
        "engines": [
            {"name": "query", "n_quick": 120, "n_thorough": 12000, "n_search": 240, "shards": 6, "shards_thorough": 16,
             "timeout_quick": 600, "timeout_thorough": 5400},
            {"name": "seq", "n_quick": 3000, "n_thorough": 200000, "n_search": 10000},
        ],
        "trusted_base": [TB_FLOAT, TB_TIME,
                         "the executable spec specQuery (raw points -> buckets -> direct accumulation) and the mechanistic model runQuery (scan -> Group with SubMerge -> Flatten) are both compared with the real executor on every generated query; the theorems state the algebraic and arithmetic facts that make the two coincide (n-way merge homomorphism, bucket partition, SubMerge index arithmetic); a full refinement proof runQuery = specQuery is not given",
                         "dimension predicates / group-by expressions are evaluated by the real goexpr in the harness; only plain dimension names are generated as GROUP BY items; CROSSTAB, STRIDE and FROM-subqueries are outside the model (STRIDE and SHIFT are covered at the Sequence.SubMerge level by the seq engine)",
                         "the model consumes the REAL parser's summary of the query (sql.Parse: group-by names, resolution, bounds, flags) and only re-derives the field expressions, which are checked to print like the real ones"],
        "assumptions": ["table fields print distinctly (else known finding field-identity-collision)", "periods are multiples of the table resolution (the planner rejects others)"],
    },
    "C07": {
        "lean": ["ZenoModel.Props.C07"],
        "theorems": ["window_default", "window_requested", "bound_rounded_up", "aligned_bound_exact", "window_exact",
                     "window_general", "asOf_before_table_rejected", "at_least_one_period", "spec_window_clause"],
        "engines": [
            {"name": "query", "n_quick": 120, "n_thorough": 12000, "n_search": 240, "shards": 6, "shards_thorough": 16,
             "timeout_quick": 600, "timeout_thorough": 5400},
            {"name": "seq", "n_quick": 3000, "n_thorough": 200000, "n_search": 10000},
        ],
        "trusted_base": [TB_FLOAT, TB_TIME,
                         "window_exact is about Sq.truncate, the restriction Sequence.SubMerge applies to every stored series before regrouping (tied by the seq engine); the planner's bounds come from planLocal/windowFor (tied by the query engine, which also evaluates the raw-point spec on bounded queries)",
                         "the database clock is the virtual clock (maximum accepted timestamp); relative bounds are offsets from it"],
        "assumptions": ["stored series are on the absolute grid of the table resolution (proved invariant SeqOk, Lemmas/SeqUpdate+SeqInv)"],
    },
    "C08": {
        "lean": ["ZenoModel.Props.C08"],
        "theorems": ["having_keeps_iff", "having_strips_helper", "having_sublist", "where_commutes_with_window",
                     "where_excludes", "in_subquery_is_in_list", "in_subquery_distinct", "having_helper_has_value_without_data"],
        "engines": [
            {"name": "query", "n_quick": 120, "n_thorough": 12000, "n_search": 240, "shards": 6, "shards_thorough": 16,
             "timeout_quick": 600, "timeout_thorough": 5400},
        ],
        "trusted_base": [TB_FLOAT, TB_TIME,
                         "dimension predicates (WHERE, incl. the result of IN-subqueries) are opaque bits per row key evaluated by the real goexpr in the harness; HAVING is the synthetic last column of the field list, evaluated by M-EXPR",
                         "FROM-subqueries and IN-subqueries are exercised by implementation-only metamorphic differentials, not by the model"],
        "assumptions": ["the HAVING clause 'exactly those rows of the HAVING-free query' holds only up to known finding empty-bucket-row (rows for periods without data)"],
    },
    "C02": {
        "lean": ["ZenoModel.Props.C02"],
        "theorems": ["inv_init", "inv_step", "reachable_inv", "reachable_inv_run", "files_complete",
                     "recovered_exactly_once_partial", "recovered_exactly_once_scalar",
                     "recover_is_crash_reopen_catchUp", "acked_not_lost", "no_double_count", "clean_close",
                     "d12_witness", "recovered_exactly_once_false", "d12_trace_not_aligned"],
        "engines": [
            # n = number of scripts; per script: crash-free baseline + every hook event that occurs x
            # first two occurrences (thorough: every occurrence, capped at 12) + SIGKILL cases; 2-7 child processes each
            {"name": "crash", "n_quick": 6, "n_thorough": 70, "n_search": 6,
             "timeout_quick": 600, "timeout_thorough": 3000},
        ],
        "trusted_base": ["github.com/getlantern/wal: Write appends one entry and (SyncInterval 0) syncs it before returning; offsets grow with every write; "
                         "NewReader(offset) resumes strictly after the entry that ends at offset; a torn tail is skipped (modelled as: an in-flight entry is in the WAL or not)",
                         "OS file semantics under process kills: what write(2) accepted is durable, rename within one filesystem is atomic "
                         "(temp files are created in os.TempDir: a TMPDIR on another filesystem than the data directory is outside the model); power loss / page-cache loss is not modelled",
                         "table content abstracted to the list of (entry, i) applications; the refinement to real aggregates is M-STORE + C05 (merge homomorphism), "
                         "sampled end to end by the value encoding base^attempt of the crash engine",
                         "hook placement in /repo (build tag verif): the event log is the model's view of the run; a durable action that happened "
                         "without its hook line (kill between the two) is bridged by the driver's crashAsync alternatives (rename of the flush file / of the offset file)",
                         "LimitAge at CreateTable is the identity (WAL segments younger than the retention period, no backfill limit); WAL truncation by size (capWALAge) does not occur (small scripts)"],
        "assumptions": ["one source (non-clustered server); the follower path (offsets per source) is C12",
                        "no flush starts between two row-store inserts of one array-valued point (Zeno.Crash.stepA) - otherwise D12: "
                        "recovered_exactly_once_false; all scalar-valued histories satisfy it (recovered_exactly_once_scalar)"],
    },
}
