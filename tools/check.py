#!/usr/bin/env python3
"""Orchestrator: ./check <Cxx> [--tier quick|thorough] [--replay file]

Per run, for one property:
  1. regenerate lean/ZenoModel/Generated/*.lean from /repo (tools/extract)
  2. lake build the property's theorem module; audit axioms of every theorem in
     namespace Zeno.<Cxx>; grep the Lean sources for forbidden constructs
  3. rebuild the Go harness (tag verif) against /repo's working tree
  4. run the property's correspondence engines (corpus first, then generated)
  5. decide: exit 0, or print VIOLATION property=<id> replay=<path> and exit 1
  6. write evidence/<Cxx>.json
"""
import fcntl
import hashlib
import json
import os
import re
import subprocess
import sys
import time

ROOT = os.path.dirname(os.path.dirname(os.path.abspath(__file__)))
REPO = os.environ.get("ZENO_REPO", "/repo")
LEAN = os.path.join(ROOT, "lean")
HARNESS = os.path.join(ROOT, "harness")
BIN = os.path.join(ROOT, "bin")
OUT = os.path.join(ROOT, "out")
REPLAYS = os.path.join(ROOT, "replays")
EVIDENCE = os.path.join(ROOT, "evidence")
ALLOWED_AXIOMS = {"propext", "Classical.choice", "Quot.sound"}
GOENV = dict(os.environ, GOFLAGS="-mod=mod", GOPROXY="off", GOSUMDB="off", GOTOOLCHAIN="local")

sys.path.insert(0, os.path.join(ROOT, "tools"))
from props import PROPS  # noqa: E402


def run(cmd, cwd=None, env=None, timeout=None):
    p = subprocess.run(cmd, cwd=cwd, env=env, stdout=subprocess.PIPE, stderr=subprocess.STDOUT,
                       text=True, timeout=timeout)
    return p.returncode, p.stdout


class Lock:
    def __init__(self, name):
        os.makedirs(OUT, exist_ok=True)
        self.path = os.path.join(OUT, name + ".lock")

    def __enter__(self):
        self.f = open(self.path, "w")
        fcntl.flock(self.f, fcntl.LOCK_EX)

    def __exit__(self, *a):
        fcntl.flock(self.f, fcntl.LOCK_UN)
        self.f.close()


def lean_sources():
    for d, _, fs in os.walk(os.path.join(LEAN, "ZenoModel")):
        for f in fs:
            if f.endswith(".lean"):
                yield os.path.join(d, f)
    yield os.path.join(LEAN, "Main.lean")


def strip_comments(text):
    # remove /- ... -/ (nested) and -- line comments
    out, depth, i = [], 0, 0
    while i < len(text):
        if text.startswith("/-", i):
            depth += 1
            i += 2
        elif text.startswith("-/", i) and depth > 0:
            depth -= 1
            i += 2
        elif depth > 0:
            i += 1
        elif text.startswith("--", i):
            j = text.find("\n", i)
            i = len(text) if j < 0 else j
        else:
            out.append(text[i])
            i += 1
    return "".join(out)


FORBIDDEN = re.compile(r"\bsorry\b|\badmit\b|^\s*axiom\s|native_decide|bv_decide|implemented_by|\bunsafe\s|maxHeartbeats\s+0", re.M)


def grep_forbidden():
    hits = []
    for path in lean_sources():
        body = strip_comments(open(path).read())
        for m in FORBIDDEN.finditer(body):
            hits.append("%s: %s" % (os.path.relpath(path, ROOT), m.group(0).strip()))
    return hits


def step_extract(log):
    with Lock("extract"):
        rc, out = run(["go", "build", "-o", os.path.join(BIN, "zvextract"), "."],
                      cwd=os.path.join(ROOT, "tools", "extract"), env=GOENV)
        if rc != 0:
            log.append("extractor build failed:\n" + out)
            return False, "extractor does not build"
        rc, out = run([os.path.join(BIN, "zvextract"), "-repo", REPO, "-out",
                       os.path.join(LEAN, "ZenoModel", "Generated")])
        log.append("extract: rc=%d" % rc)
        if rc != 0:
            log.append(out)
            try:
                probs = json.loads(out).get("problems")
            except Exception:
                probs = [out[-500:]]
            return False, "extractor could not regenerate the model from /repo: %s" % probs
    return True, ""


def step_lean(prop, cfg, tier, log):
    """returns (ok, obligations, discharged, detail, failing)"""
    mods = cfg["lean"]
    with Lock("lake"):
        rc, out = run(["lake", "build"] + mods + ["ZenoModel.AuditTool", "zmodel"], cwd=LEAN, timeout=3600)
    if rc != 0:
        errs = [l for l in out.splitlines() if "error" in l][:10]
        log.append("lake build failed:\n" + out[-4000:])
        return False, 0, 0, "lake build failed: " + " | ".join(errs), errs
    # axiom audit
    # further namespaces whose theorems count for this property (shared results such as Zeno.StoreProj)
    spaces = ["Zeno.%s" % prop] + ["Zeno.%s" % n for n in cfg.get("extra_namespaces", [])]
    audit_src = "".join("import %s\n" % m for m in mods) + "import ZenoModel.AuditTool\n" + "".join("#audit_namespace %s\n" % n for n in spaces)
    os.makedirs(OUT, exist_ok=True)
    apath = os.path.join(OUT, "audit_%s.lean" % prop)
    open(apath, "w").write(audit_src)
    rc, out = run(["lake", "env", "lean", apath], cwd=LEAN, timeout=1800)
    thms = []
    for l in out.splitlines():
        m = re.search(r"AUDIT (\{.*\})", l)
        if m:
            thms.append(json.loads(m.group(1)))
    if rc != 0 or not thms:
        log.append("audit failed:\n" + out[-3000:])
        return False, len(thms), 0, "axiom audit did not run", []
    bad = [t for t in thms if not set(t["axioms"]) <= ALLOWED_AXIOMS]
    forb = grep_forbidden()
    detail = ""
    if bad:
        detail += "theorems with disallowed axioms: %s; " % [(t["thm"], t["axioms"]) for t in bad]
    if forb:
        detail += "forbidden constructs in Lean sources: %s; " % forb[:5]
    required = cfg.get("theorems", [])
    names = {t["thm"] for t in thms}
    # a required name is looked up in the property's own namespace, or, written `Space.name`, in an extra one
    missing = [r for r in required if ("Zeno.%s" % r if "." in r else "Zeno.%s.%s" % (prop, r)) not in names]
    if missing:
        detail += "required theorems missing: %s; " % missing
    ok = not bad and not forb and not missing
    if ok and tier == "thorough":
        with Lock("lake"):
            rc, out = run(["lake", "env", "leanchecker"] + mods, cwd=LEAN, timeout=3600)
        log.append("leanchecker rc=%d %s" % (rc, out[-300:]))
        if rc != 0:
            ok = False
            detail += "leanchecker rejected the compiled modules; "
    return ok, len(thms), len(thms) - len(bad), detail, [t["thm"] for t in bad] + missing


def step_harness(log):
    with Lock("harness"):
        gosum = os.path.join(REPO, "go.sum")
        if os.path.exists(gosum):
            dst = os.path.join(HARNESS, "go.sum")
            if not os.path.exists(dst) or open(dst).read() != open(gosum).read():
                open(dst, "w").write(open(gosum).read())
        binp = os.path.join(BIN, "zvh")
        tmp = binp + ".new"
        if os.path.exists(tmp):
            os.remove(tmp)
        rc, out = run(["go", "build", "-tags", "verif", "-o", tmp, "./cmd/zvh"], cwd=HARNESS, env=GOENV, timeout=1800)
        if rc != 0:
            log.append("harness build failed:\n" + out[-4000:])
            return False, out[-1500:]
        os.replace(tmp, binp)
    return True, ""


def run_engine_once(prop, eng, tier, seed, log, n, frm, extra, tag):
    outp = os.path.join(OUT, "%s_%s_%s_%d_%s.json" % (prop, eng["name"], eng.get("mode", "x"), os.getpid(), tag))
    cmd = [os.path.join(BIN, "zvh"), eng["name"], "-prop", prop, "-seed", str(seed), "-n", str(n), "-from", str(frm),
           "-tier", tier, "-out", outp]
    if eng.get("mode"):
        cmd += ["-mode", eng["mode"]]
    corpus = os.path.join(ROOT, "corpus", prop)
    if os.path.isdir(corpus) and frm == 0:
        cmd += ["-corpus", corpus]
    if extra:
        cmd += extra
    env = dict(GOENV, GOMEMLIMIT="8GiB", ZV_KNOWN=os.path.join(ROOT, "known_findings.json"), ZENO_REPO=REPO)
    t0 = time.time()
    try:
        rc, out = run(cmd, env=env, timeout=eng.get("timeout_" + tier, 3600))
    except subprocess.TimeoutExpired:
        return None, "engine %s timed out" % eng["name"]
    log.append("engine %s[%s] rc=%d %.1fs %s" % (eng["name"], tag, rc, time.time() - t0, out[-500:].strip()))
    if not os.path.exists(outp):
        return None, "engine %s produced no result (rc=%d): %s" % (eng["name"], rc, out[-800:])
    res = json.load(open(outp))
    os.remove(outp)
    if rc != 0:
        return res, "engine %s failed (rc=%d): %s" % (eng["name"], rc, out[-800:])
    return res, ""


def merge_results(parts):
    parts = [p for p in parts if p]
    if not parts:
        return None
    m = dict(parts[0])
    for k in ("evaluations", "distinct_nontrivial", "n_disagreements", "inconclusive", "traces_validated_against_impl"):
        m[k] = sum(p.get(k, 0) or 0 for p in parts)
    for k in ("histogram", "by_detail", "known_findings_seen"):
        d = {}
        for p in parts:
            for kk, v in (p.get(k) or {}).items():
                d[kk] = d.get(kk, 0) + v
        m[k] = d
    m["disagreements"] = [d for p in parts for d in (p.get("disagreements") or [])]
    m["samples"] = [x for p in parts for x in (p.get("samples") or [])][:4]
    m["notes"] = [x for p in parts for x in (p.get("notes") or [])]
    m["exhaustive"] = all(p.get("exhaustive", False) for p in parts)
    m["wall_s"] = max(p.get("wall_s", 0) for p in parts)
    return m


def run_engine(prop, eng, tier, seed, log, extra=None):
    n = eng.get("n_" + tier, eng.get("n_quick", 100))
    shards = eng.get("shards_" + tier, eng.get("shards", 1))
    if extra and "-replay" in extra:
        shards = 1
    if shards <= 1 or n < shards:
        return run_engine_once(prop, eng, tier, seed, log, n, 0, extra, "0")
    import concurrent.futures
    per = (n + shards - 1) // shards
    jobs = []
    with concurrent.futures.ThreadPoolExecutor(max_workers=min(shards, 16)) as ex:
        for i in range(shards):
            frm = i * per
            cnt = min(per, n - frm)
            if cnt <= 0:
                break
            jobs.append(ex.submit(run_engine_once, prop, eng, tier, seed, log, cnt, frm, extra, str(i)))
        outs = [j.result() for j in jobs]
    errs = [e for _, e in outs if e]
    return merge_results([r for r, _ in outs]), ("; ".join(errs) if errs else "")


def write_replay(prop, payload):
    os.makedirs(REPLAYS, exist_ok=True)
    blob = json.dumps(payload, indent=1, sort_keys=True, default=str)
    h = hashlib.sha256(blob.encode()).hexdigest()[:12]
    path = os.path.join(REPLAYS, "%s-%s.json" % (prop, h))
    open(path, "w").write(blob)
    return path


def load_known():
    try:
        return json.load(open(os.path.join(ROOT, "known_findings.json")))
    except Exception:
        return {"fixed": [], "known": []}


def main():
    args = sys.argv[1:]
    if not args:
        print(__doc__)
        return 64
    prop = args[0]
    tier = os.environ.get("VERIF_TIER", "quick")
    replay = None
    i = 1
    while i < len(args):
        if args[i] == "--tier":
            tier = args[i + 1]
            i += 2
        elif args[i] == "--replay":
            replay = args[i + 1]
            i += 2
        else:
            i += 1
    seed = int(os.environ.get("VERIF_SEED", "1"))
    if prop not in PROPS:
        print("unknown property", prop)
        return 64
    cfg = PROPS[prop]
    t0 = time.time()
    log = []
    broken = []       # (what, detail): proof obligations / tie parts that no longer check
    violations = []   # disagreements whose property oracle fails (not known)
    broken_cases = []  # first model-vs-impl disagreement per engine, in full (replayable by seed/index)
    os.makedirs(OUT, exist_ok=True)

    ok, detail = step_extract(log)
    if not ok:
        broken.append(("translator", detail))
    lean_ok, obligations, discharged, ldetail, failing = step_lean(prop, cfg, tier, log)
    if not lean_ok:
        broken.append(("theorems of ZenoModel.Props.%s" % prop, ldetail))
        discharged = min(discharged, max(0, obligations - 1)) if obligations else 0

    hok, hdetail = step_harness(log)
    results = []
    if not hok:
        broken.append(("correspondence harness (does not build against /repo)", hdetail))
    elif not os.path.exists(os.path.join(LEAN, ".lake", "build", "bin", "zmodel")):
        broken.append(("model driver zmodel missing (lake build failed)", ""))
    else:
        engines = cfg["engines"]
        if replay:
            rp = json.load(open(replay))
            engines = [e for e in engines if e["name"] == rp.get("engine", e["name"])][:1] or engines[:1]
        for eng in engines:
            extra = ["-replay", replay] if replay else None
            res, err = run_engine(prop, eng, tier, seed, log, extra)
            if res is not None:
                results.append((eng, res))
            if err:
                broken.append(("correspondence engine %s" % eng["name"], err))
                continue
            for d in (res.get("disagreements") or []):
                d["engine"] = eng["name"]
                d["mode"] = eng.get("mode", "")
                if d.get("property_fails") and d.get("prop", "") in ("", prop):
                    violations.append(d)
            nd = res.get("n_disagreements", 0)
            nprop = sum(v for k, v in res.get("by_detail", {}).items() if k.startswith("property"))
            other = [d for d in (res.get("disagreements") or []) if d.get("property_fails") and d.get("prop", "") not in ("", prop)]
            if other:
                log.append("note: %d property failure(s) belonging to other properties (%s) seen by engine %s; reported by their own checks" % (
                    len(other), sorted({d.get("prop") for d in other}), eng["name"]))
            if nd - nprop > 0:
                mv = [d for d in (res.get("disagreements") or []) if not d.get("property_fails")]
                broken.append(("correspondence engine %s: model and implementation disagree on %d case(s)" % (eng["name"], nd - nprop),
                               json.dumps(mv[:1], default=str)[:3000]))
                if mv:
                    first = dict(mv[0])
                    first["engine"] = eng["name"]
                    first["mode"] = eng.get("mode", "")
                    first["seed"] = seed
                    broken_cases.append(first)

    # search for a failing input when something broke but no property failure surfaced yet
    if broken and not violations and hok and not replay:
        budget = 30 if tier == "quick" else 600
        tend = time.time() + budget
        k = 0
        while time.time() < tend and not violations:
            k += 1
            for eng in cfg["engines"]:
                if not eng.get("search", True):
                    continue
                e2 = dict(eng)
                e2["n_" + tier] = eng.get("n_search", eng.get("n_quick", 100) * 3)
                res, err = run_engine(prop, e2, tier, seed * 7919 + k, log, ["-nomodel"] if eng.get("search_nomodel") else None)
                if res is None:
                    continue
                for d in (res.get("disagreements") or []):
                    if d.get("property_fails"):
                        d["engine"] = eng["name"]
                        d["seed"] = seed * 7919 + k
                        violations.append(d)
                if time.time() >= tend:
                    break
            if all(not e.get("search", True) for e in cfg["engines"]):
                break

    known = load_known()
    known_seen = {}
    for eng, res in results:
        for k, v in res.get("known_findings_seen", {}).items():
            known_seen[k] = known_seen.get(k, 0) + v
    rc = 0
    for kf in known.get("known", []):
        kprops = kf.get("properties") or [kf.get("property")]
        if prop in kprops and known_seen.get(kf["id"], 0) > 0:
            print("KNOWN-FINDING: property=%s %s" % (prop, kf["what"]))

    if violations:
        v = violations[0]
        path = write_replay(prop, {"property": prop, "engine": v.get("engine"), "mode": v.get("mode"), "seed": v.get("seed", seed),
                                   "index": v.get("index"), "case": v.get("case"), "expected": v.get("model"),
                                   "observed": v.get("impl"), "detail": v.get("detail"), "also_broken": broken})
        print("VIOLATION property=%s replay=%s" % (prop, path))
        rc = 1
    elif broken:
        bc = broken_cases[0] if broken_cases else {}
        path = write_replay(prop, {"property": prop, "engine": bc.get("engine"), "mode": bc.get("mode"), "seed": bc.get("seed"),
                                   "index": bc.get("index"), "disagreement": bc, "no_longer_checks": [b[0] for b in broken],
                                   "details": [b[1] for b in broken], "searched": "engines re-run with fresh seeds; no input violating the property found"})
        print("VIOLATION property=%s replay=%s no-failing-input-found" % (prop, path))
        rc = 1

    # evidence
    evals = sum(r.get("evaluations", 0) for _, r in results)
    distinct = sum(r.get("distinct_nontrivial", 0) for _, r in results)
    samples = []
    for _, r in results:
        samples += (r.get("samples") or [])[:2]
    hist = {}
    for e, r in results:
        for k, v in r.get("histogram", {}).items():
            hist["%s/%s" % (e["name"], k)] = v
    ev = {
        "property_id": prop,
        "tier": tier,
        "seed": seed,
        "level": "proof",
        "coverage": {
            "obligations": obligations,
            "discharged": discharged,
            "checker_cmd": "cd /verif/lean && lake build %s && lake env lean out/audit_%s.lean (axiom audit)%s" % (
                " ".join(cfg["lean"]), prop, " && lake env leanchecker " + " ".join(cfg["lean"]) if tier == "thorough" else ""),
            "trusted_base": cfg.get("trusted_base", []) + [
                "Lean 4.33.0 kernel; axioms allowed: propext, Classical.choice, Quot.sound (audited per theorem)",
                "hand-written model tied to /repo by the correspondence engines below (differential testing) and by the regenerated Generated/*.lean",
            ],
            "theorems_required": cfg.get("theorems", []),
            "evaluations": evals,
            "distinct_nontrivial": distinct,
            "rule": "; ".join("%s: %s" % (e["name"], r.get("rule", "")) for e, r in results),
            "samples": samples[:6] if samples else ["(no correspondence case ran)"],
            "traces_validated_against_impl": sum(r.get("traces_validated_against_impl", 0) for _, r in results),
            "input_distribution": hist,
            "inconclusive": sum(r.get("inconclusive", 0) for _, r in results),
            "model_vs_impl_disagreements": sum(r.get("n_disagreements", 0) for _, r in results),
            "known_findings_reproduced": known_seen,
            "engines": [e["name"] + (":" + e["mode"] if e.get("mode") else "") for e, _ in results],
            "exhaustive": all(r.get("exhaustive", False) for _, r in results) if results else False,
            "broken": [b[0] for b in broken],
        },
        "assumptions": cfg.get("assumptions", []),
        "wall_s": round(time.time() - t0, 2),
        "violations": len(violations) + (1 if broken and not violations else 0),
    }
    os.makedirs(EVIDENCE, exist_ok=True)
    json.dump(ev, open(os.path.join(EVIDENCE, prop + ".json"), "w"), indent=1, default=str)
    if os.environ.get("ZV_VERBOSE") or rc != 0:
        sys.stderr.write("\n".join(log[-40:]) + "\n")
        for b in broken:
            sys.stderr.write("BROKEN: %s :: %s\n" % (b[0], str(b[1])[:1500]))
    if rc == 0:
        print("OK property=%s tier=%s obligations=%d discharged=%d evaluations=%d distinct=%d wall=%.1fs" % (
            prop, tier, obligations, discharged, evals, distinct, time.time() - t0))
    return rc


if __name__ == "__main__":
    sys.exit(main())
