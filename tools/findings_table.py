#!/usr/bin/env python3
"""Regenerates DESIGN.md §14 (findings table) from known_findings.json.  usage: tools/findings_table.py"""
import json, os, re
ROOT = os.path.dirname(os.path.dirname(os.path.abspath(__file__)))
k = json.load(open(os.path.join(ROOT, "known_findings.json")))
rows = []
for f in k["fixed"]:
    m = re.match(r"fixed: property=(\S+) (\S+) (.*)", f)
    rows.append((m.group(1), m.group(2), m.group(3)))
out = "\n## 14. Findings on the unchanged tree (generated from known_findings.json)\n\n"
out += ("Genuine defects of getlantern/zenodb shown against the real code by the checks while they were built. "
        "%d were repaired by minimal `fix:` commits in /repo (the existing suite, unedited, still passes; `fixed` entries "
        "suppress nothing), %d are recorded as known findings because a repair would have to edit an existing test, change an "
        "on-disk format or a third-party library, or because the intended semantics is the maintainers' call.\n\n" % (len(rows), len(k["known"])))
out += "### Repaired\n\n| property | commit | what failed |\n|---|---|---|\n"
for p, c, w in rows:
    out += "| %s | %s | %s |\n" % (p, c, w.replace("|", "\\|"))
out += ("\n### Known findings (reported as `KNOWN-FINDING:` lines, exit 0; anything else of the same property is still a "
        "VIOLATION)\n\n| id | properties | what fails | matcher |\n|---|---|---|---|\n")
for e in k["known"]:
    out += "| %s | %s | %s | %s |\n" % (e["id"], ", ".join(e.get("properties") or [e["property"]]), e["what"].replace("|", "\\|"),
                                       str(e.get("matcher", "")).replace("|", "\\|"))
p = os.path.join(ROOT, "DESIGN.md")
d = open(p).read()
if "\n## 14. Findings on the unchanged tree" in d:
    d = d[:d.index("\n## 14. Findings on the unchanged tree")]
open(p, "w").write(d.rstrip() + "\n" + out)
print(len(rows), "fixed,", len(k["known"]), "known")
