// zvh — correspondence harness.  zvh <engine> [-prop Cxx] [-seed n] [-n cases]
// [-tier quick|thorough] [-mode m] [-replay file] [-out result.json]
package main

import (
	"encoding/json"
	"flag"
	"fmt"
	"io"
	"os"
	"path/filepath"
	"strings"

	"github.com/getlantern/golog"

	"zvh/hk"
)

var engines = map[string]hk.Engine{}

// ownsReplay lists engines that interpret -replay / -corpus files themselves.
var ownsReplay = map[string]bool{}

func main() {
	if len(os.Args) < 2 {
		fmt.Fprintln(os.Stderr, "usage: zvh <engine> [flags]")
		os.Exit(64)
	}
	name := os.Args[1]
	fs := flag.NewFlagSet("zvh", flag.ExitOnError)
	prop := fs.String("prop", "", "property id")
	seed := fs.Uint64("seed", 1, "seed")
	n := fs.Int("n", 100, "number of generated cases")
	from := fs.Int("from", 0, "index of the first case")
	tier := fs.String("tier", "quick", "tier")
	mode := fs.String("mode", "", "engine mode")
	replay := fs.String("replay", "", "replay file")
	corpus := fs.String("corpus", "", "corpus dir")
	out := fs.String("out", "-", "result file")
	nomodel := fs.Bool("nomodel", false, "do not start the model driver")
	fs.Parse(os.Args[2:])
	if os.Getenv("ZVH_LOG") == "" {
		golog.SetOutputs(io.Discard, io.Discard)
	}
	eng, ok := engines[name]
	if !ok {
		fmt.Fprintf(os.Stderr, "unknown engine %s\n", name)
		os.Exit(64)
	}
	res := hk.NewResult(name, *prop, *tier, *seed)
	ctx := &hk.RunCtx{Prop: *prop, Tier: *tier, Seed: *seed, N: *n, From: *from, Res: res, Replay: *replay, Corpus: *corpus, Mode: *mode}
	if !*nomodel {
		m, err := hk.StartModel()
		if err != nil {
			fmt.Fprintf(os.Stderr, "cannot start model: %v\n", err)
			os.Exit(3)
		}
		ctx.Model = m
		defer m.Close()
	}
	// replay / corpus: cases are identified by (seed, index[, mode]) — every engine derives a
	// case deterministically from them — so a replay re-runs exactly that case
	type caseRef struct {
		Engine string  `json:"engine"`
		Mode   string  `json:"mode"`
		Seed   *uint64 `json:"seed"`
		Index  *uint64 `json:"index"`
	}
	runRef := func(path string) bool {
		b, err := os.ReadFile(path)
		if err != nil {
			return false
		}
		var ref caseRef
		if json.Unmarshal(b, &ref) != nil || ref.Seed == nil || ref.Index == nil {
			return false
		}
		if ref.Engine != "" && ref.Engine != name {
			return false
		}
		if ref.Mode != "" && *mode != "" && ref.Mode != *mode {
			return false
		}
		sub := *ctx
		sub.Seed, sub.From, sub.N, sub.Replay, sub.Corpus = *ref.Seed, int(*ref.Index), 1, "", ""
		if ref.Mode != "" {
			sub.Mode = ref.Mode
		}
		if err := eng.Run(&sub); err != nil {
			res.Note("replay %s: engine error: %v", path, err)
		}
		res.Hit("corpus-or-replay-case")
		return true
	}
	if *replay != "" && !ownsReplay[name] {
		if !runRef(*replay) {
			fmt.Fprintf(os.Stderr, "replay file %s has no (seed, index) for engine %s\n", *replay, name)
			os.Exit(64)
		}
		res.Finish(*out)
		return
	}
	if *corpus != "" && !ownsReplay[name] {
		entries, _ := os.ReadDir(*corpus)
		for _, e := range entries {
			if !e.IsDir() && strings.HasSuffix(e.Name(), ".json") {
				runRef(filepath.Join(*corpus, e.Name()))
			}
		}
	}
	if err := eng.Run(ctx); err != nil {
		fmt.Fprintf(os.Stderr, "engine error: %v\n", err)
		res.Note("engine error: %v", err)
		res.Finish(*out)
		os.Exit(3)
	}
	if err := res.Finish(*out); err != nil {
		fmt.Fprintf(os.Stderr, "cannot write result: %v\n", err)
		os.Exit(3)
	}
}
