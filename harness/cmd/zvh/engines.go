package main

import (
	"zvh/engines/seq"
	"zvh/engines/store"
)

func init() {
	engines["seq"] = seq.Engine{}
	engines["store"] = store.Engine{}
}
