package main

import (
	"zvh/engines/auth"
	"zvh/engines/sortlim"
	"zvh/engines/codec"
	"zvh/engines/query"
	"zvh/engines/coalesce"
	"zvh/engines/seq"
	"zvh/engines/store"
)

func init() {
	for _, n := range []string{"auth", "codec", "sortlim"} {
		ownsReplay[n] = true
	}
	engines["seq"] = seq.Engine{}
	engines["coalesce"] = coalesce.Engine{}
	engines["query"] = query.Engine{}
	engines["codec"] = codec.Engine{}
	engines["sortlim"] = sortlim.Engine{}
	engines["auth"] = auth.Engine{}
	engines["store"] = store.Engine{}
}
