package main

import (
	"zvh/engines/auth"
	"zvh/engines/sortlim"
	"zvh/engines/codec"
	"zvh/engines/query"
	"zvh/engines/coalesce"
	"zvh/engines/crash"
	"zvh/engines/plan"
	"zvh/engines/heap"
	"zvh/engines/robust"
	"zvh/engines/report"
	"zvh/engines/alter"
	"zvh/engines/snapshot"
	"zvh/engines/cluster"
	"zvh/engines/seq"
	"zvh/engines/store"
)

func init() {
	for _, n := range []string{"auth", "codec", "sortlim", "coalesce", "crash", "robust", "plan", "report"} {
		ownsReplay[n] = true
	}
	engines["seq"] = seq.Engine{}
	engines["cluster"] = cluster.Engine{}
	engines["snapshot"] = snapshot.Engine{}
	ownsReplay["alter"] = true
	engines["alter"] = alter.Engine{}
	engines["report"] = report.Engine{}
	engines["robust"] = robust.Engine{}
	engines["heap"] = heap.Engine{}
	engines["plan"] = plan.Engine{}
	engines["crash"] = crash.Engine{}
	engines["coalesce"] = coalesce.Engine{}
	engines["query"] = query.Engine{}
	engines["codec"] = codec.Engine{}
	engines["sortlim"] = sortlim.Engine{}
	engines["auth"] = auth.Engine{}
	engines["store"] = store.Engine{}
}
