package main

import (
	"zvh/engines/seq"
)

func init() {
	engines["seq"] = seq.Engine{}
}
