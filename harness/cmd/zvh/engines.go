package main

import (
	"zvh/engines/auth"
	"zvh/engines/sortlim"
	"zvh/engines/codec"
	"zvh/engines/seq"
	"zvh/engines/store"
)

func init() {
	engines["seq"] = seq.Engine{}
	engines["codec"] = codec.Engine{}
	engines["sortlim"] = sortlim.Engine{}
	engines["auth"] = auth.Engine{}
	engines["store"] = store.Engine{}
}
