// Package dbk is the database kit shared by the DB-level engines: generated table
// schemas and points (as real zenodb inputs and as model JSON), an embedded
// zenodb.DB wrapper with quiescence detection through the verif hooks, raw table
// scans decoded into the model's sequences, and flat query execution.
package dbk

import (
	"context"
	"encoding/json"
	"fmt"
	"os"
	"sort"
	"strings"
	"sync"
	"time"

	"github.com/getlantern/bytemap"
	"github.com/getlantern/goexpr"
	"github.com/getlantern/zenodb"
	"github.com/getlantern/zenodb/core"
	"github.com/getlantern/zenodb/encoding"
	"github.com/getlantern/zenodb/sql"

	"zvh/gen"
	"zvh/hk"
)

var Base = time.Date(2020, 3, 1, 12, 0, 0, 0, time.UTC)

// FieldDef is one table field.
type FieldDef struct {
	Name string
	Node *gen.Node
}

// Schema is a generated table definition.
type Schema struct {
	Table     string
	Stream    string
	Fields    []FieldDef // without _points
	GroupBy   []string   // nil: GROUP BY *
	Res       time.Duration
	Retention time.Duration
	WhereC    int // -1: none, else index into gen.Conds
}

var pointsNode = &gen.Node{Kind: "agg", Name: "SUM", Kids: []*gen.Node{{Kind: "field", Name: "_point"}}}

// AllFields returns the table's fields as stored: _points first.
func (s *Schema) AllFields() []FieldDef {
	return append([]FieldDef{{Name: "_points", Node: pointsNode}}, s.Fields...)
}

func (s *Schema) SQL() string {
	var fs []string
	for _, f := range s.Fields {
		fs = append(fs, fmt.Sprintf("%s AS %s", f.Node.SQL(), f.Name))
	}
	q := fmt.Sprintf("SELECT %s FROM %s", strings.Join(fs, ", "), s.Stream)
	if s.WhereC >= 0 {
		q += " WHERE " + gen.CondText[s.WhereC]
	}
	gb := "*"
	if s.GroupBy != nil {
		gb = strings.Join(s.GroupBy, ", ")
	}
	if gb == "" {
		q += fmt.Sprintf(" GROUP BY period(%v)", s.Res)
	} else {
		q += fmt.Sprintf(" GROUP BY %s, period(%v)", gb, s.Res)
	}
	return q
}

// CfgJSON renders the table configuration for the model.
func (s *Schema) CfgJSON() map[string]interface{} {
	fields := []interface{}{}
	for _, f := range s.AllFields() {
		fields = append(fields, map[string]interface{}{"name": f.Name, "e": f.Node.JSON()})
	}
	cfg := map[string]interface{}{"fields": fields, "res": fmt.Sprint(int64(s.Res)), "retention": fmt.Sprint(int64(s.Retention))}
	if s.GroupBy != nil && len(s.GroupBy) > 0 {
		cfg["groupBy"] = s.GroupBy
	}
	return cfg
}

var dimNames = []string{"d", "g", "n"}
var valueFields = []string{"a", "b", "c"}

// GenSchema generates a table schema over value fields a, b, c and dims d, g, n.
func GenSchema(r *hk.Rng, table string) *Schema {
	s := &Schema{Table: table, Stream: "inbound", WhereC: -1}
	s.Res = hk.Pick(r, []time.Duration{time.Second, 5 * time.Second, time.Minute})
	s.Retention = s.Res * time.Duration(hk.Pick(r, []int{1, 2, 4, 10, 50, 200}))
	o := gen.ExprOpts{Fields: valueFields, MaxDepth: 2, Res: s.Res, NoShift: true, NoUnary: true}
	n := r.Range(1, 4)
	for i := 0; i < n; i++ {
		var node *gen.Node
		if r.Chance(2, 3) {
			node = gen.GenLeaf(r, o)
		} else {
			node = gen.GenExpr(r, o)
		}
		// aggregates over constants (e.g. SUM(2)) report IsConstant() and make
		// Sequence.ValueAt call Get(nil), which panics in a query goroutine and kills
		// the process (followed up under C16); keep them out of DB-level schemas
		for tries := 0; tries < 20 && (node.Build().Validate() != nil || node.Build().EncodedWidth() == 0 || node.Build().IsConstant()); tries++ {
			node = gen.GenLeaf(r, o)
		}
		if node.Build().IsConstant() {
			node = &gen.Node{Kind: "agg", Name: "SUM", Kids: []*gen.Node{{Kind: "field", Name: "a"}}}
		}
		// two table fields that PRINT alike (same expression, or AVG(x) vs WAVG(x, w)) are
		// sub-merged into each other by grouped queries (known finding field-identity-collision);
		// generated schemas keep printed expressions distinct, the corpus keeps a witness
		dupe := node.Build().String() == "SUM(_point)"
		for _, f := range s.Fields {
			if f.Node.Build().String() == node.Build().String() {
				dupe = true
			}
		}
		if dupe {
			continue
		}
		s.Fields = append(s.Fields, FieldDef{Name: fmt.Sprintf("f%d", len(s.Fields)), Node: node})
	}
	if len(s.Fields) == 0 {
		s.Fields = append(s.Fields, FieldDef{Name: "f0", Node: &gen.Node{Kind: "agg", Name: "SUM", Kids: []*gen.Node{{Kind: "field", Name: "a"}}}})
	}
	switch r.Intn(4) {
	case 0:
		s.GroupBy = nil
	case 1:
		s.GroupBy = []string{"d"}
	case 2:
		s.GroupBy = []string{"d", "g"}
	default:
		s.GroupBy = []string{"d", "g", "n"}
	}
	if r.Chance(1, 4) {
		s.WhereC = r.Intn(len(gen.Conds))
	}
	return s
}

// Point is one generated insert.
type Point struct {
	TS   time.Time
	Dims map[string]interface{}
	Vals map[string]interface{} // float64, int, []float64, []int, string (unsupported), ...
}

// GenPointAt generates a point with the given timestamp.
func GenPointAt(r *hk.Rng, ts time.Time, exotic bool) Point {
	p := Point{TS: ts, Dims: map[string]interface{}{}, Vals: map[string]interface{}{}}
	if d := hk.Pick(r, []interface{}{"x", "x", "y", nil}); d != nil {
		p.Dims["d"] = d
	}
	if g := hk.Pick(r, []interface{}{"1", "2", nil}); g != nil {
		p.Dims["g"] = g
	}
	if n := hk.Pick(r, []interface{}{1, 2, nil, nil}); n != nil {
		p.Dims["n"] = n
	}
	for _, f := range valueFields {
		if !r.Chance(4, 5) {
			continue
		}
		switch r.Intn(12) {
		case 0:
			p.Vals[f] = r.Range(-3, 9) // int
		case 1:
			p.Vals[f] = float64(r.Range(-4, 12)) / 2
		case 2:
			if exotic {
				p.Vals[f] = "oops" // unsupported type: ignored
			} else {
				p.Vals[f] = float64(0)
			}
		case 3:
			if exotic {
				k := r.Range(1, 3)
				arr := make([]float64, k)
				for i := range arr {
					arr[i] = float64(r.Range(0, 5))
				}
				p.Vals[f] = arr
			} else {
				p.Vals[f] = float64(1)
			}
		default:
			p.Vals[f] = float64(r.Range(-3, 9))
		}
	}
	if exotic && r.Chance(1, 10) {
		p.Vals["zzz"] = float64(5) // extra value no field uses
	}
	return p
}

func dimText(v interface{}) string {
	switch t := v.(type) {
	case string:
		return "s:" + t
	case int:
		return fmt.Sprintf("i:%d", t)
	case int64:
		return fmt.Sprintf("i:%d", t)
	case float64:
		return "f:" + hk.RatOfFloat(t)
	case bool:
		return fmt.Sprintf("b:%v", t)
	case nil:
		return "nil"
	}
	return fmt.Sprintf("?:%v", v)
}

// KeyJSON renders a decoded bytemap key canonically (name -> typed text).
func KeyJSON(m map[string]interface{}) map[string]interface{} {
	out := map[string]interface{}{}
	for k, v := range m {
		if v == nil {
			continue
		}
		out[k] = dimText(v)
	}
	return out
}

func KeyString(m map[string]interface{}) string {
	ks := make([]string, 0, len(m))
	for k := range m {
		ks = append(ks, k)
	}
	sort.Strings(ks)
	var sb strings.Builder
	for _, k := range ks {
		fmt.Fprintf(&sb, "%s=%s;", k, dimText(m[k]))
	}
	return sb.String()
}

// ModelJSON renders the point for the model, evaluating WHERE and IF conditions with
// the real goexpr the way the table does.
func (p Point) ModelJSON(where goexpr.Expr) map[string]interface{} {
	dims := bytemap.New(p.Dims)
	whereOk := true
	if where != nil {
		v := where.Eval(dims)
		b, ok := v.(bool)
		whereOk = ok && b
	}
	conds := []int{}
	for i, c := range gen.Conds {
		if b, ok := c.Eval(dims).(bool); ok && b {
			conds = append(conds, i)
		}
	}
	vals := map[string]interface{}{}
	panics := false
	for k, v := range p.Vals {
		switch t := v.(type) {
		case float64:
			vals[k] = []string{hk.RatOfFloat(t)}
		case int:
			vals[k] = []string{fmt.Sprint(t)}
		case []float64:
			if len(t) == 0 {
				panics = true
			}
			a := make([]string, len(t))
			for i, x := range t {
				a[i] = hk.RatOfFloat(x)
			}
			vals[k] = a
		case []int:
			if len(t) == 0 {
				panics = true
			}
			a := make([]string, len(t))
			for i, x := range t {
				a[i] = fmt.Sprint(x)
			}
			vals[k] = a
		}
	}
	return map[string]interface{}{"ts": fmt.Sprint(p.TS.UnixNano()), "dims": KeyJSON(p.Dims), "where": whereOk,
		"vals": vals, "conds": conds, "panics": panics}
}

// ---------------------------------------------------------------- DB wrapper

type DB struct {
	*zenodb.DB
	Dir      string
	inserted map[string]int64 // per stream
	tables   map[string]string
	mu       sync.Mutex
}

type Opts struct {
	MaxMemoryRatio float64
	Coalesce       time.Duration
	Dir            string // reuse an existing directory (restart)
}

func Open(o Opts) (*DB, error) {
	dir := o.Dir
	if dir == "" {
		d, err := os.MkdirTemp("", "zvh-db-*")
		if err != nil {
			return nil, err
		}
		dir = d
	}
	co := o.Coalesce
	if co == 0 {
		co = time.Millisecond
	}
	db, err := zenodb.NewDB(&zenodb.DBOpts{Dir: dir, VirtualTime: true, IterationCoalesceInterval: co,
		MaxMemoryRatio: o.MaxMemoryRatio})
	if err != nil {
		return nil, err
	}
	return &DB{DB: db, Dir: dir, inserted: map[string]int64{}, tables: map[string]string{}}, nil
}

// CloseAndRemove closes the database and deletes its directory.
func (d *DB) CloseAndRemove() {
	d.DB.Close()
	d.DB.VerifForget()
	os.RemoveAll(d.Dir)
}

func (d *DB) CreateTable(s *Schema) error {
	d.tables[s.Table] = s.Stream
	// MinFlushLatency is set very high: after the first flush the row store re-arms its
	// timer with 10x the flush duration clamped to [min, max]; a huge minimum keeps
	// flushes exactly where the script forces them
	err := d.DB.CreateTable(&zenodb.TableOpts{Name: s.Table, RetentionPeriod: s.Retention, SQL: s.SQL(),
		MinFlushLatency: 10000 * time.Hour, MaxFlushLatency: 20000 * time.Hour})
	if err != nil {
		return err
	}
	// the row store installs its first memstore asynchronously; a query before that
	// crashes the process with a nil dereference (observed; see DESIGN "observations")
	for i := 0; i < 20000 && !d.DB.VerifReady(s.Table); i++ {
		time.Sleep(100 * time.Microsecond)
	}
	return nil
}

// CheckFields verifies that the table's parsed field expressions print like the
// generated nodes (otherwise model and implementation would not be talking about
// the same schema).
func (d *DB) CheckFields(s *Schema) error {
	got := d.VerifFields(s.Table)
	want := s.AllFields()
	if len(got) != len(want) {
		return fmt.Errorf("field count %d != %d", len(got), len(want))
	}
	for i := range got {
		if got[i].Name != want[i].Name || got[i].Expr.String() != want[i].Node.Build().String() {
			return fmt.Errorf("field %d: table has %v, generator has %v (%v)", i, got[i], want[i].Name, want[i].Node.Build())
		}
	}
	return nil
}

func (d *DB) Insert(stream string, p Point) (err error) {
	if pn := hk.Recover(func() { err = d.DB.Insert(stream, p.TS, p.Dims, p.Vals) }); pn != nil {
		return fmt.Errorf("panic: %v", pn)
	}
	if err == nil {
		d.mu.Lock()
		d.inserted[stream]++
		d.mu.Unlock()
	}
	return err
}

// Quiesce waits until every table has processed all inserts made so far on its stream.
func (d *DB) Quiesce(timeout time.Duration) bool {
	deadline := time.Now().Add(timeout)
	for {
		ok := true
		d.mu.Lock()
		for t, stream := range d.tables {
			if d.VerifProcessed(t) < d.inserted[stream] || !d.VerifAllApplied(t) {
				ok = false
			}
		}
		d.mu.Unlock()
		if ok {
			return true
		}
		if time.Now().After(deadline) {
			return false
		}
		time.Sleep(200 * time.Microsecond)
	}
}

// QuiesceReplay waits after a reopen until the replay of the WAL tail (the entries after the
// persisted offsets; none after a clean close) has settled: the processed counters of all
// tables have not moved for a while and everything handed over has been applied.
func (d *DB) QuiesceReplay(timeout time.Duration) bool {
	deadline := time.Now().Add(timeout)
	last := int64(-1)
	stableSince := time.Now()
	for {
		var sum int64
		applied := true
		d.mu.Lock()
		for t := range d.tables {
			sum += d.VerifProcessed(t)
			if !d.VerifAllApplied(t) {
				applied = false
			}
		}
		d.mu.Unlock()
		if sum != last || !applied {
			last = sum
			stableSince = time.Now()
		} else if time.Since(stableSince) > 60*time.Millisecond {
			// what was replayed counts as inserted from now on
			d.mu.Lock()
			for t, stream := range d.tables {
				if n := d.VerifProcessed(t); n > d.inserted[stream] {
					d.inserted[stream] = n
				}
			}
			d.mu.Unlock()
			return true
		}
		if time.Now().After(deadline) {
			return false
		}
		time.Sleep(2 * time.Millisecond)
	}
}

// RawRow is one row of a raw table scan.
type RawRow struct {
	Key  map[string]interface{}
	Cols []encoding.Sequence
}

// Scan iterates the table through the normal iteration path. fields == nil: all fields.
func (d *DB) Scan(table string, fields core.Fields, includeMem bool) ([]RawRow, error) {
	var rows []RawRow
	err := d.VerifIterate(context.Background(), table, fields, includeMem, func(key bytemap.ByteMap, vals []encoding.Sequence) (bool, error) {
		rows = append(rows, RawRow{Key: key.AsMap(), Cols: vals})
		return true, nil
	})
	return rows, err
}

// DecodeSeq renders an implementation sequence as the model's JSON.
func DecodeSeq(n *gen.Node, width int, s encoding.Sequence) interface{} {
	if len(s) == 0 {
		return nil
	}
	cells := []interface{}{}
	np := s.NumPeriods(width)
	for i := 0; i < np; i++ {
		c, _ := n.DecodeCells(s[8+i*width : 8+(i+1)*width])
		if c == nil {
			c = []interface{}{}
		}
		cells = append(cells, c)
	}
	return map[string]interface{}{"hi": fmt.Sprint(s.UntilInt()), "cells": cells}
}

// RowsJSON renders scanned rows as {keyString: {"key":..., "cols":[...]}} for comparison.
func RowsJSON(fields []FieldDef, rows []RawRow) map[string]interface{} {
	out := map[string]interface{}{}
	for _, r := range rows {
		cols := make([]interface{}, len(fields))
		for i, f := range fields {
			if i < len(r.Cols) {
				cols[i] = DecodeSeq(f.Node, f.Node.Build().EncodedWidth(), r.Cols[i])
			}
		}
		out[KeyString(r.Key)] = map[string]interface{}{"key": KeyJSON(r.Key), "cols": cols}
	}
	return out
}

// ModelRowsJSON re-keys the model's row list the same way.
func ModelRowsJSON(raw json.RawMessage) (map[string]interface{}, error) {
	var rows []struct {
		Key  map[string]interface{} `json:"key"`
		Cols []interface{}          `json:"cols"`
	}
	if err := json.Unmarshal(raw, &rows); err != nil {
		return nil, err
	}
	out := map[string]interface{}{}
	for _, r := range rows {
		ks := make([]string, 0, len(r.Key))
		for k := range r.Key {
			ks = append(ks, k)
		}
		sort.Strings(ks)
		var sb strings.Builder
		for _, k := range ks {
			fmt.Fprintf(&sb, "%s=%s;", k, r.Key[k])
		}
		out[sb.String()] = map[string]interface{}{"key": r.Key, "cols": r.Cols}
	}
	return out, nil
}

// FlatRow is one row of a query result.
type FlatRow struct {
	TS     int64
	Key    map[string]interface{}
	Values []float64
}

// Query runs a SQL query and collects the flat rows.
func (d *DB) Query(sqlText string, includeMem bool, timeout time.Duration) (fields []string, rows []FlatRow, err error) {
	if pn := hk.Recover(func() {
		var src core.FlatRowSource
		src, err = d.DB.Query(sqlText, false, nil, includeMem)
		if err != nil {
			return
		}
		ctx := context.Background()
		if timeout > 0 {
			var cancel context.CancelFunc
			ctx, cancel = context.WithTimeout(ctx, timeout)
			defer cancel()
		}
		_, err = src.Iterate(ctx, func(fs core.Fields) error {
			fields = fs.Names()
			return nil
		}, func(row *core.FlatRow) (bool, error) {
			vals := append([]float64(nil), row.Values...)
			rows = append(rows, FlatRow{TS: row.TS, Key: row.Key.AsMap(), Values: vals})
			return true, nil
		})
	}); pn != nil {
		err = fmt.Errorf("panic: %v", pn)
	}
	return
}

// ParseTable parses the table SQL the way zenodb does, for WHERE / GROUP BY evaluation.
func ParseTable(s *Schema) (*sql.Query, error) { return sql.Parse(s.SQL()) }
