module zvh

go 1.21

require (
	github.com/getlantern/goexpr v0.0.0-20211215215226-4cdd4fd2847b
	github.com/getlantern/zenodb v0.0.0
)

require (
	github.com/HdrHistogram/hdrhistogram-go v1.1.0 // indirect
	github.com/davecgh/go-spew v1.1.1 // indirect
	github.com/getlantern/bytemap v0.0.0-20210122162547-b07440a617f0 // indirect
	github.com/getlantern/context v0.0.0-20190109183933-c447772a6520 // indirect
	github.com/getlantern/errors v1.0.1 // indirect
	github.com/getlantern/golog v0.0.0-20210606115803-bce9f9fe5a5f // indirect
	github.com/getlantern/hex v0.0.0-20190417191902-c6586a6fe0b7 // indirect
	github.com/getlantern/hidden v0.0.0-20201229170000-e66e7f878730 // indirect
	github.com/getlantern/msgpack v3.1.4+incompatible // indirect
	github.com/getlantern/ops v0.0.0-20200403153110-8476b16edcd6 // indirect
	github.com/go-stack/stack v1.8.1 // indirect
	github.com/oxtoacart/bpool v0.0.0-20190530202638-03653db5a59c // indirect
	github.com/pmezard/go-difflib v1.0.0 // indirect
	github.com/stretchr/testify v1.7.0 // indirect
	gopkg.in/yaml.v3 v3.0.0-20210107192922-496545a6307b // indirect
)

replace github.com/getlantern/zenodb => /repo
