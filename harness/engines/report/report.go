// Package report is the correspondence engine for C13 ("incomplete results are never
// presented as complete", Lean model Model/Report.lean, driver engine "report").
//
// Every case is a plan + dataset + fault schedule.  It is run against the real code, the
// same case is given to the model, and (rows delivered, error class, partition statistics,
// HTTP status / cache status) are compared.  Independently of the model the property oracle
// is evaluated on the implementation alone: the expected complete answer is computed from
// the data the case itself supplies (never from a run of the code under test); a result
// that differs from it (modulo a stop the caller asked for: LIMIT, or the caller's own
// `false, nil`) while the caller is not told — nil error and statistics with
// successful == total — is reported with Kind "property", PropertyFails true.
//
// Modes (-mode; "" runs all, splitting ctx.N):
//
//	core    mock core.RowSource (error / sleep at row k) under the REAL core.RowFilter, Group
//	        (incl. crosstab), Flatten, Unflatten, FlatRowFilter, Sort, Offset, Limit; the caller's
//	        callback fails / stops / sleeps at row k; deadlines none / running / already expired
//	plan    planner.Plan over mock tables: WHERE [NOT] k IN (SELECT …) with faults in the
//	        subquery's table (applySubQueryFilters / planSubQueries)
//	db      embedded zenodb (file + memstore, altered table, 1000+ rows with a memory cap,
//	        coalesced with a second query), faults in the caller's callback and the deadline
//	cluster Passthrough leader with in-process partition handlers that are missing / fail
//	        after k rows / hang beyond ClusterQueryTimeout / are retried; pushdown and
//	        non-pushdown queries; subquery answered by a failing partition
//	web     web.Configure on httptest: MaxResponseBytes, QueryTimeout, second request served
//	        from the cache
//	rpc     rpc server Query over 127.0.0.1 with a failing source behind rpcserver.DB
//	remote  Passthrough leader whose partition handlers are real rpc/server HandleRemoteQueries
//	        streams fed by scripted follower ends (stale handler, EOF / reset / error message /
//	        silence at any position, several handlers queued per partition)
//
// Time: deadlines are real (context deadlines); a fault "sleep" sleeps far beyond the
// deadline, everything else finishes far before it; a case whose outcome is not reproduced
// on a second run is counted inconclusive, never reported.
package report

import (
	"encoding/json"
	"errors"
	"fmt"
	"os"
	"path/filepath"
	"reflect"
	"sort"
	"strings"
	"time"

	"github.com/getlantern/zenodb"
	"github.com/getlantern/zenodb/core"

	"zvh/hk"
)

type Engine struct{}

// ---------------------------------------------------------------- case vocabulary (shared with the Lean driver)

// Row is the model's row: key, period index, values (one per period for unflat rows), partition.
type Row struct {
	K  int   `json:"k"`
	T  int   `json:"t"`
	V  []int `json:"v"`
	P  int   `json:"p"`
	Sz int   `json:"sz,omitempty"`
}

type Fault struct {
	Kind string `json:"kind"` // none failAt stopAt sleepAt sizeCap panicAt
	K    int    `json:"k"`
	D    int    `json:"d"`
	Max  int    `json:"max"`
}

type Stats struct {
	Total      int   `json:"total"`
	Successful int   `json:"successful"`
	Missing    []int `json:"missing"`
}

// Outcome is what a caller observes.
type Outcome struct {
	Rows    []Row  `json:"rows"`
	Err     string `json:"err"` // "" = nil
	Stats   *Stats `json:"stats"`
	Stopped bool   `json:"stopped"`
	HTTP    int    `json:"http,omitempty"`
	Cache   string `json:"cache,omitempty"`
	HTTP2   int    `json:"http2,omitempty"` // second request (cached)
	Rows2   int    `json:"rows2,omitempty"`
	Detail  string `json:"detail,omitempty"`
}

// Case is one replayable case: the model request plus what the Go side needs to rebuild it.
type Case struct {
	Engine   string                 `json:"engine"`
	Op       string                 `json:"op"`
	Mode     string                 `json:"mode"`
	Cfg      map[string]interface{} `json:"cfg,omitempty"`
	Deadline *int                   `json:"deadline"`
	Now      int                    `json:"now"`
	Plan     map[string]interface{} `json:"plan"`
	Fault    Fault                  `json:"fault"`
	Caller   string                 `json:"caller"`
	Web      map[string]interface{} `json:"web,omitempty"`
	// what a complete answer is, computed from the case's own data
	Expect []Row `json:"expect"`
	// the order of Expect is meaningful (ORDER BY, or a single sequential source)
	Ordered bool `json:"ordered"`
	// a LIMIT/OFFSET without ORDER BY over a source whose order is not determined: only the
	// number of rows and membership can be checked
	AnyPrefix bool `json:"anyPrefix,omitempty"`
	// Go-side scenario (db / cluster / web / rpc)
	X map[string]interface{} `json:"x,omitempty"`
}

const (
	deadlineMs = 150 // running deadline
	sleepMs    = 320 // a sleeping fault
)

var (
	errConsumer = errors.New("zvh consumer error")
	errSource   = errors.New("zvh source error")
	errFilter   = errors.New("zvh filter error")
	errHandler  = errors.New("zvh handler error")
)

func errClass(err error) string {
	if err == nil {
		return ""
	}
	s := err.Error()
	switch {
	case err == core.ErrDeadlineExceeded || s == core.ErrDeadlineExceeded.Error() || strings.Contains(s, "context deadline exceeded") || strings.Contains(s, "DeadlineExceeded"):
		return "deadline"
	case err == zenodb.ErrOutOfMemory || s == zenodb.ErrOutOfMemory.Error():
		return "oom"
	case strings.Contains(s, "Panic while") || strings.Contains(s, consumerPanic):
		// a panic in per-row processing, turned into the query's error by a recover boundary
		// (table.go safeOnValue, planner sub-query goroutine, web doQuery, rpc/server Query,
		// cluster_query.go queryForRemote)
		return "panic"
	case strings.Contains(s, errConsumer.Error()):
		return "consumer"
	case strings.Contains(s, errSource.Error()):
		return "source"
	case strings.Contains(s, errFilter.Error()):
		return "filter"
	case strings.Contains(s, errHandler.Error()):
		return "handler"
	case strings.Contains(s, zenodb.ErrMissingQueryHandler.Error()):
		return "missing_handler"
	case strings.Contains(s, "subquery incomplete"):
		return "incomplete"
	case strings.Contains(s, "exceeded limit of"):
		return "size"
	}
	return "other:" + s
}

func intp(i int) *int { return &i }

func (o *Outcome) told() bool {
	return o.Err != "" || (o.Stats != nil && o.Stats.Successful < o.Stats.Total)
}

func rowsEqual(a, b []Row) bool {
	if len(a) != len(b) {
		return false
	}
	for i := range a {
		if a[i].K != b[i].K || a[i].T != b[i].T || a[i].P != b[i].P || !reflect.DeepEqual(normV(a[i].V), normV(b[i].V)) {
			return false
		}
	}
	return true
}

func normV(v []int) []int {
	if v == nil {
		return []int{}
	}
	return v
}

func sortedRows(rs []Row) []Row {
	out := append([]Row(nil), rs...)
	sort.SliceStable(out, func(i, j int) bool {
		if out[i].P != out[j].P {
			return out[i].P < out[j].P
		}
		if out[i].K != out[j].K {
			return out[i].K < out[j].K
		}
		return out[i].T < out[j].T
	})
	return out
}

func isSubMultiset(a, b []Row) bool {
	key := func(r Row) string { return fmt.Sprintf("%d/%d/%d/%v", r.P, r.K, r.T, normV(r.V)) }
	cnt := map[string]int{}
	for _, r := range b {
		cnt[key(r)]++
	}
	for _, r := range a {
		if cnt[key(r)] == 0 {
			return false
		}
		cnt[key(r)]--
	}
	return true
}

// complete decides whether the delivered rows are the complete answer the case asked for
// (c.Expect), taking into account a stop requested by the caller's own callback.
func complete(c *Case, o *Outcome) (bool, string) {
	want := c.Expect
	if dup, _ := c.X["dupOK"].(bool); dup {
		// a retried partition handler delivers the rows of its failed attempt twice: only
		// omissions count here (every expected key/period must be present)
		if c.Fault.Kind == "stopAt" && o.Stopped && len(o.Rows) == c.Fault.K {
			// the caller's own stop fired (possibly among duplicates)
			return true, ""
		}
		have := map[string]bool{}
		for _, r := range o.Rows {
			have[fmt.Sprintf("%d/%d/%d", r.P, r.K, r.T)] = true
		}
		for _, r := range want {
			if !have[fmt.Sprintf("%d/%d/%d", r.P, r.K, r.T)] {
				return false, fmt.Sprintf("row k=%d t=%d missing", r.K, r.T)
			}
		}
		return true, ""
	}
	if c.Fault.Kind == "stopAt" && c.Fault.K < len(want) {
		// the caller itself asked to stop after K rows
		if c.AnyPrefix || !c.Ordered {
			if len(o.Rows) == c.Fault.K && isSubMultiset(o.Rows, want) {
				return true, ""
			}
			return false, fmt.Sprintf("caller stopped after %d rows but got %d rows (or rows outside the answer)", c.Fault.K, len(o.Rows))
		}
		want = want[:c.Fault.K]
	}
	if c.AnyPrefix {
		if len(o.Rows) == len(want) && isSubMultiset(o.Rows, c.allRows()) {
			return true, ""
		}
		return false, fmt.Sprintf("expected %d rows out of the answer, got %d", len(want), len(o.Rows))
	}
	if c.Ordered {
		if rowsEqual(o.Rows, want) {
			return true, ""
		}
	} else if rowsEqual(sortedRows(o.Rows), sortedRows(want)) {
		return true, ""
	}
	return false, fmt.Sprintf("expected %d rows, got %d", len(want), len(o.Rows))
}

// allRows: for AnyPrefix cases the rows any admissible answer is drawn from
func (c *Case) allRows() []Row {
	if c.X != nil {
		if v, ok := c.X["universe"]; ok {
			b, _ := json.Marshal(v)
			var rs []Row
			if json.Unmarshal(b, &rs) == nil {
				return rs
			}
		}
	}
	return c.Expect
}

// ---------------------------------------------------------------- model

type modelOut struct {
	Rows    []Row   `json:"rows"`
	Err     *string `json:"err"`
	Stats   *Stats  `json:"stats"`
	Stopped bool    `json:"stopped"`
	Told    bool    `json:"told"`
	Web     *struct {
		Status string  `json:"status"`
		HTTP   int     `json:"http"`
		Rows   []Row   `json:"rows"`
		Err    *string `json:"err"`
		Stats  *Stats  `json:"stats"`
	} `json:"web"`
}

func (m *modelOut) outcome() Outcome {
	o := Outcome{Rows: m.Rows, Stats: m.Stats, Stopped: m.Stopped}
	if m.Err != nil {
		o.Err = *m.Err
	}
	if m.Web != nil {
		o.Rows = m.Web.Rows
		o.Stats = m.Web.Stats
		o.HTTP = m.Web.HTTP
		o.Cache = m.Web.Status
		if m.Web.Err != nil {
			o.Err = *m.Web.Err
		}
	}
	if o.Rows == nil {
		o.Rows = []Row{}
	}
	return o
}

func callModel(ctx *hk.RunCtx, c *Case, override map[string]interface{}) (*Outcome, error) {
	b, _ := json.Marshal(c)
	var req map[string]interface{}
	json.Unmarshal(b, &req)
	delete(req, "x")
	delete(req, "expect")
	for k, v := range override {
		req[k] = v
	}
	raw, err := ctx.Model.Call(req)
	if err != nil {
		return nil, err
	}
	var m modelOut
	if err := json.Unmarshal(raw, &m); err != nil {
		return nil, fmt.Errorf("model reply: %v (%s)", err, raw)
	}
	o := m.outcome()
	return &o, nil
}

// ---------------------------------------------------------------- running a case

// Known findings (known_findings.json "known", property C13) this engine can recognise; used
// only if a fix is NOT taken: the model is then run with the corresponding fix flag off and a
// violation of exactly that shape is reported as known instead of as a violation.
//
//	C13-web-iterate-error   mode web: an incomplete result answered with HTTP 200 (cfg d4=false)
//	C13-subquery-deadline   a plan with an IN-subquery under a deadline (cfg subq=false)
//	C13-subquery-stats      mode cluster: a plan with an IN-subquery whose partition handlers fail (cfg subqStats=false)
func loadKnown() map[string]bool {
	out := map[string]bool{}
	b, err := os.ReadFile(os.Getenv("ZV_KNOWN"))
	if err != nil {
		return out
	}
	var kf struct {
		Known []struct {
			ID       string      `json:"id"`
			Property interface{} `json:"property"`
		} `json:"known"`
	}
	if json.Unmarshal(b, &kf) != nil {
		return out
	}
	for _, k := range kf.Known {
		if strings.HasPrefix(k.ID, "C13-") {
			out[k.ID] = true
		}
	}
	return out
}

// knownFor returns the id of the known finding a case can exhibit ("" if none is listed).
func (rn *runner) knownFor(c *Case) string {
	if rn.known == nil {
		rn.known = loadKnown()
	}
	switch {
	case c.Mode == "web" && rn.known["C13-web-iterate-error"]:
		return "C13-web-iterate-error"
	case c.Mode == "cluster" && hasOp(c.Plan, "subq") && rn.known["C13-subquery-stats"]:
		return "C13-subquery-stats"
	case c.Mode != "cluster" && hasOp(c.Plan, "subq") && c.Deadline != nil && rn.known["C13-subquery-deadline"]:
		return "C13-subquery-deadline"
	}
	return ""
}

func knownCfg(id string) map[string]interface{} {
	switch id {
	case "C13-web-iterate-error":
		return map[string]interface{}{"d4": false}
	case "C13-subquery-stats":
		return map[string]interface{}{"subqStats": false}
	case "C13-subquery-deadline":
		return map[string]interface{}{"subq": false}
	}
	return nil
}

type runner struct {
	known map[string]bool
	ctx   *hk.RunCtx
	dbs   *dbEnv
	cl    *clusterEnv
	webs  *webEnv
	coSem string // "abortAll" | "perIteration": what doProcessIterations does on this tree
}

// execute runs the case against the real code.
func (rn *runner) execute(c *Case) (*Outcome, error) {
	switch c.Mode {
	case "core":
		return runCore(c)
	case "plan":
		return runPlan(c)
	case "db":
		return rn.runDB(c)
	case "cluster":
		return rn.runCluster(c)
	case "web":
		return rn.runWeb(c)
	case "rpc":
		return rn.runRPC(c)
	case "remote":
		return rn.runRemote(c)
	}
	return nil, fmt.Errorf("unknown mode %q", c.Mode)
}

// sameObservation: what is compared between two runs / between model and implementation
func sameObservation(c *Case, a, b *Outcome) (bool, string) {
	if c.Mode == "rpc" && a.Err != "" && b.Err != "" {
		// both ended with a stream error; how many rows the client had read by then depends on
		// the transport
		return true, ""
	}
	if c.Mode == "rpc" && c.Deadline != nil && (a.Err == "deadline" || b.Err == "deadline") {
		// gRPC itself enforces the client's deadline: the call can fail in the transport before
		// (or while) the server's own guard sees it
		return true, ""
	}
	if a.Err != b.Err {
		return false, fmt.Sprintf("error class %q vs %q", a.Err, b.Err)
	}
	skipStats := (c.Mode == "cluster" || c.Mode == "remote") && a.Err != ""
	if (a.Stats == nil) != (b.Stats == nil) && !skipStats {
		return false, "statistics present vs absent"
	}
	if a.Stats != nil && b.Stats != nil && !skipStats {
		am, bm := append([]int{}, a.Stats.Missing...), append([]int{}, b.Stats.Missing...)
		if a.Stats.Total != b.Stats.Total || a.Stats.Successful != b.Stats.Successful || !reflect.DeepEqual(am, bm) {
			return false, fmt.Sprintf("statistics %+v vs %+v", *a.Stats, *b.Stats)
		}
	}
	if a.HTTP != b.HTTP || a.Cache != b.Cache {
		return false, fmt.Sprintf("http/cache %d/%s vs %d/%s", a.HTTP, a.Cache, b.HTTP, b.Cache)
	}
	if c.AnyPrefix || !c.Ordered {
		if len(a.Rows) != len(b.Rows) {
			return false, fmt.Sprintf("%d rows vs %d rows", len(a.Rows), len(b.Rows))
		}
		if !c.AnyPrefix && !rowsEqual(sortedRows(a.Rows), sortedRows(b.Rows)) {
			return false, "row multisets differ"
		}
		return true, ""
	}
	if !rowsEqual(a.Rows, b.Rows) {
		return false, fmt.Sprintf("rows differ (%d vs %d)", len(a.Rows), len(b.Rows))
	}
	if a.Stopped != b.Stopped {
		return false, "stopped flag"
	}
	return true, ""
}

// check runs one case: implementation (twice when something is off), oracle, model.
func (rn *runner) check(c *Case, idx uint64, nontrivial bool) error {
	res := rn.ctx.Res
	canon, _ := json.Marshal(c)
	var canonV interface{}
	json.Unmarshal(canon, &canonV)
	res.Count(canonV, nontrivial)
	if dir := os.Getenv("ZVH_C13_DUMP"); dir != "" {
		// debugging aid: keep every case (e.g. to pick corpus cases)
		os.WriteFile(filepath.Join(dir, fmt.Sprintf("%s-%d.json", c.Mode, idx)), canon, 0o644)
	}
	res.Hit("mode:" + c.Mode)
	res.Hit("fault:" + c.Fault.Kind)
	if ks, ok := c.X["kinds"].([]interface{}); ok {
		for _, k := range ks {
			res.Hit(fmt.Sprintf("remote:handler:%v", k))
		}
	}
	switch {
	case c.Deadline == nil:
		res.Hit("deadline:none")
	case *c.Deadline < c.Now:
		res.Hit("deadline:expired")
	default:
		res.Hit("deadline:running")
	}

	var impl *Outcome
	var ierr error
	if pn := hk.Recover(func() { impl, ierr = rn.execute(c) }); pn != nil {
		ierr = fmt.Errorf("panic: %v", pn)
	}
	if ierr != nil {
		res.Inconclusive++
		res.Note("case %d (%s) could not be run: %v", idx, c.Mode, ierr)
		return nil
	}
	if impl.Rows == nil {
		impl.Rows = []Row{}
	}
	res.Hit("impl-err:" + strings.SplitN(impl.Err, ":", 2)[0])
	if impl.told() {
		res.Hit("impl:told")
	} else {
		res.Hit("impl:not-told")
	}

	// property oracle, implementation only
	ok, why := complete(c, impl)
	if ok {
		res.Hit("impl:complete")
	} else {
		res.Hit("impl:incomplete")
	}
	violated := !ok && !impl.told()
	if !violated && !ok {
		// cluster queries: being told is per partition.  A partition whose rows did not all reach
		// the caller must be LISTED in MissingPartitions — another partition's failure does not
		// excuse it (the model's cluster_partition_told / cluster_success_needs_end_of_results)
		if p, bad := partitionNotListed(c, impl); bad {
			violated = true
			why = fmt.Sprintf("rows of partition %d are missing but the partition is not listed as missing (%s)", p, why)
			res.Hit("impl:partition-not-listed")
		}
	}
	if c.Mode == "web" {
		// HTTP: an incomplete result must not be answered (now or from the cache) with 200 —
		// unless the body's statistics list the missing partitions (cluster)
		violated = !ok && (impl.HTTP == 200 || impl.HTTP2 == 200) && !(impl.Stats != nil && impl.Stats.Successful < impl.Stats.Total && len(impl.Stats.Missing) > 0)
	}

	var model *Outcome
	var disagree string
	kid := rn.knownFor(c)
	if kid != "" {
		if c.Cfg == nil {
			c.Cfg = map[string]interface{}{}
		}
		for k, v := range knownCfg(kid) {
			c.Cfg[k] = v
		}
	}
	if only, _ := c.X["oracleOnly"].(bool); rn.ctx.Model != nil && !only {
		var merr error
		model, merr = rn.modelFor(c, impl)
		if merr != nil {
			return merr
		}
		if kid == "C13-web-iterate-error" && impl.HTTP == 500 {
			// without the fix the final size check sees a partial result whose compressed size the
			// model cannot know; an HTTP error is a report in any case
			model = impl
		}
		if same, d := sameObservation(c, impl, model); !same {
			disagree = d
			// the coalescing fan-out visits the iterations in map order: accept the other order
			if alt := rn.altModel(c); alt != nil {
				if same2, _ := sameObservation(c, impl, alt); same2 {
					disagree = ""
					model = alt
				}
			}
			// a partition may or may not have noticed the leader's stop
			if (c.Mode == "cluster" || c.Mode == "remote") && disagree != "" {
				for _, alt := range rn.clusterAlternatives(c, impl) {
					if same2, _ := sameObservation(c, impl, alt); same2 {
						disagree = ""
						model = alt
						res.Hit("cluster:alternative-schedule")
						break
					}
				}
			}
		}
	}
	if violated || disagree != "" {
		// reproduce before reporting: timing-dependent cases are never a verdict on one run
		var again *Outcome
		var aerr error
		if pn := hk.Recover(func() { again, aerr = rn.execute(c) }); pn != nil {
			aerr = fmt.Errorf("panic: %v", pn)
		}
		if aerr != nil || again == nil {
			res.Inconclusive++
			return nil
		}
		if again.Rows == nil {
			again.Rows = []Row{}
		}
		if same, _ := sameObservation(c, impl, again); !same {
			res.Inconclusive++
			res.Hit("not-reproduced")
			return nil
		}
	}
	if violated {
		res.Disagree(hk.Disagreement{Kind: "property", PropertyFails: true, Case: c, Impl: impl, Model: map[string]interface{}{"expected_rows": len(c.Expect)},
			Detail: rn.violationDetail(c, impl, why), Index: idx, Finding: kid})
	}
	// a coalesced neighbour (db mode) is a caller too: complete or told
	if nb, nc := neighbour(c, impl); nb != nil {
		if okN, whyN := complete(nc, nb); !okN && !nb.told() {
			res.Hit("neighbour:violated")
			res.Disagree(hk.Disagreement{Kind: "property", PropertyFails: true, Case: c, Impl: nb, Model: map[string]interface{}{"expected_rows": len(nc.Expect)},
				Detail: "db: the query coalesced with the faulty one got an incomplete result and was not told: " + generalise(whyN), Index: idx})
		} else if okN {
			res.Hit("neighbour:complete")
		} else {
			res.Hit("neighbour:told")
		}
	}
	if disagree != "" {
		res.Disagree(hk.Disagreement{Kind: "model-vs-impl", Case: c, Impl: impl, Model: model,
			Detail: c.Mode + ": " + generalise(disagree), Index: idx})
	}
	return nil
}

// partitionNotListed: a flat cluster query (modes cluster / remote, the cluster is the whole plan)
// that returned no error and was not stopped by the caller: the first partition with expected
// rows absent from the result that MissingPartitions does not list.
func partitionNotListed(c *Case, o *Outcome) (int, bool) {
	if (c.Mode != "cluster" && c.Mode != "remote") || c.Plan["op"] != "cluster" || jBool(c.Plan, "unflat") {
		return 0, false
	}
	if o.Err != "" || o.Stopped || o.Stats == nil || c.Fault.Kind == "stopAt" {
		return 0, false
	}
	have := map[string]bool{}
	for _, r := range o.Rows {
		have[fmt.Sprintf("%d/%d/%d", r.P, r.K, r.T)] = true
	}
	listed := map[int]bool{}
	for _, p := range o.Stats.Missing {
		listed[p] = true
	}
	for _, r := range c.Expect {
		if !have[fmt.Sprintf("%d/%d/%d", r.P, r.K, r.T)] && !listed[r.P] {
			return r.P, true
		}
	}
	return 0, false
}

// neighbour extracts the outcome of the query coalesced with the case's query (db mode) and
// the case describing what that neighbour asked for.
func neighbour(c *Case, impl *Outcome) (*Outcome, *Case) {
	if c.Mode != "db" || !strings.HasPrefix(impl.Detail, "{") {
		return nil, nil
	}
	sc, err := dbScenarioOf(c)
	if err != nil || sc.CoFault == nil {
		return nil, nil
	}
	var nb Outcome
	if json.Unmarshal([]byte(impl.Detail), &nb) != nil {
		return nil, nil
	}
	if nb.Rows == nil {
		nb.Rows = []Row{}
	}
	t := findTable(c.Plan)
	if t == nil {
		return nil, nil
	}
	rows, _ := specOut(t)
	nc := &Case{Mode: "db", Fault: *sc.CoFault, Expect: specFlatten(rows), Ordered: true}
	return &nb, nc
}

func generalise(s string) string {
	// keep by_detail keys few: drop the numbers
	out := make([]rune, 0, len(s))
	for _, r := range s {
		if r >= '0' && r <= '9' {
			continue
		}
		out = append(out, r)
	}
	return string(out)
}

func (rn *runner) violationDetail(c *Case, o *Outcome, why string) string {
	what := "deadline"
	switch {
	case c.Mode == "web":
		return fmt.Sprintf("web: HTTP %d (cached: %d) for an incomplete result (%s, cache entry %q)", o.HTTP, o.HTTP2, why, o.Cache)
	case c.Fault.Kind == "failAt":
		what = "error returned by the caller's callback"
	case c.Fault.Kind == "sleepAt":
		what = "deadline expiring mid-scan"
	case c.Deadline != nil && *c.Deadline < c.Now:
		what = "already expired deadline"
	default:
		what = "fault in the source / plan"
	}
	return fmt.Sprintf("%s: incomplete result not reported (%s): %s, err=nil, stats=%v", c.Mode, what, why, statsStr(o.Stats))
}

func statsStr(s *Stats) string {
	if s == nil {
		return "none"
	}
	return fmt.Sprintf("%d/%d missing %v", s.Successful, s.Total, s.Missing)
}

func (rn *runner) modelFor(c *Case, impl *Outcome) (*Outcome, error) {
	if c.Mode == "cluster" || c.Mode == "remote" {
		return rn.modelForCluster(c, impl)
	}
	if c.Mode == "db" {
		if t := findTable(c.Plan); t != nil && t["co"] != nil {
			// what doProcessIterations does with a failing neighbour is found out on the tree
			// under test, not taken from the (possibly older) case
			c.Cfg = map[string]interface{}{"coalesce": rn.probeCoalesce()}
		}
	}
	return callModel(rn.ctx, c, nil)
}

// altModel: the same case with the other visiting order of a coalesced iteration
func (rn *runner) altModel(c *Case) *Outcome {
	t := findTable(c.Plan)
	if t == nil {
		return nil
	}
	co, ok := t["co"].(map[string]interface{})
	if !ok || co == nil {
		return nil
	}
	first, _ := co["first"].(bool)
	co["first"] = !first
	defer func() { co["first"] = first }()
	o, err := callModel(rn.ctx, c, nil)
	if err != nil {
		return nil
	}
	return o
}

func findTable(p map[string]interface{}) map[string]interface{} {
	for p != nil {
		if p["op"] == "table" {
			return p
		}
		next, _ := p["p"].(map[string]interface{})
		p = next
	}
	return nil
}

// ---------------------------------------------------------------- engine entry

func (Engine) Run(ctx *hk.RunCtx) error {
	ctx.Res.Rule = "generated (plan, dataset, fault schedule) per mode; distinct by canonical case JSON; non-trivial = the case contains a fault (source / partition / caller / deadline / size cap) or a requested stop (LIMIT, caller's stop)"
	rn := &runner{ctx: ctx}
	defer rn.close()

	if ctx.Replay != "" {
		return rn.replay(ctx.Replay)
	}
	modes := []string{"core", "plan", "db", "cluster", "web", "rpc", "remote"}
	if ctx.Mode != "" {
		modes = []string{ctx.Mode}
	}
	if ctx.Corpus != "" {
		if files, _ := os.ReadDir(ctx.Corpus); len(files) > 0 {
			names := []string{}
			for _, f := range files {
				if strings.HasSuffix(f.Name(), ".json") {
					names = append(names, f.Name())
				}
			}
			sort.Strings(names)
			for _, n := range names {
				if c, err := loadCase(filepath.Join(ctx.Corpus, n)); err == nil {
					if ctx.Mode != "" && c.Mode != ctx.Mode {
						continue
					}
					ctx.Res.Hit("corpus")
					if err := rn.check(c, 1<<40, true); err != nil {
						return err
					}
				} else {
					ctx.Res.Note("corpus %s: %v", n, err)
				}
			}
		}
	}
	// share of ctx.N per mode when all modes run in one invocation
	share := map[string]int{"core": 100, "plan": 15, "db": 30, "cluster": 12, "web": 6, "rpc": 6, "remote": 8}
	total := 0
	for _, m := range modes {
		total += share[m]
	}
	start := time.Now()
	for _, m := range modes {
		n := ctx.N * share[m] / total
		if len(modes) == 1 {
			n = ctx.N
		}
		for i := 0; i < n; i++ {
			idx := uint64(ctx.From + i)
			r := hk.Derive(ctx.Seed^modeSalt(m), idx)
			c := rn.generate(m, r)
			if c == nil {
				continue
			}
			if err := rn.check(c, idx, nontrivial(c)); err != nil {
				return err
			}
		}
		ctx.Res.Note("mode %s: %d cases in %.1fs", m, n, time.Since(start).Seconds())
		start = time.Now()
	}
	return nil
}

func modeSalt(m string) uint64 {
	var h uint64 = 1469598103934665603
	for _, b := range []byte(m) {
		h = (h ^ uint64(b)) * 1099511628211
	}
	return h
}

func nontrivial(c *Case) bool {
	if c.Fault.Kind != "none" || c.Deadline != nil {
		return true
	}
	b, _ := json.Marshal(c.Plan)
	s := string(b)
	return strings.Contains(s, `"failAt":`) && !strings.Contains(s, `"failAt":null`) || strings.Contains(s, `"limit"`) ||
		strings.Contains(s, "noHandler") || strings.Contains(s, "failAfter") || strings.Contains(s, "silentAfter") || strings.Contains(s, `"oomAt":1`)
}

func (rn *runner) generate(mode string, r *hk.Rng) *Case {
	switch mode {
	case "core":
		return genCore(r)
	case "plan":
		return genPlan(r)
	case "db":
		return rn.genDB(r)
	case "cluster":
		return rn.genCluster(r)
	case "web":
		return rn.genWeb(r)
	case "rpc":
		return genRPC(r)
	case "remote":
		return genRemote(r)
	}
	return nil
}

func loadCase(path string) (*Case, error) {
	b, err := os.ReadFile(path)
	if err != nil {
		return nil, err
	}
	var rp struct {
		Case json.RawMessage `json:"case"`
	}
	if err := json.Unmarshal(b, &rp); err != nil {
		return nil, err
	}
	raw := rp.Case
	if len(raw) == 0 {
		raw = b
	}
	var c Case
	if err := json.Unmarshal(raw, &c); err != nil {
		return nil, err
	}
	if c.Mode == "" {
		return nil, fmt.Errorf("not a report case")
	}
	return &c, nil
}

func (rn *runner) replay(path string) error {
	c, err := loadCase(path)
	if err != nil {
		return err
	}
	return rn.check(c, 0, true)
}

func (rn *runner) close() {
	if rn.dbs != nil {
		rn.dbs.close()
	}
	if rn.cl != nil {
		rn.cl.close()
	}
	if rn.webs != nil {
		rn.webs.close()
	}
}
