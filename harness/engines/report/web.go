package report

import (
	"bytes"
	"compress/gzip"
	"context"
	"encoding/json"
	"fmt"
	"io"
	"net"
	"net/http"
	"net/http/httptest"
	"net/url"
	"os"
	"time"

	"github.com/getlantern/bytemap"
	"github.com/getlantern/wal"
	"github.com/getlantern/zenodb/common"
	"github.com/getlantern/zenodb/core"
	"github.com/getlantern/zenodb/planner"
	"github.com/getlantern/zenodb/rpc"
	rpcserver "github.com/getlantern/zenodb/rpc/server"
	"github.com/getlantern/zenodb/web"
	"github.com/gorilla/mux"

	"zvh/hk"
)

// ---------------------------------------------------------------- web

// web mode: the scenario is a db scenario whose data is all in the file (the web API queries
// without the memstore) plus the handler options.
type webScenario struct {
	Max       int  `json:"max"`       // MaxResponseBytes (0 = default)
	Expired   bool `json:"expired"`   // QueryTimeout of 1ns
	FinalSize int  `json:"finalSize"` // size of the complete compressed response (learned)
}

type webEnv struct {
	finalSizes map[string]int
}

func (e *webEnv) close() {}

type webResp struct {
	status int
	rows   []Row
	stats  *Stats
	rawLen int
	body   string
}

func webGet(srv *httptest.Server, sqlText string, keyDim string) (*webResp, error) {
	c := &http.Client{Timeout: 60 * time.Second, Transport: &http.Transport{DisableCompression: true}}
	resp, err := c.Get(srv.URL + "/immediate?" + url.QueryEscape(sqlText))
	if err != nil {
		return nil, err
	}
	defer resp.Body.Close()
	raw, _ := io.ReadAll(resp.Body)
	out := &webResp{status: resp.StatusCode, rawLen: len(raw)}
	body := raw
	if resp.Header.Get("Content-Encoding") == "gzip" {
		gr, err := gzip.NewReader(bytes.NewReader(raw))
		if err != nil {
			return nil, err
		}
		body, _ = io.ReadAll(gr)
	}
	out.body = string(body)
	if resp.StatusCode == 200 {
		var qr struct {
			Rows []struct {
				TS   int64
				Key  map[string]interface{}
				Vals []float64
			}
			Stats *common.QueryStats
		}
		if err := json.Unmarshal(body, &qr); err != nil {
			return nil, fmt.Errorf("response body: %v", err)
		}
		for _, r := range qr.Rows {
			k := 0
			if f, ok := r.Key[keyDim].(float64); ok {
				k = int(f)
			}
			t := int((r.TS-baseTime.UnixNano()/1e6)/1000) - 1
			v := 0
			if n := len(r.Vals); n > 0 {
				v = int(r.Vals[n-1])
			}
			out.rows = append(out.rows, Row{K: k, T: t, V: []int{v}})
		}
		if qr.Stats != nil {
			out.stats = &Stats{Total: qr.Stats.NumPartitions, Successful: qr.Stats.NumSuccessfulPartitions, Missing: qr.Stats.MissingPartitions}
			if out.stats.Missing == nil {
				out.stats.Missing = []int{}
			}
		}
	}
	return out, nil
}

func webScenarioOf(c *Case) (*webScenario, error) {
	b, _ := json.Marshal(c.X["web"])
	var ws webScenario
	if err := json.Unmarshal(b, &ws); err != nil {
		return nil, err
	}
	return &ws, nil
}

func (rn *runner) webServe(e *dbEnv, ws *webScenario) (*httptest.Server, func(), error) {
	dir, err := os.MkdirTemp("", "zvh-webcache-*")
	if err != nil {
		return nil, nil, err
	}
	opts := &web.Opts{CacheDir: dir, MaxResponseBytes: ws.Max}
	if ws.Expired {
		opts.QueryTimeout = time.Nanosecond
	}
	router := mux.NewRouter()
	stop, err := web.Configure(e.db.DB, router, opts)
	if err != nil {
		os.RemoveAll(dir)
		return nil, nil, err
	}
	srv := httptest.NewServer(router)
	return srv, func() { srv.Close(); stop(); os.RemoveAll(dir) }, nil
}

func (rn *runner) runWeb(c *Case) (*Outcome, error) {
	sc, err := dbScenarioOf(c)
	if err != nil {
		return nil, err
	}
	ws, err := webScenarioOf(c)
	if err != nil {
		return nil, err
	}
	e, err := rn.buildDB(sc)
	if err != nil {
		return nil, err
	}
	srv, closeFn, err := rn.webServe(e, ws)
	if err != nil {
		return nil, err
	}
	defer closeFn()
	r1, err := webGet(srv, sc.SQL, sc.KeyDim)
	if err != nil {
		return nil, err
	}
	r2, err := webGet(srv, sc.SQL, sc.KeyDim)
	if err != nil {
		return nil, err
	}
	o := &Outcome{Rows: r1.rows, Stats: r1.stats, HTTP: r1.status, HTTP2: r2.status, Rows2: len(r2.rows)}
	if o.Rows == nil {
		o.Rows = []Row{}
	}
	switch r1.status {
	case 200:
		o.Cache = "success"
	case 500:
		o.Cache = "error"
		o.Err = errClass(fmt.Errorf("%s", r1.body))
		if len(o.Err) > 6 && o.Err[:6] == "other:" {
			// "Unable to query: <error>"
			o.Err = errClass(fmt.Errorf("%s", bytes.TrimPrefix([]byte(r1.body), []byte("Unable to query: "))))
		}
	default:
		return nil, fmt.Errorf("unexpected HTTP status %d: %s", r1.status, r1.body)
	}
	if r2.status != r1.status || len(r2.rows) != len(r1.rows) {
		o.Detail = fmt.Sprintf("second (cached) response differs: %d with %d rows", r2.status, len(r2.rows))
	}
	return o, nil
}

// rowEstimate: what web.doQuery adds per row: len(dim)+len(valueBytes) per dimension, 8 per value.
func rowEstimate(dims map[string]interface{}, nvals int) int {
	n := 0
	bytemap.New(dims).Iterate(true, true, func(dim string, value interface{}, valueBytes []byte) bool {
		n += len(dim) + len(valueBytes)
		return true
	})
	return n + 8*nvals
}

// genWebPanic: a dimension that is a string in most rows and a number in one, under SUBSTR in
// the WHERE clause: the scan's row processing panics part-way.  Implementation-only oracle: the
// response must not be a 200 with a truncated result.
func (rn *runner) genWebPanic(r *hk.Rng) *Case {
	sc := &dbScenario{Div: 1, Mem0: false, KeyDim: "k", Mem: []Row{}, S: true, Odd: []int{}}
	sc.File = genRows(r, 9, 0)
	if len(sc.File) < 3 {
		sc.File = []Row{{K: 3, V: []int{2, 1}}, {K: 5, V: []int{1}}, {K: 9, V: []int{4}}, {K: 11, V: []int{1, 1}}}
	}
	if r.Chance(4, 5) {
		sc.Odd = []int{hk.Pick(r, sc.File).K}
	}
	sc.SQL = "SELECT * FROM t WHERE SUBSTR(s, 0, 1) = 'x'"
	e, err := rn.buildDB(sc)
	if err != nil {
		rn.ctx.Res.Inconclusive++
		rn.ctx.Res.Note("web scenario could not be built: %v", err)
		return nil
	}
	ord, err := e.scanOrder(false)
	if err != nil {
		rn.ctx.Res.Inconclusive++
		return nil
	}
	tp, err := tablePlan(sc, ord)
	if err != nil {
		rn.ctx.Res.Inconclusive++
		return nil
	}
	plan := map[string]interface{}{"op": "flatten", "p": map[string]interface{}{"op": "filter", "mod": 0, "rem": 0, "errKey": nil, "panicKeys": sc.Odd, "p": tp}}
	c := &Case{Engine: "report", Op: "run", Mode: "web", Caller: "web", Plan: plan, Fault: Fault{Kind: "none"},
		X: map[string]interface{}{"db": sc, "web": &webScenario{}, "oracleOnly": true}}
	fillExpect(c)
	rn.ctx.Res.Hit(fmt.Sprintf("web:panic:where-substr:odd-rows=%d", len(sc.Odd)))
	return normalise(c)
}

func (rn *runner) genWeb(r *hk.Rng) *Case {
	if rn.webs == nil {
		rn.webs = &webEnv{finalSizes: map[string]int{}}
	}
	if r.Chance(1, 4) {
		return rn.genWebPanic(r)
	}
	sc := &dbScenario{Div: r.Range(1, 3), Mem0: false, KeyDim: "k", Mem: []Row{}}
	sc.File = genRows(r, 9, 0)
	if r.Chance(1, 2) {
		// enough rows for the size estimate to outgrow the compressed response
		sc.File = []Row{}
		n := r.Range(25, 45)
		for i := 0; i < n; i++ {
			v := []int{r.Range(1, 6)}
			if r.Chance(1, 3) {
				v = append(v, r.Range(1, 6))
			}
			sc.File = append(sc.File, Row{K: (i*7 + 3) % 64, V: v})
		}
	}
	if len(sc.File) == 0 {
		sc.File = []Row{{K: 3, V: []int{2, 1}}}
	}
	var plan map[string]interface{}
	tbl := map[string]interface{}{"op": "table"}
	plan = tbl
	nvals := 2
	qk := r.Intn(3)
	sel, groupBy := "*", ""
	switch qk {
	case 1:
		sel, groupBy, nvals = "a", " GROUP BY k", 1
		plan = map[string]interface{}{"op": "group", "div": 1, "crosstab": false, "p": plan}
	case 2:
		sel, groupBy, nvals = "a", " GROUP BY g", 1
		sc.KeyDim = "g"
		plan = map[string]interface{}{"op": "group", "div": sc.Div, "crosstab": false, "p": plan}
	}
	plan = map[string]interface{}{"op": "flatten", "p": plan}
	order := ""
	if r.Chance(1, 3) {
		desc := r.Bool()
		d := ""
		if desc {
			d = " DESC"
		}
		order = fmt.Sprintf(" ORDER BY %s%s, _time%s", sc.KeyDim, d, d)
		plan = map[string]interface{}{"op": "sort", "desc": desc, "p": plan}
	}
	limit := ""
	if r.Chance(1, 4) {
		n := r.Range(1, 5)
		limit = fmt.Sprintf(" LIMIT %d", n)
		plan = map[string]interface{}{"op": "limit", "n": n, "p": plan}
	}
	sc.SQL = "SELECT " + sel + " FROM t" + groupBy + order + limit
	e, err := rn.buildDB(sc)
	if err != nil {
		rn.ctx.Res.Inconclusive++
		rn.ctx.Res.Note("web scenario could not be built: %v", err)
		return nil
	}
	ord, err := e.scanOrder(false)
	if err != nil {
		rn.ctx.Res.Inconclusive++
		return nil
	}
	tp, err := tablePlan(sc, ord)
	if err != nil {
		rn.ctx.Res.Inconclusive++
		return nil
	}
	// size estimates per table row key (the model looks sizes up by key)
	if fl, ok := tp["file"].([]interface{}); ok {
		for i, en := range fl {
			pair := en.([]interface{})
			row := pair[0].(Row)
			dims := map[string]interface{}{"k": row.K, "g": row.K / sc.Div}
			switch qk {
			case 1:
				dims = map[string]interface{}{"k": row.K}
			case 2:
				dims = map[string]interface{}{"g": row.K / sc.Div}
			}
			row.Sz = rowEstimate(dims, nvals)
			pair[0] = row
			fl[i] = pair
		}
	}
	for k, v := range tp {
		tbl[k] = v
	}
	c := &Case{Engine: "report", Op: "run", Mode: "web", Caller: "web", Plan: plan, Fault: Fault{Kind: "none"},
		X: map[string]interface{}{"db": sc}}
	fillExpect(c)
	// learn the size of the complete compressed response once per scenario
	ws := &webScenario{}
	{
		srv, closeFn, err := rn.webServe(e, ws)
		if err != nil {
			rn.ctx.Res.Inconclusive++
			return nil
		}
		full, err := webGet(srv, sc.SQL, sc.KeyDim)
		closeFn()
		if err != nil || full.status != 200 {
			rn.ctx.Res.Inconclusive++
			rn.ctx.Res.Note("web: unlimited request failed: %v", err)
			return nil
		}
		ws.FinalSize = full.rawLen
	}
	// total of the estimates over the rows the callback sees
	flat, _ := specOut(plan)
	sizes := []int{}
	for _, row := range flat {
		dims := map[string]interface{}{"k": row.K, "g": row.K / sc.Div}
		switch qk {
		case 1:
			dims = map[string]interface{}{"k": row.K}
		case 2:
			dims = map[string]interface{}{"g": row.K}
		}
		sizes = append(sizes, rowEstimate(dims, nvals))
	}
	total := 0
	for _, s := range sizes {
		total += s
		if s != sizes[0] {
			rn.ctx.Res.Inconclusive++
			rn.ctx.Res.Note("web: row size estimates differ between rows")
			return nil
		}
	}
	rowSize := 0
	if len(sizes) > 0 {
		rowSize = sizes[0]
	}
	switch r.Intn(6) {
	case 0:
		ws.Max = 0 // default (25 MB)
	case 1:
		ws.Max = 1 + r.Intn(20) // below the first row
	case 2:
		if total > 2 {
			ws.Max = 1 + r.Intn(total-1) // somewhere inside
		}
	case 3:
		// passes the estimate, fails the final check (when the compressed response is larger)
		if ws.FinalSize-total > 80 {
			ws.Max = total + (ws.FinalSize-total)/2
		}
	case 4:
		ws.Max = ws.FinalSize + 64 + r.Intn(200)
		if ws.Max < total {
			ws.Max = total + 64
		}
	}
	if ws.Max != 0 && ws.Max > ws.FinalSize-40 && ws.Max < ws.FinalSize+40 {
		ws.Max = ws.FinalSize + 64 // the compressed size varies by a few bytes (permalink, timestamp)
	}
	ws.Expired = r.Chance(1, 4)
	c.X["web"] = ws
	max := ws.Max
	if max == 0 {
		max = 25 * 1024 * 1024
	}
	c.Web = map[string]interface{}{"max": max, "timeout": 100000000, "lag": 0, "finalSize": ws.FinalSize, "fullCount": len(c.Expect), "rowSize": rowSize}
	c.Fault = Fault{Kind: "sizeCap", Max: max}
	if ws.Expired {
		c.Web["timeout"], c.Web["lag"] = 0, 1
		c.Deadline, c.Now = intp(0), 1
	}
	rn.ctx.Res.Hit(fmt.Sprintf("web:max-class:%v", map[bool]string{true: "default", false: "set"}[ws.Max == 0]))
	return normalise(c)
}

// ---------------------------------------------------------------- rpc

// rpc mode: the real rpc server in front of a stand-in rpcserver.DB whose Query returns the
// pipeline of a core-mode plan (mock source with faults under the real core operators); the
// real rpc client is the caller.
type rpcDB struct {
	src core.FlatRowSource
}

func (d *rpcDB) InsertRaw(stream string, ts time.Time, dims bytemap.ByteMap, vals bytemap.ByteMap) error {
	return nil
}
func (d *rpcDB) Query(sqlString string, isSubQuery bool, subQueryResults [][]interface{}, includeMemStore bool) (core.FlatRowSource, error) {
	return d.src, nil
}
func (d *rpcDB) Follow(f *common.Follow, cb func([]byte, wal.Offset) error)       {}
func (d *rpcDB) RegisterQueryHandler(partition int, query planner.QueryClusterFN) {}

func (rn *runner) runRPC(c *Case) (*Outcome, error) {
	b, err := buildCore(c.Plan, groupDiv(c.Plan))
	if err != nil {
		return nil, err
	}
	if b.flat == nil {
		return nil, fmt.Errorf("plan does not end in a flat source")
	}
	l, err := net.Listen("tcp", "127.0.0.1:0")
	if err != nil {
		return nil, err
	}
	defer l.Close()
	serve, stop := rpcserver.PrepareServer(&rpcDB{src: b.flat}, l, &rpcserver.Opts{ID: 13})
	go serve()
	defer stop()
	client, err := rpc.Dial(l.Addr().String(), &rpc.ClientOpts{})
	if err != nil {
		return nil, err
	}
	defer client.Close()
	ctx, cancel := ctxFor(c)
	defer cancel()
	if c.Deadline == nil {
		var cancel2 context.CancelFunc
		ctx, cancel2 = context.WithTimeout(ctx, 30*time.Second)
		defer cancel2()
	}
	o := &Outcome{Rows: []Row{}}
	_, iterate, err := client.Query(ctx, "SELECT * FROM t", true)
	if err != nil {
		// the field list could not even be sent
		o.Err = errClass(err)
		return o, nil
	}
	stats, err := iterate(func(row *core.FlatRow) (bool, error) {
		o.Rows = append(o.Rows, modelFlat(row))
		return true, nil
	})
	o.Err = errClass(err)
	if stats != nil {
		o.Stats = &Stats{Total: stats.NumPartitions, Successful: stats.NumSuccessfulPartitions, Missing: stats.MissingPartitions}
		if o.Stats.Missing == nil {
			o.Stats.Missing = []int{}
		}
	}
	return o, nil
}

func genRPC(r *hk.Rng) *Case {
	c := genCore(r)
	c.Mode, c.Caller = "rpc", "rpc"
	// the rpc client's callback has no faults of its own here
	c.Fault = Fault{Kind: "none"}
	if r.Chance(1, 6) {
		// the query's row processing PANICS on one row: a filter directly over the source whose
		// expression panics on that key — on the server's query goroutine, under rpc/server Query's
		// recover boundary.  Expected: the stream ends with an error.
		m := c.Plan
		for m != nil && m["op"] != "mock" {
			m, _ = m["p"].(map[string]interface{})
		}
		if rows := jRows(m["rows"]); m != nil && len(rows) > 0 {
			inner := map[string]interface{}{}
			for k, v := range m {
				inner[k] = v
			}
			for k := range m {
				delete(m, k)
			}
			m["op"], m["mod"], m["rem"], m["errKey"], m["p"] = "filter", 0, 0, nil, inner
			m["panicKeys"] = []interface{}{float64(hk.Pick(r, rows).K)}
			c.X = map[string]interface{}{"panic": "filter"}
			fillExpect(c)
			c = normalise(c)
		}
	}
	return c
}
