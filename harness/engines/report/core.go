package report

import (
	"context"
	"encoding/json"
	"fmt"
	"time"

	"github.com/getlantern/bytemap"
	"github.com/getlantern/goexpr"
	"github.com/getlantern/zenodb/core"
	"github.com/getlantern/zenodb/encoding"
	"github.com/getlantern/zenodb/expr"
	"github.com/getlantern/zenodb/planner"

	"zvh/hk"
)

// ---------------------------------------------------------------- real rows

var (
	baseTime   = time.Date(2020, 3, 1, 12, 0, 0, 0, time.UTC)
	res1s      = time.Second
	fieldA     = core.NewField("a", expr.SUM("a"))
	mockFields = core.Fields{core.PointsField, fieldA}
)

const maxPeriods = 3

func periodEnd(i int) time.Time { return baseTime.Add(time.Duration(i+1) * res1s) }

func seqOf(e expr.Expr, param string, vals []int) encoding.Sequence {
	var s encoding.Sequence
	for i, v := range vals {
		s = s.UpdateValue(periodEnd(i), expr.Map{param: float64(v)}, nil, e, res1s, time.Time{})
	}
	return s
}

// realRow builds the key and the per-field sequences of a model row; div: "g" = k / div.
func realRow(r Row, div int) (bytemap.ByteMap, core.Vals) {
	if div < 1 {
		div = 1
	}
	ones := make([]int, len(r.V))
	for i := range ones {
		ones[i] = 1
	}
	key := bytemap.New(map[string]interface{}{"k": r.K, "g": r.K / div, "c": "x"})
	return key, core.Vals{seqOf(core.PointsField.Expr, "_point", ones), seqOf(fieldA.Expr, "a", r.V)}
}

func intDim(key bytemap.ByteMap, dim string) (int, bool) {
	switch v := key.Get(dim).(type) {
	case int:
		return v, true
	case int64:
		return int(v), true
	case float64:
		return int(v), true
	}
	return 0, false
}

// modelFlat decodes a real flat row: key = the k dimension if present, else g.
func modelFlat(row *core.FlatRow) Row {
	k, ok := intDim(row.Key, "k")
	if !ok {
		k, _ = intDim(row.Key, "g")
	}
	t := int((row.TS-baseTime.UnixNano())/int64(res1s)) - 1
	v := 0
	if n := len(row.Values); n > 0 {
		v = int(row.Values[n-1])
	}
	return Row{K: k, T: t, V: []int{v}}
}

// ---------------------------------------------------------------- mock source

type mockSource struct {
	rows    []Row
	div     int
	failAt  int // -1: never
	sleepAt int // -1: never
	sleep   time.Duration
	name    string
}

func (m *mockSource) GetGroupBy() []core.GroupBy   { return nil }
func (m *mockSource) GetResolution() time.Duration { return res1s }
func (m *mockSource) GetAsOf() time.Time           { return baseTime }
func (m *mockSource) GetUntil() time.Time          { return periodEnd(maxPeriods - 1) }
func (m *mockSource) GetPartitionBy() []string     { return nil }
func (m *mockSource) String() string               { return "mock " + m.name }

// the loop the model's mockLoop transcribes
func (m *mockSource) Iterate(ctx context.Context, onFields core.OnFields, onRow core.OnRow) (interface{}, error) {
	if err := onFields(mockFields); err != nil {
		return nil, err
	}
	for i, r := range m.rows {
		if i == m.failAt {
			return nil, errSource
		}
		if i == m.sleepAt {
			time.Sleep(m.sleep)
		}
		key, vals := realRow(r, m.div)
		more, err := onRow(key, vals)
		if !more || err != nil {
			return nil, err
		}
	}
	return nil, nil
}

// ---------------------------------------------------------------- plan JSON helpers

func jInt(m map[string]interface{}, k string) int {
	switch v := m[k].(type) {
	case float64:
		return int(v)
	case int:
		return v
	case json.Number:
		i, _ := v.Int64()
		return int(i)
	}
	return 0
}

func jIntOpt(m map[string]interface{}, k string) int {
	if m[k] == nil {
		return -1
	}
	return jInt(m, k)
}

func jBool(m map[string]interface{}, k string) bool { b, _ := m[k].(bool); return b }

func jRows(v interface{}) []Row {
	b, _ := json.Marshal(v)
	var rs []Row
	json.Unmarshal(b, &rs)
	return rs
}

func jPlan(m map[string]interface{}, k string) map[string]interface{} {
	p, _ := m[k].(map[string]interface{})
	return p
}

// normalise a freshly generated case to what a JSON round trip yields (so that generation
// and replay take the same code path)
func normalise(c *Case) *Case {
	b, _ := json.Marshal(c)
	var out Case
	json.Unmarshal(b, &out)
	return &out
}

// groupDiv returns the div of the (single) group operator of a plan, 1 if none.
func groupDiv(p map[string]interface{}) int {
	for p != nil {
		if p["op"] == "group" {
			return jInt(p, "div")
		}
		if p["op"] == "subq" {
			if d := groupDiv(jPlan(p, "p")); d != 1 {
				return d
			}
		}
		p = jPlan(p, "p")
	}
	return 1
}

// ---------------------------------------------------------------- specification on model rows (the oracle's expected answer)

func specGroup(div int, rows []Row) []Row {
	if div < 1 {
		div = 1
	}
	var out []Row
	idx := map[int]int{}
	for _, r := range rows {
		g := r.K / div
		i, ok := idx[g]
		if !ok {
			idx[g] = len(out)
			out = append(out, Row{K: g, V: append([]int(nil), r.V...)})
			continue
		}
		for j, v := range r.V {
			if j < len(out[i].V) {
				out[i].V[j] += v
			} else {
				out[i].V = append(out[i].V, v)
			}
		}
	}
	return out
}

func specFlatten(rows []Row) []Row {
	var out []Row
	for _, r := range rows {
		for i, v := range r.V {
			out = append(out, Row{K: r.K, T: r.T + i, V: []int{v}, P: r.P})
		}
	}
	return out
}

func specSort(desc bool, rows []Row) []Row {
	out := append([]Row(nil), rows...)
	less := func(a, b Row) bool {
		if a.K != b.K {
			return a.K < b.K
		}
		return a.T < b.T
	}
	for i := 1; i < len(out); i++ {
		for j := i; j > 0; j-- {
			sw := less(out[j], out[j-1])
			if desc {
				sw = less(out[j-1], out[j])
			}
			if !sw {
				break
			}
			out[j], out[j-1] = out[j-1], out[j]
		}
	}
	return out
}

func filterKeep(p map[string]interface{}, r Row) bool {
	if mv, ok := p["minVal"]; ok && mv != nil {
		return len(r.V) > 0 && r.V[0] > jInt(p, "minVal")
	}
	m := jInt(p, "mod")
	return m == 0 || r.K%m != jInt(p, "rem")
}

// specOut: the complete answer of a plan; ordered reports whether its order is determined.
func specOut(p map[string]interface{}) (rows []Row, ordered bool) {
	switch p["op"] {
	case "mock":
		return jRows(p["rows"]), true
	case "table":
		var out []Row
		if fl, ok := p["file"].([]interface{}); ok {
			for _, e := range fl {
				pair, _ := e.([]interface{})
				if len(pair) == 2 {
					if b, _ := pair[1].(bool); b {
						out = append(out, jRows([]interface{}{pair[0]})...)
					}
				}
			}
		}
		if jBool(p, "includeMem") {
			out = append(out, jRows(p["mem"])...)
		}
		return out, true
	case "cluster":
		var out []Row
		if ps, ok := p["parts"].([]interface{}); ok {
			for _, e := range ps {
				pm, _ := e.(map[string]interface{})
				out = append(out, jRows(pm["rows"])...)
			}
		}
		return out, false
	case "filter":
		in, ord := specOut(jPlan(p, "p"))
		var out []Row
		for _, r := range in {
			if filterKeep(p, r) {
				out = append(out, r)
			}
		}
		return out, ord
	case "subq":
		sub, _ := specOut(jPlan(p, "sub"))
		dims := map[int]bool{}
		for _, r := range sub {
			dims[r.K] = true
		}
		in, ord := specOut(jPlan(p, "p"))
		var out []Row
		for _, r := range in {
			if dims[r.K] != jBool(p, "neg") {
				out = append(out, r)
			}
		}
		return out, ord
	case "group":
		in, ord := specOut(jPlan(p, "p"))
		if len(in) == 0 {
			return nil, ord
		}
		return specGroup(jInt(p, "div"), in), ord
	case "flatten":
		in, ord := specOut(jPlan(p, "p"))
		return specFlatten(in), ord
	case "unflatten":
		return specOut(jPlan(p, "p"))
	case "sort":
		in, _ := specOut(jPlan(p, "p"))
		return specSort(jBool(p, "desc"), in), true
	case "offset":
		in, ord := specOut(jPlan(p, "p"))
		n := jInt(p, "n")
		if n > len(in) {
			n = len(in)
		}
		return in[n:], ord
	case "limit":
		in, ord := specOut(jPlan(p, "p"))
		n := jInt(p, "n")
		if n > len(in) {
			n = len(in)
		}
		return in[:n], ord
	}
	return nil, true
}

func hasOp(p map[string]interface{}, op string) bool {
	for p != nil {
		if p["op"] == op {
			return true
		}
		p = jPlan(p, "p")
	}
	return false
}

// hasSlice: the plan contains LIMIT or OFFSET
func hasSlice(p map[string]interface{}) bool {
	for p != nil {
		if p["op"] == "limit" || p["op"] == "offset" {
			return true
		}
		p = jPlan(p, "p")
	}
	return false
}

// fillExpect computes Expect / Ordered / AnyPrefix of a case from its own plan.
func fillExpect(c *Case) {
	rows, ord := specOut(c.Plan)
	if rows == nil {
		rows = []Row{}
	}
	c.Expect = rows
	c.Ordered = ord
	if !ord && hasSlice(c.Plan) {
		c.AnyPrefix = true
		// the universe the slice is taken from: the plan without LIMIT/OFFSET
		p := c.Plan
		for p != nil && (p["op"] == "limit" || p["op"] == "offset") {
			p = jPlan(p, "p")
		}
		u, _ := specOut(p)
		if c.X == nil {
			c.X = map[string]interface{}{}
		}
		c.X["universe"] = u
	}
}

// ---------------------------------------------------------------- building the real pipeline from the plan

type built struct {
	row    core.RowSource
	flat   core.FlatRowSource
	keyDim string
}

func buildCore(p map[string]interface{}, div int) (*built, error) {
	switch p["op"] {
	case "mock":
		m := &mockSource{rows: jRows(p["rows"]), div: div, failAt: jIntOpt(p, "failAt"), sleepAt: -1, name: "t"}
		if sl, ok := p["sleepAt"].([]interface{}); ok && len(sl) == 2 {
			k, _ := sl[0].(float64)
			d, _ := sl[1].(float64)
			m.sleepAt, m.sleep = int(k), time.Duration(d)*time.Millisecond
		}
		return &built{row: m, keyDim: "k"}, nil
	case "filter":
		in, err := buildCore(jPlan(p, "p"), div)
		if err != nil {
			return nil, err
		}
		errKey := jIntOpt(p, "errKey")
		keepKey := func(key bytemap.ByteMap) (bool, error) {
			k, _ := intDim(key, in.keyDim)
			if pks, ok := p["panicKeys"].([]interface{}); ok {
				// the filter expression panics on this row (rpc mode: under the real rpc server's
				// recover boundary)
				for _, pk := range pks {
					if f, ok := pk.(float64); ok && int(f) == k {
						panic("zvh filter panics on unexpected data")
					}
				}
			}
			if k == errKey {
				return false, errFilter
			}
			return filterKeep(p, Row{K: k}), nil
		}
		if in.flat != nil {
			return &built{keyDim: in.keyDim, flat: core.FlatRowFilter(in.flat, "zvh", func(ctx context.Context, row *core.FlatRow, fields core.Fields) (*core.FlatRow, error) {
				keep, err := keepKey(row.Key)
				if err != nil {
					return nil, err
				}
				if keep {
					return row, nil
				}
				return nil, nil
			})}, nil
		}
		return &built{keyDim: in.keyDim, row: core.RowFilter(in.row, "zvh", func(ctx context.Context, key bytemap.ByteMap, fields core.Fields, vals core.Vals) (bytemap.ByteMap, core.Vals, error) {
			keep, err := keepKey(key)
			if err != nil {
				return nil, nil, err
			}
			if keep {
				return key, vals, nil
			}
			return nil, nil, nil
		})}, nil
	case "group":
		in, err := buildCore(jPlan(p, "p"), div)
		if err != nil {
			return nil, err
		}
		if in.row == nil {
			return nil, fmt.Errorf("group over a flat source")
		}
		opts := core.GroupOpts{By: []core.GroupBy{core.NewGroupBy("g", goexpr.Param("g"))}}
		if jBool(p, "crosstab") {
			opts.Crosstab = goexpr.Param("c")
		}
		return &built{row: core.Group(in.row, opts), keyDim: "g"}, nil
	case "flatten":
		in, err := buildCore(jPlan(p, "p"), div)
		if err != nil {
			return nil, err
		}
		if in.row == nil {
			return nil, fmt.Errorf("flatten over a flat source")
		}
		return &built{flat: core.Flatten(in.row), keyDim: in.keyDim}, nil
	case "unflatten":
		in, err := buildCore(jPlan(p, "p"), div)
		if err != nil {
			return nil, err
		}
		if in.flat == nil {
			return nil, fmt.Errorf("unflatten over an unflat source")
		}
		fs := core.StaticFieldSource{core.NewField("_points", expr.SUM("_points")), core.NewField("a", expr.SUM("a"))}
		return &built{row: core.Unflatten(in.flat, fs), keyDim: in.keyDim}, nil
	case "sort":
		in, err := buildCore(jPlan(p, "p"), div)
		if err != nil {
			return nil, err
		}
		desc := jBool(p, "desc")
		return &built{flat: core.Sort(in.flat, core.NewOrderBy(in.keyDim, desc), core.NewOrderBy("_time", desc)), keyDim: in.keyDim}, nil
	case "offset":
		in, err := buildCore(jPlan(p, "p"), div)
		if err != nil {
			return nil, err
		}
		return &built{flat: core.Offset(in.flat, jInt(p, "n")), keyDim: in.keyDim}, nil
	case "limit":
		in, err := buildCore(jPlan(p, "p"), div)
		if err != nil {
			return nil, err
		}
		return &built{flat: core.Limit(in.flat, jInt(p, "n")), keyDim: in.keyDim}, nil
	}
	return nil, fmt.Errorf("core: cannot build %v", p["op"])
}

// consumerPanic is the value the caller's callback panics with (fault panicAt).
const consumerPanic = "zvh consumer callback panics"

// caller is the recording callback the model calls userSink.
type caller struct {
	f       Fault
	n       int
	rows    []Row
	stopped bool
	decode  func(*core.FlatRow) Row
}

func (cl *caller) onRow(row *core.FlatRow) (bool, error) {
	i := cl.n
	cl.n++
	switch cl.f.Kind {
	case "failAt":
		if i == cl.f.K {
			return false, errConsumer
		}
	case "stopAt":
		if i == cl.f.K {
			cl.stopped = true
			return false, nil
		}
	case "panicAt":
		if i == cl.f.K {
			panic(consumerPanic)
		}
	}
	cl.rows = append(cl.rows, cl.decode(row))
	if cl.f.Kind == "sleepAt" && i == cl.f.K {
		time.Sleep(time.Duration(cl.f.D) * time.Millisecond)
	}
	return true, nil
}

// ctxFor returns the context of a case: no deadline, a running one, or one already expired.
func ctxFor(c *Case) (context.Context, context.CancelFunc) {
	if c.Deadline == nil {
		return context.WithCancel(context.Background())
	}
	if *c.Deadline < c.Now {
		return context.WithDeadline(context.Background(), time.Now().Add(-time.Second))
	}
	return context.WithDeadline(context.Background(), time.Now().Add(time.Duration(*c.Deadline-c.Now)*time.Millisecond))
}

func statsOf(md interface{}) *Stats {
	b, err := json.Marshal(md)
	if err != nil || md == nil {
		return nil
	}
	var qs struct {
		NumPartitions           int
		NumSuccessfulPartitions int
		MissingPartitions       []int
	}
	if json.Unmarshal(b, &qs) != nil || qs.NumPartitions == 0 {
		return nil
	}
	if qs.MissingPartitions == nil {
		qs.MissingPartitions = []int{}
	}
	return &Stats{Total: qs.NumPartitions, Successful: qs.NumSuccessfulPartitions, Missing: qs.MissingPartitions}
}

func iterateFlat(c *Case, src core.FlatRowSource, decode func(*core.FlatRow) Row) *Outcome {
	ctx, cancel := ctxFor(c)
	defer cancel()
	cl := &caller{f: c.Fault, decode: decode}
	var md interface{}
	var err error
	func() {
		// the callback's own panic may come back on this goroutine (e.g. from the emit phase of a
		// sort): the caller has then been told in the most direct way
		defer func() {
			if p := recover(); p != nil {
				if p != interface{}(consumerPanic) {
					panic(p)
				}
				md, err = nil, fmt.Errorf("%v", p)
			}
		}()
		md, err = src.Iterate(ctx, core.FieldsIgnored, cl.onRow)
	}()
	o := &Outcome{Rows: cl.rows, Err: errClass(err), Stopped: cl.stopped, Stats: statsOf(md)}
	if o.Rows == nil {
		o.Rows = []Row{}
	}
	return o
}

func runCore(c *Case) (*Outcome, error) {
	b, err := buildCore(c.Plan, groupDiv(c.Plan))
	if err != nil {
		return nil, err
	}
	if b.flat == nil {
		return nil, fmt.Errorf("plan does not end in a flat source")
	}
	return iterateFlat(c, b.flat, modelFlat), nil
}

// ---------------------------------------------------------------- generators

func genRows(r *hk.Rng, maxN int, keyBase int) []Row {
	n := r.Intn(maxN + 1)
	perm := make([]int, 16)
	for i := range perm {
		perm[i] = i
	}
	for i := len(perm) - 1; i > 0; i-- {
		j := r.Intn(i + 1)
		perm[i], perm[j] = perm[j], perm[i]
	}
	rows := make([]Row, 0, n)
	for i := 0; i < n; i++ {
		p := r.Range(1, maxPeriods)
		v := make([]int, p)
		for j := range v {
			v[j] = r.Range(1, 6)
		}
		rows = append(rows, Row{K: keyBase + perm[i], V: v})
	}
	return rows
}

// genFaults draws the deadline and the fault of the caller; sleeper reports whether the caller sleeps.
func genDeadlineAndFault(r *hk.Rng, c *Case, outRows int) {
	c.Fault = Fault{Kind: "none"}
	switch r.Intn(10) {
	case 0, 1:
		c.Fault = Fault{Kind: "failAt", K: r.Intn(outRows + 2)}
	case 2:
		c.Fault = Fault{Kind: "stopAt", K: r.Intn(outRows + 2)}
	}
	switch r.Intn(10) {
	case 0, 1:
		c.Deadline, c.Now = intp(0), 1 // already expired
	case 2, 3, 4:
		c.Deadline, c.Now = intp(deadlineMs), 0
		if c.Fault.Kind == "none" && r.Chance(2, 3) {
			c.Fault = Fault{Kind: "sleepAt", K: r.Intn(outRows + 1), D: sleepMs}
		}
	}
}

func genCore(r *hk.Rng) *Case {
	c := &Case{Engine: "report", Op: "run", Mode: "core", Caller: "embedded"}
	rows := genRows(r, 8, 0)
	src := map[string]interface{}{"op": "mock", "rows": rows, "failAt": nil, "sleepAt": nil}
	p := src
	if r.Chance(1, 4) {
		p = map[string]interface{}{"op": "filter", "mod": r.Range(2, 3), "rem": r.Intn(2), "errKey": nil, "p": p}
		if r.Chance(1, 6) && len(rows) > 0 {
			p["errKey"] = hk.Pick(r, rows).K
		}
	}
	if r.Chance(2, 5) {
		p = map[string]interface{}{"op": "group", "div": r.Range(1, 4), "crosstab": r.Chance(1, 4), "p": p}
	}
	p = map[string]interface{}{"op": "flatten", "p": p}
	if r.Chance(1, 5) {
		p = map[string]interface{}{"op": "filter", "mod": r.Range(2, 3), "rem": r.Intn(2), "errKey": nil, "p": p}
	}
	if r.Chance(1, 8) && !hasOp(p, "group") {
		p = map[string]interface{}{"op": "flatten", "p": map[string]interface{}{"op": "unflatten", "p": p}}
	}
	if r.Chance(2, 5) {
		p = map[string]interface{}{"op": "sort", "desc": r.Bool(), "p": p}
	}
	if r.Chance(1, 5) {
		p = map[string]interface{}{"op": "offset", "n": r.Range(1, 4), "p": p}
	}
	if r.Chance(2, 5) {
		p = map[string]interface{}{"op": "limit", "n": r.Range(1, 5), "p": p}
	}
	c.Plan = p
	fillExpect(c)
	genDeadlineAndFault(r, c, len(c.Expect))
	// faults of the source
	switch r.Intn(8) {
	case 0:
		src["failAt"] = r.Intn(len(rows) + 1)
	case 1:
		if c.Deadline != nil && *c.Deadline >= c.Now && c.Fault.Kind != "sleepAt" {
			src["sleepAt"] = []int{r.Intn(len(rows) + 1), sleepMs}
		}
	}
	return normalise(c)
}

// ---------------------------------------------------------------- plan mode: planner.Plan over mock tables

// planSQL renders the query of a plan-mode case: X.sql.
func runPlan(c *Case) (*Outcome, error) {
	// plan shape: [limit] (flatten (subq sub=(flatten (group div=1 (mock s))) neg (mock t)))
	p := c.Plan
	if p["op"] == "limit" {
		p = jPlan(p, "p")
	}
	sq := jPlan(jPlan(p, "p"), "p")
	if p["op"] != "flatten" || jPlan(p, "p")["op"] != "subq" {
		return nil, fmt.Errorf("plan mode: unexpected plan shape")
	}
	sq = jPlan(p, "p")
	subSrc := jPlan(jPlan(jPlan(sq, "sub"), "p"), "p")
	mainSrc := jPlan(sq, "p")
	mk := func(m map[string]interface{}, name string) *mockSource {
		b, _ := buildCore(m, 1)
		s := b.row.(*mockSource)
		s.name = name
		return s
	}
	tables := map[string]*mockSource{"t": mk(mainSrc, "t"), "s": mk(subSrc, "s")}
	sqlText, _ := c.X["sql"].(string)
	flat, err := planner.Plan(sqlText, &planner.Opts{
		GetTable: func(table string, includedFields func(core.Fields) (core.Fields, error)) (planner.Table, error) {
			t, ok := tables[table]
			if !ok {
				return nil, fmt.Errorf("no table %s", table)
			}
			if _, err := includedFields(mockFields); err != nil {
				return nil, err
			}
			return t, nil
		},
		Now: func(string) time.Time { return periodEnd(maxPeriods - 1) },
	})
	if err != nil {
		return nil, fmt.Errorf("planner.Plan(%s): %v", sqlText, err)
	}
	return iterateFlat(c, flat, modelFlat), nil
}

func genPlan(r *hk.Rng) *Case {
	c := &Case{Engine: "report", Op: "run", Mode: "plan", Caller: "embedded", X: map[string]interface{}{}}
	trows := genRows(r, 6, 0)
	// subquery table: mostly the same keys
	srows := []Row{}
	for _, tr := range trows {
		if r.Chance(2, 3) {
			srows = append(srows, Row{K: tr.K, V: []int{1}})
		}
	}
	for i := 0; i < r.Intn(3); i++ {
		srows = append(srows, Row{K: 20 + i, V: []int{1}})
	}
	for i := len(srows) - 1; i > 0; i-- {
		j := r.Intn(i + 1)
		srows[i], srows[j] = srows[j], srows[i]
	}
	neg := r.Chance(1, 2)
	ssrc := map[string]interface{}{"op": "mock", "rows": srows, "failAt": nil, "sleepAt": nil}
	tsrc := map[string]interface{}{"op": "mock", "rows": trows, "failAt": nil, "sleepAt": nil}
	sub := map[string]interface{}{"op": "flatten", "p": map[string]interface{}{"op": "group", "div": 1, "crosstab": false, "p": ssrc}}
	p := map[string]interface{}{"op": "flatten", "p": map[string]interface{}{"op": "subq", "sub": sub, "neg": neg, "p": tsrc}}
	sqlText := "SELECT * FROM t WHERE k IN (SELECT k FROM s GROUP BY k)"
	if neg {
		sqlText = "SELECT * FROM t WHERE NOT (k IN (SELECT k FROM s GROUP BY k))"
	}
	if r.Chance(1, 2) {
		n := r.Range(1, 3)
		p = map[string]interface{}{"op": "limit", "n": n, "p": p}
		sqlText += fmt.Sprintf(" LIMIT %d", n)
	}
	c.Plan = p
	c.X["sql"] = sqlText
	fillExpect(c)
	c.Fault = Fault{Kind: "none"}
	switch r.Intn(10) {
	case 0, 1, 2:
		c.Deadline, c.Now = intp(0), 1
	case 3, 4, 5, 6:
		c.Deadline, c.Now = intp(deadlineMs), 0
		if r.Chance(3, 4) && len(srows) > 0 {
			ssrc["sleepAt"] = []int{r.Intn(len(srows)), sleepMs}
		} else if len(trows) > 0 {
			tsrc["sleepAt"] = []int{r.Intn(len(trows)), sleepMs}
		}
	case 7:
		if len(srows) > 0 {
			ssrc["failAt"] = r.Intn(len(srows) + 1)
		}
	case 8:
		c.Fault = Fault{Kind: "failAt", K: r.Intn(len(c.Expect) + 1)}
	}
	return normalise(c)
}
