package report

import (
	"context"
	"encoding/json"
	"fmt"
	"net"
	"os"
	"sync"
	"time"

	"github.com/getlantern/bytemap"
	"github.com/getlantern/zenodb"
	"github.com/getlantern/zenodb/core"
	"github.com/getlantern/zenodb/planner"
	"github.com/getlantern/zenodb/rpc"
	rpcserver "github.com/getlantern/zenodb/rpc/server"
	"github.com/golang/snappy"
	"google.golang.org/grpc"

	"zvh/hk"
)

// remote mode: the partition handlers of a Passthrough leader are REAL rpc/server
// HandleRemoteQueries streams (rpcserver.PrepareServer on 127.0.0.1), each fed by a scripted
// follower end: a raw gRPC client stream "/zenodb/remoteQuery" (rpc.Codec, snappy framing) that
// registers for a partition and then follows its script:
//
//	stale        closes its send side right after registering (a follower that gave up waiting
//	             for a query): the leader finds a dead handler in the queue
//	eofFirst     waits for the query, then closes its send side before sending anything
//	ok           field list, all rows, end-of-results
//	eofAfter k   field list, k rows, then closes its send side (EOF without end-of-results)
//	resetAfter k field list, k rows, then drops the connection
//	errorAfter k field list, k rows, then ONE final message with both Error set and EndOfResults =
//	             true — exactly what the real follower (rpc/rpc_client.go ProcessRemoteQuery) sends
//	             when its query fails after the field list: `&RemoteQueryResult{Stats: stats,
//	             EndOfResults: true, Error: queryErr.Error()}` with stats = nil (a failed local
//	             query returns no statistics)
//	errorEarly k the error text in a message of its own kind: on the message that carries row k
//	             (k < rows), the remaining rows and a CLEAN end-of-results message follow
//	silentAfter k field list, k rows, then nothing (beyond ClusterQueryTimeout)
//
// Several handlers are queued per partition, in a known order.  The leader is fresh for every
// case (handlers left in its queue must not leak into the next one).

const remoteParts = 2

type remoteAttempt struct {
	Kind string `json:"kind"`
	K    int    `json:"k"`
}

type remoteScenario struct {
	Rows     [][]Row           `json:"rows"`     // per partition, what its follower holds (flat rows)
	Attempts [][]remoteAttempt `json:"attempts"` // per partition, the queue of handlers
}

// ---------------------------------------------------------------- snappy framing as rpc.Dial does it

type rmSnappyConn struct {
	net.Conn
	r  *snappy.Reader
	w  *snappy.Writer
	mx sync.Mutex
}

func (sc *rmSnappyConn) Read(p []byte) (int, error) { return sc.r.Read(p) }
func (sc *rmSnappyConn) Write(p []byte) (int, error) {
	sc.mx.Lock()
	defer sc.mx.Unlock()
	return sc.w.Write(p)
}

func rmDial(addr string) (*grpc.ClientConn, error) {
	return grpc.Dial(addr, grpc.WithInsecure(), grpc.WithCodec(rpc.Codec),
		grpc.WithDialer(func(a string, timeout time.Duration) (net.Conn, error) {
			c, err := net.DialTimeout("tcp", a, timeout)
			if err != nil {
				return nil, err
			}
			return &rmSnappyConn{Conn: c, r: snappy.NewReader(c), w: snappy.NewWriter(c)}, nil
		}))
}

// regDB is the leader behind rpcserver.DB; it tells when a handler has been queued.
type regDB struct {
	*zenodb.DB
	registered chan int
}

func (d *regDB) RegisterQueryHandler(partition int, query planner.QueryClusterFN) {
	d.DB.RegisterQueryHandler(partition, query)
	d.registered <- partition
}

func remoteRealRow(r Row) *core.FlatRow {
	v := 0
	if len(r.V) > 0 {
		v = r.V[0]
	}
	return &core.FlatRow{TS: periodEnd(r.T).UnixNano(), Key: bytemap.New(map[string]interface{}{"k": r.K, "g": r.K / 2}),
		Values: []float64{1, float64(v)}}
}

// follower runs one scripted follower end; it returns once the handler is queued at the leader.
func remoteFollower(addr string, p int, at remoteAttempt, rows []Row, db *regDB, wg *sync.WaitGroup) error {
	cc, err := rmDial(addr)
	if err != nil {
		return err
	}
	ctx, cancel := context.WithCancel(context.Background())
	stream, err := grpc.NewClientStream(ctx, &rpc.ServiceDesc.Streams[2], cc, "/zenodb/remoteQuery")
	if err != nil {
		cancel()
		cc.Close()
		return err
	}
	if err := stream.SendMsg(&rpc.RegisterQueryHandler{Partition: p}); err != nil {
		cancel()
		cc.Close()
		return err
	}
	select {
	case <-db.registered:
	case <-time.After(10 * time.Second):
		cancel()
		cc.Close()
		return fmt.Errorf("handler for partition %d was not registered", p)
	}
	if at.Kind == "stale" {
		// the follower gave up before any query came
		stream.CloseSend()
		time.Sleep(20 * time.Millisecond)
	}
	wg.Add(1)
	go func() {
		defer wg.Done()
		defer cc.Close()
		defer cancel()
		if at.Kind == "stale" {
			// keep the connection until the case is over
			<-ctx.Done()
			return
		}
		q := &rpc.Query{}
		if err := stream.RecvMsg(q); err != nil || q.SQLString == "" {
			return
		}
		if at.Kind == "eofFirst" {
			stream.CloseSend()
			<-ctx.Done()
			return
		}
		if stream.SendMsg(&rpc.RemoteQueryResult{Fields: mockFields}) != nil {
			return
		}
		n := len(rows)
		if at.Kind != "ok" && at.Kind != "errorEarly" && at.K < n {
			n = at.K
		}
		for i := 0; i < n; i++ {
			m := &rpc.RemoteQueryResult{Row: remoteRealRow(rows[i])}
			if at.Kind == "errorEarly" && i == at.K {
				m.Error = errHandler.Error()
			}
			if stream.SendMsg(m) != nil {
				return
			}
		}
		switch at.Kind {
		case "ok", "errorEarly":
			stream.SendMsg(&rpc.RemoteQueryResult{EndOfResults: true})
			// wait for the leader to end the stream
			stream.RecvMsg(&rpc.Query{})
		case "eofAfter":
			stream.CloseSend()
			stream.RecvMsg(&rpc.Query{})
		case "errorAfter":
			stream.SendMsg(&rpc.RemoteQueryResult{Stats: nil, EndOfResults: true, Error: errHandler.Error()})
			stream.RecvMsg(&rpc.Query{})
		case "resetAfter":
			time.Sleep(30 * time.Millisecond) // let the rows reach the leader first
			cc.Close()
		case "silentAfter":
			select {
			case <-ctx.Done():
			case <-time.After(2*clusterTimeout + 200*time.Millisecond):
			}
		}
	}()
	// cancel is called by the goroutine; the caller ends a case by closing the listener / leader
	remoteCancels.mu.Lock()
	remoteCancels.fns = append(remoteCancels.fns, cancel)
	remoteCancels.mu.Unlock()
	return nil
}

var remoteCancels struct {
	mu  sync.Mutex
	fns []context.CancelFunc
}

func remoteScenarioOf(c *Case) (*remoteScenario, error) {
	b, _ := json.Marshal(c.X["remote"])
	var sc remoteScenario
	if err := json.Unmarshal(b, &sc); err != nil || len(sc.Rows) == 0 {
		return nil, fmt.Errorf("case has no remote scenario")
	}
	return &sc, nil
}

func (rn *runner) runRemote(c *Case) (*Outcome, error) {
	sc, err := remoteScenarioOf(c)
	if err != nil {
		return nil, err
	}
	dir, err := os.MkdirTemp("", "zvh-remote-*")
	if err != nil {
		return nil, err
	}
	defer os.RemoveAll(dir)
	leader, err := zenodb.NewDB(&zenodb.DBOpts{Dir: dir, Passthrough: true, NumPartitions: len(sc.Rows), ClusterQueryConcurrency: 16,
		ClusterQueryTimeout: clusterTimeout, IterationCoalesceInterval: time.Millisecond,
		Panic: func(err interface{}) {}})
	if err != nil {
		return nil, err
	}
	defer func() {
		done := make(chan struct{})
		go func() { leader.Close(); close(done) }()
		select {
		case <-done:
		case <-time.After(5 * time.Second):
		}
	}()
	if err := leader.CreateTable(&zenodb.TableOpts{Name: "t", RetentionPeriod: time.Hour, SQL: tableSQL(false), PartitionBy: []string{"k"},
		MinFlushLatency: 10000 * time.Hour, MaxFlushLatency: 20000 * time.Hour}); err != nil {
		return nil, err
	}
	l, err := net.Listen("tcp", "127.0.0.1:0")
	if err != nil {
		return nil, err
	}
	rdb := &regDB{DB: leader, registered: make(chan int, 64)}
	serve, stop := rpcserver.PrepareServer(rdb, l, &rpcserver.Opts{ID: 13})
	go serve()
	var wg sync.WaitGroup
	defer func() {
		remoteCancels.mu.Lock()
		for _, f := range remoteCancels.fns {
			f()
		}
		remoteCancels.fns = nil
		remoteCancels.mu.Unlock()
		stop()
		l.Close()
		waited := make(chan struct{})
		go func() { wg.Wait(); close(waited) }()
		select {
		case <-waited:
		case <-time.After(3 * time.Second):
		}
	}()
	hasSilent := false
	for p, ats := range sc.Attempts {
		for _, at := range ats {
			if err := remoteFollower(l.Addr().String(), p, at, sc.Rows[p], rdb, &wg); err != nil {
				return nil, err
			}
			hasSilent = hasSilent || at.Kind == "silentAfter"
		}
	}
	src, err := leader.Query("SELECT * FROM t", false, nil, false)
	if err != nil {
		return nil, fmt.Errorf("leader.Query: %v", err)
	}
	o := iterateFlat(c, src, func(row *core.FlatRow) Row {
		r := modelFlat(row)
		r.P = r.K / 10
		return r
	})
	obs := clusterObs{Arrival: []int{}}
	for _, r := range o.Rows {
		obs.Arrival = append(obs.Arrival, r.P)
	}
	b, _ := json.Marshal(obs)
	o.Detail = string(b)
	_ = hasSilent
	return o, nil
}

// modelAttempt: what a scripted follower end is for queryCluster.
func modelAttempt(at remoteAttempt) map[string]interface{} {
	switch at.Kind {
	case "stale", "eofFirst":
		return map[string]interface{}{"kind": "stale"}
	case "ok":
		return map[string]interface{}{"kind": "ok", "k": 0}
	case "eofAfter", "resetAfter":
		return map[string]interface{}{"kind": "eofAfter", "k": at.K}
	case "errorAfter":
		// the end-of-results message arrives, carrying the error
		return map[string]interface{}{"kind": "endErrorAfter", "k": at.K}
	case "errorEarly":
		// every row arrives, the handler returns the error
		return map[string]interface{}{"kind": "failAfter", "k": 1 << 20}
	case "silentAfter":
		return map[string]interface{}{"kind": "silentAfter", "k": at.K}
	}
	return map[string]interface{}{"kind": "noHandler", "k": 0}
}

func genRemote(r *hk.Rng) *Case {
	sc := &remoteScenario{}
	parts := []interface{}{}
	for p := 0; p < remoteParts; p++ {
		n := r.Range(1, 4)
		rows := []Row{}
		for i := 0; i < n; i++ {
			rows = append(rows, Row{K: p*10 + i, T: 0, V: []int{r.Range(1, 6)}, P: p})
		}
		sc.Rows = append(sc.Rows, rows)
		ats := []remoteAttempt{}
		// stale handlers queued in front
		for i := r.Intn(3); i > 0; i-- {
			ats = append(ats, remoteAttempt{Kind: hk.Pick(r, []string{"stale", "stale", "eofFirst"})})
		}
		switch r.Intn(10) {
		case 0:
			// nothing but stale handlers (or none at all)
		case 1, 2:
			ats = append(ats, remoteAttempt{Kind: "eofAfter", K: r.Intn(n + 1)})
		case 3:
			ats = append(ats, remoteAttempt{Kind: "resetAfter", K: r.Intn(n + 1)})
		case 4:
			// the follower's query fails after k rows: error ON the end-of-results message
			ats = append(ats, remoteAttempt{Kind: "errorAfter", K: r.Intn(n + 1)})
		case 6:
			if r.Bool() {
				ats = append(ats, remoteAttempt{Kind: "errorAfter", K: n}) // all rows arrived, then the failing end
			} else {
				ats = append(ats, remoteAttempt{Kind: "errorEarly", K: r.Intn(n)})
			}
		case 5:
			if p == 0 {
				ats = append(ats, remoteAttempt{Kind: "silentAfter", K: r.Intn(n + 1)})
			} else {
				ats = append(ats, remoteAttempt{Kind: "ok"})
			}
		default:
			ats = append(ats, remoteAttempt{Kind: "ok"})
		}
		// handlers queued behind the one that answers are never used
		if r.Chance(1, 4) {
			ats = append(ats, remoteAttempt{Kind: "ok"})
		}
		sc.Attempts = append(sc.Attempts, ats)
		mats := []interface{}{}
		for _, at := range ats {
			mats = append(mats, modelAttempt(at))
		}
		parts = append(parts, map[string]interface{}{"rows": rows, "attempts": mats})
	}
	c := &Case{Engine: "report", Op: "run", Mode: "remote", Caller: "embedded", Fault: Fault{Kind: "none"},
		Plan: map[string]interface{}{"op": "cluster", "parts": parts, "events": []interface{}{}, "unflat": false},
		X:    map[string]interface{}{"remote": sc}}
	fillExpect(c)
	c.X["kinds"] = kindsOf(sc)
	if r.Chance(1, 8) {
		c.Fault = Fault{Kind: "stopAt", K: r.Intn(len(c.Expect) + 1)}
	}
	return normalise(c)
}

func kindsOf(sc *remoteScenario) []string {
	var out []string
	for _, ats := range sc.Attempts {
		if len(ats) == 0 {
			out = append(out, "none")
		}
		for _, at := range ats {
			out = append(out, at.Kind)
		}
	}
	return out
}
