package report

import (
	"context"
	"encoding/json"
	"fmt"
	"os"
	"strings"
	"sync"
	"time"

	"github.com/getlantern/bytemap"
	"github.com/getlantern/zenodb"
	"github.com/getlantern/zenodb/core"
	"github.com/getlantern/zenodb/encoding"

	"zvh/dbk"
	"zvh/hk"
)

// ---------------------------------------------------------------- scenario

// dbScenario is the Go-side description of a db-mode case (Case.X["db"]).
type dbScenario struct {
	File  []Row `json:"file"`  // inserted before the flush (field a)
	Mem   []Row `json:"mem"`   // inserted after the flush (field a, or b when Alter)
	Div   int   `json:"div"`   // dimension g = k / div
	Alter bool  `json:"alter"` // field b added after the flush; the query selects b
	// how the field is added.  false: ApplySchema on the running database — the row store then
	// rewrites its file with the new field list (5961cb2), the case waits for that, so the file
	// rows carry an empty column b and ARE delivered.  true: the database is closed and reopened
	// with the new table definition — the file keeps its old field list, its rows map none of the
	// requested columns and are skipped by the scan (the path fixed by dd8e0db).
	Restart bool   `json:"restart,omitempty"`
	Big     int    `json:"big"` // > 0: that many extra one-period keys (memory-cap scenario), reopened with a tiny MaxMemoryRatio
	SQL     string `json:"sql"`
	Mem0    bool   `json:"includeMem"`
	KeyDim  string `json:"keyDim"`
	CoFault *Fault `json:"coFault,omitempty"` // a second query `SELECT * FROM t` coalesced with ours
	CoDl    *int   `json:"coDeadline,omitempty"`
	// S: the table has a third dimension s — the string "x<k>" in most rows, the NUMBER 7 in the
	// rows of the keys listed in Odd (dimensions are untyped).  A query applying SUBSTR to s
	// (WHERE / GROUP BY) panics inside goexpr on those rows, part-way through the scan.
	S   bool  `json:"s,omitempty"`
	Odd []int `json:"odd,omitempty"`
}

const dbStream = "inbound"

func tableSQLs(alter, s bool) string {
	q := tableSQL(alter)
	if s {
		q = strings.Replace(q, "GROUP BY k, g,", "GROUP BY k, g, s,", 1)
	}
	return q
}

func tableSQL(alter bool) string {
	if alter {
		return "SELECT SUM(a) AS a, SUM(b) AS b FROM inbound GROUP BY k, g, period(1s)"
	}
	return "SELECT SUM(a) AS a FROM inbound GROUP BY k, g, period(1s)"
}

// dbEnv holds the database of the current case (generation learns the scan order from it,
// execution queries it; a replayed case rebuilds it).
type dbEnv struct {
	key  string
	db   *dbk.DB
	n    int64
	coal time.Duration
	s    bool
	odd  []int
	sink struct {
		mu      sync.Mutex
		batches []int
	}
}

func (e *dbEnv) close() {
	if e.db != nil {
		zenodb.VerifSetSink(nil)
		e.db.CloseAndRemove()
		e.db = nil
	}
}

func (e *dbEnv) wait(table string) bool {
	deadline := time.Now().Add(15 * time.Second)
	for {
		if e.db.VerifProcessed(table) >= e.n && e.db.VerifAllApplied(table) {
			return true
		}
		if time.Now().After(deadline) {
			return false
		}
		time.Sleep(200 * time.Microsecond)
	}
}

func (e *dbEnv) insert(r Row, div int, field string) error {
	for i, v := range r.V {
		dims := map[string]interface{}{"k": r.K, "g": r.K / div}
		if e.s {
			dims["s"] = fmt.Sprintf("x%d", r.K)
			for _, k := range e.odd {
				if k == r.K {
					dims["s"] = 7
				}
			}
		}
		if err := e.db.DB.Insert(dbStream, periodEnd(i), dims,
			map[string]interface{}{field: float64(v)}); err != nil {
			return err
		}
		e.n++
	}
	return nil
}

// reopen opens a database on a (possibly existing) directory.  A table's WAL reader that is still
// winding down when the directory of a closed database is removed reports through DB.Panic;
// that is no concern of a case.
func reopen(dir string, coal time.Duration, maxMemoryRatio float64) (*dbk.DB, error) {
	zdb, err := zenodb.NewDB(&zenodb.DBOpts{Dir: dir, VirtualTime: true, IterationCoalesceInterval: coal, MaxMemoryRatio: maxMemoryRatio,
		Panic: func(err interface{}) {
			if strings.Contains(fmt.Sprint(err), "Unable to read from WAL") {
				return
			}
			panic(err)
		}})
	if err != nil {
		return nil, err
	}
	return &dbk.DB{DB: zdb, Dir: dir}, nil
}

func createTable(db *zenodb.DB, alter bool, s ...bool) error {
	if err := db.CreateTable(&zenodb.TableOpts{Name: "t", RetentionPeriod: time.Hour, SQL: tableSQLs(alter, len(s) > 0 && s[0]),
		MinFlushLatency: 10000 * time.Hour, MaxFlushLatency: 20000 * time.Hour}); err != nil {
		return err
	}
	for i := 0; i < 50000 && !db.VerifReady("t"); i++ {
		time.Sleep(100 * time.Microsecond)
	}
	return nil
}

// build (re)creates the database of a scenario.
func (rn *runner) buildDB(sc *dbScenario) (*dbEnv, error) {
	b, _ := json.Marshal(sc)
	key := string(b)
	if rn.dbs != nil && rn.dbs.key == key && rn.dbs.db != nil {
		return rn.dbs, nil
	}
	if rn.dbs != nil {
		rn.dbs.close()
	}
	e := &dbEnv{key: key, coal: time.Millisecond, s: sc.S, odd: sc.Odd}
	if sc.CoFault != nil {
		e.coal = 60 * time.Millisecond
	}
	rn.dbs = e
	div := sc.Div
	if div < 1 {
		div = 1
	}
	dir0, err := os.MkdirTemp("", "zvh-db-*")
	if err != nil {
		return nil, err
	}
	db, err := reopen(dir0, e.coal, 0)
	if err != nil {
		os.RemoveAll(dir0)
		return nil, err
	}
	e.db = db
	if err := createTable(db.DB, false, sc.S); err != nil {
		return nil, err
	}
	for _, r := range sc.File {
		if err := e.insert(r, div, "a"); err != nil {
			return nil, err
		}
	}
	for i := 0; i < sc.Big; i++ {
		if err := e.insert(Row{K: 100 + i, V: []int{1}}, div, "a"); err != nil {
			return nil, err
		}
	}
	if !e.wait("t") {
		return nil, fmt.Errorf("inserts not applied in time")
	}
	db.VerifForceFlush("t")
	if sc.Alter && sc.Restart {
		dir := db.Dir
		db.DB.Close()
		db.DB.VerifForget()
		db2, err := reopen(dir, e.coal, 0)
		if err != nil {
			return nil, err
		}
		db = db2
		e.db = db2
		e.n = 0
		if err := createTable(db2.DB, true); err != nil {
			return nil, err
		}
	} else if sc.Alter {
		if err := db.ApplySchema(zenodb.Schema{"t": &zenodb.TableOpts{Name: "t", RetentionPeriod: time.Hour, SQL: tableSQL(true),
			MinFlushLatency: 10000 * time.Hour, MaxFlushLatency: 20000 * time.Hour}}); err != nil {
			return nil, err
		}
		ok := false
		for i := 0; i < 20000 && !ok; i++ {
			for _, f := range db.VerifFields("t") {
				if f.Name == "b" {
					ok = true
				}
			}
			time.Sleep(100 * time.Microsecond)
		}
		if !ok {
			return nil, fmt.Errorf("altered field did not appear")
		}
		// ApplySchema returns once the row store has taken the new field list; it is then
		// rewriting its file.  A forced flush is served by the same goroutine afterwards: when it
		// returns the rewrite is done (otherwise the query races with it).
		db.VerifForceFlush("t")
	}
	field := "a"
	if sc.Alter {
		field = "b"
	}
	for _, r := range sc.Mem {
		if err := e.insert(r, div, field); err != nil {
			return nil, err
		}
	}
	if !e.wait("t") {
		return nil, fmt.Errorf("inserts not applied in time")
	}
	if sc.Big > 0 {
		// reopen with a memory cap of (practically) zero bytes: capMemorySize(false) fails
		dir := db.Dir
		db.DB.Close()
		db.DB.VerifForget()
		db2, err := reopen(dir, e.coal, 1e-15)
		if err != nil {
			return nil, err
		}
		e.db = db2
		e.n = 0
		if err := createTable(db2.DB, false); err != nil {
			return nil, err
		}
		time.Sleep(150 * time.Millisecond) // first memory measurement
	}
	zenodb.VerifSetSink(func(name string, table string, args []interface{}) {
		if name == "coalesce.batch" && len(args) == 1 {
			if n, ok := args[0].(int); ok {
				e.sink.mu.Lock()
				e.sink.batches = append(e.sink.batches, n)
				e.sink.mu.Unlock()
			}
		}
	})
	return e, nil
}

// scanOrder returns the keys of the table in scan order (file part, then memstore part).
func (e *dbEnv) scanOrder(includeMem bool) ([]int, error) {
	var keys []int
	err := e.db.VerifIterate(context.Background(), "t", nil, includeMem, func(key bytemap.ByteMap, vals []encoding.Sequence) (bool, error) {
		k, _ := intDim(key, "k")
		keys = append(keys, k)
		return true, nil
	})
	return keys, err
}

// tablePlan renders the model's table for a scenario, given the observed scan order.
func tablePlan(sc *dbScenario, order []int) (map[string]interface{}, error) {
	fileBy, memBy := map[int]Row{}, map[int]Row{}
	for _, r := range sc.File {
		fileBy[r.K] = r
	}
	for i := 0; i < sc.Big; i++ {
		fileBy[100+i] = Row{K: 100 + i, V: []int{1}}
	}
	for _, r := range sc.Mem {
		memBy[r.K] = r
	}
	file := []interface{}{}
	mem := []Row{}
	seen := map[int]bool{}
	inFile := true
	for _, k := range order {
		if seen[k] {
			return nil, fmt.Errorf("key %d scanned twice", k)
		}
		seen[k] = true
		fr, isFile := fileBy[k]
		mr, isMem := memBy[k]
		switch {
		case isFile:
			if !inFile {
				return nil, fmt.Errorf("file key %d after the memstore part", k)
			}
			row := Row{K: k, V: append([]int(nil), fr.V...)}
			incl := true
			if sc.Alter {
				// the query selects b only; the memstore columns of the same key are merged in.
				// Restart: the file holds no column b, a row without memstore counterpart maps nothing
				// and is skipped.  Live: the rewritten file has an empty column b, the row is delivered.
				row.V = []int{}
				incl = !sc.Restart
				if isMem {
					row.V = append([]int(nil), mr.V...)
					incl = true
				}
			} else if isMem && sc.Mem0 {
				for i, v := range mr.V {
					if i < len(row.V) {
						row.V[i] += v
					} else {
						row.V = append(row.V, v)
					}
				}
			}
			file = append(file, []interface{}{row, incl})
		case isMem:
			inFile = false
			mem = append(mem, Row{K: k, V: append([]int(nil), mr.V...)})
		default:
			return nil, fmt.Errorf("unknown key %d scanned", k)
		}
	}
	for k := range fileBy {
		if !seen[k] {
			return nil, fmt.Errorf("file key %d not scanned by the fault-free raw scan", k)
		}
	}
	if sc.Mem0 {
		for k := range memBy {
			if !seen[k] {
				return nil, fmt.Errorf("memstore key %d not scanned by the fault-free raw scan", k)
			}
		}
	}
	t := map[string]interface{}{"op": "table", "file": file, "mem": mem, "includeMem": sc.Mem0, "oomAt": nil, "co": nil}
	if sc.Big > 0 {
		t["oomAt"] = 1
	}
	return t, nil
}

// expectedTableRows: the complete content the query reads, from the inserted data alone
// (independent of the scan): used for the oracle of D15-like losses.
func expectedKeys(sc *dbScenario) map[int][]int {
	out := map[int][]int{}
	add := func(r Row) {
		cur := out[r.K]
		for i, v := range r.V {
			if i < len(cur) {
				cur[i] += v
			} else {
				cur = append(cur, v)
			}
		}
		out[r.K] = cur
	}
	if !sc.Alter {
		for _, r := range sc.File {
			add(r)
		}
		for i := 0; i < sc.Big; i++ {
			add(Row{K: 100 + i, V: []int{1}})
		}
	}
	if sc.Mem0 {
		for _, r := range sc.Mem {
			add(r)
		}
	}
	return out
}

func dbScenarioOf(c *Case) (*dbScenario, error) {
	raw, ok := c.X["db"]
	if !ok {
		return nil, fmt.Errorf("case has no db scenario")
	}
	b, _ := json.Marshal(raw)
	var sc dbScenario
	if err := json.Unmarshal(b, &sc); err != nil {
		return nil, err
	}
	return &sc, nil
}

func decodeDim(dim string) func(*core.FlatRow) Row {
	return func(row *core.FlatRow) Row {
		k, _ := intDim(row.Key, dim)
		t := int((row.TS-baseTime.UnixNano())/int64(res1s)) - 1
		v := 0
		if n := len(row.Values); n > 0 {
			v = int(row.Values[n-1])
		}
		return Row{K: k, T: t, V: []int{v}}
	}
}

// ---------------------------------------------------------------- execution

func (rn *runner) runDB(c *Case) (*Outcome, error) {
	sc, err := dbScenarioOf(c)
	if err != nil {
		return nil, err
	}
	e, err := rn.buildDB(sc)
	if err != nil {
		return nil, err
	}
	// the scan order the case was generated with must be the one this database has
	order, err := e.scanOrder(sc.Mem0)
	if err != nil {
		return nil, fmt.Errorf("raw scan: %v", err)
	}
	tp, err := tablePlan(sc, order)
	if err != nil {
		// the fault-free raw scan itself lost rows: that is a finding of its own
		return &Outcome{Rows: []Row{}, Detail: "fault-free raw scan: " + err.Error()}, nil
	}
	want := findTable(c.Plan)
	if want != nil {
		a, _ := json.Marshal(tp["file"])
		b, _ := json.Marshal(want["file"])
		a2, _ := json.Marshal(tp["mem"])
		b2, _ := json.Marshal(want["mem"])
		if !jsonEqual(a, b) || !jsonEqual(a2, b2) {
			return nil, fmt.Errorf("scan order of the rebuilt database differs from the case's")
		}
	}
	src, err := e.db.DB.Query(sc.SQL, false, nil, sc.Mem0)
	if err != nil {
		return nil, fmt.Errorf("db.Query(%s): %v", sc.SQL, err)
	}
	if sc.CoFault == nil {
		return iterateFlat(c, src, decodeDim(sc.KeyDim)), nil
	}
	// coalesced with a second query
	src2, err := e.db.DB.Query("SELECT * FROM t", false, nil, sc.Mem0)
	if err != nil {
		return nil, err
	}
	c2 := &Case{Fault: *sc.CoFault, Deadline: sc.CoDl, Now: 0}
	e.sink.mu.Lock()
	e.sink.batches = nil
	e.sink.mu.Unlock()
	var o1, o2 *Outcome
	var wg sync.WaitGroup
	wg.Add(2)
	go func() { defer wg.Done(); o1 = iterateFlat(c, src, decodeDim(sc.KeyDim)) }()
	go func() { defer wg.Done(); o2 = iterateFlat(c2, src2, decodeDim("k")) }()
	wg.Wait()
	e.sink.mu.Lock()
	batches := append([]int(nil), e.sink.batches...)
	e.sink.mu.Unlock()
	if len(batches) != 1 || batches[0] != 2 {
		return nil, fmt.Errorf("the two queries were not coalesced into one scan (batches %v)", batches)
	}
	// the neighbour's own outcome, for the oracle
	b2, _ := json.Marshal(o2)
	o1.Detail = string(b2)
	return o1, nil
}

func jsonEqual(a, b []byte) bool {
	var x, y interface{}
	json.Unmarshal(a, &x)
	json.Unmarshal(b, &y)
	ab, _ := json.Marshal(x)
	bb, _ := json.Marshal(y)
	return string(ab) == string(bb)
}

// probeCoalesce finds out what doProcessIterations does with a failing neighbour on this tree.
func (rn *runner) probeCoalesce() string {
	if rn.coSem != "" {
		return rn.coSem
	}
	rn.coSem = "abortAll"
	sc := &dbScenario{File: []Row{{K: 1, V: []int{1}}, {K: 2, V: []int{1}}, {K: 3, V: []int{1}}}, Mem: []Row{}, Div: 1, SQL: "SELECT * FROM t",
		Mem0: true, KeyDim: "k", CoFault: &Fault{Kind: "failAt", K: 0}}
	for attempt := 0; attempt < 3; attempt++ {
		c := &Case{Mode: "db", Fault: Fault{Kind: "none"}, X: map[string]interface{}{"db": sc}}
		c = normalise(c)
		o, err := rn.runDB(c)
		if err != nil {
			continue
		}
		if o.Err == "" && len(o.Rows) == 3 {
			rn.coSem = "perIteration"
		}
		break
	}
	rn.ctx.Res.Hit("coalesce-semantics:" + rn.coSem)
	return rn.coSem
}

// ---------------------------------------------------------------- generation

func (rn *runner) genDB(r *hk.Rng) *Case {
	sc := &dbScenario{Div: r.Range(1, 3), Mem0: r.Chance(5, 6), KeyDim: "k"}
	kind := r.Intn(20)
	rows := genRows(r, 9, 0)
	cut := r.Intn(len(rows) + 1)
	sc.File = append([]Row{}, rows[:cut]...)
	sc.Mem = append([]Row{}, rows[cut:]...)
	// some keys live in both the file and the memstore
	for _, fr := range sc.File {
		if r.Chance(1, 5) {
			sc.Mem = append(sc.Mem, Row{K: fr.K, V: []int{r.Range(1, 4)}})
		}
	}
	switch {
	case kind == 0:
		sc.Big = 1100
		sc.File, sc.Mem, sc.Mem0 = []Row{}, []Row{}, false
	case kind <= 3:
		sc.Alter = true
		sc.Restart = r.Chance(1, 2)
		sc.Mem0 = true
		if r.Chance(1, 3) {
			sc.Mem = []Row{} // only file rows: skipped (restart) or delivered empty (live)
		}
	case kind <= 8:
		f := Fault{Kind: "none"}
		switch r.Intn(4) {
		case 0:
			f = Fault{Kind: "failAt", K: r.Intn(6)}
		case 1:
			f = Fault{Kind: "stopAt", K: r.Intn(6)}
		case 2:
			f = Fault{Kind: "sleepAt", K: r.Intn(6), D: sleepMs}
			sc.CoDl = intp(deadlineMs)
		}
		sc.CoFault = &f
	}

	// panics in per-row processing: 0 none, 1 WHERE SUBSTR(s..), 2 GROUP BY SUBSTR(s..), 3 the caller's callback
	pv := 0
	if kind >= 16 {
		pv = r.Range(1, 3)
		if pv != 3 {
			sc.S = true
			sc.Odd = []int{}
			for _, rw := range rows {
				if r.Chance(1, 4) && len(sc.Odd) < 2 {
					sc.Odd = append(sc.Odd, rw.K)
				}
			}
		}
	}

	// the query
	var plan map[string]interface{}
	tbl := map[string]interface{}{"op": "table"} // filled below
	plan = tbl
	where := ""
	if pv == 1 || pv == 2 {
		// the WHERE clause / the GROUP BY expression is evaluated on every table row before
		// anything else happens to it; it keeps every row it can be evaluated on
		plan = map[string]interface{}{"op": "filter", "mod": 0, "rem": 0, "errKey": nil, "panicKeys": sc.Odd, "p": plan}
	}
	if pv == 1 {
		where = " WHERE SUBSTR(s, 0, 1) = 'x'"
	}
	sel, groupBy := "*", ""
	qk := r.Intn(3)
	if pv == 2 {
		qk = 1
	}
	if pv == 3 {
		qk = 0
	}
	if sc.Alter {
		qk = 1
	}
	if sc.Big > 0 {
		qk = 0
	}
	having := ""
	switch qk {
	case 1:
		sel, groupBy = "a", " GROUP BY k"
		plan = map[string]interface{}{"op": "group", "div": 1, "crosstab": false, "p": plan}
	case 2:
		sel, groupBy = "a", " GROUP BY g"
		sc.KeyDim = "g"
		plan = map[string]interface{}{"op": "group", "div": sc.Div, "crosstab": false, "p": plan}
	}
	if sc.Alter {
		sel = "b"
	}
	if pv == 2 {
		groupBy = " GROUP BY k, SUBSTR(s, 0, 1) AS p"
	}
	plan = map[string]interface{}{"op": "flatten", "p": plan}
	if qk != 0 && !sc.Alter && r.Chance(1, 4) {
		x := r.Range(1, 4)
		having = fmt.Sprintf(" HAVING a > %d", x)
		plan = map[string]interface{}{"op": "filter", "mod": 0, "rem": 0, "errKey": nil, "minVal": x, "p": plan}
	}
	order := ""
	if pv != 3 && r.Chance(1, 3) {
		desc := r.Bool()
		d := ""
		if desc {
			d = " DESC"
		}
		order = fmt.Sprintf(" ORDER BY %s%s, _time%s", sc.KeyDim, d, d)
		plan = map[string]interface{}{"op": "sort", "desc": desc, "p": plan}
	}
	limit := ""
	if r.Chance(1, 3) {
		n := r.Range(1, 5)
		if r.Chance(1, 3) {
			off := r.Range(1, 3)
			limit = fmt.Sprintf(" LIMIT %d, %d", off, n)
			plan = map[string]interface{}{"op": "limit", "n": n, "p": map[string]interface{}{"op": "offset", "n": off, "p": plan}}
		} else {
			limit = fmt.Sprintf(" LIMIT %d", n)
			plan = map[string]interface{}{"op": "limit", "n": n, "p": plan}
		}
	}
	sc.SQL = "SELECT " + sel + " FROM t" + where + groupBy + having + order + limit

	e, err := rn.buildDB(sc)
	if err != nil {
		rn.ctx.Res.Inconclusive++
		rn.ctx.Res.Note("db scenario could not be built: %v", err)
		return nil
	}
	ord, err := e.scanOrder(sc.Mem0)
	if err != nil {
		rn.ctx.Res.Inconclusive++
		return nil
	}
	c := &Case{Engine: "report", Op: "run", Mode: "db", Caller: "embedded", X: map[string]interface{}{"db": sc}}
	tp, terr := tablePlan(sc, ord)
	if terr != nil {
		// the raw scan lost rows without any fault: report through the oracle with a plan
		// built from the data in insertion order
		keys := []int{}
		for _, r := range sc.File {
			keys = append(keys, r.K)
		}
		for _, r := range sc.Mem {
			dup := false
			for _, k := range keys {
				dup = dup || k == r.K
			}
			if !dup {
				keys = append(keys, r.K)
			}
		}
		tp, _ = tablePlan(sc, keys)
		rn.ctx.Res.Hit("db:raw-scan-incomplete")
	}
	if tp == nil {
		rn.ctx.Res.Inconclusive++
		return nil
	}
	for k, v := range tp {
		tbl[k] = v
	}
	if sc.CoFault != nil {
		tbl["co"] = map[string]interface{}{"deadline": sc.CoDl, "first": false, "fault": coRowFault(sc, tp, *sc.CoFault)}
		c.Cfg = map[string]interface{}{"coalesce": rn.probeCoalesce()}
		// probeCoalesce rebuilt the probe's database: make sure ours is current again
		if _, err := rn.buildDB(sc); err != nil {
			rn.ctx.Res.Inconclusive++
			return nil
		}
	}
	c.Plan = plan
	fillExpectDB(c, sc)
	genDeadlineAndFault(r, c, len(c.Expect))
	if sc.Alter && r.Chance(1, 3) {
		// expired / short deadline over rows that are skipped or delivered empty
		c.Fault = Fault{Kind: "none"}
		c.Deadline, c.Now = intp(0), 1
	}
	if sc.Big > 0 {
		c.Fault, c.Deadline, c.Now = Fault{Kind: "none"}, nil, 0
	}
	if pv == 3 {
		c.Fault = Fault{Kind: "panicAt", K: r.Intn(len(c.Expect) + 2)}
		if c.Deadline != nil && *c.Deadline >= c.Now {
			c.Deadline = nil
		}
	}
	if pv != 0 {
		rn.ctx.Res.Hit(fmt.Sprintf("db:panic:%s:odd-rows=%d", []string{"", "where-substr", "group-by-substr", "consumer"}[pv], len(sc.Odd)))
	}
	rn.ctx.Res.Hit(fmt.Sprintf("db:query-kind:%d", qk))
	if sc.Alter {
		rn.ctx.Res.Hit(fmt.Sprintf("db:altered-table:restart=%v:mem-empty=%v", sc.Restart, len(sc.Mem) == 0))
	}
	if sc.CoFault != nil {
		rn.ctx.Res.Hit("db:coalesced:" + sc.CoFault.Kind)
	}
	if sc.Big > 0 {
		rn.ctx.Res.Hit("db:memory-cap")
	}
	return normalise(c)
}

// coRowFault maps a fault of the neighbour's flat-row callback to the table row it falls in.
func coRowFault(sc *dbScenario, tp map[string]interface{}, f Fault) Fault {
	if f.Kind == "none" {
		return f
	}
	// rows the neighbour (SELECT * FROM t) receives: every delivered table row, periods = len(V)
	var lens []int
	if fl, ok := tp["file"].([]interface{}); ok {
		for _, e := range fl {
			pair := e.([]interface{})
			if pair[1].(bool) {
				lens = append(lens, len(pair[0].(Row).V))
			}
		}
	}
	if sc.Mem0 {
		for _, r := range tp["mem"].([]Row) {
			lens = append(lens, len(r.V))
		}
	}
	cum := 0
	for i, n := range lens {
		if f.K < cum+n {
			return Fault{Kind: f.Kind, K: i, D: f.D}
		}
		cum += n
	}
	// beyond the last flat row: never fires
	return Fault{Kind: f.Kind, K: len(lens) + 1, D: f.D}
}

// fillExpectDB: the complete answer from the inserted data, shaped by the plan above the table.
func fillExpectDB(c *Case, sc *dbScenario) {
	// replace the table by a mock holding the data-derived rows in the table's order
	fillExpect(c)
	exp := expectedKeys(sc)
	// every key with data must be represented in the model's table; if the raw scan lost some,
	// Expect is recomputed over the data in the order the table plan lists them, followed by the lost ones
	t := findTable(c.Plan)
	have := map[int]bool{}
	rows, _ := specOut(t)
	for _, r := range rows {
		have[r.K] = true
	}
	missing := false
	for k, v := range exp {
		if !have[k] && len(v) > 0 {
			missing = true
		}
	}
	if !missing {
		return
	}
	all := append([]Row(nil), rows...)
	for k, v := range exp {
		if !have[k] && len(v) > 0 {
			all = append(all, Row{K: k, V: v})
		}
	}
	saved := map[string]interface{}{}
	for k, v := range t {
		saved[k] = v
	}
	for k := range t {
		delete(t, k)
	}
	t["op"], t["rows"] = "mock", all
	fillExpect(c)
	for k := range t {
		delete(t, k)
	}
	for k, v := range saved {
		t[k] = v
	}
	c.Ordered = false
}

var _ = os.Remove
