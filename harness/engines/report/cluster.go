package report

import (
	"context"
	"encoding/json"
	"fmt"
	"os"
	"sort"
	"strings"
	"sync"
	"sync/atomic"
	"time"

	"github.com/getlantern/bytemap"
	"github.com/getlantern/zenodb"
	"github.com/getlantern/zenodb/common"
	"github.com/getlantern/zenodb/core"

	"zvh/hk"
)

// cluster mode: a Passthrough leader and nParts standalone databases wired in-process through
// leader.RegisterQueryHandler; each handler answers like DB.queryForRemote does
// (db.Query + UnflattenOptimized), wrapped with the partition's fault.

const (
	nParts         = 3
	clusterTimeout = 300 * time.Millisecond
)

type clusterEnv struct {
	dir     string
	base    time.Time
	leader  *zenodb.DB
	fol     []*zenodb.DB
	data    [][]Row // per partition: keys with per-period values
	mu      sync.Mutex
	pending []*handlerState
	// fault-free answers of each partition per SQL text (learned once)
	answers map[string][][]Row
}

type handlerState struct {
	p    int
	used int32
}

// partition behaviour of a case
type partSpec struct {
	Kind string `json:"kind"` // ok noHandler failAfter silentAfter retryAfter
	K    int    `json:"k"`
}

type clusterScenario struct {
	SQL      string     `json:"sql"`
	Unflat   bool       `json:"unflat"`
	KeyDim   string     `json:"keyDim"`
	Parts    []partSpec `json:"parts"`
	SubParts []partSpec `json:"subParts,omitempty"` // behaviour of the handlers that answer the subquery
}

func (e *clusterEnv) close() {
	if e.leader != nil {
		done := make(chan struct{})
		go func() {
			e.leader.Close()
			for _, f := range e.fol {
				f.Close()
			}
			close(done)
		}()
		select {
		case <-done:
		case <-time.After(10 * time.Second):
		}
	}
	os.RemoveAll(e.dir)
}

func (e *clusterEnv) periodEnd(i int) time.Time { return e.base.Add(time.Duration(i+1) * time.Second) }

func (e *clusterEnv) decode(dim string, part func(k int) int) func(*core.FlatRow) Row {
	return func(row *core.FlatRow) Row {
		k, _ := intDim(row.Key, dim)
		t := int((row.TS-e.base.UnixNano())/int64(time.Second)) - 1
		v := 0
		if n := len(row.Values); n > 0 {
			v = int(row.Values[n-1])
		}
		return Row{K: k, T: t, V: []int{v}, P: part(k)}
	}
}

func gOf(k int) int { return (k % 10) / 2 }

func (rn *runner) clusterEnvGet() (*clusterEnv, error) {
	if rn.cl != nil {
		return rn.cl, nil
	}
	dir, err := os.MkdirTemp("", "zvh-cluster-*")
	if err != nil {
		return nil, err
	}
	e := &clusterEnv{dir: dir, answers: map[string][][]Row{}}
	e.base = time.Now().Truncate(time.Second).Add(-30 * time.Second)
	mk := func(name string, o *zenodb.DBOpts) (*zenodb.DB, error) {
		o.Dir = dir + "/" + name
		o.IterationCoalesceInterval = time.Millisecond
		db, err := zenodb.NewDB(o)
		if err != nil {
			return nil, err
		}
		// PartitionBy names the dimension the scenario's partitions are keyed by: since /repo d1dff43
		// a table whose GROUP BY drops a partition key (PartitionBy unset = all dimensions of the
		// point) is never pushed down whole
		if err := db.CreateTable(&zenodb.TableOpts{Name: "t", RetentionPeriod: time.Hour, SQL: tableSQL(false), PartitionBy: []string{"k"},
			MinFlushLatency: 10000 * time.Hour, MaxFlushLatency: 20000 * time.Hour}); err != nil {
			return nil, err
		}
		return db, nil
	}
	e.leader, err = mk("leader", &zenodb.DBOpts{Passthrough: true, NumPartitions: nParts, ClusterQueryConcurrency: 16, ClusterQueryTimeout: clusterTimeout})
	if err != nil {
		os.RemoveAll(dir)
		return nil, err
	}
	counts := []int{3, 2, 4}
	for p := 0; p < nParts; p++ {
		db, err := mk(fmt.Sprintf("f%d", p), &zenodb.DBOpts{})
		if err != nil {
			return nil, err
		}
		for i := 0; i < 50000 && !db.VerifReady("t"); i++ {
			time.Sleep(100 * time.Microsecond)
		}
		e.fol = append(e.fol, db)
		var rows []Row
		n := int64(0)
		for i := 0; i < counts[p]; i++ {
			r := Row{K: p*10 + i*2 + p%2, V: []int{1 + (i+p)%3}}
			if (i+p)%2 == 0 {
				r.V = append(r.V, 2+i)
			}
			rows = append(rows, r)
			for j, v := range r.V {
				if err := db.Insert(dbStream, e.periodEnd(j), map[string]interface{}{"k": r.K, "g": gOf(r.K)}, map[string]interface{}{"a": float64(v)}); err != nil {
					return nil, err
				}
				n++
			}
		}
		e.data = append(e.data, rows)
		deadline := time.Now().Add(15 * time.Second)
		for (db.VerifProcessed("t") < n || !db.VerifAllApplied("t")) && time.Now().Before(deadline) {
			time.Sleep(200 * time.Microsecond)
		}
		db.VerifForceFlush("t")
	}
	rn.cl = e
	return e, nil
}

func partOfKey(k int) int { return k / 10 }

// handler builds the query handler of partition p with the given behaviour.
func (e *clusterEnv) handler(p int, spec partSpec, capture *string) (func(ctx context.Context, sqlString string, isSubQuery bool, subQueryResults [][]interface{}, unflat bool, onFields core.OnFields, onRow core.OnRow, onFlatRow core.OnFlatRow) (interface{}, error), *handlerState) {
	hs := &handlerState{p: p}
	return func(ctx context.Context, sqlString string, isSubQuery bool, subQueryResults [][]interface{}, unflat bool, onFields core.OnFields, onRow core.OnRow, onFlatRow core.OnFlatRow) (interface{}, error) {
		atomic.StoreInt32(&hs.used, 1)
		if os.Getenv("ZVH_C13_DEBUG") != "" {
			fmt.Fprintf(os.Stderr, "handler p=%d spec=%v sub=%v unflat=%v sql=%q subq=%v\n", p, spec, isSubQuery, unflat, sqlString, subQueryResults)
		}
		if capture != nil {
			*capture = sqlString
		}
		src, err := e.fol[p].Query(sqlString, isSubQuery, subQueryResults, common.ShouldIncludeMemStore(ctx))
		if err != nil {
			return nil, err
		}
		n := 0
		// what happens when the script of this partition is exhausted
		var cut error
		trip := func() (bool, error) {
			switch spec.Kind {
			case "failAfter":
				if n == spec.K {
					cut = errHandler
					return false, errHandler
				}
			case "retryAfter":
				if n == spec.K {
					cut = common.MarkRetriable(errHandler)
					return false, cut
				}
			case "silentAfter":
				if n == spec.K {
					time.Sleep(2*clusterTimeout + 100*time.Millisecond)
					cut = errHandler
					return false, errHandler
				}
			}
			return true, nil
		}
		var md interface{}
		if unflat {
			md, err = core.UnflattenOptimized(src).Iterate(ctx, onFields, func(key bytemap.ByteMap, vals core.Vals) (bool, error) {
				if ok, terr := trip(); !ok {
					return false, terr
				}
				n++
				return onRow(key, vals)
			})
		} else {
			md, err = src.Iterate(ctx, onFields, func(row *core.FlatRow) (bool, error) {
				if ok, terr := trip(); !ok {
					return false, terr
				}
				n++
				return onFlatRow(row)
			})
		}
		if err == nil && cut == nil {
			// the script ended before the fault position: a fault "after k rows" with k >= all rows
			// fires at the end (the handler still fails / hangs / is retried)
			if ok, terr := trip(); !ok && spec.K >= n {
				return md, terr
			}
		}
		if os.Getenv("ZVH_C13_DEBUG") != "" {
			fmt.Fprintf(os.Stderr, "handler p=%d done n=%d err=%v cut=%v\n", p, n, err, cut)
		}
		if cut != nil {
			return md, cut
		}
		return md, err
	}, hs
}

// register installs the handlers of a case (first the subquery's, then the main query's).
func (e *clusterEnv) register(sc *clusterScenario, capture *string) {
	e.mu.Lock()
	defer e.mu.Unlock()
	reg := func(specs []partSpec, cap *string) {
		for p, sp := range specs {
			if sp.Kind == "noHandler" {
				continue
			}
			h, hs := e.handler(p, sp, cap)
			e.leader.RegisterQueryHandler(p, h)
			e.pending = append(e.pending, hs)
			if sp.Kind == "retryAfter" {
				h2, hs2 := e.handler(p, partSpec{Kind: "ok"}, nil)
				e.leader.RegisterQueryHandler(p, h2)
				e.pending = append(e.pending, hs2)
			}
		}
	}
	if len(sc.SubParts) > 0 {
		reg(sc.SubParts, nil)
	}
	reg(sc.Parts, capture)
}

// drain consumes handlers that a case left registered.
func (e *clusterEnv) drain() {
	for round := 0; round < 6; round++ {
		e.mu.Lock()
		left := 0
		for _, hs := range e.pending {
			if atomic.LoadInt32(&hs.used) == 0 {
				left++
			}
		}
		if left == 0 {
			e.pending = nil
			e.mu.Unlock()
			return
		}
		e.mu.Unlock()
		src, err := e.leader.Query("SELECT * FROM t", false, nil, false)
		if err != nil {
			return
		}
		ctx, cancel := context.WithTimeout(context.Background(), 5*time.Second)
		src.Iterate(ctx, core.FieldsIgnored, func(*core.FlatRow) (bool, error) { return true, nil })
		cancel()
	}
}

func clusterScenarioOf(c *Case) (*clusterScenario, error) {
	raw, ok := c.X["cluster"]
	if !ok {
		return nil, fmt.Errorf("case has no cluster scenario")
	}
	b, _ := json.Marshal(raw)
	var sc clusterScenario
	if err := json.Unmarshal(b, &sc); err != nil {
		return nil, err
	}
	return &sc, nil
}

// answersFor learns, with healthy handlers, what each partition delivers for a query (rows in
// the partition's own order; unflat rows are keyed by the group dimension).
func (e *clusterEnv) answersFor(sc *clusterScenario) ([][]Row, error) {
	key := fmt.Sprintf("%v|%s", sc.Unflat, sc.SQL)
	if a, ok := e.answers[key]; ok {
		return a, nil
	}
	// capture the SQL the leader sends to the partitions
	var remote string
	healthy := &clusterScenario{SQL: sc.SQL, Unflat: sc.Unflat, Parts: make([]partSpec, nParts)}
	for i := range healthy.Parts {
		healthy.Parts[i] = partSpec{Kind: "ok"}
	}
	hasSub := strings.Contains(sc.SQL, "IN (SELECT")
	if hasSub {
		healthy.SubParts = healthy.Parts
	}
	e.register(healthy, &remote)
	src, err := e.leader.Query(sc.SQL, false, nil, false)
	if err != nil {
		e.drain()
		return nil, err
	}
	ctx, cancel := context.WithTimeout(context.Background(), 10*time.Second)
	var subq [][]interface{}
	_, err = src.Iterate(ctx, core.FieldsIgnored, func(*core.FlatRow) (bool, error) { return true, nil })
	cancel()
	e.drain()
	if err != nil {
		return nil, fmt.Errorf("healthy cluster query failed: %v", err)
	}
	if remote == "" {
		return nil, fmt.Errorf("no partition was queried")
	}
	if hasSub {
		// the main query travels with the subquery's results: every key of every partition
		var dims []interface{}
		for _, rows := range e.data {
			for _, r := range rows {
				dims = append(dims, r.K)
			}
		}
		subq = [][]interface{}{dims}
	}
	out := make([][]Row, nParts)
	for p := 0; p < nParts; p++ {
		fsrc, err := e.fol[p].Query(remote, false, subq, false)
		if err != nil {
			return nil, err
		}
		if sc.Unflat {
			_, err = core.UnflattenOptimized(fsrc).Iterate(context.Background(), core.FieldsIgnored, func(key bytemap.ByteMap, vals core.Vals) (bool, error) {
				k, ok := intDim(key, sc.KeyDim)
				if !ok {
					k, _ = intDim(key, "k")
				}
				r := Row{K: k, P: p, V: []int{}}
				// the value field is the last one; periods are counted from the first period of the data
				if n := len(vals); n > 0 {
					seq := vals[n-1]
					last := -1
					tmp := make([]int, 8)
					for i := 0; i < 8; i++ {
						if v, found := seq.ValueAtTime(e.periodEnd(i), fieldA.Expr, time.Second); found {
							tmp[i] = int(v)
							last = i
						}
					}
					r.V = append(r.V, tmp[:last+1]...)
				}
				out[p] = append(out[p], r)
				return true, nil
			})
		} else {
			dec := e.decode(sc.KeyDim, func(int) int { return p })
			_, err = fsrc.Iterate(context.Background(), core.FieldsIgnored, func(row *core.FlatRow) (bool, error) {
				out[p] = append(out[p], dec(row))
				return true, nil
			})
		}
		if err != nil {
			return nil, err
		}
		if out[p] == nil {
			out[p] = []Row{}
		}
	}
	e.answers[key] = out
	return out, nil
}

// ---------------------------------------------------------------- execution

type clusterObs struct {
	Arrival []int `json:"arrival"` // partition of every row the caller's callback was called with
}

func (rn *runner) runCluster(c *Case) (*Outcome, error) {
	sc, err := clusterScenarioOf(c)
	if err != nil {
		return nil, err
	}
	e, err := rn.clusterEnvGet()
	if err != nil {
		return nil, err
	}
	e.drain()
	e.register(sc, nil)
	defer e.drain()
	src, err := e.leader.Query(sc.SQL, false, nil, false)
	if err != nil {
		return nil, fmt.Errorf("leader.Query(%s): %v", sc.SQL, err)
	}
	part := partOfKey
	if sc.KeyDim != "k" {
		part = func(int) int { return 0 }
	}
	dec := e.decode(sc.KeyDim, part)
	obs := clusterObs{Arrival: []int{}}
	o := iterateFlat(c, src, func(row *core.FlatRow) Row {
		r := dec(row)
		return r
	})
	for _, r := range o.Rows {
		obs.Arrival = append(obs.Arrival, r.P)
	}
	b, _ := json.Marshal(obs)
	o.Detail = string(b)
	// let a hanging handler finish before the next case
	for _, sp := range append(append([]partSpec{}, sc.Parts...), sc.SubParts...) {
		if sp.Kind == "silentAfter" {
			time.Sleep(clusterTimeout + 150*time.Millisecond)
			break
		}
	}
	return o, nil
}

// clusterEvents builds the arrival schedule for the model: the observed order of the delivered
// rows, then whatever is left of every partition, then the timer.
// earlyMask: bit p set = partition p noticed the leader's stop before the end of its script
// (it may as well have run ahead and finished — or failed — before the stop was set).
func clusterEvents(c *Case, arrival []int, earlyMask int, start int) []interface{} {
	evs := []interface{}{}
	for _, p := range arrival {
		evs = append(evs, map[string]interface{}{"e": "msg", "p": p, "early": false})
	}
	// the call that ended the caller's own participation (failAt / stopAt) is not among the
	// delivered rows: it came from some partition that still had rows; try them in order
	for round := 0; round < 12; round++ {
		for i := 0; i < nParts; i++ {
			// start: which partition's row the caller's own stop / error fell on is not observable
			p := (start + i) % nParts
			evs = append(evs, map[string]interface{}{"e": "msg", "p": p, "early": earlyMask&(1<<uint(p)) != 0})
		}
	}
	evs = append(evs, map[string]interface{}{"e": "tick", "d": 1000}, map[string]interface{}{"e": "timeout"})
	return evs
}

// modelForCluster: the case's plan with the events derived from the observation.
func (rn *runner) modelForCluster(c *Case, impl *Outcome) (*Outcome, error) {
	mask := 0
	if c.Fault.Kind == "stopAt" {
		mask = 1<<nParts - 1
	}
	return rn.modelForClusterMask(c, impl, mask, 0)
}

// clusterAlternatives: after the caller's stop every partition either notices it or has run
// ahead to the end of its script; all combinations are admissible.
func (rn *runner) clusterAlternatives(c *Case, impl *Outcome) []*Outcome {
	if c.Fault.Kind != "stopAt" {
		return nil
	}
	var out []*Outcome
	for start := 0; start < nParts; start++ {
		for mask := 0; mask < 1<<nParts; mask++ {
			if o, err := rn.modelForClusterMask(c, impl, mask, start); err == nil {
				out = append(out, o)
			}
		}
	}
	return out
}

func (rn *runner) modelForClusterMask(c *Case, impl *Outcome, earlyMask int, start int) (*Outcome, error) {
	var obs clusterObs
	json.Unmarshal([]byte(impl.Detail), &obs)
	cp := normalise(c)
	var set func(p map[string]interface{})
	set = func(p map[string]interface{}) {
		for p != nil {
			if p["op"] == "cluster" {
				unflat, _ := p["unflat"].(bool)
				arr := obs.Arrival
				if unflat || hasOp(cp.Plan, "sort") || hasOp(cp.Plan, "subq") {
					arr = nil // the arrival order is not observable (and does not matter)
				}
				p["events"] = clusterEvents(c, arr, earlyMask, start)
			}
			if p["op"] == "subq" {
				set(jPlan(p, "sub"))
			}
			p = jPlan(p, "p")
		}
	}
	set(cp.Plan)
	return callModel(rn.ctx, cp, nil)
}

// ---------------------------------------------------------------- generation

func (rn *runner) genCluster(r *hk.Rng) *Case {
	e, err := rn.clusterEnvGet()
	if err != nil {
		rn.ctx.Res.Inconclusive++
		rn.ctx.Res.Note("cluster could not be set up: %v", err)
		return nil
	}
	sc := &clusterScenario{KeyDim: "k"}
	kind := r.Intn(10)
	order, limit := "", ""
	sorted := r.Chance(1, 2)
	desc := false
	lim := 0
	switch {
	case kind < 5: // pushdown, flat rows
		sc.SQL = "SELECT * FROM t"
	case kind < 8: // non-pushdown, unflat rows grouped at the leader
		sc.SQL = "SELECT a FROM t GROUP BY g"
		sc.Unflat, sc.KeyDim = true, "g"
		sorted = true
	default: // subquery answered by the cluster first
		sc.SQL = "SELECT * FROM t WHERE k IN (SELECT k FROM t GROUP BY k)"
		sorted = true
	}
	if sorted {
		desc = r.Bool()
		d := ""
		if desc {
			d = " DESC"
		}
		order = fmt.Sprintf(" ORDER BY %s%s, _time%s", sc.KeyDim, d, d)
		if r.Chance(1, 3) && kind < 8 {
			lim = r.Range(1, 4)
			limit = fmt.Sprintf(" LIMIT %d", lim)
		}
	}
	sc.SQL += order + limit

	answers, err := e.answersFor(sc)
	if err != nil {
		rn.ctx.Res.Inconclusive++
		rn.ctx.Res.Note("cluster answers for %q: %v", sc.SQL, err)
		return nil
	}
	pick := func() []partSpec {
		ps := make([]partSpec, nParts)
		for p := range ps {
			ps[p] = partSpec{Kind: "ok"}
		}
		if r.Chance(4, 5) {
			p := r.Intn(nParts)
			switch r.Intn(9) {
			case 0, 1:
				ps[p] = partSpec{Kind: "noHandler"}
			case 2, 3, 4:
				ps[p] = partSpec{Kind: "failAfter", K: r.Intn(len(answers[p]) + 1)}
			case 5, 6:
				ps[p] = partSpec{Kind: "silentAfter", K: r.Intn(len(answers[p]) + 1)}
			case 7:
				if lim == 0 {
					ps[p] = partSpec{Kind: "retryAfter", K: r.Intn(len(answers[p]) + 1)}
				}
			}
			if r.Chance(1, 6) {
				q := (p + 1) % nParts
				ps[q] = partSpec{Kind: "noHandler"}
			}
		}
		return ps
	}
	sc.Parts = pick()
	if kind >= 8 {
		// faults hit the subquery's handlers; the main query's are healthy (or the other way round)
		if r.Chance(2, 3) {
			sc.SubParts, sc.Parts = sc.Parts, pick0()
		} else {
			sc.SubParts = pick0()
		}
		for i := range sc.SubParts {
			// handlers are taken first come first served: a partition without a handler for the
			// subquery would simply use the one meant for the main query
			if sc.SubParts[i].Kind == "noHandler" {
				sc.SubParts[i] = partSpec{Kind: "failAfter"}
			}
			if sc.SubParts[i].Kind == "failAfter" || sc.SubParts[i].Kind == "silentAfter" || sc.SubParts[i].Kind == "retryAfter" {
				sc.SubParts[i].K = 0
			}
		}
	}

	mkParts := func(specs []partSpec, rows [][]Row) []interface{} {
		out := []interface{}{}
		for p := 0; p < nParts; p++ {
			rs := rows[p]
			if rs == nil {
				rs = []Row{}
			}
			out = append(out, map[string]interface{}{"rows": rs, "outcome": map[string]interface{}{"kind": specs[p].Kind, "k": specs[p].K}})
		}
		return out
	}
	cl := map[string]interface{}{"op": "cluster", "parts": mkParts(sc.Parts, answers), "events": []interface{}{}, "unflat": sc.Unflat}
	var plan map[string]interface{} = cl
	if sc.Unflat {
		plan = map[string]interface{}{"op": "flatten", "p": map[string]interface{}{"op": "group", "div": 1, "crosstab": false, "p": plan}}
	}
	if kind >= 8 {
		// subquery rows: every partition's keys, one unflat row per key
		subRows := make([][]Row, nParts)
		for p := 0; p < nParts; p++ {
			for _, dr := range e.data[p] {
				subRows[p] = append(subRows[p], Row{K: dr.K, V: []int{1}, P: p})
			}
		}
		sub := map[string]interface{}{"op": "flatten", "p": map[string]interface{}{"op": "group", "div": 1, "crosstab": false,
			"p": map[string]interface{}{"op": "cluster", "parts": mkParts(sc.SubParts, subRows), "events": []interface{}{}, "unflat": true}}}
		plan = map[string]interface{}{"op": "subq", "sub": sub, "neg": false, "p": plan}
	}
	if sorted {
		plan = map[string]interface{}{"op": "sort", "desc": desc, "p": plan}
	}
	if lim > 0 {
		plan = map[string]interface{}{"op": "limit", "n": lim, "p": plan}
	}
	c := &Case{Engine: "report", Op: "run", Mode: "cluster", Caller: "embedded", Plan: plan, X: map[string]interface{}{"cluster": sc}}
	fillExpect(c)
	// with LIMIT pushed down, every partition answers with its own first n rows: the complete
	// answer is still the first n of all rows, which the leader's sort + limit produce from them
	if lim > 0 && !sc.Unflat {
		full := [][]Row{}
		nolim := &clusterScenario{SQL: strings.Replace(sc.SQL, limit, "", 1), Unflat: sc.Unflat, KeyDim: sc.KeyDim, Parts: sc.Parts}
		if a, err := e.answersFor(nolim); err == nil {
			full = a
			var all []Row
			for _, rs := range full {
				all = append(all, rs...)
			}
			all = specSort(desc, all)
			if len(all) > lim {
				all = all[:lim]
			}
			c.Expect = all
		}
	}
	for _, sp := range append(append([]partSpec{}, sc.Parts...), sc.SubParts...) {
		if sp.Kind == "retryAfter" {
			c.X["dupOK"] = true
		}
	}
	c.Fault = Fault{Kind: "none"}
	switch r.Intn(8) {
	case 0:
		c.Fault = Fault{Kind: "failAt", K: r.Intn(len(c.Expect) + 2)}
	case 1:
		c.Fault = Fault{Kind: "stopAt", K: r.Intn(len(c.Expect) + 2)}
	case 2:
		// a context deadline makes the outcome depend on the scheduler (the leader's timer and the
		// result channel are both ready): only the property oracle is evaluated
		c.Deadline, c.Now = intp(0), 1
		c.X["oracleOnly"] = true
	}
	rn.ctx.Res.Hit(fmt.Sprintf("cluster:kind:%d", map[bool]int{true: 1, false: 0}[sc.Unflat]+map[bool]int{true: 2, false: 0}[kind >= 8]))
	for _, sp := range sc.Parts {
		rn.ctx.Res.Hit("cluster:part:" + sp.Kind)
	}
	for _, sp := range sc.SubParts {
		rn.ctx.Res.Hit("cluster:subpart:" + sp.Kind)
	}
	return normalise(c)
}

func pick0() []partSpec {
	ps := make([]partSpec, nParts)
	for p := range ps {
		ps[p] = partSpec{Kind: "ok"}
	}
	return ps
}

var _ = sort.Ints
var _ = hk.Pick[int]
