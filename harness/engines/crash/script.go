package crash

import (
	"fmt"
	"time"

	"zvh/hk"
)

// Base timestamp of all generated points (inside every table's retention window).
var baseTS = time.Date(2020, 3, 1, 12, 0, 0, 0, time.UTC)

const stream = "inbound"

// TableDef is one table fed by the stream.
type TableDef struct {
	Name  string `json:"name"`
	SQL   string `json:"sql"`
	Where string `json:"where,omitempty"` // "" or the value the WHERE dimension must have
	Dim   string `json:"dim,omitempty"`   // the WHERE dimension: "" = d, or "g"
	ResS  int    `json:"res_s,omitempty"` // resolution in seconds (0: 1 s; t2 without it: 5 s)
}

// Point is one generated insert. L: 0 scalar value, >0 array value of that length,
// -1 a value of unsupported type (no row-store insert at all).
type Point struct {
	G  string `json:"g"`
	D  string `json:"d"`
	TS int    `json:"ts"` // seconds after baseTS
	L  int    `json:"l"`
}

// Step kinds: insert | flush (quiesce, then force-flush Table) | flushNow (force-flush without
// waiting for ingestion) | wait (quiesce) | sleep (Ms) | close (clean Close; the next child
// reopens the directory and continues) | closeNow (Close while ingestion may be in flight).
type Step struct {
	Kind  string `json:"kind"`
	Table string `json:"table,omitempty"`
	P     *Point `json:"p,omitempty"`
	Ms    int    `json:"ms,omitempty"`
}

// DBCfg is the part of zenodb.DBOpts that is legal for a standalone database and can
// influence recovery; every field is varied by the generator and is constant over the
// restarts of one case.  Deliberately NOT varied: WALSyncInterval (C02 is stated for sync on
// every write: with an interval the acknowledged tail sits in a user-space buffer), the
// cluster options (Passthrough, NumPartitions, Partition, Follow: C10/C12), options that only
// touch queries (IterationCoalesceInterval, IterationConcurrency, ClusterQuery*).
type DBCfg struct {
	ID             int     `json:"id,omitempty"`               // DBOpts.ID (the server's -id flag)
	MaxWALSize     int     `json:"max_wal_size,omitempty"`     // 0: default (10 MB); always far above a script's WAL
	MaxMemoryRatio float64 `json:"max_memory_ratio,omitempty"` // > 0: sorted flushes (emsort) and memory capping
	RealClock      bool    `json:"real_clock,omitempty"`       // VirtualTime off
	Backlog        int     `json:"wal_backlog,omitempty"`      // MaxWALMemoryBacklog (ignored by wal when syncing every write)
}

type Script struct {
	DB           DBCfg      `json:"db"`
	Tables       []TableDef `json:"tables"`
	Steps        []Step     `json:"steps"`
	Base         int        `json:"base"`           // digit base of the value encoding
	TimedFlushMs int        `json:"timed_flush_ms"` // 0: flushes only where the script forces them
}

// CrashSpec says how one round (child process) ends.
type CrashSpec struct {
	Kind    string `json:"kind"` // hook | kill | none
	Event   string `json:"event,omitempty"`
	N       int    `json:"n,omitempty"`
	AfterMs int    `json:"after_ms,omitempty"`
}

// PauseSpec makes the child sleep inside the N-th occurrence of a hook event (in-process
// event sink; timing only).
type PauseSpec struct {
	Event string `json:"event"`
	N     int    `json:"n"`
	Ms    int    `json:"ms"`
}

// Case is one replayable crash-recovery experiment.
type Case struct {
	Name    string      `json:"name,omitempty"`
	Script  Script      `json:"script"`
	Crashes []CrashSpec `json:"crashes"`
	Pause   *PauseSpec  `json:"pause,omitempty"` // applies to round 0
}

// hookEvents are the instrumented instants at which a child can be told to die.
var hookEvents = []string{
	"wal.ack", "insert.processed", "ms.apply", "insert.sub",
	"flush.begin", "flush.tmpwritten", "flush.synced", "flush.renamed", "flush.swapped",
	"offset.tmpwritten", "offset.renamed", "oldfile.remove", "wal.start",
}

func tableDefs(two bool) []TableDef {
	ts := []TableDef{{Name: "t1", SQL: "SELECT SUM(v) AS v FROM inbound GROUP BY g, period(1s)"}}
	if two {
		ts = append(ts, TableDef{Name: "t2", SQL: "SELECT SUM(v) AS v FROM inbound WHERE d = 'p' GROUP BY g, d, period(5s)", Where: "p"})
	}
	return ts
}

// apps is the number of rowStore.insert calls doInsert makes for the point: fanout is the
// measured number of inserts per additional array element (1, or 2 while the bytemap.Build
// callback queues them twice).
func (p *Point) apps(fanout int) int {
	switch {
	case p.L < 0:
		return 0
	case p.L == 0:
		return 1
	default:
		return 1 + fanout*(p.L-1)
	}
}

func (p *Point) skippedBy(t TableDef) bool {
	if t.Where == "" {
		return false
	}
	if t.Dim == "g" {
		return p.G != t.Where
	}
	return p.D != t.Where
}

// t3 filters on the other dimension, so the tables of one stream skip different entries.
var tableT3 = TableDef{Name: "t3", SQL: "SELECT SUM(v) AS v FROM inbound WHERE g = 'y' GROUP BY d, period(2s)", Where: "y", Dim: "g", ResS: 2}

// t4 groups by the attempt id: one row per insert, every row of the same encoded size.
var tableT4 = TableDef{Name: "t4", SQL: "SELECT SUM(v) AS v FROM inbound GROUP BY a, period(1s)"}

func genPoint(r *hk.Rng, maxL int) *Point {
	p := &Point{G: hk.Pick(r, []string{"x", "x", "y"}), D: hk.Pick(r, []string{"p", "p", "p", "q", "q"}), TS: r.Intn(6)}
	switch c := r.Intn(20); {
	case c < 12:
		p.L = 0
	case c < 17:
		p.L = 2
	case c < 18:
		p.L = maxL
	default:
		p.L = -1
	}
	if p.L > maxL {
		p.L = maxL
	}
	return p
}

// baseFor picks the digit base: the largest multiplicity to tell apart is 2*kmax (a double count).
func baseFor(sc *Script, fanout int) int {
	kmax := 1
	for _, s := range sc.Steps {
		if s.Kind == "insert" && s.P.apps(fanout) > kmax {
			kmax = s.P.apps(fanout)
		}
	}
	b := 4
	for b < 2*kmax+2 {
		b *= 2
	}
	return b
}

// capacity is the number of attempts whose digits fit a float64 exactly.
func capacity(base int) int {
	bits := 0
	for b := base; b > 1; b /= 2 {
		bits++
	}
	return 52 / bits
}

// coverCfgs is a small covering set of configurations: the first scripts of every run (the
// whole quick tier) use one each, so every field takes a non-default value next to a restart.
var coverCfgs = []DBCfg{
	{},
	{ID: 7, MaxWALSize: 1 << 20},
	{ID: 1, RealClock: true},
	{ID: 1 << 20, MaxMemoryRatio: 0.9},
	{RealClock: true, Backlog: 16, MaxWALSize: 64 << 20},
	{ID: 7, MaxMemoryRatio: 0.9, RealClock: true},
}

// cfgFor is the configuration of script number sidx: the covering set first, random afterwards.
func cfgFor(sidx uint64, r *hk.Rng) DBCfg {
	if sidx < uint64(len(coverCfgs)) {
		return coverCfgs[sidx]
	}
	return genDBCfg(r)
}

// genDBCfg draws the configuration of the database under test.
func genDBCfg(r *hk.Rng) DBCfg {
	return DBCfg{
		ID:             hk.Pick(r, []int{0, 0, 1, 7, 1 << 20}),
		MaxWALSize:     hk.Pick(r, []int{0, 0, 1 << 20, 64 << 20}),
		MaxMemoryRatio: hk.Pick(r, []float64{0, 0, 0, 0.9}),
		RealClock:      r.Chance(1, 4),
		Backlog:        hk.Pick(r, []int{0, 0, 16}),
	}
}

func genScript(r *hk.Rng, maxOps int, fanout int, rounds int, sorted bool) Script {
	sc := Script{Tables: tableDefs(r.Chance(2, 3))}
	sc.DB = genDBCfg(hk.Derive(r.Next(), 77))
	if r.Chance(1, 4) {
		sc.Tables = append(sc.Tables, tableT3)
	}
	if r.Chance(1, 5) {
		sc.TimedFlushMs = r.Range(2, 8)
	}
	n := r.Range(4, maxOps)
	if sorted && n > 5 {
		n = 5 // leave room (value encoding) for the restart motif below
	}
	tbl := func() string { return sc.Tables[r.Intn(len(sc.Tables))].Name }
	maxL := 2
	if r.Chance(1, 4) {
		maxL = 3
	}
	inserts := 0
	for i := 0; i < n; i++ {
		switch c := r.Intn(100); {
		case c < 55:
			sc.Steps = append(sc.Steps, Step{Kind: "insert", P: genPoint(r, maxL)})
			inserts++
		case c < 75:
			sc.Steps = append(sc.Steps, Step{Kind: "flush", Table: tbl()})
		case c < 83:
			sc.Steps = append(sc.Steps, Step{Kind: "flushNow", Table: tbl()})
		case c < 89:
			sc.Steps = append(sc.Steps, Step{Kind: "wait"})
		case c < 93:
			sc.Steps = append(sc.Steps, Step{Kind: "sleep", Ms: r.Range(20, 60)})
		case c < 97:
			sc.Steps = append(sc.Steps, Step{Kind: "close"})
		default:
			sc.Steps = append(sc.Steps, Step{Kind: "closeNow"})
		}
	}
	// at least two inserts with a flush after the first
	if inserts < 2 {
		sc.Steps = append([]Step{{Kind: "insert", P: genPoint(r, maxL)}, {Kind: "flush", Table: "t1"},
			{Kind: "insert", P: genPoint(r, maxL)}}, sc.Steps...)
		inserts += 2
	}
	motif := r.Intn(6)
	if sorted {
		motif = -1
	}
	switch motif {
	case 0:
		// skip-heavy: WHERE-filtered points followed by flushes of the filtering table (offset-file path)
		sc.Tables = tableDefs(true)
		for i := 0; i < 2; i++ {
			sc.Steps = append(sc.Steps, Step{Kind: "insert", P: &Point{G: "x", D: "q", TS: r.Intn(6)}}, Step{Kind: "flush", Table: "t2"})
			inserts++
		}
	case 1:
		// flush-heavy: enough files in one table for removeOldFiles to have work
		for i := 0; i < 4; i++ {
			sc.Steps = append(sc.Steps, Step{Kind: "insert", P: &Point{G: "x", D: "p", TS: r.Intn(6)}}, Step{Kind: "flush", Table: "t1"})
			inserts++
		}
		sc.Steps = append(sc.Steps, Step{Kind: "sleep", Ms: 80})
	}
	if sorted {
		// sorted flushes over untouched rows across restarts: t4 has one row per insert (all of
		// the same encoded size) and is the first table, so it is the one whose turn it is to sort
		// at the first forced flush / Close of every process (DBOpts.MaxMemoryRatio > 0); every
		// later round inserts only NEW keys, so the rows already in the file are passed through
		// the sorting writer untouched by the memstore
		sc.Tables = append([]TableDef{tableT4}, sc.Tables...)
		pt := func() *Point { return &Point{G: hk.Pick(r, []string{"x", "y"}), D: "p", TS: r.Intn(6)} }
		sc.Steps = append(sc.Steps,
			Step{Kind: "insert", P: pt()}, Step{Kind: "insert", P: pt()}, Step{Kind: "close"},
			Step{Kind: "insert", P: pt()}, Step{Kind: "close"},
			Step{Kind: "insert", P: pt()}, Step{Kind: "flush", Table: "t4"})
		inserts += 4
	}
	sc.Steps = append(sc.Steps, Step{Kind: "flushNow", Table: tbl()})
	// keep the value encoding exact: shrink arrays, then drop inserts, until it fits
	for {
		sc.Base = baseFor(&sc, fanout)
		if inserts+rounds+1 <= capacity(sc.Base) {
			break
		}
		shrunk := false
		for i := range sc.Steps {
			if sc.Steps[i].Kind == "insert" && sc.Steps[i].P.L > 2 {
				sc.Steps[i].P.L = 2
				shrunk = true
			}
		}
		if shrunk {
			continue
		}
		for i := len(sc.Steps) - 1; i >= 0; i-- {
			if sc.Steps[i].Kind == "insert" {
				sc.Steps = append(sc.Steps[:i], sc.Steps[i+1:]...)
				inserts--
				break
			}
		}
	}
	return sc
}

func (c *Case) String() string {
	return fmt.Sprintf("%d steps, %d tables, crashes %v", len(c.Script.Steps), len(c.Script.Tables), c.Crashes)
}
