package crash

import (
	"context"
	"encoding/json"
	"fmt"
	"os"
	"path/filepath"
	"sync"
	"time"

	"github.com/getlantern/bytemap"
	"github.com/getlantern/wal"
	"github.com/getlantern/zenodb"
	"github.com/getlantern/zenodb/encoding"
)

// ChildSpec is what one child process is asked to do.
type ChildSpec struct {
	Dir         string     `json:"dir"`
	Progress    string     `json:"progress"`
	DumpPath    string     `json:"dump"`
	Script      Script     `json:"script"`
	From        int        `json:"from"`
	AttemptBase int        `json:"attempt_base"`
	Pause       *PauseSpec `json:"pause,omitempty"`
}

// exit codes of the child
const (
	exitOK      = 0
	exitInfra   = 3   // timeouts, I/O trouble: never a verdict
	exitCrashed = 137 // the crash hook (or a Close that hung) ended the process
)

// DumpRow is one (key, period) cell of a table.
type DumpRow struct {
	Key string  `json:"key"`
	TS  int64   `json:"ts"`
	V   float64 `json:"v"`
}

type Dump struct {
	Tables map[string][]DumpRow `json:"tables"`
}

type progressLog struct {
	f *os.File
}

func (p *progressLog) line(format string, args ...interface{}) {
	fmt.Fprintf(p.f, format+"\n", args...)
	p.f.Sync()
}

func powf(base, e int) float64 {
	v := 1.0
	for i := 0; i < e; i++ {
		v *= float64(base)
	}
	return v
}

func runChild(specPath string) int {
	b, err := os.ReadFile(specPath)
	if err != nil {
		fmt.Fprintln(os.Stderr, "child: cannot read spec:", err)
		return exitInfra
	}
	var spec ChildSpec
	if err := json.Unmarshal(b, &spec); err != nil {
		fmt.Fprintln(os.Stderr, "child: bad spec:", err)
		return exitInfra
	}
	pf, err := os.OpenFile(spec.Progress, os.O_CREATE|os.O_APPEND|os.O_WRONLY, 0o644)
	if err != nil {
		fmt.Fprintln(os.Stderr, "child: cannot open progress file:", err)
		return exitInfra
	}
	prog := &progressLog{pf}

	// in-process event sink: remembers where each table starts reading the WAL, and
	// implements the optional pause
	var mu sync.Mutex
	starts := map[string]offset{}
	pauseHits := 0
	zenodb.VerifSetSink(func(name string, table string, args []interface{}) {
		if name == "wal.start" && len(args) > 0 {
			if o, ok := args[0].(wal.Offset); ok {
				mu.Lock()
				starts[table] = offset{o.FileSequence(), o.Position()}
				mu.Unlock()
			}
		}
		if spec.Pause != nil && name == spec.Pause.Event {
			mu.Lock()
			pauseHits++
			hit := pauseHits == spec.Pause.N
			mu.Unlock()
			if hit {
				time.Sleep(time.Duration(spec.Pause.Ms) * time.Millisecond)
			}
		}
	})

	cfg := spec.Script.DB
	db, err := zenodb.NewDB(&zenodb.DBOpts{Dir: spec.Dir, VirtualTime: !cfg.RealClock, WALSyncInterval: 0,
		IterationCoalesceInterval: time.Millisecond, ID: cfg.ID, MaxWALSize: cfg.MaxWALSize,
		MaxMemoryRatio: cfg.MaxMemoryRatio, MaxWALMemoryBacklog: cfg.Backlog})
	if err != nil {
		fmt.Fprintln(os.Stderr, "child: NewDB:", err)
		return exitInfra
	}
	// longer than the distance between baseTS and any wall clock this will run under (real-clock cases)
	retention := 200000 * time.Hour
	minLat, maxLat := 10000*time.Hour, 20000*time.Hour
	if spec.Script.TimedFlushMs > 0 {
		minLat, maxLat = time.Millisecond, time.Duration(spec.Script.TimedFlushMs)*time.Millisecond
	}
	for _, t := range spec.Script.Tables {
		if err := db.CreateTable(&zenodb.TableOpts{Name: t.Name, RetentionPeriod: retention, SQL: t.SQL,
			MinFlushLatency: minLat, MaxFlushLatency: maxLat}); err != nil {
			fmt.Fprintln(os.Stderr, "child: CreateTable:", err)
			return exitInfra
		}
	}
	prog.line("up")

	walDir := filepath.Join(spec.Dir, "_wal", stream)
	quiesce := func() bool {
		entries, err := listWAL(walDir)
		if err != nil {
			fmt.Fprintln(os.Stderr, "child: listWAL:", err)
			return false
		}
		deadline := time.Now().Add(20 * time.Second)
		for _, t := range spec.Script.Tables {
			mu.Lock()
			st := starts[t.Name]
			mu.Unlock()
			need := int64(0)
			for _, e := range entries {
				if (offset{e.Seq, e.Pos}).after(st) {
					need++
				}
			}
			for db.VerifProcessed(t.Name) < need {
				if time.Now().After(deadline) {
					fmt.Fprintf(os.Stderr, "child: quiesce timeout: table %s processed %d of %d\n", t.Name, db.VerifProcessed(t.Name), need)
					return false
				}
				time.Sleep(500 * time.Microsecond)
			}
		}
		return true
	}
	closeDB := func(limit time.Duration) bool {
		done := make(chan bool, 1)
		go func() { db.Close(); done <- true }()
		select {
		case <-done:
			return true
		case <-time.After(limit):
			return false
		}
	}

	attempt := spec.AttemptBase
	for i := spec.From; i < len(spec.Script.Steps); i++ {
		st := spec.Script.Steps[i]
		switch st.Kind {
		case "insert":
			a := attempt
			attempt++
			v := powf(spec.Script.Base, a)
			dims := map[string]interface{}{"a": a, "g": st.P.G, "d": st.P.D}
			vals := map[string]interface{}{}
			switch {
			case st.P.L < 0:
				vals["v"] = "oops"
			case st.P.L == 0:
				vals["v"] = v
			default:
				arr := make([]float64, st.P.L)
				for j := range arr {
					arr[j] = v
				}
				vals["v"] = arr
			}
			prog.line("try %d %d", i, a)
			if err := db.Insert(stream, baseTS.Add(time.Duration(st.P.TS)*time.Second), dims, vals); err != nil {
				fmt.Fprintln(os.Stderr, "child: Insert:", err)
				return exitInfra
			}
			prog.line("ack %d %d", i, a)
		case "flush":
			if !quiesce() {
				return exitInfra
			}
			db.VerifForceFlush(st.Table)
			prog.line("end %d", i)
		case "flushNow":
			db.VerifForceFlush(st.Table)
			prog.line("end %d", i)
		case "wait":
			if !quiesce() {
				return exitInfra
			}
			prog.line("end %d", i)
		case "sleep":
			time.Sleep(time.Duration(st.Ms) * time.Millisecond)
			prog.line("end %d", i)
		case "close":
			if !quiesce() {
				return exitInfra
			}
			prog.line("end %d", i)
			if !closeDB(10 * time.Second) {
				fmt.Fprintln(os.Stderr, "child: clean Close after quiescence did not return")
				prog.line("closehang %d", i)
				return exitInfra
			}
			prog.line("closed")
			return exitOK
		case "closeNow":
			prog.line("end %d", i)
			if !closeDB(3 * time.Second) {
				// DB.Close while a rowStore.insert is in flight can wait forever (the table's
				// insert goroutine blocks on a row store that has already stopped): treat as a kill
				prog.line("closehang %d", i)
				return exitCrashed
			}
			prog.line("closed")
			return exitOK
		}
	}

	// end of script: wait for ingestion, dump every table, close cleanly.  VerifProcessed
	// counts an entry once it is handed to the row store; the row-store goroutine may not yet
	// have applied it to the memstore, so a scan could still miss it.  A forced flush is
	// executed by that goroutine and therefore orders the scan after every received insert.
	if !quiesce() {
		return exitInfra
	}
	for _, t := range spec.Script.Tables {
		db.VerifForceFlush(t.Name)
	}
	dump := Dump{Tables: map[string][]DumpRow{}}
	for _, t := range spec.Script.Tables {
		fields := db.VerifFields(t.Name)
		vi := -1
		for j, f := range fields {
			if f.Name == "v" {
				vi = j
			}
		}
		if vi < 0 {
			fmt.Fprintln(os.Stderr, "child: table has no field v")
			return exitInfra
		}
		ex := fields[vi].Expr
		width := ex.EncodedWidth()
		res := time.Second
		if t.ResS > 0 {
			res = time.Duration(t.ResS) * time.Second
		} else if t.Name == "t2" {
			res = 5 * time.Second
		}
		rows := []DumpRow{}
		err := db.VerifIterate(context.Background(), t.Name, nil, true, func(key bytemap.ByteMap, vals []encoding.Sequence) (bool, error) {
			if vi >= len(vals) || vals[vi] == nil {
				return true, nil
			}
			seq := vals[vi]
			ks := fmt.Sprint(key.AsMap())
			for p := 0; p < seq.NumPeriods(width); p++ {
				if v, found := seq.ValueAt(p, ex); found {
					rows = append(rows, DumpRow{Key: ks, TS: seq.Until().Add(-time.Duration(p) * res).UnixNano(), V: v})
				}
			}
			return true, nil
		})
		if err != nil {
			fmt.Fprintln(os.Stderr, "child: scan:", err)
			return exitInfra
		}
		dump.Tables[t.Name] = rows
	}
	db2, _ := json.Marshal(dump)
	if err := os.WriteFile(spec.DumpPath, db2, 0o644); err != nil {
		return exitInfra
	}
	prog.line("dumped")
	if !closeDB(10 * time.Second) {
		fmt.Fprintln(os.Stderr, "child: final Close did not return")
		prog.line("closehang -1")
	}
	prog.line("done")
	return exitOK
}
