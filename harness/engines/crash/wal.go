package crash

import (
	"encoding/binary"
	"fmt"
	"hash/crc32"
	"os"
	"path/filepath"
	"sort"
	"strconv"
	"strings"

	"github.com/getlantern/bytemap"
)

// walEntry is one entry of a getlantern/wal directory, located the way wal.Reader locates
// it: the offset of an entry is (file sequence, position AFTER the entry).
type walEntry struct {
	Seq, Pos int64
	Data     []byte
}

func (e walEntry) Off() string { return fmt.Sprintf("%d:%d", e.Seq, e.Pos) }

var castagnoli = crc32.MakeTable(crc32.Castagnoli)

// listWAL parses every segment of a WAL directory ([len u32][crc u32][data], a zero
// length = sentinel = end of segment), skipping what wal.Reader skips (entries whose checksum
// does not match, a truncated tail).
func listWAL(dir string) ([]walEntry, error) {
	fis, err := os.ReadDir(dir)
	if err != nil {
		if os.IsNotExist(err) {
			return nil, nil
		}
		return nil, err
	}
	names := []string{}
	for _, fi := range fis {
		if fi.IsDir() {
			continue
		}
		if strings.HasSuffix(fi.Name(), ".snappy") {
			return nil, fmt.Errorf("compressed WAL segment %s not supported by the harness", fi.Name())
		}
		names = append(names, fi.Name())
	}
	sort.Strings(names)
	var out []walEntry
	for _, name := range names {
		seq, err := strconv.ParseInt(name, 10, 64)
		if err != nil {
			return nil, fmt.Errorf("unexpected file %s in WAL dir", name)
		}
		b, err := os.ReadFile(filepath.Join(dir, name))
		if err != nil {
			return nil, err
		}
		pos := 0
		for {
			if len(b)-pos < 8 {
				break
			}
			length := int(binary.BigEndian.Uint32(b[pos:]))
			if length == 0 {
				break // sentinel
			}
			sum := binary.BigEndian.Uint32(b[pos+4:])
			if len(b)-pos-8 < length {
				break // torn tail
			}
			data := b[pos+8 : pos+8+length]
			pos += 8 + length
			if crc32.Checksum(data, castagnoli) != sum {
				continue
			}
			out = append(out, walEntry{Seq: seq, Pos: int64(pos), Data: data})
		}
	}
	return out, nil
}

// attemptOf decodes the "a" dimension of a zenodb WAL entry (ts | dimsLen | dims | valsLen | vals).
func attemptOf(data []byte) (int, bool) {
	if len(data) < 12 {
		return 0, false
	}
	dl := int(binary.BigEndian.Uint32(data[8:]))
	if dl < 0 || 12+dl > len(data) {
		return 0, false
	}
	dims := bytemap.ByteMap(data[12 : 12+dl])
	switch v := dims.Get("a").(type) {
	case int:
		return v, true
	case int64:
		return int(v), true
	case float64:
		return int(v), true
	}
	return 0, false
}

type offset struct{ seq, pos int64 }

func parseOffset(s string) (offset, error) {
	parts := strings.SplitN(s, ":", 2)
	if len(parts) != 2 {
		return offset{}, fmt.Errorf("bad offset %q", s)
	}
	a, err1 := strconv.ParseInt(parts[0], 10, 64)
	b, err2 := strconv.ParseInt(parts[1], 10, 64)
	if err1 != nil || err2 != nil {
		return offset{}, fmt.Errorf("bad offset %q", s)
	}
	return offset{a, b}, nil
}

func (a offset) after(b offset) bool {
	if a.seq != b.seq {
		return a.seq > b.seq
	}
	return a.pos > b.pos
}
