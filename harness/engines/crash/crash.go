// Package crash is the correspondence engine for C02 (crash recovery applies every
// acknowledged insert exactly once).  The parent generates scripts (inserts on 1-2 tables of
// one stream incl. WHERE-filtered, array-valued and value-less points, forced and timed
// flushes, clean closes) and runs each in CHILD PROCESSES (re-exec of this binary, mode
// "child") on one directory: a child opens a real zenodb (WAL synced on every write), executes
// the script from the first step that is not finished, records every acknowledged insert in a
// fsync'd progress file and is killed at the n-th hit of a verif hook (ZVH_CRASH) or by an
// asynchronous SIGKILL; the next child continues on the same directory; the last one waits for
// ingestion to catch up and dumps every table.
//
// Oracle (implementation only): every insert carries base^attempt as value, so the digits of
// a table's total say how many applications of each attempt it reflects: acknowledged
// attempts exactly once, the attempt in flight at a kill at most once, nothing else.
// Tie: the hook event logs of all rounds are translated into the model's events and must be
// accepted by `Zeno.Crash.step` (zmodel engine "crash"); the model's final content must equal
// the dump.
package crash

import (
	"encoding/json"
	"fmt"
	"os"
	"path/filepath"
	"sort"
	"sync"

	"zvh/hk"
)

type Engine struct{}

// calibrate measures how many row-store inserts one additional array element costs.
func calibrate() (int, error) {
	c := &Case{Script: Script{Tables: tableDefs(false), Base: 16,
		Steps: []Step{{Kind: "insert", P: &Point{G: "x", D: "p", L: 3}}}}}
	o, cleanup := execute(c)
	defer cleanup()
	if o.Infra != "" {
		return 0, fmt.Errorf("calibration run failed: %s %s", o.Infra, o.Stderr)
	}
	total := int(tableTotal(o.Dump, "t1"))
	if total < 3 || (total-1)%2 != 0 {
		return 0, fmt.Errorf("calibration: an array of 3 equal elements summed to %d copies", total)
	}
	return (total - 1) / 2, nil
}

func loadCase(path string) (*Case, error) {
	b, err := os.ReadFile(path)
	if err != nil {
		return nil, err
	}
	var wrapped struct {
		Case *Case `json:"case"`
	}
	if json.Unmarshal(b, &wrapped) == nil && wrapped.Case != nil && len(wrapped.Case.Script.Steps) > 0 {
		return wrapped.Case, nil
	}
	var c Case
	if err := json.Unmarshal(b, &c); err != nil {
		return nil, err
	}
	if len(c.Script.Steps) == 0 {
		return nil, fmt.Errorf("%s holds no case", path)
	}
	return &c, nil
}

type job struct {
	c   *Case
	idx uint64
}

func (Engine) Run(ctx *hk.RunCtx) error {
	if ctx.Mode == "child" {
		os.Exit(runChild(ctx.Replay))
	}
	ctx.Res.Rule = "generated (script, crash points per round); distinct by canonical case; non-trivial = at least one round ended by a kill, at least 2 acknowledged inserts and at least one completed flush or offset-file write"
	fanout, err := calibrate()
	if err != nil {
		return err
	}
	ctx.Res.Hit(fmt.Sprintf("array-fanout:%d", fanout))

	var jobs []job
	// explicit replay
	if ctx.Replay != "" {
		c, err := loadCase(ctx.Replay)
		if err != nil {
			return err
		}
		runCase(ctx, c, 0, fanout)
		return nil
	}
	// corpus first
	if ctx.Corpus != "" {
		files, _ := filepath.Glob(filepath.Join(ctx.Corpus, "*.json"))
		sort.Strings(files)
		for i, f := range files {
			c, err := loadCase(f)
			if err != nil {
				ctx.Res.Note("corpus file %s unreadable: %v", f, err)
				continue
			}
			jobs = append(jobs, job{c, uint64(1_000_000 + i)})
			ctx.Res.Hit("corpus-case")
		}
	}
	thorough := ctx.Tier == "thorough"
	maxOps := 8
	if thorough {
		maxOps = 12
	}
	workers := 16
	runAll := func(js []job) []map[string]int {
		counts := make([]map[string]int, len(js))
		type item struct {
			i int
			j job
		}
		ch := make(chan item)
		var wg sync.WaitGroup
		for w := 0; w < workers; w++ {
			wg.Add(1)
			go func() {
				defer wg.Done()
				for it := range ch {
					counts[it.i] = runCase(ctx, it.j.c, it.j.idx, fanout)
				}
			}()
		}
		for i, j := range js {
			ch <- item{i, j}
		}
		close(ch)
		wg.Wait()
		return counts
	}
	// phase 1: corpus + the crash-free baseline of every script (a case of its own, and the
	// source of the per-event occurrence counts)
	nCorpus := len(jobs)
	scripts := make([]Script, ctx.N)
	for si := 0; si < ctx.N; si++ {
		sidx := uint64(ctx.From + si)
		cfg := cfgFor(sidx, hk.Derive(ctx.Seed, sidx+500000))
		scripts[si] = genScript(hk.Derive(ctx.Seed, sidx), maxOps, fanout, 3, cfg.MaxMemoryRatio > 0)
		scripts[si].DB = cfg
		jobs = append(jobs, job{&Case{Script: scripts[si]}, sidx * 10000})
	}
	counts := runAll(jobs)[nCorpus:]
	// phase 2: every hook event x occurrences (quick: the first two, thorough: all, capped)
	jobs = nil
	for si := 0; si < ctx.N; si++ {
		sidx := uint64(ctx.From + si)
		sc := scripts[si]
		k := uint64(1)
		for ei, ev := range hookEvents {
			maxOcc := counts[si][ev]
			if ev == "wal.start" {
				maxOcc = len(sc.Tables) // later starts belong to later processes
			}
			limit := 2
			if thorough {
				limit = 12
			}
			if maxOcc > limit {
				maxOcc = limit
			}
			for occ := 1; occ <= maxOcc; occ++ {
				rr := hk.Derive(ctx.Seed, sidx*10000+uint64(ei)*100+uint64(occ))
				c := &Case{Script: sc, Crashes: []CrashSpec{{Kind: "hook", Event: ev, N: occ}}}
				// further rounds with their own crash points
				extra := 0
				if thorough {
					extra = rr.Intn(3)
				} else if rr.Chance(1, 3) {
					extra = 1
				}
				for x := 0; x < extra; x++ {
					if thorough && rr.Chance(1, 4) {
						c.Crashes = append(c.Crashes, CrashSpec{Kind: "kill", AfterMs: rr.Range(5, 250)})
					} else {
						c.Crashes = append(c.Crashes, CrashSpec{Kind: "hook", Event: hk.Pick(rr, hookEvents), N: rr.Range(1, 3)})
					}
				}
				jobs = append(jobs, job{c, sidx*10000 + k})
				k++
			}
		}
		nKill := 1
		if thorough {
			nKill = 6
		}
		// asynchronous SIGKILL at random instants
		for x := 0; x < nKill; x++ {
			rr := hk.Derive(ctx.Seed, sidx*10000+9000+uint64(x))
			c := &Case{Script: sc}
			for y, ny := 0, rr.Range(1, 3); y < ny; y++ {
				c.Crashes = append(c.Crashes, CrashSpec{Kind: "kill", AfterMs: rr.Range(3, 300)})
			}
			jobs = append(jobs, job{c, sidx*10000 + k})
			k++
		}
	}
	runAll(jobs)
	return nil
}
