package crash

import (
	"bufio"
	"bytes"
	"encoding/json"
	"fmt"
	"math"
	"os"
	"os/exec"
	"path/filepath"
	"sort"
	"strings"
	"sync"
	"syscall"
	"time"

	"zvh/hk"
)

// attemptInfo is what the parent knows about one execution of an insert step.
type attemptInfo struct {
	ID    int
	Step  int
	Round int
	Acked bool
}

// roundInfo is how one child process ended.
type roundInfo struct {
	Spec CrashSpec
	Exit string // done | closed | crashed | killed
	// DB.Close() did not return (seen only when Close races with an insert in flight: the
	// table's insert goroutine blocks on a row store that has already stopped, and Close waits
	// for it); the child then exits like a kill.  A liveness matter, not part of C02.
	CloseHang bool
	LogPath   string
}

// outcome of running a case against the real code.
type outcome struct {
	Infra    string // non-empty: infrastructure trouble, no verdict
	Rounds   []roundInfo
	Attempts []attemptInfo
	Dump     *Dump
	WAL      []walEntry
	Stderr   string
}

func readLines(path string) []string {
	b, err := os.ReadFile(path)
	if err != nil {
		return nil
	}
	var out []string
	sc := bufio.NewScanner(bytes.NewReader(b))
	sc.Buffer(make([]byte, 1<<20), 1<<20)
	for sc.Scan() {
		if l := strings.TrimSpace(sc.Text()); l != "" {
			out = append(out, l)
		}
	}
	return out
}

// execute runs the case in child processes on a fresh directory.
func execute(c *Case) (*outcome, func()) {
	root, err := os.MkdirTemp("", "zvh-crash-*")
	if err != nil {
		return &outcome{Infra: "mkdtemp: " + err.Error()}, func() {}
	}
	cleanup := func() {
		if os.Getenv("ZVH_KEEP") != "" {
			fmt.Fprintln(os.Stderr, "keeping", root)
			return
		}
		os.RemoveAll(root)
	}
	dataDir := filepath.Join(root, "data")
	tmpDir := filepath.Join(root, "tmp")
	os.MkdirAll(tmpDir, 0o755)
	progress := filepath.Join(root, "progress")
	dumpPath := filepath.Join(root, "dump.json")
	out := &outcome{}
	from, attemptBase := 0, 0
	ci := 0
	for r := 0; ; r++ {
		if r > len(c.Crashes)+len(c.Script.Steps)+2 {
			out.Infra = "too many rounds"
			return out, cleanup
		}
		cs := CrashSpec{Kind: "none"}
		if ci < len(c.Crashes) {
			cs = c.Crashes[ci] // consumed only when the round really ends by a kill
		}
		spec := ChildSpec{Dir: dataDir, Progress: progress, DumpPath: dumpPath, Script: c.Script, From: from, AttemptBase: attemptBase}
		if ci == 0 {
			spec.Pause = c.Pause
		}
		specPath := filepath.Join(root, fmt.Sprintf("spec.%d.json", r))
		sb, _ := json.Marshal(spec)
		os.WriteFile(specPath, sb, 0o644)
		logPath := filepath.Join(root, fmt.Sprintf("events.%d.log", r))
		os.Remove(dumpPath)
		nBefore := len(readLines(progress))

		cmd := exec.Command(os.Args[0], "crash", "-mode", "child", "-replay", specPath, "-nomodel", "-out", os.DevNull)
		env := []string{}
		for _, kv := range os.Environ() {
			if strings.HasPrefix(kv, "ZVH_CRASH=") || strings.HasPrefix(kv, "ZVH_EVENTLOG=") || strings.HasPrefix(kv, "TMPDIR=") {
				continue
			}
			env = append(env, kv)
		}
		env = append(env, "ZVH_EVENTLOG="+logPath, "TMPDIR="+tmpDir, "ZVH_SCALE_OLDFILES=25")
		if cs.Kind == "hook" {
			env = append(env, fmt.Sprintf("ZVH_CRASH=%s:%d", cs.Event, cs.N))
		}
		cmd.Env = env
		var stderr bytes.Buffer
		cmd.Stderr = &stderr
		cmd.Stdout = nil
		if err := cmd.Start(); err != nil {
			out.Infra = "start child: " + err.Error()
			return out, cleanup
		}
		waitCh := make(chan error, 1)
		go func() { waitCh <- cmd.Wait() }()
		killed := false
		var werr error
		timeout := time.After(90 * time.Second)
		var killAt <-chan time.Time
		if cs.Kind == "kill" {
			killAt = time.After(time.Duration(cs.AfterMs) * time.Millisecond)
		}
	waitLoop:
		for {
			select {
			case werr = <-waitCh:
				break waitLoop
			case <-killAt:
				cmd.Process.Signal(syscall.SIGKILL)
				killed = true
				killAt = nil
			case <-timeout:
				cmd.Process.Signal(syscall.SIGKILL)
				<-waitCh
				out.Infra = "child timed out"
				out.Stderr = tail(stderr.String())
				return out, cleanup
			}
		}
		code := 0
		if werr != nil {
			if ee, ok := werr.(*exec.ExitError); ok {
				code = ee.ExitCode()
			} else {
				out.Infra = "wait: " + werr.Error()
				return out, cleanup
			}
		}
		lines := readLines(progress)
		newLines := lines[nBefore:]
		ri := roundInfo{Spec: cs, LogPath: logPath}
		// progress of this round
		isDone, isClosed := false, false
		for _, l := range newLines {
			var i, a int
			switch {
			case strings.HasPrefix(l, "try "):
				fmt.Sscanf(l, "try %d %d", &i, &a)
				out.Attempts = append(out.Attempts, attemptInfo{ID: a, Step: i, Round: r})
				if a+1 > attemptBase {
					attemptBase = a + 1
				}
			case strings.HasPrefix(l, "ack "):
				fmt.Sscanf(l, "ack %d %d", &i, &a)
				for k := range out.Attempts {
					if out.Attempts[k].ID == a {
						out.Attempts[k].Acked = true
					}
				}
				if i+1 > from {
					from = i + 1
				}
			case strings.HasPrefix(l, "end "):
				fmt.Sscanf(l, "end %d", &i)
				if i+1 > from {
					from = i + 1
				}
			case strings.HasPrefix(l, "closehang"):
				ri.CloseHang = true
			case l == "done":
				isDone = true
			case l == "closed":
				isClosed = true
			}
		}
		switch {
		case killed && code != 0, code == -1:
			ri.Exit = "killed"
		case code == exitCrashed:
			ri.Exit = "crashed"
		case code == exitOK && isDone:
			ri.Exit = "done"
		case code == exitOK && isClosed:
			ri.Exit = "closed"
		default:
			out.Infra = fmt.Sprintf("child exit code %d in round %d", code, r)
			out.Stderr = tail(stderr.String())
			out.Rounds = append(out.Rounds, ri)
			return out, cleanup
		}
		out.Rounds = append(out.Rounds, ri)
		if ri.Exit == "done" {
			break
		}
		if ri.Exit == "crashed" || ri.Exit == "killed" {
			ci++
		}
	}
	db, err := os.ReadFile(dumpPath)
	if err != nil {
		out.Infra = "no dump: " + err.Error()
		return out, cleanup
	}
	var d Dump
	if err := json.Unmarshal(db, &d); err != nil {
		out.Infra = "bad dump: " + err.Error()
		return out, cleanup
	}
	out.Dump = &d
	out.WAL, err = listWAL(filepath.Join(dataDir, "_wal", stream))
	if err != nil {
		out.Infra = "listWAL: " + err.Error()
	}
	return out, cleanup
}

func tail(s string) string {
	if len(s) > 1500 {
		return s[len(s)-1500:]
	}
	return s
}

// digits decodes the per-attempt multiplicities from a table's total.
func digits(total float64, base int, n int) ([]int, bool) {
	if total < 0 || total != math.Trunc(total) || total >= 1<<53 {
		return nil, false
	}
	u := uint64(total)
	out := make([]int, n)
	for i := 0; i < n; i++ {
		out[i] = int(u % uint64(base))
		u /= uint64(base)
	}
	return out, u == 0
}

func tableTotal(d *Dump, t string) float64 {
	s := 0.0
	for _, r := range d.Tables[t] {
		s += r.V
	}
	return s
}

// verdict of the implementation-only oracle for one table.
type tableVerdict struct {
	Table    string       `json:"table"`
	Got      []int        `json:"got"`  // reflected applications per attempt
	Want     []int        `json:"want"` // applications of the attempt in this table (0: skipped / no value)
	Acked    []bool       `json:"acked"`
	Problems []string     `json:"problems"` // lost / double / phantom
	Partial  map[int]bool `json:"-"`        // attempts reflected partially (0 < got < want)
}

func (c *Case) pointOf(o *outcome, a int) *Point {
	for _, at := range o.Attempts {
		if at.ID == a {
			return c.Script.Steps[at.Step].P
		}
	}
	return nil
}

// oracle: acknowledged attempts must be reflected exactly once (all their applications),
// attempts in flight at a kill at most once, nothing else at all.
func oracle(c *Case, o *outcome, fanout int) ([]tableVerdict, bool) {
	n := 0
	for _, at := range o.Attempts {
		if at.ID+1 > n {
			n = at.ID + 1
		}
	}
	ok := true
	var out []tableVerdict
	for _, t := range c.Script.Tables {
		v := tableVerdict{Table: t.Name, Want: make([]int, n), Acked: make([]bool, n), Partial: map[int]bool{}}
		tried := make([]bool, n)
		for _, at := range o.Attempts {
			p := c.Script.Steps[at.Step].P
			if !p.skippedBy(t) {
				v.Want[at.ID] = p.apps(fanout)
			}
			v.Acked[at.ID] = at.Acked
			tried[at.ID] = true
		}
		got, exact := digits(tableTotal(o.Dump, t.Name), c.Script.Base, n)
		if !exact {
			v.Problems = append(v.Problems, fmt.Sprintf("total %v of table %s is not a valid encoding", tableTotal(o.Dump, t.Name), t.Name))
			ok = false
			out = append(out, v)
			continue
		}
		v.Got = got
		for a := 0; a < n; a++ {
			switch {
			case !tried[a] && got[a] != 0:
				v.Problems = append(v.Problems, fmt.Sprintf("phantom: attempt %d never made but reflected %d times", a, got[a]))
			case got[a] == v.Want[a]:
			case got[a] > v.Want[a]:
				v.Problems = append(v.Problems, fmt.Sprintf("double: attempt %d reflected %d applications, one copy has %d", a, got[a], v.Want[a]))
			case !v.Acked[a] && got[a] == 0:
				// in flight at the kill and not reflected: allowed
			default:
				kind := "acknowledged"
				if !v.Acked[a] {
					kind = "in-flight"
				}
				v.Problems = append(v.Problems, fmt.Sprintf("lost: %s attempt %d reflected %d of %d applications", kind, a, got[a], v.Want[a]))
				if got[a] > 0 {
					v.Partial[a] = true
				}
			}
		}
		if len(v.Problems) > 0 {
			ok = false
		}
		out = append(out, v)
	}
	return out, ok
}

// logEvent is one parsed line of a ZVH_EVENTLOG file.
type logEvent struct {
	Name  string
	Table string
	Args  []string
}

func parseLog(path string) []logEvent {
	var out []logEvent
	for _, l := range readLines(path) {
		f := strings.Fields(l)
		if len(f) < 2 {
			continue
		}
		out = append(out, logEvent{Name: f[0], Table: f[1], Args: f[2:]})
	}
	return out
}

// traceFor translates the recorded event logs of all rounds into the model's events for
// one table.  Offsets become 1-based WAL indexes (labels) resp. positions (counts).
func traceFor(c *Case, o *outcome, t TableDef, fanout int) ([]map[string]interface{}, map[int][]string, error) {
	// WAL index of every real offset, attempt of every WAL entry
	idxOf := map[string]int{}
	attemptAt := make([]int, len(o.WAL)+1)
	for i, e := range o.WAL {
		idxOf[e.Off()] = i + 1
		a, ok := attemptOf(e.Data)
		if !ok {
			return nil, nil, fmt.Errorf("WAL entry %s has no attempt id", e.Off())
		}
		attemptAt[i+1] = a
	}
	walIdxOfAttempt := map[int]int{}
	for i := 1; i <= len(o.WAL); i++ {
		walIdxOfAttempt[attemptAt[i]] = i
	}
	position := func(off string) (int, error) {
		po, err := parseOffset(off)
		if err != nil {
			return 0, err
		}
		n := 0
		for _, e := range o.WAL {
			if !(offset{e.Seq, e.Pos}).after(po) {
				n++
			}
		}
		return n, nil
	}
	entryOf := func(i int) map[string]interface{} {
		p := c.pointOf(o, attemptAt[i])
		return map[string]interface{}{"e": "walAppend", "off": i, "skip": p.skippedBy(t), "k": p.apps(fanout)}
	}
	zeroApp := func(i int) bool {
		p := c.pointOf(o, attemptAt[i])
		return !p.skippedBy(t) && p.apps(fanout) == 0
	}
	var evs []map[string]interface{}
	midFlush := map[int][]string{} // WAL index -> what cut it (for the D12 matcher, independent of the model)
	appended := 0
	appendUpTo := func(i int) {
		for appended < i {
			appended++
			evs = append(evs, entryOf(appended))
		}
	}
	for r, ri := range o.Rounds {
		log := parseLog(ri.LogPath)
		// acknowledged attempts of this round, in order
		var acks []int
		for _, at := range o.Attempts {
			if at.Round == r && at.Acked {
				acks = append(acks, at.ID)
			}
		}
		sort.Ints(acks)
		ackNo := 0
		cur := 0       // index of the last entry handed to the row store since the reopen
		recvCount := 0 // rowStore.inserts seen for entry cur
		up := false
		var preStart []map[string]interface{} // events of this table logged before its wal.start
		synced, deferred := false, 0          // see oldfile.removed below (a removal still deferred at a kill is dropped:
		// the model then keeps one file more than the directory, which only relaxes later removals)
		for _, le := range log {
			switch {
			case le.Name == "wal.ack":
				if len(le.Args) > 0 && le.Args[0] == "true" {
					if ackNo >= len(acks) {
						// an acknowledgement the child did not get to record: the in-flight attempt
						continue
					}
					wi, ok := walIdxOfAttempt[acks[ackNo]]
					ackNo++
					if !ok {
						return nil, nil, fmt.Errorf("acknowledged attempt missing from the WAL")
					}
					appendUpTo(wi)
					evs = append(evs, map[string]interface{}{"e": "walAck", "off": wi})
				}
			case le.Table != t.Name:
				continue
			case le.Name == "wal.start":
				if len(le.Args) < 1 {
					return nil, nil, fmt.Errorf("wal.start without offset")
				}
				p, err := position(le.Args[0])
				if err != nil {
					return nil, nil, err
				}
				evs = append(evs, map[string]interface{}{"e": "reopen", "start": p})
				cur, recvCount, up = p, 0, true
				// removeOldFiles starts inside openRowStore, i.e. before startWALProcessing logs
				// wal.start; the model's reopen is both, so such removals follow it
				evs = append(evs, preStart...)
				preStart = nil
			case le.Name == "ms.recv":
				if len(le.Args) < 2 {
					return nil, nil, fmt.Errorf("ms.recv without arguments")
				}
				wi, ok := idxOf[le.Args[0]]
				if !ok {
					return nil, nil, fmt.Errorf("ms.recv with offset %s that is not the end of a WAL entry", le.Args[0])
				}
				appendUpTo(wi)
				if wi != cur {
					for j := cur + 1; j < wi; j++ {
						if zeroApp(j) {
							evs = append(evs, map[string]interface{}{"e": "pass"})
						}
					}
					cur, recvCount = wi, 0
				}
				recvCount++
				if le.Args[1] == "true" {
					evs = append(evs, map[string]interface{}{"e": "apply", "off": wi})
				} else {
					evs = append(evs, map[string]interface{}{"e": "skip", "off": wi})
				}
			case le.Name == "flush.begin":
				if cur > 0 && cur <= len(o.WAL) {
					p := c.pointOf(o, attemptAt[cur])
					if !p.skippedBy(t) && recvCount > 0 && recvCount < p.apps(fanout) {
						midFlush[cur] = append(midFlush[cur], fmt.Sprintf("round %d: flush.begin after %d of %d inserts", r, recvCount, p.apps(fanout)))
					}
				}
				evs = append(evs, map[string]interface{}{"e": "flushBegin"})
			case le.Name == "flush.tmpwritten":
				evs = append(evs, map[string]interface{}{"e": "tmpWritten"})
			case le.Name == "flush.synced":
				evs = append(evs, map[string]interface{}{"e": "tmpSynced"})
				synced = true
			case le.Name == "flush.renamed":
				evs = append(evs, map[string]interface{}{"e": "renamed"})
				synced = false
				for ; deferred > 0; deferred-- {
					evs = append(evs, map[string]interface{}{"e": "oldFileRemoved"})
				}
			case le.Name == "flush.swapped":
				evs = append(evs, map[string]interface{}{"e": "swapped"})
			case le.Name == "offset.tmpwritten":
				evs = append(evs, map[string]interface{}{"e": "offTmpWritten"})
			case le.Name == "offset.renamed":
				evs = append(evs, map[string]interface{}{"e": "offRenamed"})
			case le.Name == "oldfile.removed":
				// the post-event; "oldfile.remove" (before os.Remove) is only a crash point
				if len(le.Args) > 0 && le.Args[0] == "true" {
					if up && synced {
						// between flush.synced and flush.renamed the new file may already be in the
						// directory (the hook line follows the rename): order the removal after it
						deferred++
					} else if up {
						evs = append(evs, map[string]interface{}{"e": "oldFileRemoved"})
					} else {
						preStart = append(preStart, map[string]interface{}{"e": "oldFileRemoved"})
					}
				}
			}
		}
		// entries written in this round that nothing mentioned (in flight at the kill)
		for i := appended + 1; i <= len(o.WAL); i++ {
			for _, at := range o.Attempts {
				if at.ID == attemptAt[i] && at.Round == r {
					appendUpTo(i)
				}
			}
		}
		if !up {
			continue // the process died before this table was created
		}
		switch ri.Exit {
		case "crashed", "killed":
			evs = append(evs, map[string]interface{}{"e": "crashAsync"})
		case "closed":
			evs = append(evs, map[string]interface{}{"e": "crash"})
		}
	}
	return evs, midFlush, nil
}

type modelReply struct {
	Accepted    bool     `json:"accepted"`
	RejectedAt  *int     `json:"rejectedAt"`
	Content     [][2]int `json:"content"`
	Spec        [][2]int `json:"spec"`
	MidFlush    []int    `json:"midFlush"`
	Completions int      `json:"completions"`
	Branches    []string `json:"branches"`
	Rd          int      `json:"rd"`
	WalLen      int      `json:"walLen"`
}

// known reports whether known_findings.json (ZV_KNOWN) lists the finding id under "known".
func known(id string) bool {
	path := os.Getenv("ZV_KNOWN")
	if path == "" {
		return false
	}
	b, err := os.ReadFile(path)
	if err != nil {
		return false
	}
	var kf struct {
		Known []struct {
			ID string `json:"id"`
		} `json:"known"`
	}
	if json.Unmarshal(b, &kf) != nil {
		return false
	}
	for _, k := range kf.Known {
		if k.ID == id {
			return true
		}
	}
	return false
}

// resMu guards the plain counters of hk.Result (cases run in parallel).
var resMu sync.Mutex

// runCase executes one case, evaluates the oracle and the trace acceptance, and reports.
func runCase(ctx *hk.RunCtx, c *Case, idx uint64, fanout int) (counts map[string]int) {
	counts = map[string]int{}
	var o *outcome
	for try := 0; try < 2; try++ {
		var cleanup func()
		o, cleanup = execute(c)
		if o.Infra == "" {
			defer cleanup()
			break
		}
		cleanup()
	}
	if o.Infra != "" {
		resMu.Lock()
		ctx.Res.Inconclusive++
		resMu.Unlock()
		ctx.Res.Hit("inconclusive:" + strings.SplitN(o.Infra, ":", 2)[0])
		ctx.Res.Note("case %d inconclusive: %s %s", idx, o.Infra, o.Stderr)
		return
	}
	nAck, crashes := 0, 0
	for _, a := range o.Attempts {
		if a.Acked {
			nAck++
		}
	}
	for _, r := range o.Rounds {
		ctx.Res.Hit("round-exit:" + r.Exit)
		if r.CloseHang {
			ctx.Res.Hit("close-did-not-return(in-flight insert)")
		}
		if r.Exit == "crashed" || r.Exit == "killed" {
			crashes++
			if r.Spec.Kind == "hook" {
				ctx.Res.Hit("crash-at:" + r.Spec.Event)
			}
		} else if r.Spec.Kind == "hook" {
			ctx.Res.Hit("crash-not-reached")
		}
	}
	nFlush := 0
	for _, r := range o.Rounds {
		for _, le := range parseLog(r.LogPath) {
			counts[le.Name]++
			if le.Name == "flush.renamed" || le.Name == "offset.renamed" {
				nFlush++
			}
		}
	}
	ctx.Res.Count(c, crashes >= 1 && nAck >= 2 && nFlush >= 1)
	ctx.Res.Hit(fmt.Sprintf("rounds:%d", len(o.Rounds)))

	verdicts, ok := oracle(c, o, fanout)

	// trace acceptance, per table
	type tieProblem struct {
		Table  string      `json:"table"`
		Detail string      `json:"detail"`
		Model  interface{} `json:"model,omitempty"`
	}
	var tie []tieProblem
	midFlushAll := map[string]map[int][]string{}
	if ctx.Model != nil {
		for ti, t := range c.Script.Tables {
			evs, midFlush, err := traceFor(c, o, t, fanout)
			midFlushAll[t.Name] = midFlush
			if err != nil {
				tie = append(tie, tieProblem{Table: t.Name, Detail: "trace cannot be translated: " + err.Error()})
				continue
			}
			raw, err := ctx.Model.Call(map[string]interface{}{"engine": "crash", "op": "accept", "events": evs})
			if err != nil {
				tie = append(tie, tieProblem{Table: t.Name, Detail: "model call failed: " + err.Error()})
				continue
			}
			var mr modelReply
			if err := json.Unmarshal(raw, &mr); err != nil {
				tie = append(tie, tieProblem{Table: t.Name, Detail: "bad model reply"})
				continue
			}
			resMu.Lock()
			ctx.Res.TracesValidated++
			resMu.Unlock()
			for _, b := range mr.Branches {
				ctx.Res.Hit("model:" + b)
			}
			if mr.Completions > 0 {
				ctx.Res.Hit("model:unlogged-rename-assumed")
			}
			if !mr.Accepted {
				at := -1
				if mr.RejectedAt != nil {
					at = *mr.RejectedAt
				}
				ev := interface{}(nil)
				if at >= 0 && at < len(evs) {
					ev = evs[at]
				}
				name := "?"
				if m, ok := ev.(map[string]interface{}); ok {
					name = fmt.Sprint(m["e"])
				}
				tie = append(tie, tieProblem{Table: t.Name, Detail: fmt.Sprintf("model rejects the observed trace at a %s event (index %d: %v)", name, at, ev), Model: map[string]interface{}{"events": evs, "reply": mr}})
				continue
			}
			// the model's final content must be what the table returns
			got := verdicts[ti].Got
			if got == nil {
				continue
			}
			attemptAt := map[int]int{}
			for i, e := range o.WAL {
				a, _ := attemptOf(e.Data)
				attemptAt[i+1] = a
			}
			modelGot := make([]int, len(got))
			for _, oc := range mr.Content {
				modelGot[attemptAt[oc[0]]] = oc[1]
			}
			for a := range got {
				if got[a] != modelGot[a] {
					tie = append(tie, tieProblem{Table: t.Name, Detail: fmt.Sprintf("content differs: attempt %d reflected %d times by the table, %d times by the model", a, got[a], modelGot[a]),
						Model: map[string]interface{}{"events": evs, "content": modelGot}})
					break
				}
			}
		}
	} else {
		for _, t := range c.Script.Tables {
			_, midFlush, _ := traceFor(c, o, t, fanout)
			midFlushAll[t.Name] = midFlush
		}
	}

	if !ok {
		// D12 matcher: every discrepancy is the partial loss of an array-valued attempt in a
		// table whose log shows a flush starting between two of that entry's row-store inserts
		isD12 := true
		walIdxOfAttempt := map[int]int{}
		for i, e := range o.WAL {
			if a, ok := attemptOf(e.Data); ok {
				walIdxOfAttempt[a] = i + 1
			}
		}
		for _, v := range verdicts {
			for _, p := range v.Problems {
				if !strings.HasPrefix(p, "lost:") {
					isD12 = false
				}
			}
			lost := 0
			for a := range v.Want {
				if v.Got != nil && v.Got[a] != v.Want[a] && !(v.Got[a] == 0 && !v.Acked[a]) {
					lost++
					if !v.Partial[a] || len(midFlushAll[v.Table][walIdxOfAttempt[a]]) == 0 {
						isD12 = false
					}
				}
			}
			if lost != len(v.Problems) {
				isD12 = false
			}
		}
		d := hk.Disagreement{Kind: "property", PropertyFails: true, Case: c, Impl: verdicts, Index: idx,
			Detail: "a table lost or double-counted an insert after crash recovery"}
		if isD12 {
			d.Detail = "D12: array-valued point cut by a flush between its row-store inserts; the rest is lost after the crash"
			ctx.Res.Hit("D12-reproduced")
			if known("D12") {
				d.Finding = "D12"
			}
		}
		ctx.Res.Disagree(d)
	}
	for _, tp := range tie {
		ctx.Res.Disagree(hk.Disagreement{Kind: "model-vs-impl", Case: c, Impl: verdicts, Model: tp, Index: idx,
			Detail: tp.Table + ": " + strings.SplitN(tp.Detail, "(", 2)[0]})
	}
	return counts
}
