// Package heap is the correspondence engine for M-HEAP (lean/ZenoModel/Model/SeqHeap.lean):
// the exported encoding.Sequence operations are called on operands that are sub-slices of
// larger backing arrays (so aliasing, re-slicing and append-within-capacity are observable);
// after every call
//
//	(i)   every operand's FULL backing array is compared byte for byte with a copy taken
//	      before — a change in a buffer the operation must not write is a C04 property failure;
//	(ii)  the geometry of the result (which known buffer it points into, at which offset,
//	      len, cap — found by pointer comparison — or "fresh") is compared with the model;
//	(iii) every changed byte of every known buffer must lie inside a write the model predicted.
//
// Modes: "" = "ops" (single operations + the scan→rowMerger→group→flatten composition on one column)
// and "tree" (bytetree.Tree: Update, Copy, group-like Update(key, vals, nil, metadata)).
package heap

import (
	"encoding/json"
	"fmt"
	"os"
	"sort"
	"time"
	"unsafe"

	"github.com/getlantern/zenodb/encoding"
	"github.com/getlantern/zenodb/expr"

	"zvh/gen"
	"zvh/hk"
)

type Engine struct{}

var fields = []string{"a", "b", "c"}

var resolutions = []time.Duration{time.Second, 5 * time.Second, 7 * time.Second, time.Minute, time.Hour}

var base = time.Date(2020, 3, 1, 12, 0, 0, 0, time.UTC)

var trace = os.Getenv("ZVH_HEAP_TRACE") != ""

func tstr(t time.Time) string {
	if t.IsZero() {
		return "zero"
	}
	return fmt.Sprint(t.UnixNano())
}

// ---------------------------------------------------------------- known buffers

// kbuf is a backing array the harness knows about, under the id the model uses for it.
type kbuf struct {
	id        int
	arr       []byte // the whole backing array (up to capacity)
	snap      []byte
	protected bool // stored data / an operand the operation must not write
	capExact  bool // cap of views into it is meaningful (false for buffers grown by append)
	name      string
}

type reg struct {
	bufs []*kbuf
	next int // smallest id not yet used (= the model's n)
}

func (g *reg) add(id int, arr []byte, protected, capExact bool, name string) *kbuf {
	b := &kbuf{id: id, arr: arr, protected: protected, capExact: capExact, name: name}
	b.snap = append([]byte(nil), arr...)
	g.bufs = append(g.bufs, b)
	if id >= g.next {
		g.next = id + 1
	}
	return b
}

func (g *reg) addNext(arr []byte, protected bool, name string) *kbuf {
	return g.add(g.next, arr, protected, true, name)
}

func (g *reg) byID(id int) *kbuf {
	for _, b := range g.bufs {
		if b.id == id {
			return b
		}
	}
	return nil
}

func (g *reg) snapAll() {
	for _, b := range g.bufs {
		b.snap = append(b.snap[:0], b.arr...)
	}
}

func addr(s []byte) uintptr { return uintptr(unsafe.Pointer(unsafe.SliceData(s))) }

// locate finds the known buffer a slice points into (nil = none of them).
func (g *reg) locate(s []byte) (*kbuf, int) {
	if cap(s) == 0 {
		return nil, 0
	}
	p := addr(s)
	for _, b := range g.bufs {
		if len(b.arr) == 0 {
			continue
		}
		lo := addr(b.arr)
		if p >= lo && p < lo+uintptr(len(b.arr)) {
			return b, int(p - lo)
		}
	}
	return nil, 0
}

// view renders a slice as the model's SV JSON (the slice must lie in a known buffer).
func (g *reg) view(s encoding.Sequence) interface{} {
	if s == nil {
		return nil
	}
	b, off := g.locate(s)
	if b == nil {
		panic("heap: operand outside every known buffer")
	}
	hi := "zero"
	if len(s) >= 8 {
		hi = fmt.Sprint(s.UntilInt())
	}
	return map[string]interface{}{"buf": b.id, "off": off, "len": len(s), "cap": cap(s), "hi": hi}
}

type mview struct {
	Buf int    `json:"buf"`
	Off int    `json:"off"`
	Len int    `json:"len"`
	Cap int    `json:"cap"`
	Hi  string `json:"hi"`
}

type meff struct {
	Out    *mview   `json:"out"`
	Allocs []int    `json:"allocs"`
	Writes [][3]int `json:"writes"`
}

func describe(g *reg, s encoding.Sequence) interface{} {
	if s == nil {
		return "nil"
	}
	b, off := g.locate(s)
	where := "fresh"
	if b != nil {
		where = fmt.Sprintf("buf %d (%s) off %d", b.id, b.name, off)
	}
	hi := ""
	if len(s) >= 8 {
		hi = fmt.Sprint(s.UntilInt())
	}
	return map[string]interface{}{"where": where, "len": len(s), "cap": cap(s), "hi": hi}
}

// geom compares the real result with the model's predicted view.  Returns "" when they
// agree (otherwise a stable description; the numbers are in the disagreement's Impl/Model),
// and how the result relates to the known buffers ("nil", "alias", "fresh").
func (g *reg) geom(res encoding.Sequence, m *mview) (string, string) {
	if m == nil {
		if res != nil {
			return "model predicts nil, implementation returned a slice", ""
		}
		return "", "nil"
	}
	if res == nil {
		return "model predicts a slice, implementation returned nil", ""
	}
	if len(res) != m.Len {
		return "result length differs", ""
	}
	if len(res) >= 8 && fmt.Sprint(res.UntilInt()) != m.Hi {
		return "result until differs", ""
	}
	kb, off := g.locate(res)
	want := g.byID(m.Buf)
	if want != nil {
		// the model says: (a re-slice of) a known buffer
		if cap(res) == 0 {
			return "", "alias"
		}
		if kb != want {
			if kb == nil {
				return "model predicts a view of a known buffer, implementation returned a fresh buffer", ""
			}
			return "model predicts a view of a known buffer, implementation returned a view of another known buffer", ""
		}
		if off != m.Off {
			return "offset inside the aliased buffer differs", ""
		}
		if want.capExact && cap(res) != m.Cap {
			return "capacity of the aliasing view differs", ""
		}
		return "", "alias"
	}
	if kb != nil {
		if kb.protected {
			return "model predicts a fresh buffer, implementation returned a view of an operand / stored buffer", ""
		}
		return "model predicts a fresh buffer, implementation returned a view of a known buffer", ""
	}
	if m.Off != 0 {
		return "model predicts a non-zero offset inside a fresh buffer", ""
	}
	return "", "fresh"
}

type changeReport struct {
	prop     string // a protected buffer changed
	mismatch string // a change outside every predicted write
}

// changes diffs every known buffer against its snapshot.
func (g *reg) changes(writes [][3]int) changeReport {
	var rep changeReport
	for _, b := range g.bufs {
		var bad, uncovered []int
		for i := range b.arr {
			if b.arr[i] == b.snap[i] {
				continue
			}
			bad = append(bad, i)
			cov := false
			for _, w := range writes {
				if w[0] == b.id && w[1] <= i && i < w[1]+w[2] {
					cov = true
					break
				}
			}
			if !cov {
				uncovered = append(uncovered, i)
			}
		}
		if len(bad) > 0 && b.protected && rep.prop == "" {
			rep.prop = fmt.Sprintf("buffer %d (%s) was modified at bytes %s", b.id, b.name, ranges(bad))
		}
		if len(uncovered) > 0 && rep.mismatch == "" {
			rep.mismatch = fmt.Sprintf("buffer %d (%s) changed at bytes %s outside the predicted writes", b.id, b.name, ranges(uncovered))
		}
	}
	for _, w := range writes {
		if b := g.byID(w[0]); b != nil && b.protected && w[2] > 0 && rep.mismatch == "" {
			rep.mismatch = fmt.Sprintf("model predicts a write into protected buffer %d (%s)", b.id, b.name)
		}
	}
	return rep
}

func ranges(idx []int) string {
	sort.Ints(idx)
	s := ""
	for i := 0; i < len(idx); {
		j := i
		for j+1 < len(idx) && idx[j+1] == idx[j]+1 {
			j++
		}
		if s != "" {
			s += ","
		}
		s += fmt.Sprintf("[%d,%d)", idx[i], idx[j]+1)
		i = j + 1
	}
	return s
}

// ---------------------------------------------------------------- operands

func pattern(arr []byte, salt int) {
	for i := range arr {
		arr[i] = byte(0x81 + (i*7+salt*13)%0x7d)
	}
}

// place copies s into the middle of a larger backing array and returns the view:
// leading bytes, spare capacity behind it (sometimes cut off with a 3-index slice).
func place(r *hk.Rng, s encoding.Sequence, salt int) (encoding.Sequence, []byte) {
	pre := hk.Pick(r, []int{0, 0, 3, 16, 40})
	spare := hk.Pick(r, []int{0, 0, 8, 9, 27, 64})
	if s == nil {
		if r.Chance(2, 3) || spare == 0 {
			return nil, nil
		}
		// empty but non-nil, possibly with capacity
		arr := make([]byte, pre+spare)
		pattern(arr, salt)
		return encoding.Sequence(arr[pre:pre]), arr
	}
	arr := make([]byte, pre+len(s)+spare)
	pattern(arr, salt)
	copy(arr[pre:], s)
	end := pre + len(s)
	if spare > 0 && r.Chance(1, 4) {
		return encoding.Sequence(arr[pre:end:end]), arr
	}
	return encoding.Sequence(arr[pre:end]), arr
}

// genSeq builds a sequence through real UpdateValue calls.
func genSeq(r *hk.Rng, e expr.Expr, res time.Duration, maxUpdates int, spread int) encoding.Sequence {
	var s encoding.Sequence
	k := r.Range(0, maxUpdates)
	anchor := base.Add(time.Duration(r.Range(-spread, spread)) * res)
	for i := 0; i < k; i++ {
		ts := anchor.Add(time.Duration(r.Range(-spread, 2)) * res)
		p := gen.GenPoint(r, fields)
		s = s.UpdateValue(ts, p.Params(), p.Meta(), e, res, time.Time{})
	}
	return s
}

func pickTB(r *hk.Rng, resn time.Duration) time.Time {
	switch r.Intn(4) {
	case 0:
		return time.Time{}
	case 1:
		return base.Add(-time.Duration(r.Range(0, 8))*resn + time.Duration(r.Range(-1, 1))*time.Millisecond)
	default:
		return base.Add(-time.Duration(r.Range(0, 30)) * resn)
	}
}

func pickBound(r *hk.Rng, resn time.Duration) time.Time {
	switch r.Intn(5) {
	case 0:
		return time.Time{}
	case 1:
		return base.Add(time.Duration(r.Range(-9, 6))*resn + time.Duration(r.Range(1, 999))*time.Millisecond)
	default:
		return base.Add(time.Duration(r.Range(-9, 6)) * resn)
	}
}

// ---------------------------------------------------------------- engine

func (Engine) Run(ctx *hk.RunCtx) error {
	if ctx.Mode == "tree" {
		ctx.Res.Rule = "generated (table fields, points over several keys, query fields, grouping, time range, stride): bytetree built through Update, Copy(), group-like Update(key, vals, nil, metadata) from the copy into a second tree; distinct by canonical case; non-trivial = at least one sub-merger and at least two source rows"
	} else {
		ctx.Res.Rule = "generated (expression, operand placement inside larger backing arrays, bounds, op) cases over truncate/merge/valueat/update/submerge and the scan->rowMerger->group->flatten composition; distinct by canonical request JSON; non-trivial = at least one non-empty operand and a stateful expression"
	}
	for i := 0; i < ctx.N; i++ {
		idx := uint64(ctx.From + i)
		r := hk.Derive(ctx.Seed, idx)
		var err error
		if ctx.Mode == "tree" {
			err = treeCase(ctx, r, idx)
		} else {
			err = oneCase(ctx, r, idx)
		}
		if err != nil {
			return err
		}
	}
	return nil
}

type caseCtx struct {
	ctx *hk.RunCtx
	idx uint64
	op  string
}

func (c *caseCtx) hit(k string) {
	c.ctx.Res.Hit(k)
	if trace {
		fmt.Fprintf(os.Stderr, "TRACE %d %s %s\n", c.idx, c.op, k)
	}
}

func (c *caseCtx) prop(req interface{}, impl interface{}, detail string) {
	c.ctx.Res.Disagree(hk.Disagreement{Kind: "property", Case: req, Impl: impl, Detail: detail, PropertyFails: true, Prop: "C04", Index: c.idx})
}

func (c *caseCtx) mismatch(req interface{}, impl, model interface{}, detail string) {
	c.ctx.Res.Disagree(hk.Disagreement{Kind: "model-vs-impl", Case: req, Impl: impl, Model: model, Detail: detail, Index: c.idx})
}

// report turns a change report into disagreements; what names the operation.
func (c *caseCtx) report(req interface{}, rep changeReport, what string, model interface{}) {
	if rep.prop != "" {
		c.prop(req, rep.prop, what+" modified stored data / an operand")
	}
	if rep.mismatch != "" && rep.prop == "" {
		c.mismatch(req, rep.mismatch, model, what+": writes")
	}
}

func oneCase(ctx *hk.RunCtx, r *hk.Rng, idx uint64) error {
	ops := []string{"truncate", "truncate", "truncate", "merge", "merge", "merge", "valueat", "update", "submerge", "submerge", "submerge", "path", "path"}
	op := hk.Pick(r, ops)
	c := &caseCtx{ctx: ctx, idx: idx, op: op}
	ctx.Res.Hit("op:" + op)
	switch op {
	case "submerge":
		return c.caseSubMerge(r)
	case "path":
		return c.casePath(r)
	}
	resn := hk.Pick(r, resolutions)
	o := gen.ExprOpts{Fields: fields, MaxDepth: r.Range(0, 2), Res: resn}
	n := gen.GenExpr(r, o)
	e := n.Build()
	if err := e.Validate(); err != nil || e.EncodedWidth() == 0 {
		ctx.Res.Hit("invalid-or-stateless-expr")
		return nil
	}
	switch op {
	case "truncate":
		return c.caseTruncate(r, n, e, resn)
	case "merge":
		return c.caseMerge(r, n, e, resn)
	case "valueat":
		return c.caseValueAt(r, n, e, resn)
	case "update":
		return c.caseUpdate(r, n, e, resn)
	}
	return nil
}

func (c *caseCtx) placementHits(s encoding.Sequence, arr []byte) {
	if s == nil {
		c.hit("operand:nil")
		return
	}
	if len(s) == 0 {
		c.hit("operand:empty-non-nil")
	}
	if cap(s) > len(s) {
		c.hit("operand:spare-capacity")
	}
	if len(arr) > cap(s) {
		c.hit("operand:sub-slice-of-larger-array")
	}
}

func (c *caseCtx) call(req map[string]interface{}) (json.RawMessage, error) {
	return c.ctx.Model.Call(req)
}

func (c *caseCtx) caseTruncate(r *hk.Rng, n *gen.Node, e expr.Expr, resn time.Duration) error {
	s0 := genSeq(r, e, resn, 8, 6)
	g := &reg{}
	s, arr := place(r, s0, 1)
	if arr != nil {
		g.addNext(arr, true, "operand")
	}
	c.placementHits(s, arr)
	asOf := pickBound(r, resn)
	until := pickBound(r, resn)
	if len(s) > 0 && r.Chance(1, 3) {
		// until strictly inside the sequence: before the newest period
		np := s.NumPeriods(e.EncodedWidth())
		until = s.Until().Add(-time.Duration(r.Range(1, np+1)) * resn)
		if r.Chance(1, 3) {
			until = until.Add(time.Duration(r.Range(1, 999)) * time.Millisecond)
		}
	}
	req := map[string]interface{}{"engine": "heap", "op": "truncate", "n": g.next, "seq": g.view(s), "w": e.EncodedWidth(),
		"res": fmt.Sprint(int64(resn)), "asof": tstr(asOf), "until": tstr(until)}
	c.ctx.Res.Count(req, len(s) > 0 && !(asOf.IsZero() && until.IsZero()))
	g.snapAll()
	var out encoding.Sequence
	if pn := hk.Recover(func() { out = s.Truncate(e.EncodedWidth(), resn, asOf, until) }); pn != nil {
		c.mismatch(req, fmt.Sprint(pn), nil, "Truncate: impl panicked")
		return nil
	}
	mo, err := c.call(req)
	if err != nil {
		return err
	}
	var m meff
	json.Unmarshal(mo, &m)
	rep := g.changes(m.Writes)
	c.report(req, rep, "Truncate", json.RawMessage(mo))
	d, kind := g.geom(out, m.Out)
	if d != "" {
		c.mismatch(req, describe(g, out), json.RawMessage(mo), "Truncate: "+d)
		return nil
	}
	c.hit("truncate:result-" + kind)
	if len(m.Allocs) > 0 {
		c.hit("truncate:until-cuts")
	}
	if kind == "alias" && len(out) < len(s) {
		c.hit("truncate:asof-reslice")
	}
	return nil
}

func (c *caseCtx) caseMerge(r *hk.Rng, n *gen.Node, e expr.Expr, resn time.Duration) error {
	a0 := genSeq(r, e, resn, 6, 6)
	b0 := genSeq(r, e, resn, 6, 6)
	g := &reg{}
	var a, b encoding.Sequence
	layout := r.Intn(8)
	switch {
	case layout == 0 && len(a0) > 0 && len(b0) > 0:
		// both operands inside ONE backing array
		pre, mid, spare := r.Range(0, 12), r.Range(0, 20), r.Range(0, 30)
		arr := make([]byte, pre+len(a0)+mid+len(b0)+spare)
		pattern(arr, 3)
		copy(arr[pre:], a0)
		copy(arr[pre+len(a0)+mid:], b0)
		a = encoding.Sequence(arr[pre : pre+len(a0)])
		b = encoding.Sequence(arr[pre+len(a0)+mid : pre+len(a0)+mid+len(b0)])
		g.addNext(arr, true, "both operands")
		c.hit("merge:operands-share-buffer")
	case layout == 1 && len(a0) > 0:
		var arr []byte
		a, arr = place(r, a0, 1)
		b = a
		g.addNext(arr, true, "operand (both)")
		c.hit("merge:same-slice-twice")
	default:
		var arrA, arrB []byte
		a, arrA = place(r, a0, 1)
		if arrA != nil {
			g.addNext(arrA, true, "operand a")
		}
		b, arrB = place(r, b0, 2)
		if arrB != nil {
			g.addNext(arrB, true, "operand b")
		}
		c.placementHits(a, arrA)
		c.placementHits(b, arrB)
	}
	tb := pickTB(r, resn)
	req := map[string]interface{}{"engine": "heap", "op": "merge", "n": g.next, "a": g.view(a), "b": g.view(b), "w": e.EncodedWidth(),
		"res": fmt.Sprint(int64(resn)), "tb": tstr(tb)}
	c.ctx.Res.Count(req, len(a) > 0 && len(b) > 0)
	g.snapAll()
	var out encoding.Sequence
	if pn := hk.Recover(func() { out = a.Merge(b, e, resn, tb) }); pn != nil {
		c.mismatch(req, fmt.Sprint(pn), nil, "Merge: impl panicked")
		return nil
	}
	mo, err := c.call(req)
	if err != nil {
		return err
	}
	var m meff
	json.Unmarshal(mo, &m)
	c.report(req, g.changes(m.Writes), "Merge", json.RawMessage(mo))
	d, kind := g.geom(out, m.Out)
	if d != "" {
		c.mismatch(req, describe(g, out), json.RawMessage(mo), "Merge: "+d)
		return nil
	}
	c.hit("merge:result-" + kind)
	if kind == "alias" && len(a) > 0 && len(b) > 0 {
		c.hit("merge:alias-because-expired")
	}
	return nil
}

func (c *caseCtx) caseValueAt(r *hk.Rng, n *gen.Node, e expr.Expr, resn time.Duration) error {
	if e.IsConstant() {
		c.hit("valueat-skip-constant-aggregate") // Get(nil) panics: C16 territory, not a heap question
		return nil
	}
	s0 := genSeq(r, e, resn, 8, 6)
	g := &reg{}
	s, arr := place(r, s0, 1)
	if arr != nil {
		g.addNext(arr, true, "operand")
	}
	c.placementHits(s, arr)
	t := pickBound(r, resn)
	if t.IsZero() {
		t = base
	}
	req := map[string]interface{}{"engine": "heap", "op": "valueat", "seq": g.view(s), "e": n.JSON(),
		"res": fmt.Sprint(int64(resn)), "t": tstr(t)}
	c.ctx.Res.Count(req, len(s) > 0)
	g.snapAll()
	var found bool
	if pn := hk.Recover(func() { _, found = s.ValueAtTime(t, e, resn) }); pn != nil {
		c.mismatch(req, fmt.Sprint(pn), nil, "ValueAtTime: impl panicked")
		return nil
	}
	mo, err := c.call(req)
	if err != nil {
		return err
	}
	var m struct {
		Read   *[3]int  `json:"read"`
		Writes [][3]int `json:"writes"`
		Width  int      `json:"width"`
	}
	json.Unmarshal(mo, &m)
	c.report(req, g.changes(m.Writes), "ValueAtTime", json.RawMessage(mo))
	if m.Width != e.EncodedWidth() {
		c.mismatch(req, e.EncodedWidth(), m.Width, "EncodedWidth")
	}
	// a value can only be found where the model says a state is read
	if found && m.Read == nil {
		c.mismatch(req, "found", json.RawMessage(mo), "ValueAtTime: found a value where the model reads nothing")
	}
	if m.Read != nil {
		c.hit("valueat:reads-a-state")
	}
	return nil
}

func (c *caseCtx) caseUpdate(r *hk.Rng, n *gen.Node, e expr.Expr, resn time.Duration) error {
	s0 := genSeq(r, e, resn, 6, 6)
	g := &reg{}
	s, arr := place(r, s0, 1)
	if arr != nil {
		g.addNext(arr, false, "receiver") // UpdateValue is the insert path: it may write its receiver
	}
	c.placementHits(s, arr)
	ts := base.Add(time.Duration(r.Range(-10, 8))*resn + time.Duration(r.Range(-1, 1))*time.Nanosecond*time.Duration(r.Range(0, 1)))
	tb := pickTB(r, resn)
	p := gen.GenPoint(r, fields)
	req := map[string]interface{}{"engine": "heap", "op": "update", "n": g.next, "seq": g.view(s), "w": e.EncodedWidth(),
		"res": fmt.Sprint(int64(resn)), "ts": tstr(ts), "tb": tstr(tb)}
	c.ctx.Res.Count(req, len(s) > 0)
	g.snapAll()
	var out encoding.Sequence
	if pn := hk.Recover(func() { out = s.UpdateValue(ts, p.Params(), p.Meta(), e, resn, tb) }); pn != nil {
		c.mismatch(req, fmt.Sprint(pn), nil, "UpdateValue: impl panicked")
		return nil
	}
	mo, err := c.call(req)
	if err != nil {
		return err
	}
	var m meff
	json.Unmarshal(mo, &m)
	c.report(req, g.changes(m.Writes), "UpdateValue", json.RawMessage(mo))
	d, kind := g.geom(out, m.Out)
	if d != "" {
		c.mismatch(req, describe(g, out), json.RawMessage(mo), "UpdateValue: "+d)
		return nil
	}
	c.hit("update:result-" + kind)
	return nil
}

// ---------------------------------------------------------------- SubMerge

type subSetup struct {
	n        *gen.Node
	e        expr.Expr
	ins      []*gen.Node
	inEs     []expr.Expr
	inJ      []interface{}
	sms      []expr.SubMerge
	otherRes time.Duration
	resn     time.Duration
	scale    int
	asOf     time.Time
	until    time.Time
	stride   time.Duration
}

// genSub generates table columns `ins`, a query expression over them and the grouping
// parameters (resolution scale, time range, stride), like core.group does.
func genSub(r *hk.Rng, nIn int) *subSetup {
	su := &subSetup{}
	su.otherRes = hk.Pick(r, resolutions)
	su.scale = hk.Pick(r, []int{1, 1, 2, 3, 5})
	su.resn = time.Duration(su.scale) * su.otherRes
	o := gen.ExprOpts{Fields: fields, MaxDepth: 1, Res: su.otherRes, NoShift: true, NoUnary: true}
	su.ins = make([]*gen.Node, nIn)
	for i := range su.ins {
		switch r.Intn(4) {
		case 0:
			su.ins[i] = &gen.Node{Kind: "if", C: r.Intn(len(gen.Conds)), Kids: []*gen.Node{gen.GenLeaf(r, o)}}
		default:
			su.ins[i] = gen.GenLeaf(r, o)
		}
	}
	pickIn := func() *gen.Node { return su.ins[r.Intn(nIn)] }
	var n *gen.Node
	switch r.Intn(8) {
	case 0, 1:
		n = pickIn()
	case 2, 3:
		op := hk.Pick(r, []string{"+", "-", "*", "/", "<", ">="})
		n = &gen.Node{Kind: "bin", Name: op, Kids: []*gen.Node{pickIn(), pickIn()}}
		if r.Chance(1, 3) {
			n = &gen.Node{Kind: "bin", Name: "+", Kids: []*gen.Node{n, {Kind: "const", Const: 2}}}
		}
	case 4:
		n = &gen.Node{Kind: "shift", Off: -time.Duration(r.Range(0, 4)) * su.otherRes, Kids: []*gen.Node{pickIn()}}
		if r.Chance(1, 3) {
			n = &gen.Node{Kind: "bin", Name: "-", Kids: []*gen.Node{pickIn(), n}}
		}
	case 5:
		n = &gen.Node{Kind: "if", C: r.Intn(len(gen.Conds)), Kids: []*gen.Node{pickIn()}}
	case 6:
		n = &gen.Node{Kind: "unary", Name: "LN", Kids: []*gen.Node{pickIn()}}
	default:
		n = gen.GenLeaf(r, o) // usually unrelated to the table columns
	}
	su.n = n
	su.e = n.Build()
	if err := su.e.Validate(); err != nil {
		return nil
	}
	su.inEs = make([]expr.Expr, nIn)
	su.inJ = make([]interface{}, nIn)
	for i, in := range su.ins {
		su.inEs[i] = in.Build()
		su.inJ[i] = in.JSON()
	}
	su.sms = su.e.SubMergers(su.inEs)
	su.asOf = pickBound(r, su.otherRes)
	su.until = pickBound(r, su.otherRes)
	if r.Chance(1, 2) {
		su.asOf = time.Time{}
	}
	if r.Chance(1, 2) {
		su.until = time.Time{}
	}
	if su.e.Shift() != 0 && su.asOf.IsZero() {
		// a zero asOf minus the shift overflows int64 inside RoundTimeUntilDown in the real
		// code (outside the model's range hypothesis); group always passes a non-zero asOf
		su.asOf = base.Add(-time.Duration(r.Range(5, 40)) * su.otherRes)
	}
	if su.scale > 1 && r.Chance(1, 4) {
		su.stride = time.Duration(r.Range(1, su.scale-1)) * su.otherRes
	}
	return su
}

func (su *subSetup) anySM() bool {
	for _, sm := range su.sms {
		if sm != nil {
			return true
		}
	}
	return false
}

type mstep struct {
	N   int  `json:"n"`
	Eff meff `json:"eff"`
}

type msub struct {
	Steps []*mstep `json:"steps"`
	Out   *mview   `json:"out"`
	N     int      `json:"n"`
	Used  []bool   `json:"used"`
	W     int      `json:"w"`
	Ows   []int    `json:"ows"`
}

func (c *caseCtx) caseSubMerge(r *hk.Rng) error {
	su := genSub(r, r.Range(1, 3))
	if su == nil {
		c.ctx.Res.Hit("invalid-expr")
		return nil
	}
	g := &reg{}
	// the receiver: the out tree's sequence, nil at first; between rounds it is sometimes
	// moved into the middle of a larger array (same value, other geometry: offset, spare
	// capacity), so that SubMerge's re-slicing and in-place writes are observable
	var out encoding.Sequence
	rounds := r.Range(1, 4)
	for round := 0; round < rounds; round++ {
		if round > 0 && len(out) > 0 && r.Chance(1, 2) {
			moved, arr := place(r, append(encoding.Sequence(nil), out...), 9+round)
			out = moved
			if w := su.e.EncodedWidth(); w > 0 && r.Chance(2, 3) {
				// give the receiver's periods non-empty states (any state is reachable through
				// earlier source rows): an in-place sub-merge then combines two set values
				for p := 0; p < out.NumPeriods(w); p++ {
					if r.Chance(2, 3) {
						pt := gen.GenPoint(r, fields)
						out.UpdateValueAt(p, su.e, pt.Params(), pt.Meta())
					}
				}
				c.hit("submerge:receiver-charged")
			}
			g.addNext(arr, false, "receiver (moved)")
			c.hit("submerge:receiver-moved-into-larger-array")
		}
		meta := gen.GenPoint(r, fields)
		nIn := len(su.ins)
		inSeqs := make([]encoding.Sequence, nIn)
		steps := make([]interface{}, 0, nIn)
		for i := range su.ins {
			s0 := genSeq(r, su.inEs[i], su.otherRes, 6, 6)
			var arr []byte
			inSeqs[i], arr = place(r, s0, 10+i+round*4)
			if arr != nil {
				g.addNext(arr, true, fmt.Sprintf("source column %d (round %d)", i, round))
			}
			c.placementHits(inSeqs[i], arr)
			steps = append(steps, map[string]interface{}{"i": i, "in": g.view(inSeqs[i]), "pt": meta.JSON()})
		}
		req := map[string]interface{}{"engine": "heap", "op": "submerge", "n": g.next, "e": su.n.JSON(), "inExs": su.inJ,
			"out": g.view(out), "res": fmt.Sprint(int64(su.resn)), "otherRes": fmt.Sprint(int64(su.otherRes)),
			"asof": tstr(su.asOf), "until": tstr(su.until), "stride": fmt.Sprint(int64(su.stride)), "steps": steps}
		c.ctx.Res.Count(req, su.anySM() && su.e.EncodedWidth() > 0)
		if su.anySM() {
			c.hit("submerge:has-submerger")
		} else {
			c.hit("submerge:no-submerger")
		}
		if su.stride > 0 {
			c.hit("submerge:stride")
		}
		if su.e.Shift() != 0 {
			c.hit("submerge:shift")
		}
		mo, err := c.call(req)
		if err != nil {
			return err
		}
		var m msub
		json.Unmarshal(mo, &m)
		if m.W != su.e.EncodedWidth() {
			c.mismatch(req, su.e.EncodedWidth(), m.W, "EncodedWidth")
			return nil
		}
		for i := range su.ins {
			if (su.sms[i] != nil) != m.Used[i] {
				c.mismatch(req, su.sms[i] != nil, m.Used, "SubMergers: which columns have a sub-merger")
				return nil
			}
			if su.sms[i] == nil {
				continue
			}
			st := m.Steps[i]
			g.snapAll()
			var next encoding.Sequence
			if pn := hk.Recover(func() {
				next = out.SubMerge(inSeqs[i], meta.Meta(), su.resn, su.otherRes, su.e, su.inEs[i], su.sms[i], su.asOf, su.until, su.stride)
			}); pn != nil {
				c.mismatch(req, fmt.Sprint(pn), nil, "SubMerge: impl panicked")
				return nil
			}
			c.report(req, g.changes(st.Eff.Writes), "SubMerge", st)
			d, kind := g.geom(next, st.Eff.Out)
			if d != "" {
				c.mismatch(req, describe(g, next), st, "SubMerge: "+d)
				return nil
			}
			c.hit("submerge:result-" + kind)
			if kind == "fresh" {
				g.add(st.Eff.Out.Buf, next[:cap(next)], false, false, "result of SubMerge")
			}
			if kind == "alias" && len(st.Eff.Writes) > 0 {
				c.hit("submerge:in-place-writes-into-receiver")
			}
			out = next
		}
		if m.N > g.next {
			g.next = m.N
		}
	}
	return nil
}

// ---------------------------------------------------------------- the query path on one column

type mpath struct {
	Used bool `json:"used"`
	Rows []struct {
		N       int    `json:"n"`
		Out     *mview `json:"out"`
		Merged  *mview `json:"merged"`
		FileBuf *int   `json:"fileBuf"`
		NWrites int    `json:"nwrites"`
	} `json:"rows"`
	Out    *mview    `json:"out"`
	N      int       `json:"n"`
	Writes [][3]int  `json:"writes"`
	Reads  []*[3]int `json:"reads"`
}

// casePath runs what a query does with one stored column: per source row, read the file row
// into a buffer of its own, rowMerger's Merge with the memstore column (a sequence of the scan's
// memstore snapshot; before /repo 63b81da the stored sequence itself — either way an operand that
// nothing may write), SubMerge into the out tree's sequence; then ValueAtTime (flatten).
func (c *caseCtx) casePath(r *hk.Rng) error {
	su := genSub(r, 1)
	if su == nil {
		c.ctx.Res.Hit("invalid-expr")
		return nil
	}
	fe, sm := su.inEs[0], su.sms[0]
	g := &reg{}
	tb := pickTB(r, su.otherRes)
	k := r.Range(1, 4)
	type row struct {
		mem   encoding.Sequence
		fseq  encoding.Sequence
		off   int
		rowLn int
		meta  gen.Point
	}
	rows := make([]row, k)
	mrows := make([]interface{}, k)
	for i := range rows {
		rw := &rows[i]
		rw.meta = gen.GenPoint(r, fields)
		if i > 0 && r.Chance(1, 4) {
			rw.mem = rows[i-1].mem // two source rows aliasing the same stored sequence
			c.hit("path:rows-share-stored-sequence")
		} else {
			m0 := genSeq(r, fe, su.otherRes, 6, 6)
			var arr []byte
			rw.mem, arr = place(r, m0, 20+i)
			if arr != nil {
				g.addNext(arr, true, fmt.Sprintf("stored sequence of row %d", i))
			}
			c.placementHits(rw.mem, arr)
		}
		var file interface{}
		if r.Chance(1, 2) {
			rw.fseq = genSeq(r, fe, su.otherRes, 6, 6)
			if len(rw.fseq) > 0 {
				rw.off = r.Range(10, 40)
				rw.rowLn = rw.off + len(rw.fseq) + hk.Pick(r, []int{0, 9, 30})
				file = map[string]interface{}{"rowLen": rw.rowLn, "off": rw.off, "len": len(rw.fseq), "hi": fmt.Sprint(rw.fseq.UntilInt())}
				c.hit("path:file-column")
			}
		}
		mrows[i] = map[string]interface{}{"mem": g.view(rw.mem), "file": file, "pt": rw.meta.JSON()}
	}
	nts := r.Range(1, 3)
	tsl := make([]time.Time, nts)
	tsj := make([]interface{}, nts)
	for i := range tsl {
		tsl[i] = base.Add(time.Duration(r.Range(-9, 6)) * su.resn)
		tsj[i] = tstr(tsl[i])
	}
	req := map[string]interface{}{"engine": "heap", "op": "querycol", "n": g.next, "fe": su.inJ[0], "e": su.n.JSON(),
		"tres": fmt.Sprint(int64(su.otherRes)), "tb": tstr(tb), "qres": fmt.Sprint(int64(su.resn)),
		"asof": tstr(su.asOf), "until": tstr(su.until), "stride": fmt.Sprint(int64(su.stride)), "rows": mrows, "ts": tsj}
	nonEmpty := false
	for _, rw := range rows {
		if len(rw.mem) > 0 {
			nonEmpty = true
		}
	}
	c.ctx.Res.Count(req, sm != nil && nonEmpty && su.e.EncodedWidth() > 0)
	mo, err := c.call(req)
	if err != nil {
		return err
	}
	var m mpath
	json.Unmarshal(mo, &m)
	if m.Used != (sm != nil) {
		c.mismatch(req, sm != nil, m.Used, "SubMergers: whether the column has a sub-merger")
		return nil
	}
	if sm == nil {
		c.hit("path:no-submerger")
		return nil
	}
	var out encoding.Sequence
	prevW := 0
	for i := range rows {
		rw := &rows[i]
		mr := m.Rows[i]
		var fileCol encoding.Sequence
		if rw.fseq != nil && len(rw.fseq) > 0 {
			// fileStore.iterate: row = make([]byte, rowLength); io.ReadFull; ReadSequence re-slices
			buf := make([]byte, rw.rowLn)
			pattern(buf, 40+i)
			copy(buf[rw.off:], rw.fseq)
			fileCol = encoding.Sequence(buf[rw.off : rw.off+len(rw.fseq)])
			if mr.FileBuf == nil {
				c.mismatch(req, "file row", mr, "path: model has no file buffer for a row with a file column")
				return nil
			}
			g.add(*mr.FileBuf, buf, false, true, fmt.Sprintf("file row %d", i))
		}
		g.snapAll()
		var col, next encoding.Sequence
		if pn := hk.Recover(func() {
			col = fileCol.Merge(rw.mem, fe, su.otherRes, tb) // rowMerger: out[o] = out[o].Merge(seq, ...)
		}); pn != nil {
			c.mismatch(req, fmt.Sprint(pn), nil, "path: Merge panicked")
			return nil
		}
		d, kind := g.geom(col, mr.Merged)
		if d != "" {
			c.mismatch(req, describe(g, col), mr, "path: rowMerger result: "+d)
			return nil
		}
		if kind == "fresh" {
			g.add(mr.Merged.Buf, col[:cap(col)], false, true, fmt.Sprintf("merged column of row %d", i))
		}
		if kind == "alias" {
			if kb, _ := g.locate(col); kb != nil && kb.protected {
				c.hit("path:outbound-column-aliases-stored-sequence")
			}
		}
		if pn := hk.Recover(func() {
			next = out.SubMerge(col, rw.meta.Meta(), su.resn, su.otherRes, su.e, fe, sm, su.asOf, su.until, su.stride)
		}); pn != nil {
			c.mismatch(req, fmt.Sprint(pn), nil, "path: SubMerge panicked")
			return nil
		}
		ws := m.Writes[prevW:mr.NWrites]
		prevW = mr.NWrites
		c.report(req, g.changes(ws), "the query path (rowMerger + SubMerge)", mr)
		d, kind = g.geom(next, mr.Out)
		if d != "" {
			c.mismatch(req, describe(g, next), mr, "path: SubMerge result: "+d)
			return nil
		}
		if kind == "fresh" {
			g.add(mr.Out.Buf, next[:cap(next)], false, false, "out tree sequence")
		}
		if kb, _ := g.locate(next); kb != nil && kb.protected {
			c.prop(req, describe(g, next), "the out tree's sequence aliases stored data")
		}
		out = next
		if mr.N > g.next {
			g.next = mr.N
		}
	}
	if !su.e.IsConstant() {
		g.snapAll()
		for _, t := range tsl {
			if pn := hk.Recover(func() { out.ValueAtTime(t, su.e, su.resn) }); pn != nil {
				c.mismatch(req, fmt.Sprint(pn), nil, "path: ValueAtTime panicked")
				return nil
			}
		}
		c.report(req, g.changes(nil), "ValueAtTime (flatten)", nil)
	}
	c.hit(fmt.Sprintf("path:rows-%d", k))
	return nil
}
