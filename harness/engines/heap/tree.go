package heap

import (
	"encoding/json"
	"fmt"
	"time"

	"github.com/getlantern/bytemap"
	"github.com/getlantern/zenodb/bytetree"
	"github.com/getlantern/zenodb/encoding"
	"github.com/getlantern/zenodb/expr"

	"zvh/gen"
	"zvh/hk"
)

type trow struct {
	key  []byte
	dims map[string]interface{}
	data []encoding.Sequence
}

func walk(t *bytetree.Tree) []trow {
	var rows []trow
	t.Walk(0, func(key []byte, data []encoding.Sequence) (bool, bool, error) {
		rows = append(rows, trow{key: key, data: data})
		return true, true, nil
	})
	return rows
}

// treeCase: a memstore-like tree built through Update(params), its Copy(), and a group-like
// second tree fed from the copy's sequences through Update(key, vals, nil, metadata).
func treeCase(ctx *hk.RunCtx, r *hk.Rng, idx uint64) error {
	c := &caseCtx{ctx: ctx, idx: idx, op: "tree"}
	su := genSub(r, r.Range(1, 3))
	if su == nil {
		ctx.Res.Hit("invalid-expr")
		return nil
	}
	// a second query field now and then
	outs := []*subSetup{su}
	outNodes := []*gen.Node{su.n}
	if r.Chance(1, 3) {
		n2 := su.ins[r.Intn(len(su.ins))]
		outNodes = append(outNodes, n2)
	}
	_ = outs
	outEs := make([]expr.Expr, len(outNodes))
	for i, n := range outNodes {
		outEs[i] = n.Build()
	}

	// table: the memstore tree
	t1 := bytetree.New(su.inEs, nil, su.otherRes, 0, time.Time{}, time.Time{}, 0)
	nKeys := r.Range(1, 5)
	type kd struct {
		dims map[string]interface{}
		key  bytemap.ByteMap
	}
	keys := make([]kd, 0, nKeys)
	seen := map[string]bool{}
	for len(keys) < nKeys {
		p := gen.GenPoint(r, fields)
		d := map[string]interface{}{"k": fmt.Sprintf("k%d", r.Intn(6))}
		for k, v := range p.Dims {
			d[k] = v
		}
		bm := bytemap.New(d)
		if seen[string(bm)] {
			nKeys--
			continue
		}
		seen[string(bm)] = true
		keys = append(keys, kd{d, bm})
	}
	nPts := r.Range(1, 14)
	type pt struct {
		key int
		ts  time.Time
		p   gen.Point
	}
	pts := make([]interface{}, 0, nPts)
	anchor := base.Add(time.Duration(r.Range(-4, 4)) * su.otherRes)
	for i := 0; i < nPts; i++ {
		k := r.Intn(len(keys))
		ts := anchor.Add(time.Duration(r.Range(-6, 2)) * su.otherRes)
		p := gen.GenPoint(r, fields)
		t1.Update(keys[k].key, nil, encoding.NewTSParams(ts, bytemap.NewFloat(p.Vals)), keys[k].key)
		pts = append(pts, map[string]interface{}{"key": k, "ts": tstr(ts), "vals": p.Vals})
	}
	rows1 := walk(t1)
	g := &reg{}
	nodes := make([]interface{}, len(rows1))
	for i, rw := range rows1 {
		cols := make([]interface{}, len(rw.data))
		for j, s := range rw.data {
			if s != nil && cap(s) > 0 {
				g.addNext([]byte(s[:cap(s)]), true, fmt.Sprintf("stored sequence key %d field %d", i, j))
			}
			cols[j] = g.view(s)
		}
		nodes[i] = map[string]interface{}{"obj": i, "dataArr": i, "cols": cols}
	}
	g.snapAll()

	// Copy(): the scan's snapshot shares the sequences
	cp := t1.Copy()
	rows2 := walk(cp)
	reqCopy := map[string]interface{}{"engine": "heap", "op": "treecopy", "nObj": len(rows1), "nodes": nodes}
	groupBy := hk.Pick(r, []string{"", "", "k", "d"})
	canon := map[string]interface{}{"mode": "tree", "e": su.n.JSON(), "outs": len(outNodes), "inExs": su.inJ, "keys": len(keys), "pts": pts,
		"res": int64(su.resn), "otherRes": int64(su.otherRes), "asof": tstr(su.asOf), "until": tstr(su.until),
		"stride": int64(su.stride), "groupBy": groupBy}
	ctx.Res.Count(canon, su.anySM() && len(rows1) >= 2)
	mo, err := c.call(reqCopy)
	if err != nil {
		return err
	}
	var mc struct {
		Nodes []struct {
			Obj     int      `json:"obj"`
			DataArr int      `json:"dataArr"`
			Cols    []*mview `json:"cols"`
		} `json:"nodes"`
	}
	json.Unmarshal(mo, &mc)
	if len(rows2) != len(rows1) || len(mc.Nodes) != len(rows1) {
		c.mismatch(canon, len(rows2), len(mc.Nodes), "Tree.Copy: number of nodes")
		return nil
	}
	for i, rw := range rows2 {
		if string(rw.key) != string(rows1[i].key) {
			c.mismatch(canon, string(rw.key), string(rows1[i].key), "Tree.Copy: walk order / keys")
			return nil
		}
		// node.data is shared: same []Sequence backing array
		if len(rw.data) > 0 && len(rows1[i].data) > 0 && &rw.data[0] != &rows1[i].data[0] {
			c.mismatch(canon, "distinct data arrays", "shared data array", "Tree.Copy: node.data")
			return nil
		}
		for j, s := range rw.data {
			if d, _ := g.geom(s, mc.Nodes[i].Cols[j]); d != "" {
				c.mismatch(canon, describe(g, s), mc.Nodes[i].Cols[j], "Tree.Copy: column view: "+d)
				return nil
			}
			if s != nil {
				c.hit("tree:copy-shares-sequence")
			}
		}
	}

	// group: second tree, fed from the copy
	t2 := bytetree.New(outEs, su.inEs, su.resn, su.otherRes, su.asOf, su.until, su.stride)
	sliceKey := func(key bytemap.ByteMap) bytemap.ByteMap {
		if groupBy == "" {
			return nil
		}
		v := key.Get(groupBy)
		if v == nil {
			return bytemap.FromSortedKeysAndValues(nil, nil)
		}
		return bytemap.FromSortedKeysAndValues([]string{groupBy}, []interface{}{v})
	}
	// model steps per (group key, out column)
	groupSteps := map[string][]interface{}{}
	var groupOrder []string
	var panicked interface{}
	for _, rw := range rows2 {
		key := bytemap.ByteMap(rw.key)
		gk := sliceKey(key)
		if _, ok := groupSteps[string(gk)]; !ok {
			groupOrder = append(groupOrder, string(gk))
		}
		mp := gen.Point{Dims: key.AsMap()}
		for i := range su.inEs {
			groupSteps[string(gk)] = append(groupSteps[string(gk)], map[string]interface{}{"i": i, "in": g.view(rw.data[i]), "pt": mp.JSON()})
		}
		if pn := hk.Recover(func() { t2.Update(gk, rw.data, nil, key) }); pn != nil {
			panicked = pn
			break
		}
	}
	if panicked != nil {
		c.mismatch(canon, fmt.Sprint(panicked), nil, "group-like Update panicked")
		return nil
	}
	// (i) the first tree's sequences: byte for byte
	rep := g.changes(nil)
	if rep.prop != "" {
		c.prop(canon, rep.prop, "grouping from a Tree.Copy modified the live tree's sequences")
	}
	rows1b := walk(t1)
	for i, rw := range rows1b {
		for j, s := range rw.data {
			if d, _ := g.geom(s, mc.Nodes[i].Cols[j]); d != "" {
				c.prop(canon, describe(g, s), "the live tree's column changed its geometry: "+d)
			}
		}
	}
	// (ii) the second tree's sequences: model fold per group and out column
	rows3 := walk(t2)
	byKey := map[string][]encoding.Sequence{}
	for _, rw := range rows3 {
		byKey[string(rw.key)] = rw.data
	}
	for _, gk := range groupOrder {
		data := byKey[gk]
		for o, outN := range outNodes {
			req := map[string]interface{}{"engine": "heap", "op": "submerge", "n": g.next, "e": outN.JSON(), "inExs": su.inJ,
				"out": nil, "res": fmt.Sprint(int64(su.resn)), "otherRes": fmt.Sprint(int64(su.otherRes)),
				"asof": tstr(su.asOf), "until": tstr(su.until), "stride": fmt.Sprint(int64(su.stride)), "steps": groupSteps[gk], "dedup": true}
			mo, err := c.call(req)
			if err != nil {
				return err
			}
			var m msub
			json.Unmarshal(mo, &m)
			var got encoding.Sequence
			if data != nil {
				got = data[o]
			}
			if kb, _ := g.locate(got); kb != nil {
				c.prop(req, describe(g, got), "the out tree's sequence aliases the live tree's stored data")
				continue
			}
			for _, st := range m.Steps {
				if st == nil {
					continue
				}
				for _, w := range st.Eff.Writes {
					if kb := g.byID(w[0]); kb != nil && w[2] > 0 {
						c.mismatch(req, nil, st, "model predicts a write into the live tree")
					}
				}
			}
			if d, kind := g.geom(got, m.Out); d != "" {
				c.mismatch(req, describe(g, got), m.Out, "group tree column: "+d)
			} else {
				c.hit("tree:out-column-" + kind)
			}
		}
	}
	c.hit(fmt.Sprintf("tree:groups-%d", len(groupOrder)))
	if groupBy != "" {
		c.hit("tree:group-by-dim")
	}
	if len(rows2) > len(groupOrder) {
		c.hit("tree:several-rows-into-one-group")
	}
	return nil
}
