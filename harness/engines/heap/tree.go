package heap

import (
	"encoding/json"
	"fmt"
	"time"
	"unsafe"

	"github.com/getlantern/bytemap"
	"github.com/getlantern/zenodb/bytetree"
	"github.com/getlantern/zenodb/encoding"
	"github.com/getlantern/zenodb/expr"

	"zvh/gen"
	"zvh/hk"
)

type trow struct {
	key  []byte
	dims map[string]interface{}
	data []encoding.Sequence
}

func walk(t *bytetree.Tree) []trow {
	var rows []trow
	t.Walk(0, func(key []byte, data []encoding.Sequence) (bool, bool, error) {
		rows = append(rows, trow{key: key, data: data})
		return true, true, nil
	})
	return rows
}

// treeCase: a memstore-like tree built through Update(params), its Copy() (a deep copy since
// /repo 63b81da: predicted by treeCopyEff, the live tree must not be aliased), and a group-like
// second tree fed from the copy's sequences through Update(key, vals, nil, metadata).
func treeCase(ctx *hk.RunCtx, r *hk.Rng, idx uint64) error {
	c := &caseCtx{ctx: ctx, idx: idx, op: "tree"}
	su := genSub(r, r.Range(1, 3))
	if su == nil {
		ctx.Res.Hit("invalid-expr")
		return nil
	}
	// a second query field now and then
	outs := []*subSetup{su}
	outNodes := []*gen.Node{su.n}
	if r.Chance(1, 3) {
		n2 := su.ins[r.Intn(len(su.ins))]
		outNodes = append(outNodes, n2)
	}
	_ = outs
	outEs := make([]expr.Expr, len(outNodes))
	for i, n := range outNodes {
		outEs[i] = n.Build()
	}

	// table: the memstore tree
	t1 := bytetree.New(su.inEs, nil, su.otherRes, 0, time.Time{}, time.Time{}, 0)
	nKeys := r.Range(1, 5)
	type kd struct {
		dims map[string]interface{}
		key  bytemap.ByteMap
	}
	keys := make([]kd, 0, nKeys)
	seen := map[string]bool{}
	for len(keys) < nKeys {
		p := gen.GenPoint(r, fields)
		d := map[string]interface{}{"k": fmt.Sprintf("k%d", r.Intn(6))}
		for k, v := range p.Dims {
			d[k] = v
		}
		bm := bytemap.New(d)
		if seen[string(bm)] {
			nKeys--
			continue
		}
		seen[string(bm)] = true
		keys = append(keys, kd{d, bm})
	}
	nPts := r.Range(1, 14)
	type pt struct {
		key int
		ts  time.Time
		p   gen.Point
	}
	pts := make([]interface{}, 0, nPts)
	anchor := base.Add(time.Duration(r.Range(-4, 4)) * su.otherRes)
	for i := 0; i < nPts; i++ {
		k := r.Intn(len(keys))
		ts := anchor.Add(time.Duration(r.Range(-6, 2)) * su.otherRes)
		p := gen.GenPoint(r, fields)
		t1.Update(keys[k].key, nil, encoding.NewTSParams(ts, bytemap.NewFloat(p.Vals)), keys[k].key)
		pts = append(pts, map[string]interface{}{"key": k, "ts": tstr(ts), "vals": p.Vals})
	}
	rows1 := walk(t1)
	g := &reg{}
	nodes := make([]interface{}, len(rows1))
	liveHdr := make([][]encoding.Sequence, len(rows1)) // the live slice headers as they were
	for i, rw := range rows1 {
		liveHdr[i] = append([]encoding.Sequence(nil), rw.data...)
		cols := make([]interface{}, len(rw.data))
		for j, s := range rw.data {
			if s != nil && cap(s) > 0 {
				g.addNext([]byte(s[:cap(s)]), true, fmt.Sprintf("stored sequence key %d field %d", i, j))
			}
			cols[j] = g.view(s)
		}
		nodes[i] = map[string]interface{}{"obj": i, "dataArr": i, "cols": cols}
	}
	g.snapAll()

	// Copy(): the scan's snapshot.  Since /repo 63b81da every node gets its own data slice and ONE
	// fresh byte buffer holding copies of its sequences back to back (cap = len); before that the
	// copy shared node.data and the sequences with the live tree.
	nLive := g.next
	cp := t1.Copy()
	rows2 := walk(cp)
	reqCopy := map[string]interface{}{"engine": "heap", "op": "treecopy", "nObj": len(rows1), "nArr": len(rows1), "n": g.next, "nodes": nodes}
	groupBy := hk.Pick(r, []string{"", "", "k", "d"})
	canon := map[string]interface{}{"mode": "tree", "e": su.n.JSON(), "outs": len(outNodes), "inExs": su.inJ, "keys": len(keys), "pts": pts,
		"res": int64(su.resn), "otherRes": int64(su.otherRes), "asof": tstr(su.asOf), "until": tstr(su.until),
		"stride": int64(su.stride), "groupBy": groupBy}
	ctx.Res.Count(canon, su.anySM() && len(rows1) >= 2)
	mo, err := c.call(reqCopy)
	if err != nil {
		return err
	}
	var mc struct {
		Nodes []struct {
			Obj     int      `json:"obj"`
			DataArr int      `json:"dataArr"`
			Cols    []*mview `json:"cols"`
		} `json:"nodes"`
		Allocs []int    `json:"allocs"`
		Writes [][3]int `json:"writes"`
	}
	json.Unmarshal(mo, &mc)
	if len(rows2) != len(rows1) || len(mc.Nodes) != len(rows1) {
		c.mismatch(canon, len(rows2), len(mc.Nodes), "Tree.Copy: number of nodes")
		return nil
	}
	// the copy itself must leave the live tree alone
	if rep := g.changes(mc.Writes); rep.prop != "" {
		c.prop(canon, rep.prop, "Tree.Copy modified the live tree's sequences")
	}
	var snapshot []*kbuf
	for i, rw := range rows2 {
		if string(rw.key) != string(rows1[i].key) {
			c.mismatch(canon, string(rw.key), string(rows1[i].key), "Tree.Copy: walk order / keys")
			return nil
		}
		mcols := mc.Nodes[i].Cols
		if len(rw.data) != len(rows1[i].data) || len(mcols) != len(rw.data) {
			c.mismatch(canon, len(rw.data), len(mcols), "Tree.Copy: number of columns")
			return nil
		}
		// node.data: a slice of its own
		if len(rw.data) > 0 && &rw.data[0] == &rows1[i].data[0] {
			c.mismatch(canon, "shared data array", "own data array", "Tree.Copy: node.data is shared with the live tree")
			return nil
		}
		// every copied sequence: outside every live buffer, at the predicted offset from the
		// node's first sequence, cap = len
		var first encoding.Sequence
		size := 0
		for j, s := range rw.data {
			mv := mcols[j]
			if (s == nil) != (mv == nil) {
				c.mismatch(canon, describe(g, s), mv, "Tree.Copy: nil-ness of a column")
				return nil
			}
			if s == nil {
				continue
			}
			if kb, _ := g.locate(s); kb != nil {
				c.mismatch(canon, describe(g, s), mv, "Tree.Copy: model predicts a fresh buffer, the copy's sequence aliases the live tree")
				return nil
			}
			if len(s) != mv.Len || cap(s) != mv.Cap {
				c.mismatch(canon, describe(g, s), mv, "Tree.Copy: len / cap of a copied sequence")
				return nil
			}
			if cap(s) == 0 {
				continue
			}
			if first == nil {
				first = s
				if mv.Off != 0 {
					c.mismatch(canon, describe(g, s), mv, "Tree.Copy: the node's first sequence is not at offset 0")
					return nil
				}
			} else if addr(s) != addr(first)+uintptr(mv.Off) {
				c.mismatch(canon, int(addr(s)-addr(first)), mv, "Tree.Copy: offset of a copied sequence inside the node's buffer")
				return nil
			}
			if mv.Off+mv.Len > size {
				size = mv.Off + mv.Len
			}
			c.hit("tree:copy-owns-sequence")
		}
		if first != nil {
			// the sequences lie back to back: [first, first+size) is exactly their union
			arr := unsafe.Slice(unsafe.SliceData([]byte(first)), size)
			id := mcols[0].Buf
			for _, mv := range mcols {
				if mv != nil {
					id = mv.Buf
					break
				}
			}
			if id < nLive || g.byID(id) != nil {
				c.mismatch(canon, id, nLive, "Tree.Copy: model does not number the node's buffer as fresh")
				return nil
			}
			snapshot = append(snapshot, g.add(id, arr, false, true, fmt.Sprintf("snapshot of key %d", i)))
		}
		for j, s := range rw.data {
			if d, _ := g.geom(s, mcols[j]); d != "" {
				c.mismatch(canon, describe(g, s), mcols[j], "Tree.Copy: column view: "+d)
				return nil
			}
		}
	}
	g.snapAll()

	// group: second tree, fed from the copy
	t2 := bytetree.New(outEs, su.inEs, su.resn, su.otherRes, su.asOf, su.until, su.stride)
	sliceKey := func(key bytemap.ByteMap) bytemap.ByteMap {
		if groupBy == "" {
			return nil
		}
		v := key.Get(groupBy)
		if v == nil {
			return bytemap.FromSortedKeysAndValues(nil, nil)
		}
		return bytemap.FromSortedKeysAndValues([]string{groupBy}, []interface{}{v})
	}
	// model steps per (group key, out column)
	groupSteps := map[string][]interface{}{}
	var groupOrder []string
	var panicked interface{}
	for _, rw := range rows2 {
		key := bytemap.ByteMap(rw.key)
		gk := sliceKey(key)
		if _, ok := groupSteps[string(gk)]; !ok {
			groupOrder = append(groupOrder, string(gk))
		}
		mp := gen.Point{Dims: key.AsMap()}
		for i := range su.inEs {
			groupSteps[string(gk)] = append(groupSteps[string(gk)], map[string]interface{}{"i": i, "in": g.view(rw.data[i]), "pt": mp.JSON()})
		}
		if pn := hk.Recover(func() { t2.Update(gk, rw.data, nil, key) }); pn != nil {
			panicked = pn
			break
		}
	}
	if panicked != nil {
		c.mismatch(canon, fmt.Sprint(panicked), nil, "group-like Update panicked")
		return nil
	}
	// (i) the first tree's sequences: byte for byte, and still the same slices; the snapshot is
	// only read as well
	rep := g.changes(nil)
	if rep.prop != "" {
		c.prop(canon, rep.prop, "grouping from a Tree.Copy modified the live tree's sequences")
	}
	if rep.mismatch != "" {
		c.mismatch(canon, rep.mismatch, nil, "grouping wrote into the scan's snapshot")
	}
	rows1b := walk(t1)
	for i, rw := range rows1b {
		for j, s := range rw.data {
			o := liveHdr[i][j]
			if (s == nil) != (o == nil) || len(s) != len(o) || cap(s) != cap(o) || (cap(s) > 0 && addr(s) != addr(o)) {
				c.prop(canon, describe(g, s), "the live tree's column changed its geometry")
			}
		}
	}
	// (ii) the second tree's sequences: model fold per group and out column
	rows3 := walk(t2)
	byKey := map[string][]encoding.Sequence{}
	for _, rw := range rows3 {
		byKey[string(rw.key)] = rw.data
	}
	for _, gk := range groupOrder {
		data := byKey[gk]
		for o, outN := range outNodes {
			req := map[string]interface{}{"engine": "heap", "op": "submerge", "n": g.next, "e": outN.JSON(), "inExs": su.inJ,
				"out": nil, "res": fmt.Sprint(int64(su.resn)), "otherRes": fmt.Sprint(int64(su.otherRes)),
				"asof": tstr(su.asOf), "until": tstr(su.until), "stride": fmt.Sprint(int64(su.stride)), "steps": groupSteps[gk], "dedup": true}
			mo, err := c.call(req)
			if err != nil {
				return err
			}
			var m msub
			json.Unmarshal(mo, &m)
			var got encoding.Sequence
			if data != nil {
				got = data[o]
			}
			if kb, _ := g.locate(got); kb != nil {
				if kb.protected {
					c.prop(req, describe(g, got), "the out tree's sequence aliases the live tree's stored data")
				} else {
					c.mismatch(req, describe(g, got), m.Out, "the out tree's sequence aliases the scan's snapshot")
				}
				continue
			}
			for _, st := range m.Steps {
				if st == nil {
					continue
				}
				for _, w := range st.Eff.Writes {
					if kb := g.byID(w[0]); kb != nil && w[2] > 0 {
						c.mismatch(req, nil, st, "model predicts a write into the live tree or the snapshot")
					}
				}
			}
			if d, kind := g.geom(got, m.Out); d != "" {
				c.mismatch(req, describe(g, got), m.Out, "group tree column: "+d)
			} else {
				c.hit("tree:out-column-" + kind)
			}
		}
	}
	// (iii) the frame the other way: inserts into the live tree after the copy (in-place
	// UpdateValue of existing periods included) are not visible through the snapshot
	if len(snapshot) > 0 {
		g.snapAll()
		for i := 0; i < 3; i++ {
			k := r.Intn(len(keys))
			ts := anchor.Add(time.Duration(r.Range(-6, 2)) * su.otherRes)
			p := gen.GenPoint(r, fields)
			t1.Update(keys[k].key, nil, encoding.NewTSParams(ts, bytemap.NewFloat(p.Vals)), keys[k].key)
		}
		for _, kb := range snapshot {
			for x := range kb.arr {
				if kb.arr[x] != kb.snap[x] {
					ctx.Res.Disagree(hk.Disagreement{Kind: "property", Case: canon, Impl: fmt.Sprintf("buffer %d (%s) byte %d", kb.id, kb.name, x),
						Detail: "an insert into the live tree after Copy() is visible through the snapshot", PropertyFails: true, Prop: "C18", Index: idx})
					break
				}
			}
		}
		c.hit("tree:live-inserts-after-copy")
	}
	c.hit(fmt.Sprintf("tree:groups-%d", len(groupOrder)))
	if groupBy != "" {
		c.hit("tree:group-by-dim")
	}
	if len(rows2) > len(groupOrder) {
		c.hit("tree:several-rows-into-one-group")
	}
	return nil
}
