package robust

// Lexer-level stream.  sql.go's pre-scan (checkLiteralIdentifiers) and
// sqlparser's tokenizer are two lexers that must agree on what every character
// belongs to: if the pre-scan accepts an input, the tokenizer must terminate on
// it.  The stream places short sequences over the lexically significant alphabet
// at the token-start positions of a few skeleton queries — exhaustively up to a
// small length in the thorough tier, a seeded sample of lengths 1..12 in the
// quick tier — plus targeted families (literals ending in backslashes, escaped
// and doubled quotes, comment openers inside literals and the other way round,
// backticks inside literals / comments and the other way round, exponent signs
// and bind variables in front of "--"), each followed and not followed by an
// unterminated backtick.
//
// Oracles: (1) sql.Parse returns within the timeout and bounded memory (the
// stall oracle, in a child process with RLIMIT_AS); (2) lexer agreement: the
// pre-scan's verdict (did Parse fail with ErrUnterminatedIdentifier?) against the
// reference lexer (reflex.go), and the reference lexer against the REAL tokenizer
// run on the whole input in a child under a watchdog.

import (
	"encoding/json"
	"fmt"
	"strings"
	"time"

	"zvh/hk"
)

var lexAlphabet = []string{"'", "\"", "`", "\\", "--", "/*", "*/", "\n", "a", "e", "1", "0", " ", ";", "-", ".", ":", "/"}

// skeletons: %s is a position where a token can start
var lexSkeletons = []struct{ name, tmpl string }{
	{"select-list", "SELECT %s FROM t"},
	{"where", "SELECT a FROM t WHERE x = %s"},
	{"group-by", "SELECT a FROM t GROUP BY %s"},
	{"having", "SELECT a FROM t HAVING a > %s"},
	{"from-subquery", "SELECT a FROM ( SELECT b FROM t WHERE x = %s )"},
	{"in-subquery", "SELECT a FROM t WHERE y IN ( SELECT y FROM t WHERE x = %s )"},
}

// what may follow the sequence: nothing, or an unterminated backtick in various attachments
var lexTails = []string{"", " `c", " AND `c", "`c", "-`c", " `c` `", "\n`c"}

type lexCase struct {
	sql    string
	family string
}

func lexPlace(seq string, family string, skeletons []int, tails []string) []lexCase {
	var out []lexCase
	for _, k := range skeletons {
		sk := lexSkeletons[k]
		for _, tail := range tails {
			out = append(out, lexCase{sql: fmt.Sprintf(sk.tmpl, seq+tail), family: family + "@" + sk.name})
		}
	}
	return out
}

// targetedSeqs are the hand-picked families.
func targetedSeqs() [][2]string {
	var out [][2]string
	add := func(fam, s string) { out = append(out, [2]string{fam, s}) }
	for _, q := range []string{"'", "\""} {
		for _, body := range []string{"b", "", "b" + q + q, "b\\" + q, "/*", "--", "`", "b`c", "*/", "\n", "\\n", "b\\\\" + q + q} {
			for k := 0; k <= 4; k++ {
				add("literal-ending-in-backslashes", q+body+strings.Repeat("\\", k)+q)
			}
		}
		add("escaped-quote", q+"a\\"+q+"b"+q)
		add("escaped-quote", q+"\\"+q+q)
		add("escaped-quote", q+"\\"+q)
		add("doubled-quote", q+q+q+q)
		add("doubled-quote", q+"a"+q+q+"b"+q)
		add("doubled-quote", q+q+q)
		add("doubled-quote", q+"a"+q+q)
		add("other-quote-inside", q+"a"+map[string]string{"'": "\"", "\"": "'"}[q]+"b"+q)
		add("comment-opener-in-literal", q+"/*"+q)
		add("comment-opener-in-literal", q+"-- "+q)
		add("comment-opener-in-literal", q+"//"+q)
		add("comment-opener-in-literal", q+"/*"+q+" */")
		add("literal-in-comment", "/* "+q+" */")
		add("literal-in-comment", "/* "+q+" */ "+q)
		add("literal-in-comment", "-- "+q+"\n")
		add("literal-in-comment", "-- "+q)
		add("literal-in-comment", "// "+q+"\n 1")
		add("backtick-in-literal", q+"`"+q)
		add("backtick-in-literal", q+"a`b`c"+q)
		add("literal-in-backticks", "`a"+q+"b`")
		add("literal-in-backticks", "`"+q+"`")
		add("literal-in-backticks", "`"+q+"` "+q)
	}
	for _, s := range []string{"/* ` */", "/* ` */ 1", "/*`*/`a`", "-- `\n1", "-- `", "// `\n1", "/**/", "/***/", "/*/", "/* */ */", "/*", "/* *", "--", "--\n", "-", "/", "//", "/ /", "- -", "/ *", "* /"} {
		add("backtick-in-comment", s)
	}
	for _, s := range []string{"``", "```", "````", "`a`", "`a``b`", "``a`", "`a` `b`", "`--`", "`/*`", "`\\`", "`\n`", "` `", "`a`.`b`", "`a`.*", "`", "`a", "a`", "`a`b"} {
		add("backticks", s)
	}
	for _, num := range []string{"1e", "1E", "1e-", "1e+", "1e--", "1e+-", "1e-+", ".5e", ".5e-", "1.e-", "1.5e-", "0e-", "00e-", "08", "08e-", "09.e-", "0x1e", "0x1e-", "0xe-", "0x", "1e1e-", "1e-1e-", "1.2.3e-", "e-", "a1e-", "_1e-", "@1e-", "1a", "1e-a", "1..e-", "1 e-", "1e -"} {
		add("number-then-minus", num)
		add("number-then-minus", num+"-")
		add("number-then-minus", num+"--")
		add("number-then-minus", num+"/*")
	}
	for _, bv := range []string{":a", ":a.5e-", "::a.5e-", ":a1e-", ":", "::", ":1", ":a.", ":a..5e-", ":_", ":@a.b", ": a", ":a:b"} {
		add("bindvar-then-minus", bv)
		add("bindvar-then-minus", bv+"-")
		add("bindvar-then-minus", bv+"--")
	}
	for _, op := range []string{"<", "<=", "<=>", "<>", ">", ">=", "!", "!=", "!-", "<-", "<=-", "?", "~", "^", "\x00", "\x00\x00", "\f", "\xff", "$", "#", "{", "[", "\\"} {
		add("operators", op)
		add("operators", op+"-")
		add("operators", op+"--")
	}
	return out
}

// lexCases builds the stream.
func lexCases(full bool, seed uint64, n int) []lexCase {
	var out []lexCase
	allSk := []int{0, 1, 2, 3, 4, 5}
	// targeted families: every sequence at the WHERE position with every tail, and (quick: one
	// other skeleton rotating with the seed; thorough: all skeletons) with two tails
	for i, fs := range targetedSeqs() {
		out = append(out, lexPlace(fs[1], fs[0], []int{1}, lexTails)...)
		if full {
			out = append(out, lexPlace(fs[1], fs[0], []int{0, 2, 3, 4, 5}, []string{"", " `c"})...)
		} else if i%5 == int(seed%5) {
			out = append(out, lexPlace(fs[1], fs[0], []int{int(seed+uint64(i)) % 6}, []string{"", " `c"})...)
		}
	}
	if full {
		// exhaustive: all sequences of length ≤ 3 at every position, followed and not followed by an
		// unterminated backtick; length 4 at the WHERE position
		var rec func(prefix string, depth int, max int, sks []int)
		rec = func(prefix string, depth int, max int, sks []int) {
			if depth > 0 {
				out = append(out, lexPlace(prefix, fmt.Sprintf("exhaustive-%d", depth), sks, []string{"", " `c"})...)
			}
			if depth == max {
				return
			}
			for _, a := range lexAlphabet {
				rec(prefix+a, depth+1, max, sks)
			}
		}
		rec("", 0, 3, allSk)
		var rec4 func(prefix string, depth int)
		rec4 = func(prefix string, depth int) {
			if depth == 4 {
				out = append(out, lexPlace(prefix, "exhaustive-4", []int{1}, []string{" `c"})...)
				return
			}
			for _, a := range lexAlphabet {
				rec4(prefix+a, depth+1)
			}
		}
		rec4("", 0)
	}
	// seeded sample: lengths 1..12
	for i := 0; i < n; i++ {
		r := hk.Derive(seed^0x1e8, uint64(i))
		l := r.Range(1, 12)
		var sb strings.Builder
		for j := 0; j < l; j++ {
			sb.WriteString(hk.Pick(r, lexAlphabet))
		}
		out = append(out, lexPlace(sb.String(), fmt.Sprintf("sampled-%d", (l+3)/4*4), []int{r.Intn(6)}, []string{hk.Pick(r, lexTails)})...)
	}
	return out
}

// ---------------------------------------------------------------- oracle

// lexCaseRun checks one input of the lexer stream.
func (r *runner) lexCaseRun(c lexCase, idx uint64) {
	res := r.res
	s := c.sql
	canon := J{"stream": "lex", "sql": s}
	loops, _ := refLex(s)
	res.Count(canon, strings.ContainsAny(s, "'\"`\\") || strings.Contains(s, "--") || strings.Contains(s, "/*"))
	res.Hit("lex-family:" + strings.SplitN(c.family, "@", 2)[0])
	if loops {
		res.Hit("lex-ref:tokenizer-would-loop")
	} else {
		res.Hit("lex-ref:terminates")
	}
	// ---- the Lean model of the two lexers (Model/SqlLex.lean: tokAll, preAll) on the same bytes
	modelPre := ""
	if r.ctx.Model != nil {
		bytes := make([]int, len(s))
		for i := 0; i < len(s); i++ {
			bytes[i] = int(s[i])
		}
		out, err := r.ctx.Model.Call(J{"engine": "robust", "op": "lex", "bytes": bytes})
		var m struct{ Tok, Pre string }
		if err == nil {
			err = json.Unmarshal(out, &m)
		}
		if err != nil {
			res.Disagree(hk.Disagreement{Kind: "model-vs-impl", Index: idx, Case: canon, Detail: "model cannot evaluate lex: " + err.Error()})
			return
		}
		res.Hit("lex-model:" + m.Tok + "/" + m.Pre)
		if (m.Tok == "loops") != loops || (m.Tok != "loops" && m.Tok != "ends") {
			res.Disagree(hk.Disagreement{Kind: "model-vs-impl", Index: idx, Case: canon, Model: m, Impl: J{"reference_lexer_loops": loops},
				Detail: "the model's tokenizer (tokAll) and the reference port of token.go disagree"})
			return
		}
		modelPre = m.Pre
	}
	// ---- the reference lexer against the real tokenizer
	if !loops {
		v, ok := r.realLex(s, false)
		if ok && !v.Terminated {
			// once more with more time before the reference is declared wrong
			v, ok = r.realLex(s, true)
		}
		if ok && !v.Terminated {
			res.Disagree(hk.Disagreement{Kind: "model-vs-impl", Index: idx, Case: canon,
				Detail: "reference lexer says the tokenizer terminates, the real sqlparser tokenizer does not"})
			return
		}
	} else if r.realLoopBudget > 0 {
		// a few confirmations that the real tokenizer really loops where the reference says so
		r.realLoopBudget--
		if v, ok := r.realLex(s, false); ok && v.Terminated {
			res.Disagree(hk.Disagreement{Kind: "model-vs-impl", Index: idx, Case: canon,
				Detail: "reference lexer says the tokenizer loops, the real sqlparser tokenizer terminates"})
			return
		}
		res.Hit("lex-real:loop-confirmed")
	}
	// ---- the implementation: sql.Parse under the stall oracle
	o := r.parseOnly(s)
	if o == nil {
		return
	}
	for name, sr := range map[string]stageResult{"parse": o.Parse, "tablefor": o.TableFor, "fields": o.Fields} {
		res.Hit("lex-" + name + ":" + sr.Class)
	}
	if stage, sr, bad := o.worst(); bad {
		min := s
		if sr.Class == clsPanic {
			min = r.shrinkLex(s, stage, sr)
		} else if sr.Class == clsHang {
			min = r.shrinkLexHang(s)
		}
		res.Disagree(hk.Disagreement{Kind: "property", PropertyFails: true, Index: idx,
			Case: J{"stream": "lex", "sql": min}, Impl: o,
			Detail: fmt.Sprintf("%s: %s at %s", stage, sr.Class, siteLabel(sr))})
		if sr.Class == clsHang {
			r.hangs++
			if r.hangs >= 2 {
				r.aborted = "two inputs made a stage hang (see the property failures); the remaining cases were not run"
			}
		}
		return
	}
	// ---- lexer agreement
	rejected := o.Parse.Prescan == "rejected"
	if o.Parse.Prescan != "" {
		res.Hit("lex-prescan:" + o.Parse.Prescan)
	}
	switch {
	case modelPre != "" && (modelPre == "rejects") != rejected:
		res.Disagree(hk.Disagreement{Kind: "model-vs-impl", Index: idx, Case: canon, Impl: o.Parse, Model: J{"pre": modelPre},
			Detail: "checkLiteralIdentifiers and its model (preAll) give different verdicts" + map[bool]string{true: ": pre-scan accepts an input on which the tokenizer would loop", false: ": pre-scan rejects an input the tokenizer handles"}[loops]})
	case loops && !rejected:
		// the parser stopped before the tokenizer reached the open identifier (else Parse would
		// have hung): still, the pre-scan accepted an input on which tokenizing does not terminate
		res.Disagree(hk.Disagreement{Kind: "model-vs-impl", Index: idx, Case: canon, Impl: o.Parse,
			Model:  "pre-scan must reject: tokenizing the whole input never terminates",
			Detail: "pre-scan accepts an input on which the tokenizer would loop"})
	case !loops && rejected:
		res.Disagree(hk.Disagreement{Kind: "model-vs-impl", Index: idx, Case: canon, Impl: o.Parse,
			Model:  "pre-scan must accept: the tokenizer terminates on the whole input",
			Detail: "pre-scan rejects an input the tokenizer handles"})
	}
}

// realLex runs the real sqlparser tokenizer on the whole input in the lexer child.
func (r *runner) realLex(s string, slow bool) (*lexVerdict, bool) {
	cr, err := r.lx.call(&childReq{Op: "lex", SQL: s, Slow: slow}, 30*time.Second)
	if err != nil || cr.Crashed || cr.Hung || cr.Resp.Lex == nil {
		r.res.Hit("lex-real:inconclusive")
		return nil, false
	}
	if !cr.Resp.Lex.Terminated && r.lx.c != nil {
		r.lx.c.kill() // it has exited by itself; forget it
		r.lx.c = nil
	}
	return cr.Resp.Lex, true
}

// parseOnly runs sql.Parse / TableFor / Fields.Get in the lexer child with the timeout + retry discipline.
func (r *runner) parseOnly(s string) *sqlOutcome {
	call := func(slow bool) (*sqlOutcome, bool) {
		cr, err := r.lx.call(&childReq{Op: "parseonly", SQL: s, Slow: slow}, 120*time.Second)
		switch {
		case err != nil:
			return nil, false
		case cr.Crashed:
			skipped := stageResult{Class: clsSkip}
			return &sqlOutcome{Parse: stageResult{Class: clsPanic, Msg: "process died: " + cr.Msg, Site: cr.Site, Inner: "process"},
				TableFor: skipped, Fields: skipped, Plan: skipped, Cluster: skipped, Query: skipped}, true
		case cr.Hung || cr.Resp.Pure == nil:
			return nil, false
		}
		o := cr.Resp.Pure
		if _, st, bad := o.worst(); bad && st.Class == clsHang && r.lx.c != nil {
			r.lx.c.kill()
			r.lx.c = nil
		}
		return o, true
	}
	o, ok := call(false)
	if ok {
		if _, st, bad := o.worst(); bad && st.Class == clsHang {
			r.res.Hit("retry-after-timeout")
			o, ok = call(true)
		}
	}
	if !ok {
		r.res.Inconclusive++
		return nil
	}
	return o
}

// shrinkLex deletes characters while the same stage still panics at the same site.
func (r *runner) shrinkLex(s string, stage string, sr stageResult) string {
	still := func(cand string) bool {
		o := r.parseOnly(cand)
		if o == nil {
			return false
		}
		c := o.stages()[stage]
		return c.Class == clsPanic && c.Site == sr.Site
	}
	return ddminBytes(s, still, 200)
}

// shrinkLexHang minimises an input that makes sql.Parse hang.  Running the implementation
// costs a timeout per attempt, so candidates are first filtered with the reference lexer
// (the tokenizer must still loop on them) and only few are tried for real (first timeout only).
func (r *runner) shrinkLexHang(s string) string {
	budget := 6
	still := func(cand string) bool {
		if loops, _ := refLex(cand); !loops || budget <= 0 {
			return false
		}
		budget--
		cr, err := r.lx.call(&childReq{Op: "parseonly", SQL: cand}, 60*time.Second)
		if err != nil || cr.Crashed || cr.Hung || cr.Resp.Pure == nil {
			return false
		}
		hung := cr.Resp.Pure.Parse.Class == clsHang
		if hung && r.lx.c != nil {
			r.lx.c.kill()
			r.lx.c = nil
		}
		return hung
	}
	return ddminBytes(s, still, 60)
}

// ddminBytes removes chunks of bytes, halving the chunk size, while still(candidate) holds.
func ddminBytes(s string, still func(string) bool, budget int) string {
	for size := len(s) / 2; size >= 1 && budget > 0; size /= 2 {
		for changed := true; changed && budget > 0; {
			changed = false
			for i := 0; i+size <= len(s) && budget > 0; {
				cand := s[:i] + s[i+size:]
				budget--
				if len(cand) > 0 && still(cand) {
					s = cand
					changed = true
				} else {
					i++
				}
			}
		}
	}
	return s
}
