// Package robust is the correspondence engine for C16 (malformed client input
// yields an error, never a crash or a stalled pipeline).
//
// SQL stream: grammar-aware generation and mutation of queries, hostile
// statements, wrong arities/argument kinds for every function of sql.go's
// dispatch tables → sql.Parse, sql.TableFor, Fields.Get, planner.Plan (mock
// table, mock cluster) in-process under hk.Recover with timeouts, and the query
// through the gRPC front end of a real database in a child process.  The
// outcome class of Parse/TableFor/Fields.Get must be one of the classes the
// Lean model allows for the AST summary (extracted with sqlparser itself).
//
// Insert stream: payload scripts over the Go/JSON value universe and garbled
// byte maps through DB.Insert, DB.InsertRaw, the web /insert handler and the
// gRPC inserter of a real database in the child process, interleaved with valid
// marker points whose arrival is verified by a query; compared with the model's
// rejected / skipped / ingested verdicts and point count.
//
// Property oracle (implementation only): any recovered panic in zenodb code,
// any hang, any death of the database process, any valid point missing.
package robust

import (
	"encoding/json"
	"fmt"
	"os"
	"path/filepath"
	"sort"
	"strings"
	"time"

	"github.com/getlantern/bytemap"

	"zvh/hk"
)

type Engine struct{}

const luaFinding = "C16-lua-lock-leak"

type runner struct {
	ctx            *hk.RunCtx
	res            *hk.Result
	db             *dbProc
	aborted        string // set when the process can no longer be trusted (a goroutine is spinning)
	known          map[string]bool
	ids            int
	hangs          int
	lx             *dbProc // a second child, for the lexer stream (real tokenizer under a watchdog, parse-only runs)
	realLoopBudget int
}

func (Engine) Run(ctx *hk.RunCtx) error {
	if ctx.Mode == "child" {
		return childMain()
	}
	reset := quietLogs()
	defer reset()
	// zenodb prints debugging text with fmt.Printf
	stdout := os.Stdout
	if devnull, err := os.OpenFile(os.DevNull, os.O_WRONLY, 0); err == nil {
		os.Stdout = devnull
		defer func() { os.Stdout = stdout; devnull.Close() }()
	}
	r := &runner{ctx: ctx, res: ctx.Res, db: &dbProc{}, lx: &dbProc{}, known: loadKnown(), ids: 1000, realLoopBudget: 2}
	defer r.db.close()
	defer r.lx.close()
	r.res.Rule = "SQL strings (fixed hostile list, sign/magnitude matrix of every numeric and duration parameter in four clause contexts, arity/argument-kind matrix for every dispatch-table function, generated queries and their token mutations; lexer level: sequences over quote, backslash, comment, number and bind-variable symbols at every token start of six skeleton queries, each with and without an open backtick identifier behind it, judged by sql.Parse returning in time and by the pre-scan agreeing with the real tokenizer, a reference port and the Lean model) and insert scripts; distinct by canonical case JSON; non-trivial = sqlparser accepts the string (the dispatch in sql.go is reached) resp. the script contains at least one bad payload"
	if ctx.Model == nil {
		r.res.Note("running without the model: property oracle only")
	}
	if ctx.Replay != "" {
		return r.replay(ctx.Replay, "replay")
	}
	if ctx.Corpus != "" {
		files, _ := filepath.Glob(filepath.Join(ctx.Corpus, "*.json"))
		sort.Strings(files)
		for _, f := range files {
			if r.aborted != "" {
				break
			}
			if err := r.replay(f, "corpus"); err != nil {
				r.res.Note("corpus %s: %v", filepath.Base(f), err)
			}
			r.res.Hit("corpus")
		}
	}
	idx := uint64(0)
	next := func() uint64 { idx++; return idx }
	phaseStart, phaseName := time.Now(), "corpus"
	phase := func(name string) {
		r.res.Note("phase %s: %.1fs", phaseName, time.Since(phaseStart).Seconds())
		phaseStart, phaseName = time.Now(), name
	}
	defer phase("")
	// ---- SQL stream
	phase("hostile")
	for _, s := range NonSelect() {
		if r.aborted != "" {
			break
		}
		r.sqlCase(s, "hostile", next())
	}
	// lexer-level stream: the pre-scan and the tokenizer must agree
	phase("lexer")
	nLex := ctx.N
	for _, c := range lexCases(ctx.Tier != "quick", ctx.Seed, nLex) {
		if r.aborted != "" {
			break
		}
		r.lexCaseRun(c, next())
	}
	// sign / magnitude matrix of every numeric and duration parameter
	phase("numeric")
	for _, c := range numericCases(ctx.Tier != "quick", ctx.Seed) {
		if r.aborted != "" {
			break
		}
		r.res.Hit("numeric-slot:" + c.slot)
		r.res.Hit("numeric-context:" + c.context)
		r.numericCase(c, next())
	}
	// every function of the dispatch tables × arity × argument kind × clause; the quick tier
	// runs a third of its (smaller) matrix per run, rotating with the seed
	phase("arity")
	matrix := arityCases(ctx.Tier != "quick")
	stride, offset := 1, 0
	if ctx.Tier == "quick" {
		stride, offset = 3, int(ctx.Seed%3)
	}
	for i, s := range matrix {
		if r.aborted != "" {
			break
		}
		if i%stride != offset {
			continue
		}
		r.sqlCase(s, "arity", next())
	}
	phase("generated")
	for i := 0; i < ctx.N && r.aborted == ""; i++ {
		g := &sqlGen{r: hk.Derive(ctx.Seed, uint64(i))}
		t := g.selectStmt(g.r.Range(0, 3), false)
		r.sqlCase(t.String(), "generated", next())
		if r.aborted != "" {
			break
		}
		m, kinds := g.mutate(t)
		for _, k := range strings.Split(strings.TrimSuffix(kinds, ","), ",") {
			r.res.Hit("mutation:" + k)
		}
		r.sqlCase(m.String(), "mutated", next())
		if i%4 == 0 && r.aborted == "" {
			// truncation at a token boundary
			cut := g.r.Intn(len(t) + 1)
			r.sqlCase(t[:cut].String(), "truncated", next())
		}
		if i%25 == 0 && r.aborted == "" {
			r.sqlCase(g.deepNest().String(), "nested", next())
		}
	}
	// ---- insert stream
	phase("insert")
	nScripts := ctx.N / 10
	if nScripts < 20 {
		nScripts = 20
	}
	for i := 0; i < nScripts && r.aborted == ""; i++ {
		rng := hk.Derive(ctx.Seed^0x5eed, uint64(i))
		sc := genScript(rng, &r.ids)
		r.insertCase(sc, next(), true)
	}
	// ---- known finding probe (third-party lock leak in goexpr/redis LUA)
	if r.aborted == "" {
		r.luaProbe()
	}
	if r.aborted != "" {
		r.res.Note("run stopped early: %s", r.aborted)
	}
	return nil
}

func loadKnown() map[string]bool {
	out := map[string]bool{}
	b, err := os.ReadFile(os.Getenv("ZV_KNOWN"))
	if err != nil {
		return out
	}
	var kf struct {
		Known []struct {
			ID string `json:"id"`
		} `json:"known"`
	}
	if json.Unmarshal(b, &kf) == nil {
		for _, k := range kf.Known {
			out[k.ID] = true
		}
	}
	return out
}

// replay runs a corpus / replay file: either a bare case or check.py's replay
// wrapper with the case under "case".
func (r *runner) replay(path string, origin string) error {
	b, err := os.ReadFile(path)
	if err != nil {
		return err
	}
	var wrap struct {
		Case json.RawMessage `json:"case"`
	}
	raw := json.RawMessage(b)
	if json.Unmarshal(b, &wrap) == nil && len(wrap.Case) > 0 && string(wrap.Case) != "null" {
		raw = wrap.Case
	}
	var c struct {
		Stream string        `json:"stream"`
		SQL    *string       `json:"sql"`
		Script *insertScript `json:"script"`
	}
	if err := json.Unmarshal(raw, &c); err != nil {
		return err
	}
	switch {
	case c.SQL != nil && c.Stream == "lex":
		r.lexCaseRun(lexCase{sql: *c.SQL, family: "replay"}, 0)
	case c.SQL != nil:
		r.sqlCase(*c.SQL, origin, 0)
	case c.Script != nil:
		r.insertCase(c.Script, 0, origin == "corpus")
	default:
		return fmt.Errorf("%s: neither an sql nor a script case", path)
	}
	return nil
}

// ---------------------------------------------------------------- SQL cases

// runSQL executes all stages of one SQL string in the database process (the
// child): sql.Parse, sql.TableFor, Fields.Get, planner.Plan + iteration against
// the mock table (locally and as cluster leader) and the query through the gRPC
// front end of a real database.  A stage that does not answer in time is run
// once more in a fresh process with four times the time before it counts as a
// hang.  (withDB is kept for the callers' readability: everything runs there.)
func (r *runner) runSQL(s string, withDB bool) *sqlOutcome {
	skipped := stageResult{Class: clsSkip}
	o := &sqlOutcome{Parse: skipped, TableFor: skipped, Fields: skipped, Plan: skipped, Cluster: skipped, Query: skipped}
	skip := func(msg string) stageResult { return stageResult{Class: clsSkip, Msg: msg} }
	cr, err := r.db.call(&childReq{Op: "query", SQL: s}, 90*time.Second)
	timedOut := func() bool {
		if err != nil || cr.Crashed {
			return false
		}
		if cr.Hung {
			return true
		}
		sts := []*stageResult{cr.Resp.Plan, cr.Resp.Cluster, cr.Resp.Query}
		if cr.Resp.Pure != nil {
			sts = append(sts, &cr.Resp.Pure.Parse, &cr.Resp.Pure.TableFor, &cr.Resp.Pure.Fields)
		}
		for _, st := range sts {
			if st != nil && st.Class == clsHang {
				return true
			}
		}
		return false
	}
	if timedOut() {
		// slow or stuck?  once more in a fresh process with four times the time
		r.res.Hit("retry-after-timeout")
		r.dropChild()
		cr, err = r.db.call(&childReq{Op: "query", SQL: s, Slow: true}, 360*time.Second)
	}
	switch {
	case err != nil:
		r.res.Inconclusive++
		o.Query = skip("child: " + err.Error())
	case cr.Crashed:
		o.Query = stageResult{Class: clsPanic, Msg: "database process died: " + cr.Msg, Site: cr.Site, Inner: "process"}
	case cr.Hung:
		o.Query = stageResult{Class: clsHang, Msg: cr.Msg, Inner: "process"}
	case cr.Resp.Err != "":
		r.res.Inconclusive++
		o.Query = skip("child: " + cr.Resp.Err)
	default:
		if cr.Resp.Pure != nil {
			o.Parse, o.TableFor, o.Fields = cr.Resp.Pure.Parse, cr.Resp.Pure.TableFor, cr.Resp.Pure.Fields
		}
		if cr.Resp.Plan != nil {
			o.Plan = *cr.Resp.Plan
		}
		if cr.Resp.Cluster != nil {
			o.Cluster = *cr.Resp.Cluster
		}
		if cr.Resp.Query != nil {
			o.Query = *cr.Resp.Query
		}
		if cr.Resp.Fatal != "" {
			o.Query = stageResult{Class: clsPanic, Msg: "process-fatal error (DB.Panic): " + cr.Resp.Fatal, Site: "DB.Panic", Inner: "process"}
		}
		if _, st, bad := o.worst(); bad && st.Class == clsHang {
			// a goroutine of the child is stuck: start from a fresh process
			r.dropChild()
		}
	}
	return o
}

func (r *runner) dropChild() {
	if r.db.c != nil {
		r.db.c.kill()
		r.db.c = nil
	}
}

func inSet(cls string, set []string) bool {
	for _, c := range set {
		if c == cls {
			return true
		}
	}
	return false
}

var knownFieldsJSON = []interface{}{
	[]interface{}{"_points", false}, []interface{}{"a", false}, []interface{}{"b", false}, []interface{}{"p", true},
}

func (r *runner) sqlCase(s string, origin string, idx uint64) {
	r.sqlCaseOutcome(s, origin, idx)
}

// sqlCaseOutcome runs one SQL string through all stages and oracles and returns the
// implementation's outcome (nil when the case ended in a property failure).
func (r *runner) sqlCaseOutcome(s string, origin string, idx uint64) *sqlOutcome {
	res := r.res
	st, parsed := libParse(s)
	canon := J{"stream": "sql", "sql": s}
	res.Count(canon, parsed)
	res.Hit("origin:" + origin)
	if parsed {
		kind, depth := astStats(st)
		res.Hit("stmt:" + kind)
		switch {
		case depth >= 12:
			res.Hit("depth:12+")
		case depth >= 6:
			res.Hit("depth:6-11")
		default:
			res.Hit("depth:0-5")
		}
	} else {
		res.Hit("stmt:unparsable")
	}
	t0 := time.Now()
	o := r.runSQL(s, true)
	if d := time.Since(t0); d > 2*time.Second {
		res.Hit("slow-case(>2s)")
		if os.Getenv("ZVH_TRACE") != "" {
			fmt.Fprintf(os.Stderr, "slow %.1fs %q %+v\n", d.Seconds(), s, *o)
		}
	}
	for name, sr := range o.stages() {
		res.Hit(name + ":" + sr.Class)
		if sr.thirdPartyEval() {
			res.Hit(name + ":third-party-eval-panic")
		}
	}
	// ---- property oracle, implementation only
	if stage, sr, bad := o.worst(); bad {
		min := s
		if sr.Class == clsPanic && origin != "replay" {
			min = r.shrinkSQL(s, stage, sr)
		}
		res.Disagree(hk.Disagreement{Kind: "property", PropertyFails: true, Index: idx,
			Case:   J{"stream": "sql", "sql": min},
			Impl:   r.runSQLIfSafe(min, sr, o),
			Detail: fmt.Sprintf("%s: %s at %s", stage, sr.Class, siteLabel(sr)),
		})
		if sr.Class == clsHang {
			// every confirmed hang costs two timeouts and a database process: two of them are
			// verdict enough, the rest of the run would mostly wait
			r.hangs++
			if r.hangs >= 2 {
				r.aborted = "two inputs made a stage hang (see the property failures); the remaining cases were not run"
			}
		}
		return nil
	}
	// ---- resource oracle: the size of what a query makes the server build must stay within a
	// generous multiple of the code's own cap
	if stage, sr, big := r.oversized(s, o); big {
		bound, capText := sizeBound(s)
		res.Disagree(hk.Disagreement{Kind: "property", PropertyFails: true, Index: idx,
			Case: J{"stream": "sql", "sql": s}, Impl: o,
			Detail: fmt.Sprintf("unbounded work from client-controlled parameter: %s produced %s fields (bound %d; %s)", stage, magnitude(sr.N), bound, capText),
		})
		return nil
	}
	// ---- model vs implementation
	if r.ctx.Model == nil {
		return o
	}
	if !parsed {
		// sqlparser rejects the text (or would not terminate on it): every entry point must return an error
		for _, p := range []struct {
			name string
			sr   stageResult
		}{{"parse", o.Parse}, {"tablefor", o.TableFor}} {
			if p.sr.Class != clsError {
				res.Disagree(hk.Disagreement{Kind: "model-vs-impl", Index: idx, Case: canon, Impl: p.sr, Model: []string{clsError},
					Detail: p.name + " of a string sqlparser rejects"})
			}
		}
		return o
	}
	req := J{"engine": "robust", "op": "parse", "stmt": sumStmt(st), "known": knownFieldsJSON}
	out, err := r.ctx.Model.Call(req)
	if err != nil {
		res.Disagree(hk.Disagreement{Kind: "model-vs-impl", Index: idx, Case: canon, Detail: "model cannot evaluate the summary: " + err.Error()})
		return o
	}
	var m struct {
		WF         bool     `json:"wf"`
		Parse      []string `json:"parse"`
		TableFor   []string `json:"tablefor"`
		Fields     []string `json:"fields"`
		OrigPanics bool     `json:"origPanics"`
	}
	if err := json.Unmarshal(out, &m); err != nil {
		res.Disagree(hk.Disagreement{Kind: "model-vs-impl", Index: idx, Case: canon, Detail: "bad model reply"})
		return o
	}
	if m.OrigPanics {
		res.Hit("model:panics-before-fixes")
	}
	if len(m.Parse) == 1 {
		res.Hit("model:parse-determined")
	} else {
		res.Hit("model:parse-either")
	}
	if !m.WF {
		res.Disagree(hk.Disagreement{Kind: "model-vs-impl", Index: idx, Case: canon, Model: m,
			Detail: "sqlparser produced an AST that violates the grammar invariants the theorems assume"})
	}
	check := func(name string, sr stageResult, set []string) {
		if sr.Class == clsSkip {
			return
		}
		if !inSet(sr.Class, set) {
			res.Disagree(hk.Disagreement{Kind: "model-vs-impl", Index: idx, Case: J{"stream": "sql", "sql": s, "summary": req["stmt"]},
				Impl: sr, Model: set, Detail: name + " outcome class"})
		}
	}
	check("parse", o.Parse, m.Parse)
	check("tablefor", o.TableFor, m.TableFor)
	if o.Parse.Class == clsOK {
		check("fields", o.Fields, m.Fields)
	}
	return o
}

// oversized: does a stage report more fields than sizeBound allows?
func (r *runner) oversized(s string, o *sqlOutcome) (string, stageResult, bool) {
	bound, _ := sizeBound(s)
	st := o.stages()
	for _, n := range stageOrder {
		if st[n].N > bound {
			return n, st[n], true
		}
	}
	return "", stageResult{}, false
}

// magnitude keeps the detail line (by which disagreements are grouped) stable.
func magnitude(n int) string {
	switch {
	case n >= 1000000:
		return "over 1e6"
	case n >= 100000:
		return "over 1e5"
	case n >= 10000:
		return "over 1e4"
	}
	return "over " + fmt.Sprint(n/1000*1000)
}

// numericCase runs one case of the numeric matrix: the general oracles of sqlCase, and for a
// query that is nothing but one CROSSHIFT the exact number of fields the model predicts.
func (r *runner) numericCase(c numCase, idx uint64) {
	before := r.res.NDisagreements
	o := r.sqlCaseOutcome(c.sql, "numeric", idx)
	if o == nil || r.ctx.Model == nil || !c.pureCrosshift || r.res.NDisagreements != before {
		return
	}
	cOk, cNs := durationFacts(c.cutoff)
	iOk, iNs := durationFacts(c.interval)
	if !cOk || !iOk {
		return
	}
	req := J{"engine": "robust", "op": "crosshift", "cutoff": fmt.Sprint(cNs), "interval": fmt.Sprint(iNs)}
	out, err := r.ctx.Model.Call(req)
	if err != nil {
		r.res.Disagree(hk.Disagreement{Kind: "model-vs-impl", Index: idx, Case: J{"stream": "sql", "sql": c.sql}, Detail: "model cannot evaluate crosshift: " + err.Error()})
		return
	}
	var m struct {
		Outcome string `json:"outcome"` // error | fields | diverges | wraps
		N       int    `json:"n"`
	}
	json.Unmarshal(out, &m)
	r.res.Hit("model-crosshift:" + m.Outcome)
	impl := J{"class": o.Fields.Class, "n": o.Fields.N}
	ok := (m.Outcome == "error" && o.Fields.Class == clsError) || (m.Outcome == "fields" && o.Fields.Class == clsOK && o.Fields.N == m.N)
	if !ok {
		r.res.Disagree(hk.Disagreement{Kind: "model-vs-impl", Index: idx, Case: J{"stream": "sql", "sql": c.sql, "cutoff_ns": cNs, "interval_ns": iNs},
			Impl: impl, Model: m, Detail: "number of fields a CROSSHIFT expands to"})
	}
}

func siteLabel(sr stageResult) string {
	if sr.Site != "" {
		return sr.Site
	}
	if sr.Inner != "" {
		return sr.Inner
	}
	return "?"
}

// runSQLIfSafe re-runs the minimised string to report its outcome (not after a hang).
func (r *runner) runSQLIfSafe(min string, sr stageResult, orig *sqlOutcome) interface{} {
	if sr.Class == clsHang || sr.Inner == "process" {
		return orig
	}
	return r.runSQL(min, true)
}

// shrinkSQL deletes tokens while the same stage still panics at the same site.
func (r *runner) shrinkSQL(s string, stage string, sr stageResult) string {
	still := func(cand string) bool {
		o := r.runSQL(cand, stage == "query" || stage == "plan" || stage == "cluster")
		c := o.stages()[stage]
		return c.Class == clsPanic && c.Site == sr.Site
	}
	t := tokenize(s)
	budget := 400
	if sr.Inner == "process" {
		budget = 40 // every successful attempt costs a database process
	}
	// delta debugging: remove chunks of tokens, halving the chunk size down to single tokens
	for size := len(t) / 2; size >= 1 && budget > 0; size /= 2 {
		for changed := true; changed && budget > 0; {
			changed = false
			for i := 0; i+size <= len(t) && budget > 0; {
				cand := append(append(toks{}, t[:i]...), t[i+size:]...)
				budget--
				if len(cand) > 0 && still(cand.String()) {
					t = cand
					changed = true
				} else {
					i++
				}
			}
		}
	}
	return t.String()
}

// ---------------------------------------------------------------- insert cases

func probeByteMap(bm bytemap.ByteMap) bool {
	bm = bm[:len(bm):len(bm)]
	return hk.Recover(func() {
		bm.Iterate(true, true, func(string, interface{}, []byte) bool { return true })
		bm.Split(nil)
	}) == nil
}

func decodeKinds(bm bytemap.ByteMap) []interface{} {
	out := []interface{}{}
	hk.Recover(func() {
		bm.IterateValues(func(k string, v interface{}) bool {
			out = append(out, valKind(v))
			return true
		})
	})
	return out
}

// modelPayload derives the payload class the model reasons about; frontReject
// is set when the web / gRPC front end refuses the request before DB.Insert.
func modelPayload(p *payload) (J, bool, bool) {
	stream := strings.TrimSpace(strings.ToLower(p.Stream))
	if p.Stream == "" {
		stream = "inbound"
	}
	out := J{"streamKnown": stream == "inbound", "follower": false, "fresh": p.TS != "old"}
	var dims, vals bytemap.ByteMap
	comparable := true
	frontReject := false
	switch p.Via {
	case "insert":
		dims, vals = bytemap.New(p.Dims.goMap()), bytemap.New(p.Vals.goMap())
		if p.TS == "zero" {
			out["fresh"] = false // time.Time{} is long before the retention window
		}
	case "rpc":
		dims, vals = bytemap.New(p.Dims.goMap()), bytemap.New(p.Vals.goMap())
		frontReject = len(dims) == 0 || len(vals) == 0
		if p.TS == "zero" {
			out["fresh"] = false // the client sends time.Time{}.UnixNano(), which is not 0: year 1, not "now"
		}
	case "raw":
		dims, vals = unhex(p.RawD), unhex(p.RawV)
		if p.TS == "zero" {
			out["fresh"] = false
		}
	case "rpcraw":
		dims, vals = unhex(p.RawD), unhex(p.RawV)
		frontReject = len(dims) == 0 || len(vals) == 0
	case "web":
		if p.Body != "" || p.Method != "" || p.CType != "" {
			return nil, false, false // raw request: property oracle only
		}
		// what the handler decodes from the JSON the client sent
		body := webBody(time.Now(), p.Dims.goMap(), p.Vals.goMap())
		var pt struct {
			Dims map[string]interface{} `json:"dims"`
			Vals map[string]interface{} `json:"vals"`
		}
		if err := json.Unmarshal([]byte(body), &pt); err != nil {
			frontReject = true
		} else {
			frontReject = len(pt.Dims) == 0 || len(pt.Vals) == 0
			dims, vals = bytemap.New(pt.Dims), bytemap.New(pt.Vals)
		}
		if stream != "inbound" && strings.ContainsAny(p.Stream, " /?#%") {
			comparable = false // the router, not zenodb, decides
		}
	}
	dv, vv := probeByteMap(dims), probeByteMap(vals)
	out["dimsValid"], out["valsValid"] = dv, vv
	if vv {
		out["vals"] = decodeKinds(vals)
	} else {
		out["vals"] = []interface{}{}
	}
	return out, frontReject, comparable
}

func (r *runner) insertCase(sc *insertScript, idx uint64, allowShrink bool) {
	res := r.res
	canon := J{"stream": "insert", "script": sc}
	nBad := 0
	for _, p := range sc.Steps {
		res.Hit("insert-via:" + p.Via)
		res.Hit("insert-label:" + p.Label)
		if p.Valid == 0 {
			nBad++
		}
	}
	res.Count(canon, nBad > 0)
	o, viol := r.runScript(sc)
	if o == nil && viol == "" {
		return // inconclusive
	}
	if viol != "" {
		min := sc
		if allowShrink && !strings.HasPrefix(viol, "hang") {
			min = r.shrinkScript(sc, viol)
		}
		res.Disagree(hk.Disagreement{Kind: "property", PropertyFails: true, Index: idx,
			Case: J{"stream": "insert", "script": min}, Impl: o, Detail: viol})
		return
	}
	if r.ctx.Model == nil {
		return
	}
	// ---- model vs implementation
	steps := []interface{}{}
	front := make([]bool, len(sc.Steps))
	comparable := true
	for i := range sc.Steps {
		mp, fr, cmp := modelPayload(&sc.Steps[i])
		if mp == nil || !cmp {
			comparable = false
			mp = J{"streamKnown": false} // placeholder, rejected
		}
		if fr {
			mp = J{"streamKnown": false}
		}
		front[i] = fr
		steps = append(steps, mp)
	}
	if !comparable {
		res.Hit("insert:not-compared(raw web request)")
		return
	}
	req := J{"engine": "robust", "op": "insert", "whitelist": true, "steps": steps}
	out, err := r.ctx.Model.Call(req)
	if err != nil {
		res.Disagree(hk.Disagreement{Kind: "model-vs-impl", Index: idx, Case: canon, Detail: "model cannot evaluate the script: " + err.Error()})
		return
	}
	var m struct {
		Steps []struct {
			Ack  string `json:"ack"`
			Then *struct {
				Fate string `json:"fate"`
				N    int    `json:"n"`
			} `json:"then"`
		} `json:"steps"`
		Points int  `json:"points"`
		Dead   bool `json:"dead"`
	}
	if err := json.Unmarshal(out, &m); err != nil || len(m.Steps) != len(sc.Steps) {
		res.Disagree(hk.Disagreement{Kind: "model-vs-impl", Index: idx, Case: canon, Detail: "bad model reply"})
		return
	}
	for i, ms := range m.Steps {
		want := clsOK
		if ms.Ack != "accepted" {
			want = clsError
		}
		fate := ms.Ack
		if ms.Then != nil {
			fate = ms.Then.Fate
		}
		res.Hit("model-insert:" + fate)
		if o.Steps[i].Ret != want {
			res.Disagree(hk.Disagreement{Kind: "model-vs-impl", Index: idx, Case: J{"stream": "insert", "script": sc, "step": i, "class": steps[i]},
				Impl: o.Steps[i], Model: ms, Detail: "insert acknowledgement (" + sc.Steps[i].Via + ")"})
		}
	}
	if o.Points != m.Points {
		res.Disagree(hk.Disagreement{Kind: "model-vs-impl", Index: idx, Case: J{"stream": "insert", "script": sc, "classes": steps},
			Impl: o.Points, Model: m.Points, Detail: "number of points ingested by the script"})
	}
}

// runScript executes a script in the database process and evaluates the
// property oracle; viol == "" means the property holds.
func (r *runner) runScript(sc *insertScript) (*insertOutcome, string) {
	slow := false
	for attempt := 0; ; attempt++ {
		timeout := 90 * time.Second
		if slow {
			timeout = 300 * time.Second
		}
		cr, err := r.db.call(&childReq{Op: "insert", Script: sc, Slow: slow}, timeout)
		if err == nil && !cr.Crashed && !slow && (cr.Hung || (cr.Resp.Insert != nil && cr.Resp.Insert.Hang)) {
			// slow or stuck?  once more in a fresh process with four times the time
			r.res.Hit("retry-after-timeout")
			if r.db.c != nil {
				r.db.c.kill()
				r.db.c = nil
			}
			slow = true
			continue
		}
		switch {
		case err != nil:
			r.res.Inconclusive++
			return nil, ""
		case cr.Crashed:
			return nil, "database process died: " + cr.Msg + " at " + cr.Site
		case cr.Hung:
			return nil, "hang: " + cr.Msg
		case cr.Resp.Err != "":
			if attempt < 2 {
				continue
			}
			r.res.Inconclusive++
			return nil, ""
		}
		o := cr.Resp.Insert
		if o.Infra != "" && !o.Hang {
			if attempt < 2 {
				continue
			}
			r.res.Inconclusive++
			return nil, ""
		}
		switch {
		case cr.Resp.Fatal != "":
			return o, "process-fatal error (DB.Panic): " + cr.Resp.Fatal
		case o.Hang:
			return o, "hang: a valid point inserted after the script never became visible (ingest pipeline stalled)"
		case len(o.Missing) > 0:
			return o, fmt.Sprintf("valid point(s) %v missing after the script", o.Missing)
		case o.Poisoned != "":
			return o, "stored data unreadable: " + trunc(o.Poisoned, 200)
		}
		for i, st := range o.Steps {
			if st.Ret == clsPanic {
				return o, fmt.Sprintf("%s panicked in the caller at %s: %s", sc.Steps[i].Via, st.Site, st.Msg)
			}
			if st.Ret == clsError && strings.HasPrefix(st.Msg, "transport:") {
				// the connection broke: the server side died handling the request
				return o, fmt.Sprintf("%s: server side failed: %s", sc.Steps[i].Via, st.Msg)
			}
		}
		return o, ""
	}
}

func violKey(v string) string {
	if i := strings.Index(v, ":"); i > 0 {
		return v[:i]
	}
	return v
}

func (r *runner) shrinkScript(sc *insertScript, viol string) *insertScript {
	cur := sc
	budget := 12
	for changed := true; changed && budget > 0; {
		changed = false
		for i := 0; i < len(cur.Steps) && budget > 0; i++ {
			cand := &insertScript{Steps: append(append([]payload{}, cur.Steps[:i]...), cur.Steps[i+1:]...)}
			if len(cand.Steps) == 0 {
				continue
			}
			budget--
			if _, v := r.runScript(cand); v != "" && violKey(v) == violKey(viol) {
				cur = cand
				changed = true
				i--
			}
		}
	}
	return cur
}

// ---------------------------------------------------------------- LUA probe

// luaProbe reproduces the known finding: goexpr/redis's LUA keeps its script
// cache mutex locked when loading the script fails (and zenodb cannot unlock
// it), so the second evaluation of any LUA expression blocks forever.  Run in a
// throw-away database process.
func (r *runner) luaProbe() {
	p := &dbProc{}
	defer func() {
		if p.c != nil {
			p.c.kill()
		}
	}()
	q := "SELECT a FROM t WHERE LUA('return 1', ARRAY(y), ARRAY(s)) = 'x'"
	first, err := p.call(&childReq{Op: "luaquery", SQL: q}, 30*time.Second)
	if err != nil || first.Crashed || first.Hung || first.Resp.Err != "" {
		r.res.Hit("lua-probe:inconclusive")
		return
	}
	second, err := p.call(&childReq{Op: "luaquery", SQL: q}, 8*time.Second)
	if err != nil {
		r.res.Hit("lua-probe:inconclusive")
		return
	}
	if second.Hung {
		r.res.Hit("lua-probe:reproduced")
		if r.known[luaFinding] {
			r.res.KnownFinding(luaFinding)
			return
		}
		r.res.Disagree(hk.Disagreement{Kind: "property", PropertyFails: true,
			Case:   J{"stream": "lua-probe", "sql": q, "note": "run the query twice on a server without redis"},
			Detail: "hang: second evaluation of a LUA expression never returns (goexpr/redis keeps scriptCacheMx locked after a failed script load)"})
		return
	}
	r.res.Hit("lua-probe:not-reproduced")
}
