package robust

// AST summary: the sqlparser AST of a query rendered as the JSON the Lean model
// (Model/SqlDispatch.lean) reads.  sqlparser itself produces the AST; literal
// facts (does this text parse as a Go duration / float / int) are computed with
// the same library calls sql.go makes.

import (
	"strconv"
	"strings"
	"time"

	"github.com/getlantern/sqlparser"
	"github.com/getlantern/zenodb/sql"
)

type J = map[string]interface{}

// libParse calls sqlparser.Parse unless the tokenizer would not terminate.
func libParse(s string) (sqlparser.Statement, bool) {
	// the reference lexer (a port of the tokenizer that reports instead of looping) protects the
	// harness process: the real tokenizer never returns from a backtick-quoted identifier that is
	// still open at the end of the input
	if loops, _ := refLex(s); loops {
		return nil, false
	}
	st, err := sqlparser.Parse(s)
	if err != nil {
		return nil, false
	}
	return st, true
}

func nodeString(n sqlparser.SQLNode) string {
	buf := sqlparser.NewTrackedBuffer(nil)
	n.Format(buf)
	return buf.String()
}

func durationFacts(text string) (bool, int64) {
	d, err := sql.ParseDuration(strings.ToLower(strings.Replace(strings.Trim(text, "''"), " as ", "", 1)))
	return err == nil, int64(d)
}

func timeOrDurationOK(s string) bool {
	if _, err := time.Parse(time.RFC3339, s); err == nil {
		return true
	}
	_, err := sql.ParseDuration(strings.ToLower(s))
	return err == nil
}

func atoiOK(n sqlparser.SQLNode) bool {
	_, err := strconv.Atoi(strings.ToLower(strings.Trim(nodeString(n), "''")))
	return err == nil
}

func sumSelectExprs(es sqlparser.SelectExprs) []interface{} {
	out := []interface{}{}
	for _, e := range es {
		switch x := e.(type) {
		case *sqlparser.StarExpr:
			out = append(out, J{"k": "star"})
		case *sqlparser.NonStarExpr:
			whole := nodeString(x)
			inner := nodeString(x.Expr)
			durOk, ns := durationFacts(whole)
			_, ferr := strconv.ParseFloat(inner, 64)
			_, fwerr := strconv.ParseFloat(whole, 64)
			_, iwerr := strconv.ParseInt(whole, 10, 64)
			out = append(out, J{"k": "ns", "e": sumExpr(x.Expr), "as": strings.ToLower(string(x.As)),
				"lit": J{"durOk": durOk, "durNs": strconv.FormatInt(ns, 10), "fOk": ferr == nil, "fWhole": fwerr == nil,
					"iWhole": iwerr == nil, "under": whole == "_"}})
		default:
			out = append(out, J{"k": "star"})
		}
	}
	return out
}

func sumExpr(e sqlparser.Expr) J {
	switch x := e.(type) {
	case *sqlparser.ColName:
		return J{"k": "col", "n": strings.ToLower(string(x.Name))}
	case sqlparser.NumVal:
		_, aerr := strconv.Atoi(string(x))
		_, ferr := strconv.ParseFloat(string(x), 64)
		return J{"k": "num", "a": aerr == nil, "f": ferr == nil}
	case sqlparser.StrVal:
		return J{"k": "str"}
	case *sqlparser.FuncExpr:
		return J{"k": "func", "n": strings.ToUpper(string(x.Name)), "args": sumSelectExprs(x.Exprs)}
	case *sqlparser.ComparisonExpr:
		return J{"k": "cmp", "op": strings.ToUpper(x.Operator), "l": sumExpr(x.Left), "r": sumExpr(x.Right)}
	case *sqlparser.BinaryExpr:
		return J{"k": "bin", "op": string(x.Operator), "l": sumExpr(x.Left), "r": sumExpr(x.Right)}
	case sqlparser.ValTuple:
		xs := []interface{}{}
		for _, v := range x {
			xs = append(xs, sumExpr(v))
		}
		return J{"k": "tuple", "xs": xs}
	case *sqlparser.AndExpr:
		return J{"k": "and", "l": sumExpr(x.Left), "r": sumExpr(x.Right)}
	case *sqlparser.OrExpr:
		return J{"k": "or", "l": sumExpr(x.Left), "r": sumExpr(x.Right)}
	case *sqlparser.NotExpr:
		return J{"k": "not", "e": sumExpr(x.Expr)}
	case *sqlparser.ParenBoolExpr:
		return J{"k": "paren", "e": sumExpr(x.Expr)}
	case *sqlparser.NullCheck:
		return J{"k": "nullcheck", "e": sumExpr(x.Expr)}
	case *sqlparser.Subquery:
		return J{"k": "subq", "s": sumStmt(x.Select)}
	}
	return J{"k": "other"}
}

func sumStmt(st sqlparser.SQLNode) J {
	switch x := st.(type) {
	case *sqlparser.Select:
		return J{"k": "select", "sel": sumSelect(x)}
	case *sqlparser.Union:
		return J{"k": "union"}
	case *sqlparser.Insert:
		return J{"k": "insert"}
	case *sqlparser.Update:
		return J{"k": "update"}
	case *sqlparser.Delete:
		return J{"k": "delete"}
	case *sqlparser.Set:
		return J{"k": "set"}
	case *sqlparser.DDL:
		return J{"k": "ddl"}
	}
	return J{"k": "other"}
}

func sumSelect(s *sqlparser.Select) J {
	out := J{"exprs": sumSelectExprs(s.SelectExprs), "groupBy": sumSelectExprs(s.GroupBy)}
	// the synthetic statement whose SELECT list becomes Query.Fields
	hasSelect := len(s.SelectExprs) > 0
	hasHaving := s.Having != nil
	out["fieldsOk"] = true
	out["fields"] = []interface{}{}
	if hasSelect || hasHaving {
		var text string
		having := ""
		if hasHaving {
			having = nodeString(s.Having.Expr) + " AS _having"
		}
		switch {
		case hasSelect && hasHaving:
			text = nodeString(s.SelectExprs) + ", " + having
		case hasSelect:
			text = nodeString(s.SelectExprs)
		default:
			text = having
		}
		re, ok := libParse("SELECT " + text + " FROM whatever")
		if sel, isSel := re.(*sqlparser.Select); ok && isSel {
			out["fields"] = sumSelectExprs(sel.SelectExprs)
		} else {
			out["fieldsOk"] = false
		}
	}
	// FROM
	switch {
	case len(s.From) == 0:
		out["from"] = J{"k": "none"}
	default:
		out["from"] = J{"k": "other"}
		if ate, ok := s.From[0].(*sqlparser.AliasedTableExpr); ok {
			switch ate.Expr.(type) {
			case *sqlparser.TableName:
				out["from"] = J{"k": "table"}
			case *sqlparser.Subquery:
				text := nodeString(s.From[0])
				if len(text) >= 2 {
					text = text[1 : len(text)-1]
				}
				if inner, ok := libParse(text); ok {
					out["from"] = J{"k": "subq", "s": sumStmt(inner)}
				} else {
					out["from"] = J{"k": "subqBad"}
				}
			}
		}
	}
	if s.Where != nil {
		out["where"] = sumExpr(s.Where.Expr)
	} else {
		out["where"] = nil
	}
	timeOk := true
	if s.TimeRange != nil {
		if s.TimeRange.From != "" && !timeOrDurationOK(s.TimeRange.From) {
			timeOk = false
		}
		if s.TimeRange.To != "" && !timeOrDurationOK(s.TimeRange.To) {
			timeOk = false
		}
	}
	out["timeOk"] = timeOk
	limitOk := true
	if s.Limit != nil {
		if s.Limit.Rowcount != nil && !atoiOK(s.Limit.Rowcount) {
			limitOk = false
		}
		if s.Limit.Offset != nil && !atoiOK(s.Limit.Offset) {
			limitOk = false
		}
	}
	out["limitOk"] = limitOk
	return out
}

// astStats feeds the input-distribution histogram.
func astStats(st sqlparser.Statement) (kind string, depth int) {
	kind = sumStmt(st)["k"].(string)
	var dep func(v interface{}) int
	dep = func(v interface{}) int {
		max := 0
		switch x := v.(type) {
		case J:
			for _, c := range x {
				if d := dep(c); d > max {
					max = d
				}
			}
			return max + 1
		case []interface{}:
			for _, c := range x {
				if d := dep(c); d > max {
					max = d
				}
			}
		}
		return max
	}
	if sel, ok := st.(*sqlparser.Select); ok {
		depth = dep(sumSelect(sel))
	}
	return
}
