package robust

// Sign / magnitude matrix for every numeric or duration parameter the SQL
// surface accepts.  A parameter slot is a query template with one hole (two for
// CROSSHIFT's cutoff/interval pair); the values cover zero, ±1 of the smallest
// and of an ordinary unit, tiny/huge ratio pairs around and far beyond the
// code's own caps, ±the largest representable duration (int64 nanoseconds) and
// its neighbours, strings that overflow the parser, NaN/Inf spellings, negative
// zero.  Every slot is placed at the top level, in HAVING (field expressions),
// in a FROM-subquery and inside an IN-subquery (whose SELECT list sql.Parse
// itself evaluates).  The cases are minimal by construction.

import (
	"fmt"
	"os"
	"path/filepath"
	"regexp"
	"strconv"
	"strings"

	"zvh/hk"
)

// largest time.Duration: 2562047h47m16.854775807s
var durationValues = []string{
	"'0s'", "'-0s'", "'1ns'", "'-1ns'", "'1s'", "'-1s'", "'+1s'", "'1h'", "'-1h'", "'1w'", "'-1w'",
	"'0.5s'", "'-0.5ns'", "'0.0000000001s'", "'1e3s'",
	"'2562047h'", "'-2562047h'", "'2562047h47m16.854775807s'", "'-2562047h47m16.854775807s'", "'2562047h47m16.854775808s'",
	"'1708031h'", "'-1708031h'", "'15250w'", "'-15250w'",
	"'2562048h'", "'-2562048h'", "'9999999999h'", "'-9999999999h'", "'99999999999999999999ns'", "'9223372036854775807ns'", "'-9223372036854775808ns'",
	"'NaN'", "'Inf'", "'-Inf'", "'nan s'", "''", "'-'", "'s'", "'1'", "'- 1s'", "'1s1'", "'--1s'",
	"1s", "-1s", "0", "-1", "NaN", "1e309",
}

// (cutoff, interval) pairs: ratios 1, at the cap, just above, 10×, 10^5×, unbounded, and the
// int64 edge where cutoff + interval no longer fits
var crosshiftPairs = [][2]string{
	{"'10s'", "'1s'"}, {"'10s'", "'-1s'"}, {"'-10s'", "'1s'"}, {"'-10s'", "'-1s'"},
	{"'1s'", "'10s'"}, {"'1s'", "'-10s'"}, {"'1ns'", "'2562047h'"}, {"'-1ns'", "'-2562047h'"},
	{"'1000s'", "'1s'"}, {"'1000s'", "'-1s'"}, {"'-1000s'", "'-1s'"},
	{"'1001s'", "'1s'"}, {"'1001s'", "'-1s'"}, {"'-1001s'", "'-1s'"}, {"'-1001s'", "'1s'"},
	{"'2001s'", "'1s'"}, {"'2001s'", "'-1s'"},
	{"'10000s'", "'1s'"}, {"'10000s'", "'-1s'"}, {"'-10000s'", "'-1s'"},
	{"'100000s'", "'1s'"}, {"'100000s'", "'-1s'"},
	{"'100h'", "'1ns'"}, {"'100h'", "'-1ns'"}, {"'-100h'", "'1ns'"}, {"'-100h'", "'-1ns'"},
	{"'2562047h'", "'1ns'"}, {"'2562047h'", "'-1ns'"}, {"'-2562047h'", "'-1ns'"},
	{"'2562047h'", "'2562047h'"}, {"'-2562047h'", "'-2562047h'"}, {"'2562047h'", "'-2562047h'"},
	{"'2562047h'", "'1708031h'"}, {"'2562047h'", "'-1708031h'"}, {"'-2562047h'", "'-1708031h'"}, {"'-2562047h'", "'1708031h'"},
	{"'2562047h'", "'2562046h'"}, {"'2562047h47m16.854775807s'", "'2562047h47m16.854775806s'"},
	{"'2562047h'", "'1281024h'"}, {"'2562047h'", "'2563h'"}, {"'2562047h'", "'-2563h'"}, {"'15250w'", "'-16w'"},
}

var numberValues = []string{
	"0", "-0", "0.0", "-0.0", "1", "-1", "0.5", "-0.5", "1e-9", "-1e-9", "1e-400",
	"99", "100", "101", "1000", "1001", "1e9", "-1e9", "1e18", "-1e18", "1e19", "-1e19", "1e308", "-1e308", "1e309", "-1e309", "1e400",
	"2147483647", "2147483648", "-2147483649", "9223372036854775807", "9223372036854775808", "-9223372036854775808", "-9223372036854775809",
	"18446744073709551615", "18446744073709551616", "99999999999999999999999999",
	"NaN", "Inf", "-Inf", "+Inf", "nan", "infinity", "'NaN'", "'Inf'", "'-Inf'", "'1'", "'-1'", "''",
	"0x7fffffffffffffff", "0x8000000000000000", "0xffffffffffffffff", "00", "01", "1.", ".1", "-.1", "1e", "1e+", "--1", "- 1", "+1", "1_000",
}

// values for parameters that size an allocation (PERCENTILE's range and precision): the same
// signs and edges, but the huge magnitudes only where the code rejects or ignores them
var percentileRange = []string{
	"0", "-0", "1", "-1", "0.5", "-0.5", "10", "100", "1000", "-1000", "1e4", "1e-9", "-1e-9",
	"NaN", "Inf", "-Inf", "'NaN'", "'1'", "''", "1e", "--1", "+1", "0x10", "1e400", "-1e400", "99999999999999999999999999",
}
var percentilePrecision = []string{
	"0", "-0", "1", "-1", "2", "3", "4", "-4", "0.5", "1e0", "NaN", "Inf", "'1'", "''", "+1", "0x1", "00", "01",
	"9223372036854775808", "-9223372036854775809", "99999999999999999999999999",
}

type numSlot struct {
	name   string
	tmpl   string // %s = the value; the template is a field expression, a GROUP BY item or a query tail
	kind   string // "field" (select-list expression) | "groupby" | "tail" (after FROM t) | "where" (dimension condition)
	values []string
}

func numericSlots() []numSlot {
	d, n := durationValues, numberValues
	return []numSlot{
		{"crosshift-cutoff", "CROSSHIFT ( a , %s , '1s' ) AS f", "field", d},
		{"crosshift-interval", "CROSSHIFT ( a , '10s' , %s ) AS f", "field", d},
		{"shift-offset", "SHIFT ( a , %s ) AS f", "field", d},
		{"shift-sum-offset", "SHIFT ( SUM ( b ) , %s ) + a AS f", "field", d},
		{"period", "PERIOD ( %s )", "groupby", d},
		{"stride", "STRIDE ( %s )", "groupby", d},
		{"stride-period", "STRIDE ( %s ) , PERIOD ( '2s' )", "groupby", d},
		{"asof", "ASOF %s", "tail", d},
		{"until", "ASOF '-10s' UNTIL %s", "tail", d},
		{"asof-until-same", "ASOF %[1]s UNTIL %[1]s", "tail", d},
		{"limit", "LIMIT %s", "tail", n},
		{"offset", "LIMIT %s , 1", "tail", n},
		{"percentile-p", "PERCENTILE ( a , %s , 0 , 100 , 1 ) AS f", "field", n},
		{"percentile-min", "PERCENTILE ( a , 99 , %s , 100 , 1 ) AS f", "field", percentileRange},
		{"percentile-max", "PERCENTILE ( a , 99 , 0 , %s , 1 ) AS f", "field", percentileRange},
		{"percentile-precision", "PERCENTILE ( a , 99 , 0 , 100 , %s ) AS f", "field", percentilePrecision},
		{"percentile-wrap-p", "PERCENTILE ( p , %s ) AS f", "field", n},
		{"bounded-lo", "BOUNDED ( a , %s , 100 ) AS f", "field", n},
		{"bounded-hi", "BOUNDED ( a , 0 , %s ) AS f", "field", n},
		{"arith-mult", "a * %s AS f", "field", n},
		{"arith-div", "a / %s AS f", "field", n},
		{"arith-add", "%s + a AS f", "field", n},
		{"arith-sub", "a - %s AS f", "field", n},
		{"agg-of-literal", "SUM ( %s ) AS f", "field", n},
		{"if-literal", "IF ( x = %s , a ) AS f", "field", n},
		{"compare", "a > %s AS f", "field", n},
		{"where-eq", "x = %s", "where", n},
		{"where-in", "x IN ( %s , 1 )", "where", n},
		{"where-len", "LEN ( y ) > %s", "where", n},
		{"where-substr", "SUBSTR ( y , %s , 1 ) = 'a'", "where", n},
	}
}

type numCase struct {
	sql     string
	slot    string
	context string
	// for the CROSSHIFT cases that consist of nothing but one CROSSHIFT: its two duration texts
	cutoff, interval string
	pureCrosshift    bool
}

// inContexts places one slot instance in the four contexts.
func inContexts(slot numSlot, inst string, contexts []string) []numCase {
	var out []numCase
	for _, c := range contexts {
		var q string
		switch slot.kind {
		case "field":
			switch c {
			case "top":
				q = "SELECT " + inst + " FROM t"
			case "having":
				// the expression without its alias on the left of a comparison
				e := strings.TrimSuffix(inst, " AS f")
				q = "SELECT a FROM t HAVING " + e + " > 0"
			case "from-subquery":
				q = "SELECT * FROM ( SELECT " + inst + " FROM t )"
			case "in-subquery":
				q = "SELECT a FROM t WHERE y IN ( SELECT y , " + inst + " FROM t )"
			}
		case "groupby":
			switch c {
			case "top":
				q = "SELECT a FROM t GROUP BY y , " + inst
			case "having":
				q = "SELECT a FROM t GROUP BY " + inst + " HAVING a > 0"
			case "from-subquery":
				q = "SELECT a FROM ( SELECT a FROM t GROUP BY y , " + inst + " )"
			case "in-subquery":
				q = "SELECT a FROM t WHERE y IN ( SELECT y FROM t GROUP BY y , " + inst + " )"
			}
		case "tail":
			switch c {
			case "top":
				q = "SELECT a FROM t " + inst
			case "having":
				if strings.HasPrefix(inst, "LIMIT") {
					q = "SELECT a FROM t HAVING a > 0 " + inst
				} else {
					q = "SELECT a FROM t " + inst + " HAVING a > 0"
				}
			case "from-subquery":
				q = "SELECT a FROM ( SELECT a FROM t " + inst + " )"
			case "in-subquery":
				q = "SELECT a FROM t WHERE y IN ( SELECT y FROM t " + inst + " )"
			}
		case "where":
			switch c {
			case "top":
				q = "SELECT a FROM t WHERE " + inst
			case "having":
				q = "SELECT IF ( " + inst + " , a ) AS f FROM t HAVING f > 0"
			case "from-subquery":
				q = "SELECT a FROM ( SELECT a FROM t WHERE " + inst + " )"
			case "in-subquery":
				q = "SELECT a FROM t WHERE y IN ( SELECT y FROM t WHERE " + inst + " )"
			}
		}
		if q != "" {
			out = append(out, numCase{sql: q, slot: slot.name, context: c})
		}
	}
	return out
}

var allContexts = []string{"top", "having", "from-subquery", "in-subquery"}

// loopSlots are the parameters that bound a loop or an allocation in sql.go / the planner.
var loopSlots = map[string]bool{"crosshift-cutoff": true, "crosshift-interval": true, "shift-offset": true,
	"period": true, "stride": true, "asof": true, "until": true, "limit": true}

// coreValues: zero, both signs of the smallest and of an ordinary unit, both signs of the largest
// duration / integer and of the value that makes int64 sums overflow, parser overflow, NaN/Inf
var coreValues = map[string]bool{
	"'0s'": true, "'-0s'": true, "'1ns'": true, "'-1ns'": true, "'1s'": true, "'-1s'": true, "'1h'": true, "'-1h'": true,
	"'2562047h'": true, "'-2562047h'": true, "'2562047h47m16.854775807s'": true, "'-2562047h47m16.854775807s'": true,
	"'1708031h'": true, "'-1708031h'": true, "'2562048h'": true, "'9999999999h'": true, "'-9999999999h'": true,
	"'NaN'": true, "'Inf'": true, "''": true, "-1": true, "-1s": true,
	"0": true, "-0": true, "1": true, "1e9": true, "-1e9": true, "9223372036854775807": true, "9223372036854775808": true,
	"-9223372036854775809": true, "NaN": true, "'1'": true, "1e309": true, "-1e309": true,
}

// numericCases builds the matrix.  Thorough tier: every slot × value × context.  Quick tier:
// the loop-bounding slots with the core values and all CROSSHIFT pairs in all four contexts on
// every run; every other slot × value at the top level, a third of them per run (rotating with
// the seed, like the arity matrix).
func numericCases(full bool, seed uint64) []numCase {
	var out []numCase
	// the pairs first: ratios just above the cap are cheap to run and already tell
	pair := numSlot{name: "crosshift-pair", kind: "field"}
	for _, p := range crosshiftPairs {
		inst := fmt.Sprintf("CROSSHIFT ( a , %s , %s ) AS f", p[0], p[1])
		cs := inContexts(pair, inst, allContexts)
		for i := range cs {
			cs[i].cutoff, cs[i].interval = p[0], p[1]
			cs[i].pureCrosshift = cs[i].context == "top"
		}
		out = append(out, cs...)
		// two of them in one query, next to an ordinary field
		out = append(out, numCase{sql: fmt.Sprintf("SELECT CROSSHIFT ( a , %s , %s ) AS f , CROSSHIFT ( b , %s , %s ) AS g , a FROM t", p[0], p[1], p[0], p[1]),
			slot: "crosshift-pair-twice", context: "top"})
	}
	k := 0
	for _, slot := range numericSlots() {
		for _, v := range slot.values {
			inst := strings.ReplaceAll(slot.tmpl, "%[1]s", v)
			if strings.Contains(inst, "%s") {
				inst = fmt.Sprintf(inst, v)
			}
			switch {
			case full:
				out = append(out, inContexts(slot, inst, allContexts)...)
			case loopSlots[slot.name] && coreValues[v]:
				out = append(out, inContexts(slot, inst, allContexts)...)
			default:
				k++
				if k%3 == int(seed%3) {
					out = append(out, inContexts(slot, inst, []string{"top"})...)
				}
			}
		}
	}
	return out
}

// ---- the code's own constants, from the regenerated facts

var factsText string

func factsFile() string {
	if factsText != "" {
		return factsText
	}
	path := os.Getenv("ZV_FACTS")
	if path == "" {
		lean := filepath.Dir(filepath.Dir(filepath.Dir(filepath.Dir(hk.ModelPath()))))
		path = filepath.Join(lean, "ZenoModel", "Generated", "Facts.lean")
	}
	b, err := os.ReadFile(path)
	if err != nil {
		return ""
	}
	factsText = string(b)
	return factsText
}

// factsConst returns an integer constant of sql/sql.go as extracted into Facts.sqlConsts.
func factsConst(name string) (int64, bool) {
	text := factsFile()
	i := strings.Index(text, "def sqlConsts")
	if i < 0 {
		return 0, false
	}
	text = text[i:]
	if j := strings.Index(text, "\n]"); j >= 0 {
		text = text[:j]
	}
	m := regexp.MustCompile(`\("` + regexp.QuoteMeta(name) + `", *\(?(-?\d+)`).FindStringSubmatch(text)
	if m == nil {
		return 0, false
	}
	v, err := strconv.ParseInt(m[1], 10, 64)
	return v, err == nil
}

// sizeBound is the generous bound of the resource oracle on the number of fields a query may
// produce: four times what the code's own cap allows per CROSSHIFT, plus room for everything
// else in the query.  Without a cap in the code only the "everything else" remains.
func sizeBound(sqlText string) (bound int, capText string) {
	n := strings.Count(strings.ToUpper(sqlText), "CROSSHIFT")
	if n == 0 {
		n = 1
	}
	other := 256 + len(strings.Fields(sqlText))
	cap, ok := factsConst("maxCrosshiftFields")
	if !ok {
		return other, "no maxCrosshiftFields constant in sql/sql.go"
	}
	return 4*n*int(cap+1) + other, fmt.Sprintf("maxCrosshiftFields = %d", cap)
}
