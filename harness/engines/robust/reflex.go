package robust

// Reference lexer: a line-by-line port of sqlparser's Tokenizer.Scan
// (token.go: lastChar / next(), scanIdentifier, scanNumber, scanBindVar,
// scanString, scanCommentType1/2, scanLiteralIdentifier) that, instead of
// looping, reports when a backtick-quoted identifier is still open at the end of
// the input.  It answers "would tokenizing ALL of this string terminate?"; the
// real parser may stop earlier (at a syntax error), never later.  It protects
// the harness's own calls of sqlparser.Parse and is the expectation of the
// lexer-agreement oracle; the oracle checks it against the real tokenizer
// (run in a child process under a watchdog) on every input it says is safe.

const refEOF = 0x100

type refTokenizer struct {
	s        string
	pos      int
	lastChar int
}

func (t *refTokenizer) next() {
	if t.pos >= len(t.s) {
		t.lastChar = refEOF
	} else {
		t.lastChar = int(t.s[t.pos])
	}
	t.pos++
}

func refIsLetter(ch int) bool {
	return 'a' <= ch && ch <= 'z' || 'A' <= ch && ch <= 'Z' || ch == '_' || ch == '@'
}

func refIsDigit(ch int) bool { return '0' <= ch && ch <= '9' }

func refDigitVal(ch int) int {
	switch {
	case '0' <= ch && ch <= '9':
		return ch - '0'
	case 'a' <= ch && ch <= 'f':
		return ch - 'a' + 10
	case 'A' <= ch && ch <= 'F':
		return ch - 'A' + 10
	}
	return 16
}

const (
	refTokEOF = iota
	refTokError
	refTokLoops // scanLiteralIdentifier would never return
	refTokOther
)

func (t *refTokenizer) scanMantissa(base int) {
	for refDigitVal(t.lastChar) < base {
		t.next()
	}
}

func (t *refTokenizer) scanNumber(seenDecimalPoint bool) int {
	if seenDecimalPoint {
		t.scanMantissa(10)
		goto exponent
	}
	if t.lastChar == '0' {
		t.next()
		if t.lastChar == 'x' || t.lastChar == 'X' {
			t.next()
			t.scanMantissa(16)
		} else {
			seenDecimalDigit := false
			t.scanMantissa(8)
			if t.lastChar == '8' || t.lastChar == '9' {
				seenDecimalDigit = true
				t.scanMantissa(10)
			}
			if t.lastChar == '.' || t.lastChar == 'e' || t.lastChar == 'E' {
				goto fraction
			}
			if seenDecimalDigit {
				return refTokError
			}
		}
		goto exit
	}
	t.scanMantissa(10)
fraction:
	if t.lastChar == '.' {
		t.next()
		t.scanMantissa(10)
	}
exponent:
	if t.lastChar == 'e' || t.lastChar == 'E' {
		t.next()
		if t.lastChar == '+' || t.lastChar == '-' {
			t.next()
		}
		t.scanMantissa(10)
	}
exit:
	return refTokOther
}

func (t *refTokenizer) scanString(delim int) int {
	for {
		ch := t.lastChar
		t.next()
		if ch == delim {
			if t.lastChar == delim {
				t.next()
			} else {
				break
			}
		} else if ch == '\\' {
			if t.lastChar == refEOF {
				return refTokError
			}
			t.next()
		}
		if ch == refEOF {
			return refTokError
		}
	}
	return refTokOther
}

func (t *refTokenizer) scanCommentType1() int {
	for t.lastChar != refEOF {
		if t.lastChar == '\n' {
			t.next()
			break
		}
		t.next()
	}
	return refTokOther
}

func (t *refTokenizer) scanCommentType2() int {
	for {
		if t.lastChar == '*' {
			t.next()
			if t.lastChar == '/' {
				t.next()
				break
			}
			continue
		}
		if t.lastChar == refEOF {
			return refTokError
		}
		t.next()
	}
	return refTokOther
}

func (t *refTokenizer) scanLiteralIdentifier() int {
	// buffer.WriteByte(lastChar); for tkn.next(); tkn.lastChar != '`'; tkn.next() { … }
	for t.next(); t.lastChar != '`'; t.next() {
		if t.lastChar == refEOF {
			return refTokLoops
		}
	}
	t.next()
	return refTokOther
}

func (t *refTokenizer) scan() int {
	if t.lastChar == 0 {
		t.next()
	}
	for t.lastChar == ' ' || t.lastChar == '\n' || t.lastChar == '\r' || t.lastChar == '\t' {
		t.next()
	}
	switch ch := t.lastChar; {
	case refIsLetter(ch):
		for t.next(); refIsLetter(t.lastChar) || refIsDigit(t.lastChar); t.next() {
		}
		return refTokOther
	case refIsDigit(ch):
		return t.scanNumber(false)
	case ch == ':':
		t.next()
		if t.lastChar == ':' {
			t.next()
		}
		if !refIsLetter(t.lastChar) {
			return refTokError
		}
		for refIsLetter(t.lastChar) || refIsDigit(t.lastChar) || t.lastChar == '.' {
			t.next()
		}
		return refTokOther
	default:
		t.next()
		switch ch {
		case refEOF:
			return refTokEOF
		case '=', ',', ';', '(', ')', '+', '*', '%', '&', '|', '^', '~', '?':
			return refTokOther
		case '.':
			if refIsDigit(t.lastChar) {
				return t.scanNumber(true)
			}
			return refTokOther
		case '/':
			switch t.lastChar {
			case '/':
				t.next()
				return t.scanCommentType1()
			case '*':
				t.next()
				return t.scanCommentType2()
			}
			return refTokOther
		case '-':
			if t.lastChar == '-' {
				t.next()
				return t.scanCommentType1()
			}
			return refTokOther
		case '<':
			switch t.lastChar {
			case '>':
				t.next()
			case '=':
				t.next()
				if t.lastChar == '>' {
					t.next()
				}
			}
			return refTokOther
		case '>':
			if t.lastChar == '=' {
				t.next()
			}
			return refTokOther
		case '!':
			if t.lastChar == '=' {
				t.next()
				return refTokOther
			}
			return refTokError
		case '\'', '"':
			return t.scanString(ch)
		case '`':
			return t.scanLiteralIdentifier()
		}
		return refTokError
	}
}

// refLex tokenizes all of s: loops = the real tokenizer would never return from
// a literal identifier; tokens = number of tokens before the end / error / loop.
func refLex(s string) (loops bool, tokens int) {
	t := &refTokenizer{s: s}
	for {
		switch t.scan() {
		case refTokEOF, refTokError:
			return false, tokens
		case refTokLoops:
			return true, tokens
		}
		tokens++
	}
}
