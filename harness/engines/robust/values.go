package robust

// JSON-able description of Go values ("the Go/JSON value universe") used as
// dimensions and values of insert payloads.

import (
	"encoding/hex"
	"encoding/json"
	"math"
	"strconv"
	"strings"
	"time"

	"zvh/hk"
)

// tval describes one Go value.
type tval struct {
	T string          `json:"t"`
	V string          `json:"v,omitempty"`
	L []tval          `json:"l,omitempty"`
	M map[string]tval `json:"m,omitempty"`
	K []string        `json:"k,omitempty"` // key order is irrelevant; kept for readability of replays
}

type oddStruct struct {
	A int
	b string
}

func parseF(s string) float64 {
	switch s {
	case "NaN":
		return math.NaN()
	case "+Inf":
		return math.Inf(1)
	case "-Inf":
		return math.Inf(-1)
	}
	f, _ := strconv.ParseFloat(s, 64)
	return f
}

// goValue builds the described value.
func (v tval) goValue() interface{} {
	i64 := func() int64 { n, _ := strconv.ParseInt(v.V, 10, 64); return n }
	u64 := func() uint64 { n, _ := strconv.ParseUint(v.V, 10, 64); return n }
	switch v.T {
	case "nil":
		return nil
	case "bool":
		return v.V == "true"
	case "int":
		return int(i64())
	case "int8":
		return int8(i64())
	case "int16":
		return int16(i64())
	case "int32":
		return int32(i64())
	case "int64":
		return i64()
	case "uint":
		return uint(u64())
	case "uint8":
		return uint8(u64())
	case "uint16":
		return uint16(u64())
	case "uint32":
		return uint32(u64())
	case "uint64":
		return u64()
	case "float32":
		return float32(parseF(v.V))
	case "float64":
		return parseF(v.V)
	case "string":
		return v.V
	case "bigstring": // V = length
		return strings.Repeat("k", int(i64()))
	case "hexstring": // arbitrary bytes as a string (invalid UTF-8 included)
		b, _ := hex.DecodeString(v.V)
		return string(b)
	case "bytes":
		b, _ := hex.DecodeString(v.V)
		return b
	case "floats":
		out := make([]float64, len(v.L))
		for i, e := range v.L {
			out[i] = parseF(e.V)
		}
		return out
	case "nilfloats":
		return []float64(nil)
	case "ints":
		out := make([]int, len(v.L))
		for i, e := range v.L {
			n, _ := strconv.ParseInt(e.V, 10, 64)
			out[i] = int(n)
		}
		return out
	case "strings":
		out := make([]string, len(v.L))
		for i, e := range v.L {
			out[i] = e.V
		}
		return out
	case "list":
		out := make([]interface{}, len(v.L))
		for i, e := range v.L {
			out[i] = e.goValue()
		}
		return out
	case "map":
		out := make(map[string]interface{}, len(v.M))
		for k, e := range v.M {
			out[k] = e.goValue()
		}
		return out
	case "time":
		return time.Unix(0, i64()).UTC()
	case "duration":
		return time.Duration(i64())
	case "struct":
		return oddStruct{A: 1, b: "x"}
	case "ptr":
		n := 7
		return &n
	case "jsonnum":
		return json.Number(v.V)
	case "func":
		return func() {}
	case "chan":
		return make(chan int)
	case "complex":
		return complex(1, 2)
	}
	return nil
}

// goMap builds the top-level dims/vals map; T == "nilmap" gives a nil map.
func (v *tval) goMap() map[string]interface{} {
	if v == nil || v.T == "nilmap" {
		return nil
	}
	out := make(map[string]interface{}, len(v.M))
	for k, e := range v.M {
		out[k] = e.goValue()
	}
	return out
}

func tv(t, v string) tval { return tval{T: t, V: v} }

func floats(xs ...string) tval {
	out := tval{T: "floats", L: []tval{}}
	for _, x := range xs {
		out.L = append(out.L, tv("float64", x))
	}
	return out
}

func ints(xs ...string) tval {
	out := tval{T: "ints", L: []tval{}}
	for _, x := range xs {
		out.L = append(out.L, tv("int", x))
	}
	return out
}

// scalarUniverse is every scalar / composite shape tried as a dim or a val.
func scalarUniverse() []tval {
	return []tval{
		tv("nil", ""), tv("bool", "true"), tv("bool", "false"),
		tv("int", "0"), tv("int", "3"), tv("int", "-3"), tv("int", "9223372036854775807"), tv("int", "-9223372036854775808"),
		tv("int8", "-128"), tv("int16", "-300"), tv("int32", "70000"), tv("int64", "5"),
		tv("uint", "7"), tv("uint8", "255"), tv("uint16", "65535"), tv("uint32", "4000000000"), tv("uint64", "18446744073709551615"),
		tv("float32", "1.5"), tv("float64", "2.5"), tv("float64", "0"), tv("float64", "-1"),
		tv("float64", "NaN"), tv("float64", "+Inf"), tv("float64", "-Inf"), tv("float64", "1e308"), tv("float32", "NaN"),
		tv("string", ""), tv("string", "abc"), tv("string", "NaN"), tv("string", "1"), tv("string", "it's"), tv("string", "a\x00b"),
		tv("hexstring", "fffe00"), tv("bigstring", "70000"), tv("bigstring", "65536"), tv("bigstring", "65535"),
		tv("bytes", ""), tv("bytes", "00ff10"),
		floats(), floats("1"), floats("1", "2", "3"), floats("NaN", "+Inf"), tv("nilfloats", ""),
		ints(), ints("4"), ints("4", "5"),
		{T: "strings", L: []tval{tv("string", "a")}}, {T: "strings", L: []tval{}},
		{T: "list", L: []tval{}}, {T: "list", L: []tval{tv("float64", "1"), tv("string", "x")}},
		{T: "list", L: []tval{{T: "list", L: []tval{tv("nil", "")}}}},
		{T: "map", M: map[string]tval{}}, {T: "map", M: map[string]tval{"k": tv("float64", "1")}},
		{T: "map", M: map[string]tval{"k": {T: "map", M: map[string]tval{"j": floats()}}}},
		tv("time", "1583064000000000000"), tv("time", "0"), tv("duration", "5"),
		tv("struct", ""), tv("ptr", ""), tv("jsonnum", "12"), tv("func", ""), tv("chan", ""), tv("complex", ""),
	}
}

var oddKeys = []string{"", "a", "b", "x", "y", "s", "_points", "_", "A", "a b", "a.b", "'", "\x00", "ключ", "k\xff"}

func pickVal(r *hk.Rng) tval { return hk.Pick(r, scalarUniverse()) }

// valKind is how table.doInsert sees a value after the bytemap round trip.
//
//	num            float64 or int: included as the main value
//	arrF n / arrI n  []float64 / []int of length n: first element main value, the rest extra inserts
//	other          logged and ignored
func valKind(v interface{}) map[string]interface{} {
	switch x := v.(type) {
	case float64, int:
		return map[string]interface{}{"k": "num"}
	case []float64:
		return map[string]interface{}{"k": "arrF", "n": len(x)}
	case []int:
		return map[string]interface{}{"k": "arrI", "n": len(x)}
	}
	return map[string]interface{}{"k": "other"}
}
