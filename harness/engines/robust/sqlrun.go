package robust

// Execution of one SQL string against the real code: sql.Parse, sql.TableFor,
// Fields.Get, planner.Plan (mock local table and mock cluster) and DB.Query +
// Iterate on a small embedded database.  Every stage runs under hk.Recover
// with a per-case timeout; the result is an outcome class per stage.

import (
	"context"
	"fmt"
	"io"
	"net"
	"os"
	"regexp"
	"runtime/debug"
	"strings"
	"sync"
	"time"

	"github.com/getlantern/bytemap"
	"github.com/getlantern/golog"
	"github.com/getlantern/zenodb"
	"github.com/getlantern/zenodb/core"
	"github.com/getlantern/zenodb/encoding"
	"github.com/getlantern/zenodb/expr"
	"github.com/getlantern/zenodb/planner"
	"github.com/getlantern/zenodb/rpc"
	rpcserver "github.com/getlantern/zenodb/rpc/server"
	"github.com/getlantern/zenodb/sql"

	"zvh/hk"
)

const parseTimeout = 6 * time.Second

const (
	clsOK    = "ok"
	clsError = "error"
	clsPanic = "panic"
	clsHang  = "hang"
	clsSkip  = "skipped" // stage not run because an earlier stage did not return ok
)

// stageResult is the outcome of one stage.
type stageResult struct {
	Class string `json:"class"`
	Msg   string `json:"msg,omitempty"`   // error or panic text (truncated)
	Site  string `json:"site,omitempty"`  // innermost zenodb frame of a panic
	Inner string `json:"inner,omitempty"` // innermost getlantern frame of a panic (may be a library)
	Phase string `json:"phase,omitempty"` // "exec" when the panic happened while iterating a plan
	N     int    `json:"n,omitempty"`     // size of what the stage produced: number of fields (fields, plan, cluster, query)
	// parse stage only: "rejected" when the error is the pre-scan's ErrUnterminatedIdentifier
	Prescan string `json:"prescan,omitempty"`
}

// thirdPartyEval says whether a panic came out of a goexpr expression while a
// plan was being executed against the harness's mock table.  Such a panic
// (unconfigured geo database, HGET on a non-string key, ...) is raised by the
// library's Eval; in a server it is caught at the iteration boundary of the
// database and becomes the query's error, which the real-database stage
// checks.  It is therefore not counted against planning.
func (s stageResult) thirdPartyEval() bool {
	return s.Class == clsPanic && s.Phase == "exec" && strings.HasPrefix(s.Inner, "goexpr")
}

type sqlOutcome struct {
	Parse    stageResult `json:"parse"`
	TableFor stageResult `json:"tablefor"`
	Fields   stageResult `json:"fields"`
	Plan     stageResult `json:"plan"`
	Cluster  stageResult `json:"cluster"`
	Query    stageResult `json:"query"`
}

func (o *sqlOutcome) stages() map[string]stageResult {
	return map[string]stageResult{"parse": o.Parse, "tablefor": o.TableFor, "fields": o.Fields, "plan": o.Plan, "cluster": o.Cluster, "query": o.Query}
}

var stageOrder = []string{"parse", "tablefor", "fields", "plan", "cluster", "query"}

// worst returns the first stage that panicked or hung.
func (o *sqlOutcome) worst() (string, stageResult, bool) {
	st := o.stages()
	for _, n := range stageOrder {
		if s := st[n]; (s.Class == clsPanic && !s.thirdPartyEval()) || s.Class == clsHang {
			return n, s, true
		}
	}
	return "", stageResult{}, false
}

var frameRe = regexp.MustCompile(`(?m)^(github\.com/getlantern/[^\s(]+(?:\([^)]*\))?[^\s(]*)\(.*\n\s+(\S+):(\d+)`)

// siteOf extracts the innermost frame that belongs to zenodb (or, failing
// that, to a getlantern library) from a stack trace.
func siteOf(stack string) string {
	site, _ := sitesOf(stack)
	return site
}

// innerOf returns the innermost getlantern frame as "module/pkg.func".
func innerOf(stack string) string {
	_, inner := sitesOf(stack)
	return inner
}

func sitesOf(stack string) (string, string) {
	first := ""
	inner := ""
	for _, m := range frameRe.FindAllStringSubmatch(stack, -1) {
		fn := m[1]
		if strings.Contains(fn, "zvh/") {
			continue
		}
		if inner == "" {
			inner = strings.TrimPrefix(fn, "github.com/getlantern/")
		}
		file := m[2]
		if i := strings.Index(file, "getlantern/"); i >= 0 {
			file = file[i+len("getlantern/"):]
		}
		if j := strings.LastIndex(fn, "/"); j >= 0 {
			fn = fn[j+1:]
		}
		s := fmt.Sprintf("%s (%s)", fn, trimRepo(file))
		if first == "" {
			first = s
		}
		if strings.Contains(m[1], "getlantern/zenodb") {
			return s, inner
		}
	}
	return first, inner
}

func trimRepo(file string) string {
	for _, p := range []string{"/repo/"} {
		if i := strings.Index(file, p); i >= 0 {
			return file[i+len(p):]
		}
	}
	if r := os.Getenv("ZENO_REPO"); r != "" {
		if i := strings.Index(file, r); i >= 0 {
			return strings.TrimPrefix(file[i+len(r):], "/")
		}
	}
	return file
}

func trunc(s string, n int) string {
	if len(s) > n {
		return s[:n] + "…"
	}
	return s
}

// guarded runs f under hk.Recover in its own goroutine with a timeout.
// f returns an error (class error) or nil (class ok).
func guarded(timeout time.Duration, f func() error) stageResult {
	return guardedPh(timeout, func(*string) error { return f() })
}

// guardedPh is guarded for a function that announces its phase.
func guardedPh(timeout time.Duration, f func(phase *string) error) stageResult {
	done := make(chan stageResult, 1)
	go func() {
		var err error
		var stack string
		phase := ""
		p := hk.Recover(func() {
			defer func() {
				if p := recover(); p != nil {
					stack = string(debug.Stack())
					panic(p)
				}
			}()
			err = f(&phase)
		})
		switch {
		case p != nil:
			site, inner := sitesOf(stack)
			done <- stageResult{Class: clsPanic, Msg: trunc(fmt.Sprint(p), 200), Site: site, Inner: inner, Phase: phase}
		case err != nil:
			done <- stageResult{Class: clsError, Msg: trunc(err.Error(), 200)}
		default:
			done <- stageResult{Class: clsOK}
		}
	}()
	select {
	case r := <-done:
		return r
	case <-time.After(timeout):
		return stageResult{Class: clsHang, Msg: fmt.Sprintf("no result after %v", timeout)}
	}
}

// ---------------------------------------------------------------- environment

var (
	base = time.Date(2020, 3, 1, 12, 0, 0, 0, time.UTC)

	fieldA = core.NewField("a", expr.SUM("a"))
	fieldB = core.NewField("b", expr.SUM("b"))
	fieldP = core.NewField("p", expr.PERCENTILE("a", 99, 0, 1000, 1))
)

// mixedDim gives the dimension x a different type from row to row, as clients
// that insert JSON or use several producers do.
func mixedDim(i int) interface{} {
	switch i % 6 {
	case 0:
		return i
	case 1:
		return fmt.Sprint("s", i)
	case 2:
		return uint(i)
	case 3:
		return float64(i) + 0.5
	case 4:
		return i%4 == 0
	default:
		return uint(i + 1)
	}
}

func mockFields() core.Fields { return core.Fields{core.PointsField, fieldA, fieldB, fieldP} }

// KnownFieldNames are the fields of the table the harness plans against; the
// model is told which column names resolve to an existing field and which of
// those are percentiles.
var KnownFieldNames = map[string]bool{"_points": false, "a": false, "b": false, "p": true}

type mockTable struct {
	name        string
	fields      core.Fields
	partitionBy []string
}

func (t *mockTable) GetGroupBy() []core.GroupBy   { return []core.GroupBy{} }
func (t *mockTable) GetResolution() time.Duration { return time.Second }
func (t *mockTable) GetAsOf() time.Time           { return base.Add(-10 * time.Second) }
func (t *mockTable) GetUntil() time.Time          { return base }
func (t *mockTable) GetPartitionBy() []string     { return t.partitionBy }
func (t *mockTable) String() string               { return t.name }

func (t *mockTable) Iterate(ctx context.Context, onFields core.OnFields, onRow core.OnRow) (interface{}, error) {
	if err := onFields(t.fields); err != nil {
		return nil, err
	}
	for i := 0; i < 7; i++ {
		ts := base.Add(-time.Duration(i) * time.Second)
		key := bytemap.New(map[string]interface{}{"x": mixedDim(i), "y": fmt.Sprint(i), "s": "a", "w": []byte{byte(i)}})
		vals := make([]encoding.Sequence, len(t.fields))
		for j, f := range t.fields {
			switch f.Name {
			case "_points":
				vals[j] = encoding.NewFloatValue(f.Expr, ts, 1)
			case "a", "b":
				vals[j] = encoding.NewFloatValue(f.Expr, ts, float64(i+1))
			default:
				vals[j] = encoding.NewValue(f.Expr, ts, expr.Map{"a": float64(i + 1)}, bytemap.New(nil))
			}
		}
		more, err := onRow(key, vals)
		if err != nil || !more {
			return nil, err
		}
	}
	return nil, nil
}

func mockOpts(partitionBy []string) *planner.Opts {
	return &planner.Opts{
		GetTable: func(table string, includedFields func(tableFields core.Fields) (core.Fields, error)) (planner.Table, error) {
			if table != "t" && table != "inbound" {
				return nil, fmt.Errorf("Table %v not found", table)
			}
			included, err := includedFields(mockFields())
			if err != nil {
				return nil, err
			}
			return &mockTable{table, included, partitionBy}, nil
		},
		Now: func(table string) time.Time { return base },
	}
}

func mockClusterOpts() *planner.Opts {
	o := mockOpts([]string{"x"})
	o.QueryCluster = func(ctx context.Context, sqlString string, isSubQuery bool, subQueryResults [][]interface{}, unflat bool, onFields core.OnFields, onRow core.OnRow, onFlatRow core.OnFlatRow) (interface{}, error) {
		po := mockOpts([]string{"x"})
		po.IsSubQuery = isSubQuery
		po.SubQueryResults = subQueryResults
		plan, err := planner.Plan(sqlString, po)
		if err != nil {
			return nil, err
		}
		if unflat {
			return core.UnflattenOptimized(plan).Iterate(ctx, onFields, onRow)
		}
		return plan.Iterate(ctx, onFields, onFlatRow)
	}
	return o
}

type sqlEnv struct {
	dir     string
	db      *zenodb.DB
	fatal   chan string
	timeout time.Duration
	rpcStop func()
	rpcCli  rpc.Client
}

func quietLogs() func() {
	reset := golog.SetOutputs(io.Discard, io.Discard)
	return reset
}

const tableSQL = "SELECT a, b, PERCENTILE(a, 99, 0, 1000, 1) AS p FROM inbound GROUP BY x, y, s, w, period(1s)"

func newDB(dir string, fatal chan string) (*zenodb.DB, error) {
	db, err := zenodb.NewDB(&zenodb.DBOpts{
		Dir:                       dir,
		VirtualTime:               true,
		IterationCoalesceInterval: time.Millisecond,
		Panic: func(v interface{}) {
			select {
			case fatal <- fmt.Sprint(v):
			default:
			}
			// block this goroutine for good instead of taking the process down
			select {}
		},
	})
	if err != nil {
		return nil, err
	}
	err = db.CreateTable(&zenodb.TableOpts{Name: "t", RetentionPeriod: time.Hour, SQL: tableSQL, MaxFlushLatency: time.Hour})
	if err != nil {
		db.Close()
		return nil, err
	}
	return db, nil
}

func newSQLEnv() (*sqlEnv, error) {
	dir, err := os.MkdirTemp("", "zvh-robust-*")
	if err != nil {
		return nil, err
	}
	e := &sqlEnv{dir: dir, fatal: make(chan string, 4), timeout: 10 * time.Second}
	e.db, err = newDB(dir, e.fatal)
	if err != nil {
		os.RemoveAll(dir)
		return nil, err
	}
	for i := 0; i < 7; i++ {
		ts := base.Add(-time.Duration(i) * time.Second)
		e.db.Insert("inbound", ts, map[string]interface{}{"x": mixedDim(i), "y": fmt.Sprint(i), "s": "a", "w": []byte{byte(i)}}, map[string]interface{}{"a": float64(i + 1), "b": float64(2 * i)})
	}
	// the client boundary: a real gRPC server in front of the database
	l, err := net.Listen("tcp", "127.0.0.1:0")
	if err != nil {
		e.close()
		return nil, err
	}
	serve, stop := rpcserver.PrepareServer(e.db, l, &rpcserver.Opts{ID: 1})
	e.rpcStop = stop
	go serve()
	e.rpcCli, err = rpc.Dial(l.Addr().String(), &rpc.ClientOpts{})
	if err != nil {
		e.close()
		return nil, err
	}
	// wait until the points are queryable
	deadline := time.Now().Add(10 * time.Second)
	for time.Now().Before(deadline) {
		n, err := countRows(e.db, "SELECT * FROM t", 5*time.Second)
		if err == nil && n >= 7 {
			return e, nil
		}
		time.Sleep(20 * time.Millisecond)
	}
	e.close()
	return nil, fmt.Errorf("embedded DB did not ingest the seed points")
}

func (e *sqlEnv) close() {
	done := make(chan bool, 1)
	go func() {
		if e.rpcCli != nil {
			e.rpcCli.Close()
		}
		if e.rpcStop != nil {
			e.rpcStop()
		}
		e.db.Close()
		done <- true
	}()
	select {
	case <-done:
	case <-time.After(10 * time.Second):
	}
	os.RemoveAll(e.dir)
}

func countRows(db *zenodb.DB, q string, timeout time.Duration) (int, error) {
	src, err := db.Query(q, false, nil, true)
	if err != nil {
		return 0, err
	}
	ctx, cancel := context.WithTimeout(context.Background(), timeout)
	defer cancel()
	n := 0
	_, err = src.Iterate(ctx, core.FieldsIgnored, func(row *core.FlatRow) (bool, error) {
		n++
		return true, nil
	})
	return n, err
}

func iterate(src core.FlatRowSource, timeout time.Duration) error {
	_, err := iterateN(src, timeout)
	return err
}

// iterateN also reports the largest number of fields the plan announced.
func iterateN(src core.FlatRowSource, timeout time.Duration) (int, error) {
	ctx, cancel := context.WithTimeout(context.Background(), timeout)
	defer cancel()
	n := 0
	_, err := src.Iterate(ctx, func(fields core.Fields) error {
		if len(fields) > n {
			n = len(fields)
		}
		return nil
	}, func(row *core.FlatRow) (bool, error) { return true, nil })
	return n, err
}

// runPlans plans the query against the mock table, locally and as a cluster
// leader, and executes the plans.  It runs in the child process: the planner
// starts goroutines of its own for sub queries, and a panic there cannot be
// recovered by the caller.
func runPlans(sqlString string, timeout time.Duration) (stageResult, stageResult) {
	likeServerProcess()
	e := &struct{ timeout time.Duration }{timeout}
	o := &sqlOutcome{}
	evalOK := !evaluatesLua(sqlString)
	nPlan, nCluster := 0, 0
	o.Plan = guardedPh(e.timeout, func(phase *string) error {
		plan, err := planner.Plan(sqlString, mockOpts(nil))
		if err != nil {
			return err
		}
		_ = core.FormatSource(plan)
		if !evalOK {
			return nil
		}
		*phase = "exec"
		n, err := iterateN(plan, e.timeout/2)
		nPlan = n
		return err
	})
	o.Plan.N = nPlan
	if o.Plan.Class == clsHang {
		return o.Plan, stageResult{Class: clsSkip}
	}
	o.Cluster = guardedPh(e.timeout, func(phase *string) error {
		plan, err := planner.Plan(sqlString, mockClusterOpts())
		if err != nil {
			return err
		}
		_ = core.FormatSource(plan)
		if !evalOK {
			return nil
		}
		*phase = "exec"
		n, err := iterateN(plan, e.timeout/2)
		nCluster = n
		return err
	})
	o.Cluster.N = nCluster
	return o.Plan, o.Cluster
}

// evaluatesLua: goexpr/redis's LUA keeps a package-level mutex locked for good
// when loading the script fails (known finding C16-lua-lock-leak, probed on
// its own in a throw-away process); a query that would evaluate LUA is
// therefore only parsed and planned here, never executed.
func evaluatesLua(sqlString string) bool {
	return strings.Contains(strings.ToUpper(sqlString), "LUA")
}

// runQuery is the database stage (executed inside the child process).
func (e *sqlEnv) runQuery(sqlString string) stageResult {
	if evaluatesLua(sqlString) {
		return guarded(e.timeout, func() error {
			_, err := e.db.Query(sqlString, false, nil, true)
			return err
		})
	}
	// through the gRPC front end, as a client would
	return guarded(e.timeout, func() error {
		ctx, cancel := context.WithTimeout(context.Background(), e.timeout/2)
		defer cancel()
		_, iter, err := e.rpcCli.Query(ctx, sqlString, true)
		if err != nil {
			return err
		}
		_, err = iter(func(row *core.FlatRow) (bool, error) { return true, nil })
		return err
	})
}

const pureTimeout = 10 * time.Second

var serverInit sync.Once

// likeServerProcess gives the harness process the process-wide initialisation
// that every zenodb server process gets from zenodb.NewDB (optional expression
// subsystems), so that plans evaluated against the mock table behave as they
// would inside a server.
func likeServerProcess() {
	serverInit.Do(func() {
		if db, err := zenodb.NewDB(&zenodb.DBOpts{}); err == nil {
			go db.Close()
		}
	})
}

// runPure executes the stages that need no database for one SQL string.  Like
// everything else that runs zenodb code it is called in the child process: a
// stage that does not return leaves a goroutine spinning (and possibly
// allocating) that only the death of the process stops.
func runPure(sqlString string, mult time.Duration) *sqlOutcome {
	likeServerProcess()
	e := &struct{ timeout time.Duration }{mult * pureTimeout}
	parseTimeout := mult * parseTimeout
	skip := stageResult{Class: clsSkip}
	o := &sqlOutcome{TableFor: skip, Fields: skip, Plan: skip, Cluster: skip, Query: skip}
	var q *sql.Query
	// Parsing is pure CPU work on a short string (microseconds); a goroutine
	// that is still busy after parseTimeout is spinning, cannot be stopped and
	// may be allocating, so the remaining stages are not run.
	prescan := ""
	o.Parse = guarded(parseTimeout, func() error {
		var err error
		q, err = sql.Parse(sqlString)
		if err != nil && strings.Contains(err.Error(), sql.ErrUnterminatedIdentifier.Error()) {
			// sql.Parse wraps the verdict of the pre-scan on the client's text exactly once; anything
			// else is a later re-parse of text sql.go printed from the AST (HAVING / select list)
			if err.Error() == fmt.Sprintf("Error parsing %v: %v", sqlString, sql.ErrUnterminatedIdentifier) {
				prescan = "rejected"
			} else {
				prescan = "inner-rejected"
			}
		}
		return err
	})
	o.Parse.Prescan = prescan
	if o.Parse.Class == clsHang {
		return o
	}
	o.TableFor = guarded(parseTimeout, func() error {
		_, err := sql.TableFor(sqlString)
		return err
	})
	if o.TableFor.Class == clsHang {
		return o
	}
	if o.Parse.Class == clsOK && q != nil && q.Fields != nil {
		nFields := 0
		o.Fields = guarded(e.timeout, func() error {
			fields, err := q.Fields.Get(mockFields())
			nFields = len(fields)
			return err
		})
		o.Fields.N = nFields
	}
	return o
}
