package robust

// Everything that touches a real zenodb.DB runs in a child process (the same
// zvh binary, mode "child"): a panic in one of the database's own goroutines
// (WAL processing, coalesced iteration, flushing) cannot be recovered by the
// caller and takes the process down — which is exactly what C16 forbids — so
// the parent must survive it to report the input.  Protocol: one JSON request
// per line on stdin, one JSON response per line on fd 3.  The child's stderr
// is kept (tail) so that the Go runtime's crash report yields message and site.

import (
	"bufio"
	"encoding/json"
	"fmt"
	"io"
	"os"
	"os/exec"
	"strings"
	"sync"
	"syscall"
	"time"

	"github.com/getlantern/sqlparser"
)

type childReq struct {
	Op     string        `json:"op"` // "query" | "parseonly" | "lex" | "luaquery" | "insert" | "ping"
	SQL    string        `json:"sql,omitempty"`
	Slow   bool          `json:"slow,omitempty"` // second attempt after a timeout: allow four times as long
	Script *insertScript `json:"script,omitempty"`
}

// lexVerdict is what the real sqlparser tokenizer did with an input.
type lexVerdict struct {
	Terminated bool `json:"terminated"`
	Tokens     int  `json:"tokens"`
}

type childResp struct {
	Lex     *lexVerdict    `json:"lex,omitempty"`
	Pure    *sqlOutcome    `json:"pure,omitempty"` // parse, tablefor, fields
	Plan    *stageResult   `json:"plan,omitempty"`
	Cluster *stageResult   `json:"cluster,omitempty"`
	Query   *stageResult   `json:"query,omitempty"`
	Insert  *insertOutcome `json:"insert,omitempty"`
	Fatal   string         `json:"fatal,omitempty"` // DB.Panic hook fired
	Err     string         `json:"err,omitempty"`   // infrastructure trouble inside the child
}

// ---------------------------------------------------------------- child side

func childMain() error {
	reset := quietLogs()
	defer reset()
	// a stage that allocates without bound must end in a crash the parent can
	// report, not in the machine swapping
	lim := uint64(16 << 30)
	syscall.Setrlimit(syscall.RLIMIT_AS, &syscall.Rlimit{Cur: lim, Max: lim})
	out := os.NewFile(3, "resp")
	if out == nil {
		return fmt.Errorf("child: fd 3 missing")
	}
	devnull, _ := os.OpenFile(os.DevNull, os.O_WRONLY, 0)
	if devnull != nil {
		os.Stdout = devnull // zenodb prints debugging text with fmt.Printf
	}
	w := bufio.NewWriter(out)
	reply := func(r *childResp) {
		b, _ := json.Marshal(r)
		w.Write(append(b, '\n'))
		w.Flush()
	}
	var env *sqlEnv
	var ienv *insertEnv
	defer func() {
		if env != nil {
			env.close()
		}
		if ienv != nil {
			ienv.close()
		}
	}()
	in := bufio.NewReaderSize(os.Stdin, 1<<20)
	for {
		line, err := in.ReadBytes('\n')
		if len(line) > 0 {
			var req childReq
			if jerr := json.Unmarshal(line, &req); jerr != nil {
				reply(&childResp{Err: "bad request: " + jerr.Error()})
				continue
			}
			switch req.Op {
			case "ping":
				reply(&childResp{})
			case "lex":
				// the real tokenizer on the whole input, under a watchdog: it cannot be
				// interrupted, so after a verdict "did not terminate" this process ends
				mult := time.Duration(1)
				if req.Slow {
					mult = 4
				}
				done := make(chan int, 1)
				go func(s string) {
					tkn := sqlparser.NewStringTokenizer(s)
					n := 0
					for {
						typ, _ := tkn.Scan()
						if typ == 0 || typ == sqlparser.LEX_ERROR {
							break
						}
						n++
					}
					done <- n
				}(req.SQL)
				select {
				case n := <-done:
					reply(&childResp{Lex: &lexVerdict{Terminated: true, Tokens: n}})
				case <-time.After(mult * time.Second):
					reply(&childResp{Lex: &lexVerdict{Terminated: false}})
					os.Exit(0)
				}
			case "parseonly":
				mult := time.Duration(1)
				if req.Slow {
					mult = 4
				}
				pure := runPure(req.SQL, mult)
				reply(&childResp{Pure: pure})
				if _, st, bad := pure.worst(); bad && st.Class == clsHang {
					os.Exit(0) // a goroutine is spinning
				}
			case "query":
				if env == nil {
					var e error
					env, e = newSQLEnv()
					if e != nil {
						reply(&childResp{Err: "sql env: " + e.Error()})
						env = nil
						continue
					}
				}
				mult := time.Duration(1)
				if req.Slow {
					mult = 4
				}
				env.timeout = mult * 10 * time.Second
				pure := runPure(req.SQL, mult)
				if _, st, bad := pure.worst(); bad && st.Class == clsHang {
					// a goroutine is spinning: answer, the parent replaces this process
					reply(&childResp{Pure: pure})
					continue
				}
				pl, cl := runPlans(req.SQL, mult*pureTimeout)
				resp := &childResp{Pure: pure, Plan: &pl, Cluster: &cl}
				if pl.Class != clsHang && cl.Class != clsHang {
					st := env.runQuery(req.SQL)
					resp.Query = &st
				}
				select {
				case f := <-env.fatal:
					resp.Fatal = f
				default:
				}
				reply(resp)
			case "luaquery":
				// known-finding probe: the query is executed although it evaluates LUA
				if env == nil {
					var e error
					env, e = newSQLEnv()
					if e != nil {
						reply(&childResp{Err: "sql env: " + e.Error()})
						env = nil
						continue
					}
				}
				st := guarded(env.timeout, func() error {
					src, err := env.db.Query(req.SQL, false, nil, true)
					if err != nil {
						return err
					}
					return iterate(src, env.timeout/2)
				})
				reply(&childResp{Query: &st})
			case "insert":
				if ienv == nil {
					var e error
					ienv, e = newInsertEnv()
					if e != nil {
						reply(&childResp{Err: "insert env: " + e.Error()})
						ienv = nil
						continue
					}
				}
				o := ienv.run(req.Script, req.Slow)
				resp := &childResp{Insert: o}
				select {
				case f := <-ienv.fatal:
					resp.Fatal = f
				default:
				}
				reply(resp)
				if o.Infra != "" || o.Hang {
					// start from a clean database next time
					ienv.close()
					ienv = nil
				}
			default:
				reply(&childResp{Err: "unknown op " + req.Op})
			}
		}
		if err != nil {
			return nil
		}
	}
}

// ---------------------------------------------------------------- parent side

type tailBuf struct {
	mu  sync.Mutex
	buf []byte
	max int
}

func (t *tailBuf) Write(p []byte) (int, error) {
	t.mu.Lock()
	t.buf = append(t.buf, p...)
	if len(t.buf) > t.max {
		t.buf = t.buf[len(t.buf)-t.max:]
	}
	t.mu.Unlock()
	return len(p), nil
}

func (t *tailBuf) String() string {
	t.mu.Lock()
	defer t.mu.Unlock()
	return string(t.buf)
}

type child struct {
	cmd    *exec.Cmd
	in     io.WriteCloser
	out    *bufio.Reader
	outF   *os.File
	stderr *tailBuf
	lines  chan []byte
	dead   chan struct{}
}

func startChild() (*child, error) {
	exe, err := os.Executable()
	if err != nil {
		return nil, err
	}
	pr, pw, err := os.Pipe()
	if err != nil {
		return nil, err
	}
	cmd := exec.Command(exe, "robust", "-mode", "child", "-nomodel", "-out", os.DevNull)
	cmd.ExtraFiles = []*os.File{pw}
	tb := &tailBuf{max: 256 << 10}
	cmd.Stderr = tb
	cmd.Stdout = io.Discard
	in, err := cmd.StdinPipe()
	if err != nil {
		return nil, err
	}
	if err := cmd.Start(); err != nil {
		return nil, err
	}
	pw.Close()
	c := &child{cmd: cmd, in: in, out: bufio.NewReaderSize(pr, 1<<20), outF: pr, stderr: tb, lines: make(chan []byte, 1), dead: make(chan struct{})}
	go func() {
		for {
			line, err := c.out.ReadBytes('\n')
			if len(line) > 0 && line[len(line)-1] == '\n' {
				c.lines <- line
			}
			if err != nil {
				close(c.dead)
				return
			}
		}
	}()
	return c, nil
}

func (c *child) kill() {
	c.in.Close()
	c.cmd.Process.Kill()
	c.cmd.Wait()
	c.outF.Close()
}

func (c *child) stop() {
	c.in.Close()
	done := make(chan bool, 1)
	go func() { c.cmd.Wait(); done <- true }()
	select {
	case <-done:
	case <-time.After(15 * time.Second):
		c.cmd.Process.Kill()
		<-done
	}
	c.outF.Close()
}

// callResult is what the parent learns from one request.
type callResult struct {
	Resp    *childResp
	Crashed bool   // the child process died while handling the request
	Hung    bool   // no answer within the timeout (child killed)
	Msg     string // crash message
	Site    string // crash site
}

func (c *child) call(req *childReq, timeout time.Duration) callResult {
	b, _ := json.Marshal(req)
	if _, err := c.in.Write(append(b, '\n')); err != nil {
		return c.crashResult()
	}
	select {
	case line := <-c.lines:
		var resp childResp
		if err := json.Unmarshal(line, &resp); err != nil {
			return callResult{Resp: &childResp{Err: "bad child reply: " + err.Error()}}
		}
		return callResult{Resp: &resp}
	case <-c.dead:
		return c.crashResult()
	case <-time.After(timeout):
		c.kill()
		return callResult{Hung: true, Msg: fmt.Sprintf("no answer from the database process after %v", timeout)}
	}
}

func (c *child) crashResult() callResult {
	c.cmd.Wait()
	c.outF.Close()
	st := c.stderr.String()
	msg := "process exited"
	if i := strings.LastIndex(st, "\npanic: "); i >= 0 {
		rest := st[i+1:]
		if j := strings.Index(rest, "\n"); j >= 0 {
			msg = rest[:j]
		}
		return callResult{Crashed: true, Msg: trunc(msg, 300), Site: siteOf(rest)}
	}
	if strings.HasPrefix(st, "panic: ") {
		if j := strings.Index(st, "\n"); j >= 0 {
			msg = st[:j]
		}
		return callResult{Crashed: true, Msg: trunc(msg, 300), Site: siteOf(st)}
	}
	if i := strings.LastIndex(st, "fatal error: "); i >= 0 {
		rest := st[i:]
		if j := strings.Index(rest, "\n"); j >= 0 {
			msg = rest[:j]
		}
		return callResult{Crashed: true, Msg: trunc(msg, 300), Site: siteOf(rest)}
	}
	return callResult{Crashed: true, Msg: msg + ": " + trunc(lastLines(st, 3), 300)}
}

func lastLines(s string, n int) string {
	ls := strings.Split(strings.TrimSpace(s), "\n")
	if len(ls) > n {
		ls = ls[len(ls)-n:]
	}
	return strings.Join(ls, " | ")
}

// dbProc keeps one child alive and restarts it after a crash or hang.
type dbProc struct {
	c *child
}

func (d *dbProc) call(req *childReq, timeout time.Duration) (callResult, error) {
	if d.c == nil {
		c, err := startChild()
		if err != nil {
			return callResult{}, err
		}
		d.c = c
	}
	r := d.c.call(req, timeout)
	if r.Crashed || r.Hung {
		d.c = nil
	}
	return r, nil
}

func (d *dbProc) close() {
	if d.c != nil {
		d.c.stop()
		d.c = nil
	}
}
