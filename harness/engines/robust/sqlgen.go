package robust

// Grammar-aware generation and mutation of SQL strings.  A query is kept as a
// list of tokens (joined with single spaces) so that deletion, duplication,
// swapping, truncation at token boundaries and shrinking are all list
// operations.

import (
	"fmt"
	"os"
	"path/filepath"
	"regexp"
	"strings"

	"zvh/hk"
)

// ---- function tables of sql/sql.go (cross-checked against the regenerated
// fact list Facts.sqlFuncTables by the Lean side and against the AST summary
// by the engine itself: a name the summariser does not know is reported).

// FieldFuncs are the names dispatched by (*fielded).exprFor.
var FieldFuncs = map[string][]int{ // name -> accepted arities
	"SUM": {1}, "MIN": {1}, "MAX": {1}, "COUNT": {1}, "AVG": {1},
	"WAVG":       {2},
	"IF":         {2},
	"BOUNDED":    {3},
	"PERCENTILE": {2, 5},
	"SHIFT":      {2},
	"CROSSHIFT":  {3},
	// unary math (expr/math.go)
	"LN": {1}, "LOG2": {1}, "LOG10": {1},
}

// DimFuncs are the names dispatched by goFnExprFor; arity -1 = variadic.
var DimFuncs = map[string]int{
	"RAND": 0,
	"CITY": 1, "REGION": 1, "REGION_CITY": 1, "COUNTRY_CODE": 1,
	"ISP": 1, "ORG": 1, "ASN": 1, "ASNAME": 1, "LEN": 1,
	"HGET": 2, "SISMEMBER": 2,
	"SPLIT": 3, "SUBSTR": 3, "REPLACEALL": 3, "LUA": 3,
	"CONCAT": -1, "CROSSTAB": -1, "CROSSTABT": -1, "ANY": -1, "ARRAY": -1, "DECODE": -1,
}

// GroupByFuncs are handled by applyGroupBy itself.
var GroupByFuncs = []string{"PERIOD", "STRIDE", "CROSSTAB", "CROSSTABT"}

// factsFuncNames reads the function names of sql.go's dispatch tables from the
// regenerated Generated/Facts.lean (next to the model driver), so that a
// function added to sql.go is exercised even before the engine's own tables
// (and the model, which the theorem dispatch_tables_match pins to the same
// facts) have been updated.
func factsFuncNames() []string {
	path := os.Getenv("ZV_FACTS")
	if path == "" {
		// …/lean/.lake/build/bin/zmodel → …/lean/ZenoModel/Generated/Facts.lean
		lean := filepath.Dir(filepath.Dir(filepath.Dir(filepath.Dir(hk.ModelPath()))))
		path = filepath.Join(lean, "ZenoModel", "Generated", "Facts.lean")
	}
	b, err := os.ReadFile(path)
	if err != nil {
		return nil
	}
	text := string(b)
	i := strings.Index(text, "def sqlFuncTables")
	if i < 0 {
		return nil
	}
	text = text[i:]
	if j := strings.Index(text, "\n]"); j >= 0 {
		text = text[:j]
	}
	var out []string
	for _, m := range regexp.MustCompile(`"((?:[^"\\]|\\.)*)"`).FindAllStringSubmatch(text, -1) {
		name := m[1]
		if name == "" || strings.ContainsAny(name, "+-*/<>=!") || strings.HasSuffix(name, "Funcs") || strings.HasSuffix(name, "GoExpr") ||
			name == "operators" || name == "conditions" || name == "varGoExprMinParams" || name == "unaryMathFNs" {
			continue
		}
		out = append(out, name)
	}
	return out
}

func sortedKeys(m map[string]int) []string {
	out := make([]string, 0, len(m))
	for k := range m {
		out = append(out, k)
	}
	sortStrings(out)
	return out
}

func sortStrings(s []string) {
	for i := 1; i < len(s); i++ {
		for j := i; j > 0 && s[j] < s[j-1]; j-- {
			s[j], s[j-1] = s[j-1], s[j]
		}
	}
}

var fieldFuncNames, dimFuncNames []string

func init() {
	for k := range FieldFuncs {
		fieldFuncNames = append(fieldFuncNames, k)
	}
	sortStrings(fieldFuncNames)
	dimFuncNames = sortedKeys(DimFuncs)
}

type toks []string

func (t toks) String() string { return strings.Join(t, " ") }

type sqlGen struct {
	r     *hk.Rng
	depth int
}

var (
	tables     = []string{"t", "t", "t", "t", "T", "nosuch", "v", "`t`", "inbound"}
	valFields  = []string{"a", "b", "a", "b", "c", "_points", "_", "nosuchfield", "p"}
	dims       = []string{"x", "y", "s", "x", "y", "w", "nosuchdim", "_time"}
	durations  = []string{"'1s'", "'5s'", "'-1s'", "'1m'", "'1h'", "'0s'", "'bogus'", "''", "'1'", "1", "'-5s'", "'9999999h'", "'1d'", "'1w'", "5s", "x"}
	numbers    = []string{"0", "1", "2", "5", "-1", "1.5", "1e3", "0x1F", "99", "99.9", "1000", "1e30", "-0", "3", ".5", "1e400", "9223372036854775808"}
	strs       = []string{"'a'", "'b'", "''", "'1'", "'x y'", "'it''s'", "'%'", "'\\''", "'true'", "'2020-03-01T12:00:00Z'"}
	timeLits   = []string{"'-60s'", "'-5s'", "'-1h'", "'2020-03-01T11:59:00Z'", "'2020-03-01T12:00:00Z'", "'2030-01-01T00:00:00Z'", "'bogus'", "''", "'5s'", "'0s'", "'-0s'", "'1970-01-01T00:00:00Z'", "'-99999h'"}
	cmpOps     = []string{"=", "<", ">", "<=", ">=", "<>", "!=", "<=>", "LIKE", "NOT LIKE"}
	arithOps   = []string{"+", "-", "*", "/", "+", "*", "%", "&", "|", "^"}
	unknownFns = []string{"NOSUCH", "FOO", "P", "PP", "PANY", "PSUM", "SQRT", "X", "VALUES", "PLUA", "PCONCAT", "PRAND", "`sum`", "`a b`"}
)

func (g *sqlGen) pick(xs []string) string { return hk.Pick(g.r, xs) }

// valueExpr generates an expression over value fields (SELECT / HAVING side).
func (g *sqlGen) valueExpr(d int) toks {
	r := g.r
	if d <= 0 {
		switch r.Intn(6) {
		case 0:
			return toks{g.pick(numbers)}
		default:
			return toks{g.pick(valFields)}
		}
	}
	switch r.Intn(16) {
	case 0, 1, 2:
		fn := g.pick([]string{"SUM", "MIN", "MAX", "COUNT", "AVG"})
		return g.call(fn, g.valueExpr(d-1))
	case 3:
		return g.call("WAVG", g.valueExpr(d-1), g.valueExpr(d-1))
	case 4:
		return g.call("IF", g.dimBool(d-1), g.valueExpr(d-1))
	case 5:
		return g.call("BOUNDED", g.valueExpr(d-1), toks{g.pick(numbers)}, toks{g.pick(numbers)})
	case 6:
		if r.Bool() {
			return g.call("PERCENTILE", g.valueExpr(d-1), toks{g.pick(numbers)})
		}
		return g.call("PERCENTILE", g.valueExpr(d-1), toks{g.pick(numbers)}, toks{g.pick([]string{"0", "1", "-1", "10"})},
			toks{g.pick([]string{"100", "1000", "0", "10"})}, toks{g.pick([]string{"0", "1", "2", "3", "-1", "4"})})
	case 7:
		return g.call("SHIFT", g.valueExpr(d-1), toks{g.pick(durations)})
	case 8:
		return g.call("CROSSHIFT", g.valueExpr(d-1), toks{g.pick(durations)}, toks{g.pick(durations)})
	case 9:
		return g.call(g.pick([]string{"LN", "LOG2", "LOG10"}), g.valueExpr(d-1))
	case 10, 11:
		out := append(toks{}, g.valueExpr(d-1)...)
		out = append(out, g.pick(arithOps))
		return append(out, g.valueExpr(d-1)...)
	case 12:
		out := append(toks{"("}, g.valueExpr(d-1)...)
		return append(out, ")")
	case 13:
		return toks{g.pick(numbers)}
	default:
		return toks{g.pick(valFields)}
	}
}

func (g *sqlGen) call(fn string, args ...toks) toks {
	out := toks{fn, "("}
	for i, a := range args {
		if i > 0 {
			out = append(out, ",")
		}
		out = append(out, a...)
	}
	return append(out, ")")
}

// valueBool generates a HAVING-style boolean over value expressions.
func (g *sqlGen) valueBool(d int) toks {
	r := g.r
	if d > 0 && r.Chance(1, 3) {
		out := append(toks{}, g.valueBool(d-1)...)
		out = append(out, g.pick([]string{"AND", "OR"}))
		return append(out, g.valueBool(d-1)...)
	}
	if d > 0 && r.Chance(1, 8) {
		out := append(toks{"("}, g.valueBool(d-1)...)
		return append(out, ")")
	}
	out := append(toks{}, g.valueExpr(d)...)
	out = append(out, g.pick(cmpOps[:7]))
	return append(out, g.valueExpr(d-1)...)
}

// dimExpr generates a goexpr-side expression.
func (g *sqlGen) dimExpr(d int) toks {
	r := g.r
	if d <= 0 {
		switch r.Intn(5) {
		case 0:
			return toks{g.pick(strs)}
		case 1:
			return toks{g.pick(numbers)}
		default:
			return toks{g.pick(dims)}
		}
	}
	switch r.Intn(8) {
	case 0, 1, 2:
		fn := g.pick(dimFuncNames)
		n := DimFuncs[fn]
		if n < 0 {
			n = r.Range(1, 3)
		}
		args := make([]toks, n)
		for i := range args {
			args[i] = g.dimExpr(d - 1)
		}
		if fn == "LUA" && r.Chance(3, 4) {
			args[1] = g.call("ARRAY", g.dimExpr(d-1))
			args[2] = g.call("ARRAY", g.dimExpr(d-1))
		}
		return g.call(fn, args...)
	case 3:
		return toks{g.pick(strs)}
	default:
		return toks{g.pick(dims)}
	}
}

func (g *sqlGen) dimBool(d int) toks {
	r := g.r
	if d > 0 {
		switch r.Intn(10) {
		case 0, 1:
			out := append(toks{}, g.dimBool(d-1)...)
			out = append(out, g.pick([]string{"AND", "OR"}))
			return append(out, g.dimBool(d-1)...)
		case 2:
			return append(toks{"NOT"}, g.dimBool(d-1)...)
		case 3:
			out := append(toks{"("}, g.dimBool(d-1)...)
			return append(out, ")")
		case 4:
			out := append(toks{}, g.dimExpr(d-1)...)
			out = append(out, "IN", "(")
			n := r.Range(1, 3)
			for i := 0; i < n; i++ {
				if i > 0 {
					out = append(out, ",")
				}
				out = append(out, g.dimExpr(0)...)
			}
			return append(out, ")")
		case 5:
			out := append(toks{}, g.dimExpr(d-1)...)
			out = append(out, "IN", "(")
			out = append(out, g.selectStmt(d-1, true)...)
			return append(out, ")")
		case 6:
			out := append(toks{}, g.dimExpr(d-1)...)
			return append(out, g.pick([]string{"IS NULL", "IS NOT NULL"}))
		}
	}
	out := append(toks{}, g.dimExpr(d)...)
	out = append(out, g.pick(cmpOps))
	return append(out, g.dimExpr(d-1)...)
}

func (g *sqlGen) selectList(d int) toks {
	r := g.r
	if r.Chance(1, 6) {
		return toks{"*"}
	}
	n := r.Range(1, 3)
	var out toks
	for i := 0; i < n; i++ {
		if i > 0 {
			out = append(out, ",")
		}
		e := g.valueExpr(r.Range(0, d))
		out = append(out, e...)
		if len(e) > 1 || r.Chance(1, 4) {
			if !r.Chance(1, 12) { // sometimes forget the alias
				out = append(out, "AS", g.pick([]string{"f1", "f2", "a", "b", "total", "_having", "select"}))
			}
		}
	}
	if r.Chance(1, 10) {
		out = append(out, ",", "*")
	}
	return out
}

func (g *sqlGen) groupBy(d int) toks {
	r := g.r
	n := r.Range(1, 3)
	var out toks
	for i := 0; i < n; i++ {
		if i > 0 {
			out = append(out, ",")
		}
		switch r.Intn(9) {
		case 0:
			out = append(out, "*")
		case 1:
			out = append(out, g.call("PERIOD", toks{g.pick(durations)})...)
		case 2:
			out = append(out, g.call("STRIDE", toks{g.pick(durations)})...)
		case 3:
			out = append(out, g.call(g.pick([]string{"CROSSTAB", "CROSSTABT"}), g.dimExpr(d-1))...)
		case 4:
			out = append(out, g.dimExpr(d)...)
			if !r.Chance(1, 6) {
				out = append(out, "AS", g.pick([]string{"g1", "g2", "x"}))
			}
		default:
			out = append(out, g.pick(dims))
		}
	}
	return out
}

// selectStmt generates a mostly valid SELECT.  single = exactly one select
// expression (IN-subquery shape).
func (g *sqlGen) selectStmt(d int, single bool) toks {
	r := g.r
	out := toks{"SELECT"}
	if r.Chance(1, 20) {
		out = append(out, "/* force_fresh */")
	}
	if r.Chance(1, 25) {
		out = append(out, "DISTINCT")
	}
	if single {
		out = append(out, g.pick(dims))
	} else {
		out = append(out, g.selectList(d)...)
	}
	out = append(out, "FROM")
	switch {
	case d > 0 && r.Chance(1, 8):
		out = append(out, "(")
		out = append(out, g.selectStmt(d-1, false)...)
		out = append(out, ")")
		if r.Chance(1, 4) {
			out = append(out, "AS", "sq")
		}
	default:
		out = append(out, g.pick(tables))
	}
	if r.Chance(1, 4) {
		out = append(out, "ASOF", g.pick(timeLits))
		if r.Chance(1, 2) {
			out = append(out, "UNTIL", g.pick(timeLits))
		}
	}
	if r.Chance(1, 3) {
		out = append(out, "WHERE")
		out = append(out, g.dimBool(r.Range(0, d))...)
	}
	if r.Chance(1, 2) {
		out = append(out, "GROUP BY")
		out = append(out, g.groupBy(d)...)
	}
	if r.Chance(1, 4) {
		out = append(out, "HAVING")
		out = append(out, g.valueBool(r.Range(0, d))...)
	}
	if r.Chance(1, 5) {
		out = append(out, "ORDER BY", g.pick([]string{"a", "b", "x", "x", "w", "y", "_time", "f1", "nosuch", "1", "a + b"}))
		if r.Bool() {
			out = append(out, g.pick([]string{"ASC", "DESC"}))
		}
	}
	if r.Chance(1, 6) {
		out = append(out, "LIMIT", g.pick([]string{"1", "10", "0", "-1", "'5'", "a", "1.5", "99999999999999999999"}))
		if r.Chance(1, 3) {
			out = append(out, ",", g.pick([]string{"1", "0", "x", "'2'"}))
		}
	}
	return out
}

// ---- hostile statements

var nonSelect = []string{
	"DELETE FROM t",
	"DELETE FROM t WHERE x = 1",
	"INSERT INTO t ( a ) VALUES ( 1 )",
	"INSERT INTO t SET a = 1",
	"INSERT INTO t ( a ) SELECT a FROM t",
	"UPDATE t SET a = 1",
	"UPDATE t SET a = 1 WHERE x = 2 ORDER BY a LIMIT 1",
	"SELECT a FROM t UNION SELECT a FROM t",
	"SELECT a FROM t UNION ALL SELECT b FROM t",
	"SELECT a FROM t MINUS SELECT a FROM t",
	"SELECT a FROM t EXCEPT SELECT a FROM t",
	"SELECT a FROM t INTERSECT SELECT a FROM t",
	"SHOW TABLES",
	"SHOW",
	"DESCRIBE t",
	"EXPLAIN SELECT a FROM t",
	"SET a = 1",
	"SET @@x = 1",
	"CREATE TABLE t ( a INT )",
	"CREATE TABLE t ( a VARCHAR ( 10 ) PRIMARY KEY , b INT UNSIGNED NOT NULL )",
	"CREATE VIEW v AS SELECT a FROM t",
	"CREATE INDEX i ON t",
	"CREATE UNIQUE INDEX i ON t",
	"DROP TABLE t",
	"DROP TABLE IF EXISTS t",
	"DROP VIEW v",
	"DROP INDEX i ON t",
	"ALTER TABLE t ADD c INT",
	"ALTER TABLE t RENAME TO u",
	"ALTER VIEW v AS SELECT a FROM t",
	"RENAME TABLE t TO u",
	"ANALYZE TABLE t",
	"USE t",
	"SELECT * FROM ( SELECT a FROM t UNION SELECT a FROM t )",
	"SELECT * FROM ( SELECT a FROM t UNION SELECT a FROM t ) AS u",
	"SELECT * FROM t WHERE x IN ( SELECT x FROM t UNION SELECT x FROM t )",
	"SELECT * FROM t WHERE EXISTS ( SELECT x FROM t )",
	"SELECT * FROM t , t",
	"SELECT * FROM t JOIN t ON x = y",
	"SELECT * FROM t LEFT JOIN t ON x = y",
	"SELECT * FROM ( t )",
	"SELECT * FROM t AS u USE INDEX ( i )",
	"SELECT * FROM db . t",
	"SELECT t . * FROM t",
	"SELECT * FROM t FOR UPDATE",
	"SELECT * FROM t LOCK IN SHARE MODE",
	"SELECT a FROM t WHERE x BETWEEN 1 AND 2",
	"SELECT a FROM t WHERE x NOT BETWEEN 1 AND 2",
	"SELECT a FROM t WHERE x NOT IN ( 1 , 2 )",
	"SELECT a FROM t WHERE x IN ::list",
	"SELECT a FROM t WHERE x = :arg",
	"SELECT a FROM t WHERE x = NULL",
	"SELECT a FROM t WHERE ( x , y ) = ( 1 , 2 )",
	"SELECT a FROM t WHERE x = ( SELECT x FROM t )",
	"SELECT a FROM t WHERE x = CASE WHEN y = 1 THEN 2 ELSE 3 END",
	"SELECT a FROM t WHERE x = -y",
	"SELECT a FROM t WHERE x = ~y",
	"SELECT a FROM t WHERE x = y + 1",
	"SELECT a FROM t WHERE x = *",
	"SELECT a FROM t WHERE true",
	"SELECT a FROM t WHERE x",
	"SELECT CASE WHEN a = 1 THEN 2 ELSE 3 END AS f1 FROM t",
	"SELECT ( SELECT a FROM t ) AS f1 FROM t",
	"SELECT SUM ( ( SELECT a FROM t ) ) AS f1 FROM t",
	"SELECT a IS NULL AS f1 FROM t",
	"SELECT SUM ( a IS NULL ) AS f1 FROM t",
	"SELECT NOT a = 1 AS f1 FROM t",
	"SELECT -a AS f1 FROM t",
	"SELECT 'str' AS f1 FROM t",
	"SELECT NULL AS f1 FROM t",
	"SELECT :v AS f1 FROM t",
	"SELECT ( a , b ) AS f1 FROM t",
	"SELECT SUM ( DISTINCT a ) AS f1 FROM t",
	"SELECT SUM ( * ) AS f1 FROM t",
	"SELECT COUNT ( * ) AS f1 FROM t",
	"SELECT SUM ( 1 ) AS f1 FROM t",
	"SELECT COUNT ( 1 ) AS f1 FROM t",
	"SELECT AVG ( 2 ) AS f1 FROM t",
	"SELECT 1 AS f1 FROM t",
	"SELECT 1 + 1 AS f1 FROM t",
	"SELECT SUM ( 1 ) + a AS f1 FROM t",
	"SELECT a FROM t HAVING SUM ( 1 ) > 0",
	"SELECT a FROM t HAVING 1 = 1",
	"SELECT a FROM t HAVING a IS NULL",
	"SELECT a FROM t HAVING NOT a > 1",
	"SELECT a FROM t HAVING a BETWEEN 1 AND 2",
	"SELECT a FROM t HAVING a LIKE 'x'",
	"SELECT a FROM t HAVING a IN ( 1 , 2 )",
	"SELECT a FROM t HAVING EXISTS ( SELECT a FROM t )",
	"SELECT a FROM t HAVING nosuch > 1",
	"SELECT a FROM t HAVING a > 'x'",
	"SELECT a FROM t GROUP BY LUA ( 'x' , 1 , 2 ) AS l",
	"SELECT a FROM t GROUP BY LUA ( 'x' , ARRAY ( x ) , 2 ) AS l",
	"SELECT a FROM t GROUP BY LUA ( 'x' , x , ARRAY ( y ) ) AS l",
	"SELECT a FROM t GROUP BY PLUA ( 'x' , x , y ) AS l",
	"SELECT a FROM t WHERE LUA ( 'x' , x , y ) = 1",
	"SELECT a FROM t GROUP BY PERIOD ( )",
	"SELECT a FROM t GROUP BY PERIOD ( * )",
	"SELECT a FROM t GROUP BY PERIOD ( '1s' , '2s' )",
	"SELECT a FROM t GROUP BY CROSSTAB ( )",
	"SELECT a FROM t GROUP BY CROSSTAB ( * )",
	"SELECT a FROM t GROUP BY CROSSTAB ( x ) , CROSSTAB ( y )",
	"SELECT a FROM t GROUP BY CROSSTABX ( x )",
	"SELECT a FROM t GROUP BY x + 1",
	"SELECT a FROM t GROUP BY 1",
	"SELECT a FROM t GROUP BY 'x'",
	"SELECT a FROM t GROUP BY RAND ( ) AS r",
	"SELECT a FROM t GROUP BY RAND ( 1 , 2 ) AS r",
	"SELECT a FROM t GROUP BY t . *",
	"SELECT PERCENTILE ( a , 99 , 10 , 0 , 1 ) AS p FROM t",
	"SELECT PERCENTILE ( a , 99 , 0 , 0 , 1 ) AS p FROM t",
	"SELECT PERCENTILE ( a , 99 , 0 , 100 , 99 ) AS p FROM t",
	"SELECT PERCENTILE ( a , 99 , 0 , 100 , -99 ) AS p FROM t",
	"SELECT PERCENTILE ( a , 99 , -100 , 100 , 1 ) AS p FROM t",
	"SELECT PERCENTILE ( * , 99 ) AS p FROM t",
	"SELECT PERCENTILE ( a , * ) AS p FROM t",
	"SELECT PERCENTILE ( p , * ) AS p2 FROM t",
	"SELECT PERCENTILE ( p , 50 ) AS p2 FROM t",
	"SELECT PERCENTILE ( a , 99 , * , 100 , 1 ) AS p FROM t",
	"SELECT PERCENTILE ( SUM ( a ) , 'x' , 0 , 100 , 1 ) AS p FROM t",
	"SELECT PERCENTILE ( PERCENTILE ( a , 99 , 0 , 100 , 1 ) , 50 ) AS p FROM t",
	"SELECT PERCENTILE ( a , 99 , 0 , 100 , 1.5 ) AS p FROM t",
	"SELECT BOUNDED ( a , 'x' , 1 ) AS f1 FROM t",
	"SELECT BOUNDED ( * , 0 , 1 ) AS f1 FROM t",
	"SELECT BOUNDED ( a , * , 1 ) AS f1 FROM t",
	"SELECT IF ( * , a ) AS f1 FROM t",
	"SELECT IF ( x = 1 , * ) AS f1 FROM t",
	"SELECT IF ( x , a ) AS f1 FROM t",
	"SELECT IF ( a ) AS f1 FROM t",
	"SELECT SHIFT ( a , * ) AS f1 FROM t",
	"SELECT SHIFT ( * , '1s' ) AS f1 FROM t",
	"SELECT CROSSHIFT ( a , '1s' , '0s' ) AS f1 FROM t",
	"SELECT CROSSHIFT ( a , '100h' , '1ns' ) AS f1 FROM t",
	"SELECT CROSSHIFT ( * , '10s' , '1s' ) AS f1 FROM t",
	"SELECT CROSSHIFT ( a , * , '1s' ) AS f1 FROM t",
	"SELECT CROSSHIFT ( a + b , '10s' , '1s' ) FROM t",
	"SELECT WAVG ( * , a ) AS f1 FROM t",
	"SELECT WAVG ( a , * ) AS f1 FROM t",
	"SELECT WAVG ( a , 'x' ) AS f1 FROM t",
	"SELECT NOSUCH ( a , b ) AS f1 FROM t",
	"SELECT NOSUCH ( a ) AS f1 FROM t",
	"SELECT SUM ( ) AS f1 FROM t",
	"SELECT `` ( a ) AS f1 FROM t",
	"SELECT a FROM t WHERE `` ( x ) = 1",
	"SELECT a FROM t WHERE `p` ( x ) = 1",
	"SELECT a FROM t WHERE P ( x ) = 1",
	"SELECT a FROM t LIMIT 18446744073709551616",
	"SELECT a FROM t ASOF '' UNTIL ''",
	"SELECT a FROM t ASOF '-1s' UNTIL '-100s'",
	"SELECT a FROM t ASOF '2999-01-01T00:00:00Z'",
	"SELECT a FROM t GROUP BY PERIOD ( '0s' )",
	"SELECT a FROM t GROUP BY PERIOD ( '-1s' )",
	"SELECT a FROM t GROUP BY PERIOD ( '1ns' )",
	"SELECT a FROM t GROUP BY STRIDE ( '0s' )",
	"SELECT a FROM t GROUP BY STRIDE ( '-3s' )",
	"SELECT a FROM t GROUP BY STRIDE ( '3s' ) , PERIOD ( '2s' )",
	"SELECT a FROM t GROUP BY PERIOD ( '9999999h' )",
	"",
	";",
	"SELECT",
	"SELECT FROM",
	"SELECT * FROM",
	"\x00",
	"SELECT \xff\xfe FROM t",
	"SELECT a FROM t WHERE x = '\xff'",
	"SELECT a FROM t WHERE x = 'unterminated",
	"SELECT a FROM t /* unterminated",
	"SELECT a FROM t -- comment",
	"SELECT `a FROM t",
}

// NonSelect returns the fixed list of hostile statements (run exhaustively at
// the start of every SQL stream).
func NonSelect() []string { return nonSelect }

// arityCases enumerates, for EVERY function name of the dispatch tables, calls
// with arities 0..6 and argument kinds {field, dim, number, string, *, subquery,
// nested call}, in the SELECT list, the WHERE clause, GROUP BY and HAVING.
func arityCases(full bool) []string {
	var out []string
	argKinds := []string{"a", "x", "1", "'s'", "*", "( SELECT a FROM t )", "SUM ( a )", "ARRAY ( x )", "x = 1"}
	maxArity := 6
	if !full {
		// quick tier: every function, arities 0..4 (5 for PERCENTILE), the kinds that select different branches
		argKinds = []string{"a", "'s'", "*", "ARRAY ( x )", "x = 1"}
		maxArity = 4
	}
	names := append([]string{}, fieldFuncNames...)
	names = append(names, dimFuncNames...)
	names = append(names, GroupByFuncs...)
	names = append(names, "NOSUCH", "P", "PANY", "PLUA")
	names = append(names, factsFuncNames()...)
	seen := map[string]bool{}
	for _, fn := range names {
		if seen[fn] {
			continue
		}
		seen[fn] = true
		top := maxArity
		if fn == "PERCENTILE" && top < 5 {
			top = 5
		}
		for n := 0; n <= top; n++ {
			for k, arg := range argKinds {
				if n == 0 && k > 0 {
					break
				}
				args := make([]string, n)
				for i := range args {
					args[i] = "a"
					if _, isDim := DimFuncs[fn]; isDim {
						args[i] = "x"
					}
				}
				// put the odd kind at each position in turn (only first and last to bound the count)
				poss := []int{0}
				if n > 1 {
					poss = append(poss, n-1)
				}
				if n > 2 && full {
					poss = append(poss, 1)
				}
				if n == 0 {
					poss = []int{-1}
				}
				for _, p := range poss {
					as := append([]string{}, args...)
					if p >= 0 {
						as[p] = arg
					}
					call := fn + " ( " + strings.Join(as, " , ") + " )"
					if n == 0 {
						call = fn + " ( )"
					}
					out = append(out,
						"SELECT "+call+" AS f1 FROM t",
						"SELECT a FROM t WHERE "+call+" = 1",
						"SELECT a FROM t GROUP BY "+call+" AS g1",
						"SELECT a FROM t HAVING "+call+" > 1",
					)
				}
			}
		}
	}
	return out
}

// tokenize splits on spaces but keeps quoted strings and comments whole.
func tokenize(s string) toks {
	var out toks
	cur := strings.Builder{}
	inStr := byte(0)
	flush := func() {
		if cur.Len() > 0 {
			out = append(out, cur.String())
			cur.Reset()
		}
	}
	for i := 0; i < len(s); i++ {
		c := s[i]
		if inStr != 0 {
			cur.WriteByte(c)
			if c == inStr {
				inStr = 0
			}
			continue
		}
		switch c {
		case ' ':
			flush()
		case '\'', '`', '"':
			inStr = c
			cur.WriteByte(c)
		default:
			cur.WriteByte(c)
		}
	}
	flush()
	return out
}

var junkTokens = []string{"(", ")", ",", "*", "SELECT", "FROM", "WHERE", "GROUP BY", "HAVING", "AS", "AND", "OR", "NOT", "IN", "NULL",
	"UNION", "''", "'", "`", ";", "=", "-", "0", "1e999", "\x00", "/*", "*/", "--", "::x", ":y", "?", "@", "%", "ASOF", "UNTIL", "LIMIT", "BY", "IS",
	"BETWEEN", "CASE", "WHEN", "END", "EXISTS", "DISTINCT", "t", "a", "x"}

// mutate applies 1..3 random token-level mutations.
func (g *sqlGen) mutate(t toks) (toks, string) {
	r := g.r
	t = append(toks{}, t...)
	kinds := ""
	k := r.Range(1, 3)
	for i := 0; i < k; i++ {
		if len(t) == 0 {
			break
		}
		p := r.Intn(len(t))
		switch r.Intn(9) {
		case 0: // delete
			t = append(t[:p], t[p+1:]...)
			kinds += "del,"
		case 1: // duplicate
			t = append(t[:p+1], append(toks{t[p]}, t[p+1:]...)...)
			kinds += "dup,"
		case 2: // swap
			q := r.Intn(len(t))
			t[p], t[q] = t[q], t[p]
			kinds += "swap,"
		case 3: // truncate
			t = t[:p]
			kinds += "trunc,"
		case 4: // insert junk
			t = append(t[:p], append(toks{g.pick(junkTokens)}, t[p:]...)...)
			kinds += "junk,"
		case 5: // replace with junk
			t[p] = g.pick(junkTokens)
			kinds += "repl,"
		case 6: // replace function name / identifier with another function name
			names := append(append([]string{}, fieldFuncNames...), dimFuncNames...)
			names = append(names, unknownFns...)
			t[p] = g.pick(names)
			kinds += "fn,"
		case 7: // replace an argument-looking token with the wrong kind
			t[p] = g.pick([]string{"*", "'str'", "1", "( SELECT a FROM t )", "x", "a", "NULL", "( 1 , 2 )", "ARRAY ( x )", "SUM ( a )"})
			kinds += "kind,"
		case 8: // splice a sub-range of another generated query
			o := g.selectStmt(1, false)
			a := r.Intn(len(o))
			b := r.Range(a, len(o))
			t = append(t[:p], append(append(toks{}, o[a:b]...), t[p:]...)...)
			kinds += "splice,"
		}
	}
	return t, kinds
}

// deepNest builds pathological nesting.
func (g *sqlGen) deepNest() toks {
	r := g.r
	n := r.Range(5, 60)
	switch r.Intn(5) {
	case 0: // nested parens in where
		s := strings.Repeat("( ", n) + "x = 1" + strings.Repeat(" )", n)
		return tokenize("SELECT a FROM t WHERE " + s)
	case 1: // nested function calls on the field side
		s := strings.Repeat("SUM ( ", n) + "a" + strings.Repeat(" )", n)
		return tokenize("SELECT " + s + " AS f1 FROM t")
	case 2: // nested subqueries in FROM
		if n > 12 {
			n = 12
		}
		s := "SELECT a FROM t"
		for i := 0; i < n; i++ {
			s = "SELECT a FROM ( " + s + " )"
		}
		return tokenize(s)
	case 3: // nested dim function calls
		s := strings.Repeat("ANY ( ", n) + "x" + strings.Repeat(" )", n)
		return tokenize("SELECT a FROM t GROUP BY " + s + " AS g1")
	default: // long arithmetic chain
		s := "a"
		for i := 0; i < n; i++ {
			s += fmt.Sprintf(" %s %s", g.pick(arithOps[:4]), g.pick(valFields))
		}
		return tokenize("SELECT " + s + " AS f1 FROM t")
	}
}
