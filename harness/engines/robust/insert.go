package robust

// Insert stream: scripts of payloads (bad ones interleaved with valid points)
// driven through DB.Insert, DB.InsertRaw, the web /insert handler and the gRPC
// inserter of a real embedded database (inside the child process), followed by
// a query that checks which points arrived.

import (
	"bytes"
	"context"
	"encoding/hex"
	"encoding/json"
	"fmt"
	"net"
	"net/http"
	"net/http/httptest"
	"os"
	"runtime/debug"
	"sort"
	"strings"
	"time"

	"github.com/getlantern/bytemap"
	"github.com/getlantern/zenodb"
	"github.com/getlantern/zenodb/core"
	"github.com/getlantern/zenodb/rpc"
	rpcserver "github.com/getlantern/zenodb/rpc/server"
	"github.com/getlantern/zenodb/web"
	"github.com/golang/snappy"
	"github.com/gorilla/mux"
	"google.golang.org/grpc"

	"zvh/hk"
)

// payload is one step of an insert script.
type payload struct {
	Via    string `json:"via"`             // insert | raw | web | rpc | rpcraw
	Label  string `json:"label"`           // generator class, for histograms
	Stream string `json:"stream"`          // "inbound" or an unknown stream
	TS     string `json:"ts"`              // fresh | old | zero
	Valid  int    `json:"valid,omitempty"` // >0: a valid marker point with this id
	Dims   *tval  `json:"dims,omitempty"`
	Vals   *tval  `json:"vals,omitempty"`
	RawD   string `json:"rawd,omitempty"` // hex, via raw / rpcraw
	RawV   string `json:"rawv,omitempty"`
	Body   string `json:"body,omitempty"` // via web: request body
	CType  string `json:"ctype,omitempty"`
	Method string `json:"method,omitempty"`
}

type insertScript struct {
	Steps []payload `json:"steps"`
}

type stepOutcome struct {
	Ret  string `json:"ret"` // ok | error | panic
	Msg  string `json:"msg,omitempty"`
	Site string `json:"site,omitempty"`
	HTTP int    `json:"http,omitempty"`
}

type insertOutcome struct {
	Steps    []stepOutcome `json:"steps"`
	Missing  []int         `json:"missing,omitempty"`  // valid marker ids not visible afterwards
	Points   int           `json:"points"`             // _points added to table t by this script (sentinel excluded)
	Poisoned string        `json:"poisoned,omitempty"` // a stored key that readers cannot decode
	Hang     bool          `json:"hang,omitempty"`     // sentinel never became visible
	Infra    string        `json:"infra,omitempty"`
}

const (
	tableTSQL = "SELECT a, b FROM inbound GROUP BY x, y, s, period(1s)"
	tableGSQL = "SELECT a, b FROM inbound GROUP BY period(1s)"
)

type insertEnv struct {
	dir      string
	db       *zenodb.DB
	fatal    chan string
	web      *httptest.Server
	webClose func()
	rpcStop  func()
	rpcAddr  string
	rpcCli   rpc.Client
	rawConn  *grpc.ClientConn
	nextID   int
	points   int // _points total seen in t so far
	tick     int
}

func newInsertEnv() (*insertEnv, error) {
	dir, err := os.MkdirTemp("", "zvh-robust-ins-*")
	if err != nil {
		return nil, err
	}
	e := &insertEnv{dir: dir, fatal: make(chan string, 4), nextID: 1}
	fail := func(err error) (*insertEnv, error) {
		e.close()
		return nil, err
	}
	e.db, err = zenodb.NewDB(&zenodb.DBOpts{
		Dir: dir + "/db",
		// real clock: the web and rpc front ends stamp points without a timestamp
		// with time.Now(), which would make a virtual clock jump
		IterationCoalesceInterval: time.Millisecond,
		WhitelistedDimensions:     map[string]bool{"x": true, "y": true, "s": true, "w": true},
		Panic: func(v interface{}) {
			select {
			case e.fatal <- fmt.Sprint(v):
			default:
			}
			select {}
		},
	})
	if err != nil {
		return fail(err)
	}
	for name, q := range map[string]string{"t": tableTSQL, "g": tableGSQL} {
		if err := e.db.CreateTable(&zenodb.TableOpts{Name: name, RetentionPeriod: time.Hour, SQL: q, MaxFlushLatency: time.Hour}); err != nil {
			return fail(err)
		}
	}
	// web front end
	router := mux.NewRouter()
	os.MkdirAll(dir+"/cache", 0o755)
	e.webClose, err = web.Configure(e.db, router, &web.Opts{CacheDir: dir + "/cache"})
	if err != nil {
		return fail(err)
	}
	e.web = httptest.NewServer(router)
	// rpc front end
	l, err := net.Listen("tcp", "127.0.0.1:0")
	if err != nil {
		return fail(err)
	}
	serve, stop := rpcserver.PrepareServer(e.db, l, &rpcserver.Opts{ID: 1})
	e.rpcStop = stop
	e.rpcAddr = l.Addr().String()
	go serve()
	e.rpcCli, err = rpc.Dial(e.rpcAddr, &rpc.ClientOpts{})
	if err != nil {
		return fail(err)
	}
	e.rawConn, err = grpc.Dial(e.rpcAddr, grpc.WithInsecure(), grpc.WithCodec(rpc.Codec),
		grpc.WithDialer(func(addr string, timeout time.Duration) (net.Conn, error) {
			c, err := net.DialTimeout("tcp", addr, timeout)
			if err != nil {
				return nil, err
			}
			return &snappyConn{Conn: c, r: snappy.NewReader(c), w: snappy.NewWriter(c)}, nil
		}))
	if err != nil {
		return fail(err)
	}
	return e, nil
}

// snappyConn mirrors rpc.snappyConn (unexported) for the raw gRPC client.
type snappyConn struct {
	net.Conn
	r *snappy.Reader
	w *snappy.Writer
}

func (sc *snappyConn) Read(p []byte) (int, error)  { return sc.r.Read(p) }
func (sc *snappyConn) Write(p []byte) (int, error) { return sc.w.Write(p) }

func (e *insertEnv) close() {
	done := make(chan bool, 1)
	go func() {
		if e.rawConn != nil {
			e.rawConn.Close()
		}
		if e.rpcCli != nil {
			e.rpcCli.Close()
		}
		if e.rpcStop != nil {
			e.rpcStop()
		}
		if e.web != nil {
			e.web.Close()
		}
		if e.webClose != nil {
			e.webClose()
		}
		if e.db != nil {
			e.db.Close()
		}
		done <- true
	}()
	select {
	case <-done:
	case <-time.After(10 * time.Second):
	}
	os.RemoveAll(e.dir)
}

func (e *insertEnv) freshTS() time.Time {
	e.tick++
	return time.Now().Add(-time.Duration(2+e.tick%3) * time.Second)
}

func (e *insertEnv) tsFor(p *payload) time.Time {
	switch p.TS {
	case "old":
		return time.Now().Add(-3 * time.Hour)
	case "zero":
		return time.Time{}
	}
	return e.freshTS()
}

func markerDims(id int) map[string]interface{} {
	return map[string]interface{}{"x": id, "y": fmt.Sprintf("v%d", id), "s": "valid"}
}

func catch(f func() error) stepOutcome {
	var err error
	var stack string
	p := hk.Recover(func() {
		defer func() {
			if p := recover(); p != nil {
				stack = string(debug.Stack())
				panic(p)
			}
		}()
		err = f()
	})
	switch {
	case p != nil:
		return stepOutcome{Ret: clsPanic, Msg: trunc(fmt.Sprint(p), 200), Site: siteOf(stack)}
	case err != nil:
		return stepOutcome{Ret: clsError, Msg: trunc(err.Error(), 200)}
	}
	return stepOutcome{Ret: clsOK}
}

func unhex(s string) []byte { b, _ := hex.DecodeString(s); return b }

// webBody renders a typed payload as the JSON body of /insert.
func webBody(ts time.Time, dims, vals map[string]interface{}) string {
	pt := map[string]interface{}{}
	if !ts.IsZero() {
		pt["ts"] = ts
	}
	if dims != nil {
		pt["dims"] = dims
	}
	if vals != nil {
		pt["vals"] = vals
	}
	b, err := json.Marshal(pt)
	if err != nil {
		return "{\"unmarshalable\": " // truncated on purpose: the client sent garbage
	}
	return string(b)
}

func (e *insertEnv) step(p *payload) stepOutcome {
	ts := e.tsFor(p)
	stream := p.Stream
	if stream == "" {
		stream = "inbound"
	}
	switch p.Via {
	case "insert":
		return catch(func() error { return e.db.Insert(stream, ts, p.Dims.goMap(), p.Vals.goMap()) })
	case "raw":
		return catch(func() error {
			return e.db.InsertRaw(stream, ts, bytemap.ByteMap(unhex(p.RawD)), bytemap.ByteMap(unhex(p.RawV)))
		})
	case "web":
		body := p.Body
		if body == "" {
			body = webBody(ts, p.Dims.goMap(), p.Vals.goMap())
		}
		method := p.Method
		if method == "" {
			method = http.MethodPost
		}
		ctype := p.CType
		if ctype == "" {
			ctype = web.ContentTypeJSON
		}
		out := stepOutcome{}
		o := catch(func() error {
			req, err := http.NewRequest(method, e.web.URL+"/insert/"+stream, bytes.NewReader([]byte(body)))
			if err != nil {
				return err
			}
			req.Header.Set(web.ContentType, ctype)
			cli := &http.Client{Timeout: 10 * time.Second}
			resp, err := cli.Do(req)
			if err != nil {
				return fmt.Errorf("transport: %v", err)
			}
			resp.Body.Close()
			out.HTTP = resp.StatusCode
			if resp.StatusCode >= 400 {
				return fmt.Errorf("HTTP %d", resp.StatusCode)
			}
			return nil
		})
		o.HTTP = out.HTTP
		return o
	case "rpc":
		return catch(func() error {
			ctx, cancel := context.WithTimeout(context.Background(), 10*time.Second)
			defer cancel()
			ins, err := e.rpcCli.NewInserter(ctx, stream)
			if err != nil {
				return fmt.Errorf("transport: %v", err)
			}
			vals := p.Vals.goMap()
			keys := make([]string, 0, len(vals))
			for k := range vals {
				keys = append(keys, k)
			}
			sort.Strings(keys)
			if err := ins.Insert(ts, p.Dims.goMap(), func(cb func(string, interface{})) {
				for _, k := range keys {
					cb(k, vals[k])
				}
			}); err != nil {
				return fmt.Errorf("transport: %v", err)
			}
			report, err := ins.Close()
			if err != nil {
				return fmt.Errorf("transport: %v", err)
			}
			if len(report.Errors) > 0 || report.Succeeded != 1 {
				return fmt.Errorf("rejected: %v", report.Errors)
			}
			return nil
		})
	case "rpcraw":
		return catch(func() error {
			ctx, cancel := context.WithTimeout(context.Background(), 10*time.Second)
			defer cancel()
			cs, err := grpc.NewClientStream(ctx, &rpc.ServiceDesc.Streams[3], e.rawConn, "/zenodb/insert")
			if err != nil {
				return fmt.Errorf("transport: %v", err)
			}
			tsn := ts.UnixNano()
			if ts.IsZero() {
				tsn = 0
			}
			if err := cs.SendMsg(&rpc.Insert{Stream: stream, TS: tsn, Dims: unhex(p.RawD), Vals: unhex(p.RawV)}); err != nil {
				return fmt.Errorf("transport: %v", err)
			}
			if err := cs.SendMsg(&rpc.Insert{EndOfInserts: true}); err != nil {
				return fmt.Errorf("transport: %v", err)
			}
			cs.CloseSend()
			report := &rpc.InsertReport{}
			if err := cs.RecvMsg(&report); err != nil {
				return fmt.Errorf("transport: %v", err)
			}
			if len(report.Errors) > 0 || report.Succeeded != 1 {
				return fmt.Errorf("rejected: %v", report.Errors)
			}
			return nil
		})
	}
	return stepOutcome{Ret: clsError, Msg: "unknown via " + p.Via}
}

type tableView struct {
	points int
	ys     map[string]bool
}

func (e *insertEnv) readT() (*tableView, error) {
	src, err := e.db.Query("SELECT _points FROM t", false, nil, true)
	if err != nil {
		return nil, err
	}
	ctx, cancel := context.WithTimeout(context.Background(), 5*time.Second)
	defer cancel()
	v := &tableView{ys: map[string]bool{}}
	_, err = src.Iterate(ctx, core.FieldsIgnored, func(row *core.FlatRow) (bool, error) {
		if len(row.Values) > 0 {
			v.points += int(row.Values[0])
		}
		if y, ok := row.Key.Get("y").(string); ok {
			v.ys[y] = true
		}
		return true, nil
	})
	return v, err
}

// checkG reads every key of the GROUP BY * table the way readers do (decode to a map).
func (e *insertEnv) checkG() string {
	bad := ""
	o := catch(func() error {
		src, err := e.db.Query("SELECT * FROM g", false, nil, true)
		if err != nil {
			return err
		}
		ctx, cancel := context.WithTimeout(context.Background(), 5*time.Second)
		defer cancel()
		_, err = src.Iterate(ctx, core.FieldsIgnored, func(row *core.FlatRow) (bool, error) {
			if p := hk.Recover(func() { row.Key.AsMap() }); p != nil {
				bad = fmt.Sprintf("stored key %x cannot be decoded: %v", []byte(row.Key), p)
				return false, nil
			}
			return true, nil
		})
		return err
	})
	if bad != "" {
		return bad
	}
	if o.Ret == clsPanic {
		return "query on table g panics: " + o.Msg + " @ " + o.Site
	}
	return ""
}

func (e *insertEnv) run(s *insertScript, slow bool) *insertOutcome {
	out := &insertOutcome{}
	var wanted []int
	for i := range s.Steps {
		p := &s.Steps[i]
		if p.Valid > 0 {
			wanted = append(wanted, p.Valid)
		}
		out.Steps = append(out.Steps, e.step(p))
	}
	// sentinel: the WAL is processed in order, so once the sentinel is visible
	// every earlier entry has been applied or skipped.
	sentinel := 1_000_000 + e.nextID
	e.nextID++
	sts := e.freshTS()
	if err := e.db.Insert("inbound", sts, markerDims(sentinel), map[string]interface{}{"a": 1.0}); err != nil {
		out.Infra = "sentinel insert failed: " + err.Error()
		return out
	}
	wait := 15 * time.Second
	if slow {
		wait = 60 * time.Second
	}
	deadline := time.Now().Add(wait)
	var view *tableView
	var qerr error
	for {
		view, qerr = e.readT()
		if qerr == nil && view.ys[fmt.Sprintf("v%d", sentinel)] {
			break
		}
		if time.Now().After(deadline) {
			out.Hang = true
			if qerr != nil {
				out.Infra = "query failed: " + qerr.Error()
			}
			return out
		}
		time.Sleep(5 * time.Millisecond)
	}
	for _, id := range wanted {
		if !view.ys[fmt.Sprintf("v%d", id)] {
			out.Missing = append(out.Missing, id)
		}
	}
	out.Points = view.points - e.points - 1
	e.points = view.points
	out.Poisoned = e.checkG()
	return out
}

// ---------------------------------------------------------------- generation

func validPayload(r *hk.Rng, id int) payload {
	p := payload{Via: hk.Pick(r, []string{"insert", "insert", "web", "rpc"}), Label: "valid", TS: "fresh", Valid: id}
	p.Dims = &tval{T: "map", M: map[string]tval{"x": tv("int", fmt.Sprint(id)), "y": tv("string", fmt.Sprintf("v%d", id)), "s": tv("string", "valid")}}
	if p.Via == "web" {
		// JSON has only float64 numbers
		p.Dims.M["x"] = tv("float64", fmt.Sprint(id))
	}
	p.Vals = &tval{T: "map", M: map[string]tval{"a": tv("float64", "1"), "b": tv("float64", "2")}}
	return p
}

func randBytes(r *hk.Rng, n int) []byte {
	b := make([]byte, n)
	for i := range b {
		b[i] = byte(r.Intn(256))
	}
	return b
}

func garble(r *hk.Rng, valid []byte) []byte {
	switch r.Intn(4) {
	case 0:
		return randBytes(r, r.Range(0, 40))
	case 1:
		b := append([]byte{}, valid...)
		for j := r.Range(1, 3); j > 0 && len(b) > 0; j-- {
			b[r.Intn(len(b))] = byte(r.Intn(256))
		}
		return b
	case 2:
		return append([]byte{}, valid[:r.Intn(len(valid)+1)]...)
	default:
		b := append([]byte{}, valid...)
		return append(b, randBytes(r, r.Range(1, 9))...)
	}
}

func randMap(r *hk.Rng, keys []string, maxN int) *tval {
	m := map[string]tval{}
	n := r.Range(0, maxN)
	for i := 0; i < n; i++ {
		m[hk.Pick(r, keys)] = pickVal(r)
	}
	return &tval{T: "map", M: m}
}

var webBodies = []string{
	"", "{", "}", "[]", "null", "42", "\"str\"", "{}", "{\"dims\":{}}", "{\"dims\":{\"x\":1}}", "{\"vals\":{\"a\":1}}",
	"{\"dims\":{\"x\":1},\"vals\":{}}", "{\"dims\":null,\"vals\":null}", "{\"dims\":[1],\"vals\":{\"a\":1}}",
	"{\"dims\":{\"x\":1},\"vals\":[1]}", "{\"dims\":{\"x\":1},\"vals\":{\"a\":1}} garbage",
	"{\"ts\":\"notatime\",\"dims\":{\"x\":1},\"vals\":{\"a\":1}}", "{\"ts\":12,\"dims\":{\"x\":1},\"vals\":{\"a\":1}}",
	"{\"ts\":\"0001-01-01T00:00:00Z\",\"dims\":{\"x\":1},\"vals\":{\"a\":1}}",
	"{\"dims\":{\"x\":{\"deep\":{\"deeper\":[1,2,{\"k\":null}]}}},\"vals\":{\"a\":{\"n\":1}}}",
	"{\"dims\":{\"x\":1},\"vals\":{\"a\":[]}}", "{\"dims\":{\"x\":1},\"vals\":{\"a\":[1,2]}}", "{\"dims\":{\"x\":1},\"vals\":{\"a\":\"NaN\"}}",
	"{\"dims\":{\"x\":1},\"vals\":{\"a\":1e999}}", "{\"dims\":{\"x\":1},\"vals\":{\"a\":null}}", "{\"dims\":{\"x\":1},\"vals\":{\"a\":true}}",
	"{\"dims\":{\"\":\"\"},\"vals\":{\"\":0}}", "{\"DIMS\":{\"x\":1},\"VALS\":{\"a\":1}}",
	"{\"dims\":{\"x\":1},\"vals\":{\"a\":1}}{\"dims\":{\"x\":2},\"vals\":{\"a\":1}}{\"dims\":{},\"vals\":{\"a\":1}}",
	"\xff\xfe", strings.Repeat("[", 10000), "{\"dims\":{\"x\":\"" + strings.Repeat("k", 70000) + "\"},\"vals\":{\"a\":1}}",
	"{\"dims\":{\"" + strings.Repeat("k", 70000) + "\":1},\"vals\":{\"a\":1}}",
	"{\"dims\":{\"x\":1},\"vals\":{\"" + strings.Repeat("k", 70000) + "\":1}}",
}

// badPayload draws one hostile payload.
func badPayload(r *hk.Rng) payload {
	validBM := []byte(bytemap.New(map[string]interface{}{"x": 1, "y": "hello", "a": 1.5, "f": []float64{1, 2}, "i": []int{3}}))
	// (no "_points"/"_point": a client-supplied _points value replaces the point count of the
	// insert — encoding/params.go — which is a question for C01, not for this engine's count)
	valsKeys := []string{"a", "b", "a", "b", "c", "", "d"}
	switch r.Intn(14) {
	case 0: // nil / empty maps
		p := payload{Via: hk.Pick(r, []string{"insert", "web", "rpc"}), Label: "nil-or-empty-maps", TS: "fresh"}
		opts := []*tval{nil, {T: "nilmap"}, {T: "map", M: map[string]tval{}}, {T: "map", M: map[string]tval{"a": tv("float64", "1")}}}
		p.Dims, p.Vals = hk.Pick(r, opts), hk.Pick(r, opts)
		if p.Dims != nil && len(p.Dims.M) > 0 && p.Vals != nil && len(p.Vals.M) > 0 {
			p.Vals = &tval{T: "nilmap"}
		}
		return p
	case 1, 2: // odd value types
		p := payload{Via: hk.Pick(r, []string{"insert", "insert", "web", "rpc"}), Label: "odd-vals", TS: "fresh"}
		p.Dims = &tval{T: "map", M: map[string]tval{"x": tv("int", "1"), "y": tv("string", "odd"), "s": tv("string", "bad")}}
		p.Vals = randMap(r, valsKeys, 3)
		return p
	case 3: // empty arrays specifically
		p := payload{Via: hk.Pick(r, []string{"insert", "rpc"}), Label: "empty-array", TS: "fresh"}
		p.Dims = &tval{T: "map", M: map[string]tval{"x": tv("int", "1"), "y": tv("string", "odd"), "s": tv("string", "bad")}}
		p.Vals = &tval{T: "map", M: map[string]tval{"a": hk.Pick(r, []tval{floats(), ints(), tv("nilfloats", "")})}}
		if r.Bool() {
			p.Vals.M["b"] = tv("float64", "1")
		}
		return p
	case 4, 5: // odd dims
		p := payload{Via: hk.Pick(r, []string{"insert", "insert", "web", "rpc"}), Label: "odd-dims", TS: "fresh"}
		p.Dims = randMap(r, oddKeys, 4)
		p.Vals = &tval{T: "map", M: map[string]tval{"a": tv("float64", "1")}}
		return p
	case 6: // everything odd
		p := payload{Via: hk.Pick(r, []string{"insert", "web", "rpc"}), Label: "odd-both", TS: hk.Pick(r, []string{"fresh", "old", "zero"})}
		p.Dims = randMap(r, oddKeys, 4)
		p.Vals = randMap(r, append(valsKeys, "A", "a b", "a.b", "'", "\x00", "ключ", "k\xff"), 4)
		return p
	case 7: // unknown stream / old timestamp
		p := validPayload(r, 0)
		p.Valid = 0
		p.Label = "unknown-stream-or-old"
		if r.Bool() {
			p.Stream = hk.Pick(r, []string{"nosuch", "", "INBOUND ", "in bound"})
		} else {
			p.TS = "old"
		}
		p.Dims.M["y"] = tv("string", "odd")
		return p
	case 8, 9: // raw garbage through the Go API
		p := payload{Via: "raw", Label: "raw-garbage", TS: "fresh"}
		p.RawD = hex.EncodeToString(garble(r, validBM))
		p.RawV = hex.EncodeToString(garble(r, validBM))
		if r.Chance(1, 3) {
			p.RawD = hex.EncodeToString(validBM)
		} else if r.Chance(1, 3) {
			p.RawV = hex.EncodeToString(validBM)
		}
		return p
	case 10, 11: // raw garbage through gRPC
		p := payload{Via: "rpcraw", Label: "rpc-garbage", TS: hk.Pick(r, []string{"fresh", "fresh", "zero"})}
		p.RawD = hex.EncodeToString(garble(r, validBM))
		p.RawV = hex.EncodeToString(garble(r, validBM))
		if r.Chance(1, 3) {
			p.RawD = hex.EncodeToString(validBM)
		} else if r.Chance(1, 3) {
			p.RawV = hex.EncodeToString(validBM)
		}
		if r.Chance(1, 8) {
			p.RawD = ""
		}
		if r.Chance(1, 8) {
			p.RawV = ""
		}
		return p
	default: // web: malformed requests
		p := payload{Via: "web", Label: "web-malformed", TS: "fresh", Body: hk.Pick(r, webBodies)}
		if r.Chance(1, 8) {
			p.Method = hk.Pick(r, []string{"GET", "PUT", "DELETE"})
		}
		if r.Chance(1, 8) {
			p.CType = hk.Pick(r, []string{"text/plain", "application/json; charset=utf-8", "x"})
		}
		if r.Chance(1, 10) {
			p.Stream = "nosuch"
		}
		return p
	}
}

// genScript interleaves bad payloads with valid marker points.
func genScript(r *hk.Rng, ids *int) *insertScript {
	s := &insertScript{}
	n := r.Range(1, 5)
	for i := 0; i < n; i++ {
		if r.Chance(1, 3) {
			*ids++
			s.Steps = append(s.Steps, validPayload(r, *ids))
		}
		s.Steps = append(s.Steps, badPayload(r))
	}
	*ids++
	s.Steps = append(s.Steps, validPayload(r, *ids))
	return s
}
