// Package query is the correspondence engine for the local query pipeline (M-QUERY):
// a generated dataset (inserts + forced flushes) is loaded into a real embedded zenodb,
// generated SQL queries (field lists, derived fields, IF, coarser GROUP BY dims/period,
// ASOF/UNTIL absolute or relative, WHERE over dims, HAVING) are answered by the real
// planner/executor and by the Lean model; rows are compared as multisets keyed by
// (group key, period end).  Property oracles: the Lean raw-point spec `specQuery`
// (C06 regrouping, C07 window, C08 WHERE/HAVING) and implementation-only metamorphic
// checks (C04: a probe returns the same rows before and after any query).
//
// Every case has 3-6 query slots; a slot is a table query (this file), an IN-subquery
// differential (insub.go: sub-query standalone, nested query, literal list, preset result;
// the standalone and the nested query also go to the model and the spec) or a FROM-subquery
// (fromsub.go: inner query standalone, nested query; model `runOver` and spec `specOver` over
// the materialised rows, driver engine `subquery`).
package query

import (
	"encoding/json"
	"fmt"
	"math"
	"os"
	"sort"
	"strconv"
	"strings"
	"time"

	"github.com/getlantern/bytemap"
	"github.com/getlantern/zenodb/core"
	"github.com/getlantern/zenodb/sql"

	"zvh/dbk"
	"zvh/gen"
	"zvh/hk"
)

type Engine struct{}

type pf struct{ prop, msg string }

type item struct {
	Name string
	Node *gen.Node
	SQL  string
}

type qspec struct {
	SQL    string
	Items  []item // select items (model fields), without _having
	Having *item  // the _having field
	// simple HAVING `<name> <op> <const>` over a SELECTED output column: the implementation-only
	// oracle 'rows of the HAVING-free query whose output value satisfies the predicate' applies
	HavCol   string
	HavOp    string
	HavC     float64
	NoHavSQL string // the same query without its HAVING clause
	Mem      bool
	WhereC   int // -1 none
	Kind     string
	Bounded  bool
	// WhereSQL is a WHERE clause given as text (any dimension predicate, IN-subqueries included);
	// the model only sees its truth value per source row key, evaluated by the real goexpr
	WhereSQL string
	// Tag names the role of the query in the case ("" = a plain generated query); it prefixes
	// the histogram key
	Tag string
}

// genOpts steers genQuery.
type genOpts struct {
	NoShadow   bool   // never let an alias shadow a table column
	Where      string // forced WHERE text ("" = the generator's own choice)
	NoWhere    bool   // no WHERE at all
	RichWhere  bool   // the generator may choose from extraWhere as well
	RichHaving bool   // HAVING from the whole value grammar (genHaving)
	MaxBack    int    // > 0: time ranges mostly stay within this many periods (the table's retention)
}

// binOK: the expression may be an operand of a binary expression (a top-level BOUNDED may not:
// binaryExpr.Validate refuses it and the query would not parse).
func binOK(n *gen.Node) bool { return n.Kind != "bounded" }

// extraWhere extends the dimension-predicate grammar beyond gen.Conds (which IF also uses):
// comparisons on the int dim, LIKE, IN lists, IS [NOT] NULL, NOT, AND/OR, a function.
var extraWhere = []string{"n = 1", "n > 1", "n <> 2", "g IS NULL", "d IS NOT NULL", "d LIKE 'x%'", "d IN ('x', 'z')",
	"n IN (2, 3)", "NOT (g = '1')", "LEN(d) = 1", "d = 'x' AND g = '1'", "d = 'y' OR n < 2", "d < 'y'", "g > '1'"}

// qNode shifts IF condition ids of query-level IFs to 100+ (they are evaluated on the source
// row key, not on the point's dims).
func qIf(c int, kid *gen.Node) *gen.Node {
	return &gen.Node{Kind: "if", C: 100 + c, Kids: []*gen.Node{kid}}
}

func genDataset(r *hk.Rng, s *dbk.Schema) []interface{} {
	var ops []interface{}
	cur := dbk.Base
	n := r.Range(4, 36)
	for i := 0; i < n; i++ {
		if r.Chance(1, 8) {
			ops = append(ops, "flush")
			continue
		}
		var ts time.Time
		switch r.Intn(8) {
		case 0:
			ts = cur.Add(-time.Duration(r.Range(0, 6)) * s.Res)
		case 1:
			ts = cur.Truncate(s.Res)
		case 2:
			ts = cur.Add(time.Duration(r.Range(1, 8)) * s.Res)
		default:
			ts = cur.Add(time.Duration(r.Range(0, int(s.Res/time.Millisecond))) * time.Millisecond)
		}
		if ts.After(cur) {
			cur = ts
		}
		ops = append(ops, dbk.GenPointAt(r, ts, false))
	}
	return ops
}

func fmtTime(t time.Time) string { return t.UTC().Format(time.RFC3339Nano) }

func genQuery(r *hk.Rng, s *dbk.Schema, now time.Time, o genOpts) *qspec {
	q := &qspec{Mem: r.Chance(4, 5), WhereC: -1}
	all := s.AllFields()
	tf := func() dbk.FieldDef { return all[r.Intn(len(all))] }
	// operand of a binary expression
	tfb := func() dbk.FieldDef {
		for tries := 0; tries < 8; tries++ {
			if f := tf(); binOK(f.Node) {
				return f
			}
		}
		return all[0]
	}
	back := func(k int) int {
		if o.MaxBack > 0 && k > o.MaxBack && r.Chance(3, 4) {
			return 1 + k%o.MaxBack
		}
		return k
	}
	var sel []string
	var shadow *item // a select item whose alias shadows a table column
	selectAll := r.Chance(1, 5)
	if selectAll {
		sel = []string{"*"}
		for _, f := range all {
			q.Items = append(q.Items, item{Name: f.Name, Node: f.Node})
		}
	} else {
		k := r.Range(1, 3)
		for i := 0; i < k; i++ {
			name := fmt.Sprintf("q%d", i)
			a := tf()
			var it item
			form := r.Intn(8)
			if form >= 3 && form != 5 && !binOK(a.Node) {
				a = tfb()
			}
			switch form {
			case 0, 1, 2:
				it = item{Name: a.Name, Node: a.Node, SQL: a.Name}
				// a plain column keeps its own name; avoid duplicates
				dupe := false
				for _, x := range q.Items {
					if x.Name == a.Name {
						dupe = true
					}
				}
				if dupe {
					continue
				}
			case 3:
				b := tfb()
				op := hk.Pick(r, []string{"+", "-", "*"})
				it = item{Name: name, Node: &gen.Node{Kind: "bin", Name: op, Kids: []*gen.Node{a.Node, b.Node}},
					SQL: fmt.Sprintf("%s %s %s AS %s", a.Name, op, b.Name, name)}
			case 4:
				b := tfb()
				it = item{Name: name, Node: &gen.Node{Kind: "bin", Name: "/", Kids: []*gen.Node{a.Node, b.Node}},
					SQL: fmt.Sprintf("%s / %s AS %s", a.Name, b.Name, name)}
			case 5:
				c := r.Intn(len(gen.Conds))
				it = item{Name: name, Node: qIf(c, a.Node), SQL: fmt.Sprintf("IF(%s, %s) AS %s", gen.CondText[c], a.Name, name)}
			case 6:
				it = item{Name: name, Node: &gen.Node{Kind: "bin", Name: "*", Kids: []*gen.Node{a.Node, {Kind: "const", Const: 2}}},
					SQL: fmt.Sprintf("%s * 2 AS %s", a.Name, name)}
			default:
				b := tfb()
				it = item{Name: name, Node: &gen.Node{Kind: "bin", Name: ">", Kids: []*gen.Node{a.Node, b.Node}},
					SQL: fmt.Sprintf("%s > %s AS %s", a.Name, b.Name, name)}
			}
			// a derived expression that prints like a table field takes that field's column and
			// lets the planner prune the fields it names (observation pruned-field-reresolved,
			// kept as a fixed witness): not generated
			if it.SQL != it.Name {
				clash := false
				for _, f := range all {
					if f.Node.Build().String() == it.Node.Build().String() {
						clash = true
					}
				}
				if clash {
					continue
				}
			}
			q.Items = append(q.Items, it)
			sel = append(sel, it.SQL)
		}
		if len(q.Items) == 0 {
			a := all[0]
			q.Items = append(q.Items, item{Name: a.Name, Node: a.Node, SQL: a.Name})
			sel = append(sel, a.Name)
		}
		// an alias that SHADOWS a table column (`SELECT f0 / 2 AS f0`): later references to the
		// name - here: HAVING - mean the selected output expression (sql.go selectClause.addField).
		// The shadowing item is made the last one so that no other select item is affected.
		if !o.NoShadow && r.Chance(1, 3) {
			last := len(q.Items) - 1
			for j := last; j >= 0; j-- {
				it := q.Items[j]
				if it.SQL == it.Name || !strings.HasSuffix(it.SQL, " AS "+it.Name) {
					continue // a plain column
				}
				var free []dbk.FieldDef
				for _, f := range all {
					used := false
					for _, x := range q.Items {
						if x.Name == f.Name {
							used = true
						}
					}
					if !used && binOK(f.Node) {
						free = append(free, f)
					}
				}
				if len(free) == 0 {
					break
				}
				f := free[r.Intn(len(free))]
				it.SQL = strings.TrimSuffix(it.SQL, " AS "+it.Name) + " AS " + f.Name
				it.Name = f.Name
				q.Items = append(append(q.Items[:j:j], q.Items[j+1:]...), it)
				sel = append(append(sel[:j:j], sel[j+1:]...), it.SQL)
				shadow = &q.Items[len(q.Items)-1]
				break
			}
		}
	}
	text := "SELECT " + strings.Join(sel, ", ") + " FROM " + s.Table
	// time range
	switch r.Intn(6) {
	case 0:
		off := time.Duration(back(r.Range(1, 12))) * s.Res
		text += fmt.Sprintf(" ASOF '-%v'", off)
		q.Bounded = true
	case 1:
		a := time.Duration(back(r.Range(3, 14))) * s.Res
		u := time.Duration(r.Range(0, 2)) * s.Res
		text += fmt.Sprintf(" ASOF '-%v' UNTIL '-%v'", a, u+time.Duration(r.Range(0, 1))*s.Res/2)
		q.Bounded = true
	case 2:
		a := now.Add(-time.Duration(back(r.Range(2, 14)))*s.Res + time.Duration(r.Range(0, 1))*s.Res/3)
		u := now.Add(-time.Duration(r.Range(0, 3)) * s.Res)
		text += fmt.Sprintf(" ASOF '%s' UNTIL '%s'", fmtTime(a), fmtTime(u))
		q.Bounded = true
	}
	switch {
	case o.NoWhere:
	case o.Where != "":
		q.WhereSQL = o.Where
		text += " WHERE " + o.Where
	case r.Chance(1, 4):
		if o.RichWhere && r.Chance(1, 2) {
			q.WhereSQL = hk.Pick(r, extraWhere)
			text += " WHERE " + q.WhereSQL
		} else {
			q.WhereC = r.Intn(len(gen.Conds))
			text += " WHERE " + gen.CondText[q.WhereC]
		}
	}
	// group by
	var gb []string
	dims := s.GroupBy
	if dims == nil {
		dims = []string{"d", "g", "n"}
	}
	switch r.Intn(6) {
	case 0:
		// none specified
	case 1:
		gb = append(gb, "_")
	case 2:
		gb = append(gb, "*")
	default:
		for _, d := range dims {
			if r.Chance(1, 2) {
				gb = append(gb, d)
			}
		}
	}
	if r.Chance(1, 2) {
		mul := hk.Pick(r, []int{1, 2, 3, 5, 7, 1000})
		gb = append(gb, fmt.Sprintf("period(%v)", time.Duration(mul)*s.Res))
	}
	if len(gb) > 0 {
		text += " GROUP BY " + strings.Join(gb, ", ")
	}
	// what a name means in HAVING: the table column, unless a select item shadows it
	resolve := func(f dbk.FieldDef) *gen.Node {
		if shadow != nil && shadow.Name == f.Name {
			return shadow.Node
		}
		return f.Node
	}
	if r.Chance(1, 5) || (shadow != nil && r.Chance(1, 2)) {
		q.NoHavSQL = text
		if o.RichHaving && !(shadow != nil && r.Chance(1, 2)) {
			var ops []operand
			for _, f := range all {
				ops = append(ops, operand{f.Name, resolve(f)})
			}
			h, htext := genHaving(r, ops)
			q.Having = h
			text += " HAVING " + htext
		} else {
			a := tfb()
			if shadow != nil && r.Chance(2, 3) {
				for _, f := range all {
					if f.Name == shadow.Name {
						a = f
					}
				}
			}
			c := float64(r.Range(0, 4))
			op := hk.Pick(r, []string{">", "<=", "="})
			q.Having = &item{Name: "_having", Node: &gen.Node{Kind: "bin", Name: op, Kids: []*gen.Node{resolve(a), {Kind: "const", Const: c}}}}
			text += fmt.Sprintf(" HAVING %s %s %v", a.Name, op, c)
			for _, x := range q.Items {
				// (not for SELECT *: without HAVING such a query is passed through ungrouped and
				// unwindowed, so the two results differ by expired periods, not by the predicate)
				if !selectAll && x.Name == a.Name && tolFor(x.Node) == 0 {
					q.HavCol, q.HavOp, q.HavC = a.Name, op, c
				}
			}
		}
	}
	q.SQL = text
	return q
}

// operand is something a HAVING clause can name: SQL text and the expression it resolves to.
type operand struct {
	SQL  string
	Node *gen.Node
}

// genHaving generates a predicate of the value grammar over the operands: comparisons with
// constants and between operands, arithmetic inside, AND/OR of two comparisons.  Arithmetic and
// operand-vs-operand comparisons are only built from exactly representable operands (no
// quotient inside), so that the model's rationals and the float64 arithmetic agree on which side
// of the threshold a value lies.
func genHaving(r *hk.Rng, all []operand) (*item, string) {
	var ops, exact []operand
	for _, o := range all {
		if binOK(o.Node) {
			ops = append(ops, o)
		}
	}
	if len(ops) == 0 {
		ops = []operand{{"_points", &gen.Node{Kind: "agg", Name: "SUM", Kids: []*gen.Node{{Kind: "field", Name: "_point"}}}}}
	}
	for _, o := range ops {
		if tolFor(o.Node) == 0 {
			exact = append(exact, o)
		}
	}
	cmp := func() (*gen.Node, string) {
		a := hk.Pick(r, ops)
		c := float64(r.Range(0, 4))
		op := hk.Pick(r, []string{">", "<=", "=", "<", ">=", "<>"})
		konst := &gen.Node{Kind: "const", Const: c}
		form := r.Intn(7)
		if len(exact) > 0 && form == 6 {
			// values that differ only around the seventh significant digit: an exact integer-valued
			// column scaled by 10^6 against a constant one or a few units off a multiple of 10^6
			// (= and <> are exact comparisons, not comparisons up to a relative tolerance)
			a = hk.Pick(r, exact)
			k := float64(r.Range(0, 4))*1e6 + float64(hk.Pick(r, []int{-7, -1, 0, 1, 3}))
			if r.Chance(2, 3) {
				op = hk.Pick(r, []string{"=", "<>"})
			}
			return &gen.Node{Kind: "bin", Name: op, Kids: []*gen.Node{{Kind: "bin", Name: "*", Kids: []*gen.Node{a.Node, {Kind: "const", Const: 1e6}}}, {Kind: "const", Const: k}}},
				fmt.Sprintf("%s * 1000000 %s %s", a.SQL, op, strconv.FormatFloat(k, 'f', -1, 64))
		}
		if len(exact) == 0 || form < 3 {
			return &gen.Node{Kind: "bin", Name: op, Kids: []*gen.Node{a.Node, konst}}, fmt.Sprintf("%s %s %v", a.SQL, op, c)
		}
		a = hk.Pick(r, exact)
		b := hk.Pick(r, exact)
		switch form {
		case 3:
			ar := hk.Pick(r, []string{"+", "-", "*"})
			return &gen.Node{Kind: "bin", Name: op, Kids: []*gen.Node{{Kind: "bin", Name: ar, Kids: []*gen.Node{a.Node, b.Node}}, konst}},
				fmt.Sprintf("%s %s %s %s %v", a.SQL, ar, b.SQL, op, c)
		case 4:
			return &gen.Node{Kind: "bin", Name: op, Kids: []*gen.Node{{Kind: "bin", Name: "*", Kids: []*gen.Node{a.Node, {Kind: "const", Const: 2}}}, konst}},
				fmt.Sprintf("%s * 2 %s %v", a.SQL, op, c)
		default:
			return &gen.Node{Kind: "bin", Name: op, Kids: []*gen.Node{a.Node, b.Node}}, fmt.Sprintf("%s %s %s", a.SQL, op, b.SQL)
		}
	}
	n, text := cmp()
	if r.Chance(1, 5) {
		n2, t2 := cmp()
		j := hk.Pick(r, []string{"AND", "OR"})
		n = &gen.Node{Kind: "bin", Name: j, Kids: []*gen.Node{n, n2}}
		text = text + " " + j + " " + t2
	}
	return &item{Name: "_having", Node: n}, text
}

func rowKey(key map[string]interface{}, ts int64) string {
	return fmt.Sprintf("%s@%d", dbk.KeyString(key), ts)
}

func modelKey(key map[string]interface{}, ts string) string {
	ks := make([]string, 0, len(key))
	for k := range key {
		ks = append(ks, k)
	}
	sort.Strings(ks)
	out := ""
	for _, k := range ks {
		out += fmt.Sprintf("%s=%s;", k, key[k])
	}
	return out + "@" + ts
}

type mrow struct {
	TS   string                 `json:"ts"`
	Key  map[string]interface{} `json:"key"`
	Vals []string               `json:"vals"`
}

// compareRows compares implementation rows with model/spec rows; returns "" if equal.
func compareRows(impl []dbk.FlatRow, model []mrow, tols []float64) string {
	return compareRowsAbs(impl, model, tols, 0)
}

// compareRowsAbs: as compareRows, a value also agrees when it is within `abs` of the model's
// (sums of inexact inputs that cancel to almost nothing have no meaningful relative error).
func compareRowsAbs(impl []dbk.FlatRow, model []mrow, tols []float64, abs float64) string {
	mi := map[string]dbk.FlatRow{}
	for _, r := range impl {
		k := rowKey(r.Key, r.TS)
		if _, dup := mi[k]; dup {
			return "implementation returned two rows for " + k
		}
		mi[k] = r
	}
	mm := map[string]mrow{}
	for _, r := range model {
		mm[modelKey(r.Key, r.TS)] = r
	}
	for k, r := range mi {
		m, ok := mm[k]
		if !ok {
			return fmt.Sprintf("row %s %v only in the implementation's result", k, r.Values)
		}
		if len(m.Vals) != len(r.Values) {
			return fmt.Sprintf("row %s: %d values vs %d", k, len(r.Values), len(m.Vals))
		}
		for i, v := range r.Values {
			if math.IsNaN(v) || math.IsInf(v, 0) || math.Abs(v) > 1e300 {
				continue
			}
			tol := 0.0
			if i < len(tols) {
				tol = tols[i]
			}
			if !hk.RatEqFloat(m.Vals[i], v, tol) {
				if abs > 0 {
					if mr, ok := hk.ParseRat(m.Vals[i]); ok {
						if mf, _ := mr.Float64(); math.Abs(mf-v) <= abs {
							continue
						}
					}
				}
				return fmt.Sprintf("row %s value %d: %v vs %s", k, i, v, m.Vals[i])
			}
		}
	}
	for k, m := range mm {
		if _, ok := mi[k]; !ok {
			return fmt.Sprintf("row %s %v missing from the implementation's result", k, m.Vals)
		}
	}
	return ""
}

// compareWithSpec compares implementation rows with the spec's.  Rows only the implementation
// has are tolerated — and counted — when they are "empty-bucket rows": their values are exactly
// what the selected expressions read from an empty state (known finding empty-bucket-row).
func compareWithSpec(impl []dbk.FlatRow, spec []mrow, tols []float64, empty []string) (string, int) {
	return compareWithSpecAbs(impl, spec, tols, empty, 0)
}

func compareWithSpecAbs(impl []dbk.FlatRow, spec []mrow, tols []float64, empty []string, abs float64) (string, int) {
	ms := map[string]mrow{}
	for _, r := range spec {
		ms[modelKey(r.Key, r.TS)] = r
	}
	var kept []dbk.FlatRow
	emptyRows := 0
	for _, r := range impl {
		if _, ok := ms[rowKey(r.Key, r.TS)]; !ok && empty != nil && len(empty) == len(r.Values) {
			same := true
			for i, v := range r.Values {
				// a quotient of constants (e.g. (AVG(b) + 2) / (COUNT(a) - 10) on an empty state)
				// is not exactly representable: the column's own tolerance applies
				tol := 0.0
				if i < len(tols) {
					tol = tols[i]
				}
				// division by zero yields +-MaxFloat64 and anything computed from it overflows;
				// compareRows does not compare such values either
				if math.IsNaN(v) || math.IsInf(v, 0) || math.Abs(v) > 1e300 {
					if er, ok := hk.ParseRat(empty[i]); ok {
						if ef, _ := er.Float64(); math.IsInf(ef, 0) || math.Abs(ef) > 1e300 {
							continue
						}
					}
				}
				if !hk.RatEqFloat(empty[i], v, tol) {
					same = false
				}
			}
			if same {
				emptyRows++
				continue
			}
		}
		kept = append(kept, r)
	}
	return compareRowsAbs(kept, spec, tols, abs), emptyRows
}

func sameRows(a, b []dbk.FlatRow) string {
	ma := map[string][]float64{}
	for _, r := range a {
		ma[rowKey(r.Key, r.TS)] = r.Values
	}
	mb := map[string][]float64{}
	for _, r := range b {
		mb[rowKey(r.Key, r.TS)] = r.Values
	}
	for k, v := range ma {
		w, ok := mb[k]
		if !ok {
			return "row " + k + " disappeared"
		}
		if fmt.Sprint(v) != fmt.Sprint(w) {
			return fmt.Sprintf("row %s changed: %v -> %v", k, v, w)
		}
	}
	for k := range mb {
		if _, ok := ma[k]; !ok {
			return "row " + k + " appeared"
		}
	}
	return ""
}

func tolFor(n *gen.Node) float64 {
	if n.HasOp("/") || n.HasKind("avg") {
		return 1e-9
	}
	return 0
}

// collisionWitness re-checks known finding field-identity-collision on a fixed tiny case: two
// table fields whose printed expressions are alike although their data differ (AVG(b) and
// WAVG(b, a): the weight is not printed). A grouped query of the second is sub-merged from the
// column(s) matching its printed expression, not from its own: points (b=2,a=1), (b=6,a=3) have
// AVG 4 and WAVG 5, and `SELECT f1` must read 5. (Two fields with the very same expression used
// to read double; repaired by /repo 22d56a6 and checked by identicalFieldsWitness below.)
func collisionWitness(ctx *hk.RunCtx) {
	fld := func(n string) *gen.Node { return &gen.Node{Kind: "field", Name: n} }
	s := &dbk.Schema{Table: "t", Stream: "inbound", WhereC: -1, Res: time.Second, Retention: 100 * time.Second,
		Fields: []dbk.FieldDef{
			{Name: "f0", Node: &gen.Node{Kind: "avg", Kids: []*gen.Node{fld("b"), {Kind: "const", Const: 1}}}},
			{Name: "f1", Node: &gen.Node{Kind: "avg", Kids: []*gen.Node{fld("b"), fld("a")}}}}}
	v, ok := witnessValue(s, []map[string]interface{}{{"b": 2.0, "a": 1.0}, {"b": 6.0, "a": 3.0}}, "SELECT f1 FROM t GROUP BY *")
	ctx.Res.Hit("collision-witness-run")
	if ok && math.Abs(v-5) > 1e-9 {
		ctx.Res.KnownFinding("field-identity-collision")
	}
}

// identicalFieldsWitness: two table fields with the same expression; a grouped query of one of
// them must read that field's value (1), not the merge of both columns (2; fixed in 22d56a6).
func identicalFieldsWitness(ctx *hk.RunCtx) {
	cnt := func() *gen.Node {
		return &gen.Node{Kind: "agg", Name: "COUNT", Kids: []*gen.Node{{Kind: "field", Name: "c"}}}
	}
	s := &dbk.Schema{Table: "t", Stream: "inbound", WhereC: -1, Res: time.Second, Retention: 100 * time.Second,
		Fields: []dbk.FieldDef{{Name: "f0", Node: cnt()}, {Name: "f1", Node: cnt()}}}
	sql := "SELECT f1 FROM t GROUP BY *"
	v, ok := witnessValue(s, []map[string]interface{}{{"c": 1.0}}, sql)
	ctx.Res.Hit("identical-fields-witness-run")
	if ok && v != 1 {
		ctx.Res.Disagree(hk.Disagreement{Kind: "property", Prop: "C06", PropertyFails: true, Case: "identical-fields-witness",
			Impl: fmt.Sprint(v), Model: "1",
			Detail: "table `COUNT(c) AS f0, COUNT(c) AS f1`, one point c=1: `" + sql + "` must read 1 (each output merged once from one input)"})
	}
}

// prunedFieldWitness (observation, found by the soak of the sub-query work): a selected expression
// that PRINTS like another table field — `IF(g = '1', f0)` next to the table fields `AVG(c) AS f0,
// IF(g = '1', AVG(c)) AS f1` — gets its exact-match sub-merger from f1, so sourceForTable prunes f0;
// the group operator then resolves the select list again, against the pruned fields, where the
// name f0 is unknown and becomes SUM(f0): the column reads 0 instead of 6.
func prunedFieldWitness(ctx *hk.RunCtx) {
	fld := func(n string) *gen.Node { return &gen.Node{Kind: "field", Name: n} }
	avg := func() *gen.Node {
		return &gen.Node{Kind: "avg", Kids: []*gen.Node{fld("c"), {Kind: "const", Const: 1}}}
	}
	s := &dbk.Schema{Table: "t", Stream: "inbound", WhereC: -1, Res: time.Second, Retention: 100 * time.Second,
		Fields: []dbk.FieldDef{{Name: "f0", Node: avg()}, {Name: "f1", Node: &gen.Node{Kind: "if", C: 0, Kids: []*gen.Node{avg()}}}}}
	// with the field it names selected as well nothing is pruned: 6; alone: no value, no row
	v, ok := witnessValue(s, []map[string]interface{}{{"c": 6.0}}, "SELECT IF(d = 'x', f0) AS q FROM t GROUP BY *")
	ctx.Res.Hit("pruned-field-witness-run")
	if !ok || v != 6 {
		ctx.Res.KnownFinding("pruned-field-reresolved")
	}
}

func witnessValue(s *dbk.Schema, vals []map[string]interface{}, sql string) (float64, bool) {
	db, err := dbk.Open(dbk.Opts{})
	if err != nil {
		return 0, false
	}
	defer db.CloseAndRemove()
	if db.CreateTable(s) != nil {
		return 0, false
	}
	for _, v := range vals {
		db.Insert(s.Stream, dbk.Point{TS: dbk.Base, Dims: map[string]interface{}{"d": "x"}, Vals: v})
	}
	if !db.Quiesce(10 * time.Second) {
		return 0, false
	}
	_, rows, err := db.Query(sql, true, 0)
	if err != nil || len(rows) != 1 || len(rows[0].Values) != 1 {
		return 0, false
	}
	return rows[0].Values[0], true
}

func (Engine) Run(ctx *hk.RunCtx) error {
	if ctx.From == 0 && ctx.Replay == "" {
		collisionWitness(ctx)
		identicalFieldsWitness(ctx)
		prunedFieldWitness(ctx)
	}
	fromSubHavingWitness(ctx)
	inSubNilWitness(ctx)
	ctx.Res.Rule = "generated (schema, dataset with flushes, 3-6 query slots: a table query, or an IN-subquery differential (sub-query standalone, nested, literal list, preset result), or a FROM-subquery (inner standalone, nested)); distinct by canonical model request plus the sub-query texts; non-trivial = dataset with >= 3 accepted points and at least one query that regroups, bounds the time range, filters or has HAVING"
	for i := 0; i < ctx.N; i++ {
		idx := uint64(ctx.From + i)
		r := hk.Derive(ctx.Seed, idx)
		if err := oneCase(ctx, r, idx); err != nil {
			return err
		}
	}
	return nil
}

// caseCtx is the state of one generated case while its queries are being run.
type caseCtx struct {
	ctx         *hk.RunCtx
	r           *hk.Rng
	idx         uint64
	s           *dbk.Schema
	db          *dbk.DB
	tableFields core.Fields
	keys        map[string]map[string]interface{} // the table's row keys
	mops        []interface{}
	now         time.Time
	nPts        int

	qs       []*qspec
	mqs      []interface{}
	impl     [][]dbk.FlatRow
	implErr  []error
	propFail []pf
	probeSQL string
	probe0   []dbk.FlatRow

	insubs   []interface{}   // canonical descriptions of the IN-subquery differentials run
	fromsubs []*fromSubCheck // FROM-subquery checks waiting for the model
}

// maxBack is the table's retention in periods.
func (c *caseCtx) maxBack() int { return int(c.s.Retention / c.s.Res) }

// submitted is what submit reports about one table query.
type submitted struct {
	ok   bool // parsed, fields as generated, shape modelled: the query was run and handed to the model
	pq   *sql.Query
	rows []dbk.FlatRow
	err  error
}

// condBits evaluates gen.Conds on a key the way the group operator does for IF (ids 100+).
func condBits(bm bytemap.ByteMap) []int {
	conds := []int{}
	for ci, c := range gen.Conds {
		if b, isb := c.Eval(bm).(bool); isb && b {
			conds = append(conds, 100+ci)
		}
	}
	return conds
}

// submit parses a query over the table, checks that the real field expressions print like the
// generator's nodes, summarises it for the model from the REAL parser's output, runs it and
// queues it for the comparison with runQuery / specQuery.  `pre` (optional) is called on the
// parsed query before its WHERE is evaluated (IN-subqueries get their values there).
func (c *caseCtx) submit(q *qspec, pre func(pq *sql.Query) bool) submitted {
	ctx, s := c.ctx, c.s
	pq, perr := sql.Parse(q.SQL)
	if perr != nil {
		ctx.Res.Hit("query-unparsable")
		ctx.Res.Note("unparsable generated query: %s: %v", q.SQL, perr)
		return submitted{}
	}
	// the real field expressions must print like the generator's nodes
	realFields, ferr := pq.Fields.Get(c.tableFields)
	want := append([]item{}, q.Items...)
	if q.Having != nil {
		want = append(want, *q.Having)
	}
	ok := ferr == nil && len(realFields) == len(want)
	if ok {
		for j := range want {
			if realFields[j].Name != want[j].Name || realFields[j].Expr.String() != want[j].Node.Build().String() {
				ok = false
			}
		}
	}
	if !ok {
		ctx.Res.Hit("query-field-mismatch")
		wants := func() (o []string) {
			for _, w := range want {
				o = append(o, w.Name+" "+w.Node.Build().String())
			}
			return
		}()
		ctx.Res.Note("field mismatch for %s: real %v err %v want %v", q.SQL, realFields, ferr, wants)
		// the parser resolved the select list / HAVING to other expressions than the SQL text
		// means (names resolve to table columns unless a select alias shadows them): the tie
		// between the generated query and the model's field list is broken
		ctx.Res.Disagree(hk.Disagreement{Kind: "model-vs-impl", Case: map[string]interface{}{"engine": "query", "sql": q.SQL, "table": s.SQL()},
			Impl: fmt.Sprint(realFields, ferr), Model: wants, Detail: "field resolution: select list / HAVING resolved differently from the query text's meaning", Index: c.idx})
		c.havingOracle(q)
		return submitted{}
	}
	// summary for the model, taken from the REAL parser's output
	mq, plain := querySummary(pq, want, q.Mem)
	if !plain || pq.Crosstab != nil || pq.FromSubQuery != nil {
		ctx.Res.Hit("query-shape-not-modelled")
		return submitted{}
	}
	if pre != nil && !pre(pq) {
		return submitted{}
	}
	metas := []interface{}{}
	for _, km := range c.keys {
		bm := bytemap.New(km)
		whereOk := true
		if pq.Where != nil {
			b, isb := pq.Where.Eval(bm).(bool)
			whereOk = isb && b
		}
		metas = append(metas, map[string]interface{}{"key": dbk.KeyJSON(km), "where": whereOk, "conds": condBits(bm)})
	}
	mq["metas"] = metas
	_, rows, qerr := c.db.Query(q.SQL, q.Mem, 0)
	c.qs = append(c.qs, q)
	c.mqs = append(c.mqs, mq)
	c.impl = append(c.impl, rows)
	c.implErr = append(c.implErr, qerr)
	tag := ""
	if q.Tag != "" {
		tag = "[" + q.Tag + "]"
	}
	ctx.Res.Hit("q" + tag + ":" + kindOf(pq, q))
	// C04 oracle: the probe returns the same rows after any query
	_, probe1, _ := c.db.Query(c.probeSQL, true, 0)
	if d := sameRows(c.probe0, probe1); d != "" {
		c.propFail = append(c.propFail, pf{"C04", fmt.Sprintf("probe changed after query %q: %s", q.SQL, d)})
	}
	_ = s
	if qerr == nil {
		c.havingOracleRows(q, rows)
	}
	return submitted{ok: true, pq: pq, rows: rows, err: qerr}
}

// havingOracle / havingOracleRows: C08 in the property's own words, on the implementation alone - "a
// query with HAVING returns exactly those rows of the HAVING-free query whose output values
// satisfy the predicate" - for HAVING `<selected column> <op> <const>`.  Rows of the HAVING query
// that the HAVING-free query does not have at all are left to the empty-bucket-row finding.
func (c *caseCtx) havingOracle(q *qspec) {
	if q.HavCol == "" || q.NoHavSQL == "" {
		return
	}
	_, rows, err := c.db.Query(q.SQL, q.Mem, 0)
	if err == nil {
		c.havingOracleRows(q, rows)
	}
}

func (c *caseCtx) havingOracleRows(q *qspec, hrows []dbk.FlatRow) {
	if q.HavCol == "" || q.NoHavSQL == "" {
		return
	}
	col := -1
	for j, it := range q.Items {
		if it.Name == q.HavCol {
			col = j
		}
	}
	if col < 0 {
		return
	}
	_, base, err := c.db.Query(q.NoHavSQL, q.Mem, 0)
	if err != nil {
		return
	}
	c.ctx.Res.Hit("having-oracle")
	pred := func(v float64) bool {
		switch q.HavOp {
		case ">":
			return v > q.HavC
		case "<=":
			return v <= q.HavC
		}
		return v == q.HavC
	}
	got := map[string][]float64{}
	for _, r := range hrows {
		got[rowKey(r.Key, r.TS)] = r.Values
	}
	for _, r := range base {
		if col >= len(r.Values) {
			return
		}
		k := rowKey(r.Key, r.TS)
		hv, in := got[k]
		want := pred(r.Values[col])
		if want != in {
			c.propFail = append(c.propFail, pf{"C08", fmt.Sprintf("HAVING %s %s %v: row %s of the HAVING-free query has %s = %v, so it must%s be returned, but it is%s (query %q)",
				q.HavCol, q.HavOp, q.HavC, k, q.HavCol, r.Values[col], map[bool]string{true: "", false: " not"}[want], map[bool]string{true: "", false: " not"}[in], q.SQL)})
			return
		}
		if in && fmt.Sprint(hv) != fmt.Sprint(r.Values) {
			c.propFail = append(c.propFail, pf{"C08", fmt.Sprintf("HAVING changes the values of row %s: %v vs %v (query %q)", k, hv, r.Values, q.SQL)})
			return
		}
	}
}

// querySummary renders what the model needs to know of a parsed query; plain = every GROUP BY
// element is a bare dimension.
func querySummary(pq *sql.Query, want []item, mem bool) (map[string]interface{}, bool) {
	fields := []interface{}{}
	for _, it := range want {
		fields = append(fields, map[string]interface{}{"name": it.Name, "e": it.Node.JSON()})
	}
	gbNames := []string{}
	plain := true
	for _, gb := range pq.GroupBy {
		gbNames = append(gbNames, gb.Name)
		if gb.Expr.String() != gb.Name {
			plain = false
		}
	}
	mq := map[string]interface{}{"fields": fields, "selectAll": pq.HasSelectAll, "groupByAll": pq.GroupByAll,
		"groupBy": gbNames, "resolution": fmt.Sprint(int64(pq.Resolution)), "stride": fmt.Sprint(int64(pq.Stride)),
		"asOfOffset": fmt.Sprint(int64(pq.AsOfOffset)), "untilOffset": fmt.Sprint(int64(pq.UntilOffset)),
		"hasSpecificFields": pq.HasSpecificFields, "hasHaving": pq.HasHaving, "hasWhere": pq.Where != nil, "mem": mem}
	if !pq.AsOf.IsZero() {
		mq["asOf"] = fmt.Sprint(pq.AsOf.UnixNano())
	}
	if !pq.Until.IsZero() {
		mq["until"] = fmt.Sprint(pq.Until.UnixNano())
	}
	return mq, plain
}

func oneCase(ctx *hk.RunCtx, r *hk.Rng, idx uint64) error {
	s := dbk.GenSchema(r, "t")
	tq, err := dbk.ParseTable(s)
	if err != nil {
		ctx.Res.Hit("schema-unparsable")
		return nil
	}
	sorted := r.Chance(1, 6)
	o := dbk.Opts{}
	if sorted {
		o.MaxMemoryRatio = 0.9
	}
	db, err := dbk.Open(o)
	if err != nil {
		return err
	}
	defer db.CloseAndRemove()
	if err := db.CreateTable(s); err != nil {
		ctx.Res.Hit("create-table-error")
		return nil
	}
	if err := db.CheckFields(s); err != nil {
		ctx.Res.Hit("schema-mismatch")
		return nil
	}
	c := &caseCtx{ctx: ctx, r: r, idx: idx, s: s, db: db, tableFields: db.VerifFields(s.Table),
		keys: map[string]map[string]interface{}{}}

	// dataset
	for _, op := range genDataset(r, s) {
		switch v := op.(type) {
		case string:
			if !db.Quiesce(10 * time.Second) {
				ctx.Res.Inconclusive++
				return nil
			}
			db.VerifForceFlush(s.Table)
			c.mops = append(c.mops, map[string]interface{}{"op": "flush", "sorted": sorted})
		case dbk.Point:
			if err := db.Insert(s.Stream, v); err != nil {
				continue
			}
			c.nPts++
			c.mops = append(c.mops, map[string]interface{}{"op": "ingest", "p": v.ModelJSON(tq.Where)})
			// the resliced key of the point, as the table computes it
			dims := bytemap.New(v.Dims)
			km := map[string]interface{}{}
			if len(tq.GroupBy) == 0 {
				km = dims.AsMap()
			} else {
				for _, gb := range tq.GroupBy {
					if val := gb.Expr.Eval(dims); val != nil {
						km[gb.Name] = val
					}
				}
			}
			c.keys[dbk.KeyString(km)] = km
		}
	}
	if !db.Quiesce(10 * time.Second) {
		ctx.Res.Inconclusive++
		return nil
	}
	c.now = time.Unix(0, db.VerifNow())
	if c.nPts == 0 {
		c.now = dbk.Base
	}

	// queries
	nq := r.Range(3, 6)
	// the probe names its fields so that the plan has a group operator and therefore the
	// table's retention window (an ungrouped SELECT * is passed through unwindowed and may
	// show expired periods until a truncating flush removes them)
	var pnames []string
	for _, f := range s.AllFields() {
		pnames = append(pnames, f.Name)
	}
	c.probeSQL = "SELECT " + strings.Join(pnames, ", ") + " FROM " + s.Table + " GROUP BY *"
	_, c.probe0, _ = db.Query(c.probeSQL, true, 0)
	for i := 0; i < nq; i++ {
		switch shape := r.Intn(100); {
		case shape < 46:
			c.submit(genQuery(r, s, c.now, genOpts{RichWhere: true, RichHaving: r.Chance(1, 2), MaxBack: c.maxBack()}), nil)
		case shape < 76:
			c.inSubCase()
		default:
			c.fromSubCase()
		}
	}
	// C04: ... and after the next flush
	db.VerifForceFlush(s.Table)
	_, probe2, _ := db.Query(c.probeSQL, true, 0)
	if d := sameRows(c.probe0, probe2); d != "" {
		c.propFail = append(c.propFail, pf{"C04", "probe changed after the queries and a flush: " + d})
	}

	qs, mqs, impl, implErr := c.qs, c.mqs, c.impl, c.implErr
	mops := c.mops
	nPts := c.nPts
	req := map[string]interface{}{"engine": "query", "cfg": s.CfgJSON(), "ops": mops, "metas": []interface{}{}, "queries": mqs}
	canon := req
	if len(c.insubs) > 0 || len(c.fromsubs) > 0 {
		canon = map[string]interface{}{"engine": "query", "cfg": s.CfgJSON(), "ops": mops, "metas": []interface{}{}, "queries": mqs,
			"insubs": c.insubs, "fromsubs": fromSubCanon(c.fromsubs)}
	}
	ctx.Res.Count(canon, nPts >= 3 && len(mqs) > 0)
	if len(mqs) == 0 {
		return nil
	}
	out, err := ctx.Model.Call(req)
	if err != nil {
		return err
	}
	var mo struct {
		Outs []struct {
			Err     string          `json:"err"`
			Rows    []mrow          `json:"rows"`
			Spec    json.RawMessage `json:"spec"`
			SpecDup json.RawMessage `json:"specDup"`
			Empty   []string        `json:"emptyVals"`
			Grouped bool            `json:"grouped"`
		} `json:"outs"`
		Now string `json:"now"`
	}
	if err := json.Unmarshal(out, &mo); err != nil {
		return err
	}
	for i, q := range qs {
		m := mo.Outs[i]
		tols := []float64{}
		for _, it := range q.Items {
			tols = append(tols, tolFor(it.Node))
		}
		one := map[string]interface{}{"engine": "query", "cfg": s.CfgJSON(), "ops": mops, "sql": q.SQL, "query": mqs[i]}
		if m.Err != "" {
			if implErr[i] == nil {
				ctx.Res.Disagree(hk.Disagreement{Kind: "model-vs-impl", Case: one, Impl: fmt.Sprintf("%d rows", len(impl[i])), Model: m.Err,
					Detail: "model reports a planning error, implementation answered", Index: idx})
			} else {
				ctx.Res.Hit("both-error:" + m.Err)
			}
			continue
		}
		if implErr[i] != nil {
			ctx.Res.Disagree(hk.Disagreement{Kind: "model-vs-impl", Case: one, Impl: implErr[i].Error(), Model: fmt.Sprintf("%d rows", len(m.Rows)),
				Detail: "implementation reports an error, model answered", Index: idx})
			continue
		}
		if d := compareRows(impl[i], m.Rows, tols); d != "" {
			ctx.Res.Disagree(hk.Disagreement{Kind: "model-vs-impl", Case: one, Impl: impl[i], Model: m.Rows, Detail: "query rows differ: " + d, Index: idx})
		}
		// property oracle: the raw-point spec (memstore-inclusive, windowed = grouped queries)
		var spec []mrow
		if q.Mem && m.Grouped && json.Unmarshal(m.Spec, &spec) == nil {
			prop := "C06"
			if q.Bounded {
				prop = "C07"
			}
			if q.WhereC >= 0 || q.WhereSQL != "" || q.Having != nil {
				prop = "C08"
			}
			d, emptyRows := compareWithSpec(impl[i], spec, tols, m.Empty)
			if d != "" {
				var specDup []mrow
				d2, _ := "", 0
				if json.Unmarshal(m.SpecDup, &specDup) == nil {
					d2, _ = compareWithSpec(impl[i], specDup, tols, m.Empty)
				} else {
					d2 = "x"
				}
				if d2 == "" {
					ctx.Res.KnownFinding("C01-array-double")
				} else {
					c.propFail = append(c.propFail, pf{prop, fmt.Sprintf("query %q differs from the raw-point spec: %s", q.SQL, d)})
					if os.Getenv("ZVH_DEBUG") != "" {
						fmt.Fprintf(os.Stderr, "DEBUG idx=%d sql=%s\n table=%s\n impl=%v\n model=%v\n spec=%s\n mq=%v\n", idx, q.SQL, s.SQL(), impl[i], m.Rows, string(m.Spec), mqs[i])
					}
				}
			}
			if emptyRows > 0 {
				ctx.Res.KnownFinding("empty-bucket-row")
				ctx.Res.Hit("empty-bucket-rows:" + prop)
			}
			if q.Tag != "" {
				ctx.Res.Hit("spec-checked[" + q.Tag + "]")
			}
		}
	}
	// FROM-subqueries: the outer query over the materialised rows, by the model (runOver) and
	// by the spec over those rows as points (specOver)
	for _, f := range c.fromsubs {
		if err := c.checkFromSub(f, mo.Now); err != nil {
			return err
		}
	}
	for _, f := range c.propFail {
		ctx.Res.Disagree(hk.Disagreement{Kind: "property", Case: canon, Detail: f.prop + ": " + f.msg, PropertyFails: true, Prop: f.prop, Index: idx})
	}
	return nil
}

func kindOf(pq *sql.Query, q *qspec) string {
	var parts []string
	if pq.HasSelectAll {
		parts = append(parts, "star")
	}
	if len(pq.GroupBy) > 0 {
		parts = append(parts, "dims")
	}
	if pq.Resolution > 0 {
		parts = append(parts, "period")
	}
	if q.Bounded {
		parts = append(parts, "range")
	}
	if pq.Where != nil {
		parts = append(parts, "where")
	}
	if pq.HasHaving {
		parts = append(parts, "having")
	}
	if len(parts) == 0 {
		return "plain"
	}
	return strings.Join(parts, "+")
}

var _ = core.PointsField
