package query

// IN-subqueries (C08): `dim IN (SELECT dim FROM t …)` behaves like IN over the literal list of
// the distinct values the sub-query returns.
//
// One slot of a case generates 1–2 sub-queries and an outer query whose WHERE combines them with
// AND / OR / NOT and other dimension predicates, and runs
//
//	(1) every sub-query standalone through the same DB API.  As a sub-query the planner replaces
//	    its select list by `_points` (+ the HAVING helper) — `fixupSubQuery` —, and a bare
//	    `SELECT d FROM t` is no query at all ("No fields found!"), so the standalone form is
//	    `SELECT _points FROM t <same clauses>`.  Without ORDER BY/LIMIT it is also handed to the
//	    model (runQuery / specQuery) like any table query;
//	(2) the values: `row.Key.Get(dim)` of every standalone row, distinct — nil when the row's key
//	    lacks the dimension, exactly what planner/subquery.go collects;
//	(3) the nested query; it is handed to the model as well, its WHERE evaluated per row key by
//	    the real goexpr after `SubQuery.SetResult(values)`;
//	(4) the same outer query with the literal list in SQL (`d IN ('x', 'y')`), and
//	(5) the nested text again with the values preset through `DB.Query(…, subQueryResults, …)`.
//
// Oracle (implementation only): (3) = (4) = (5) as multisets of (key, ts, values).
//
// nil in the list.  zenodb's SQL has no literal for a missing value (`IN (NULL)` is rejected by
// sql.goExprFor), while a sub-query row that lacks the dimension puts nil into the list and
// goexpr.In matches nil with nil: outer rows lacking the dimension are kept.  The literal form
// used for such a list is `(d IN (…) OR d IS NULL)`; whenever the nil member changes which rows
// the outer query keeps, finding `C08-insub-null-member` is counted.

import (
	"context"
	"fmt"
	"sort"
	"strings"
	"time"

	"github.com/getlantern/bytemap"
	"github.com/getlantern/zenodb/core"
	"github.com/getlantern/zenodb/sql"

	"zvh/dbk"
	"zvh/gen"
	"zvh/hk"
)

type inSub struct {
	OuterDim string
	SubDim   string
	Tail     string // everything after `FROM t`
	Std      *qspec // `SELECT _points FROM t <tail>`
	NoHaving string // the standalone text without its HAVING clause ("" when there is none)
	Limit    bool
	Hits     []string
}

var dimNames = []string{"d", "d", "g", "n"}

func otherDim(r *hk.Rng, d string) string {
	for {
		if o := hk.Pick(r, dimNames); o != d {
			return o
		}
	}
}

func genDimCond(r *hk.Rng) string {
	if r.Chance(1, 2) {
		return hk.Pick(r, gen.CondText)
	}
	return hk.Pick(r, extraWhere)
}

func genInSub(r *hk.Rng, s *dbk.Schema, now time.Time) *inSub {
	u := &inSub{OuterDim: hk.Pick(r, dimNames)}
	u.SubDim = u.OuterDim
	if r.Chance(1, 8) {
		u.SubDim = otherDim(r, u.OuterDim)
		u.Hits = append(u.Hits, "other-dim")
	}
	maxBack := int(s.Retention / s.Res)
	back := func(k int) int {
		if k > maxBack && r.Chance(3, 4) {
			return 1 + k%maxBack
		}
		return k
	}
	all := s.AllFields()
	std := &qspec{WhereC: -1, Tag: "insub-standalone", Items: []item{{Name: all[0].Name, Node: all[0].Node, SQL: all[0].Name}}}
	tail := ""
	switch r.Intn(8) {
	case 0:
		tail += fmt.Sprintf(" ASOF '-%v'", time.Duration(back(r.Range(1, 12)))*s.Res)
		std.Bounded = true
	case 1:
		a := now.Add(-time.Duration(back(r.Range(2, 14))) * s.Res)
		b := now.Add(-time.Duration(r.Range(0, 3)) * s.Res)
		tail += fmt.Sprintf(" ASOF '%s' UNTIL '%s'", fmtTime(a), fmtTime(b))
		std.Bounded = true
	}
	if std.Bounded {
		u.Hits = append(u.Hits, "range")
	}
	if r.Chance(2, 5) {
		std.WhereSQL = genDimCond(r)
		tail += " WHERE " + std.WhereSQL
		u.Hits = append(u.Hits, "where")
	}
	var gb []string
	gk := ""
	switch r.Intn(9) {
	case 0:
		gk = "none"
	case 1:
		gk = "star"
		gb = append(gb, "*")
	case 2, 3, 4:
		gk = "dim"
		gb = append(gb, u.SubDim)
	case 5, 6:
		gk = "dim+other"
		gb = append(gb, u.SubDim, otherDim(r, u.SubDim))
	case 7:
		gk = "other-only"
		gb = append(gb, otherDim(r, u.SubDim))
	default:
		gk = "underscore"
		gb = append(gb, "_")
	}
	u.Hits = append(u.Hits, "group="+gk)
	if r.Chance(1, 3) {
		gb = append(gb, fmt.Sprintf("period(%v)", time.Duration(hk.Pick(r, []int{1, 2, 3, 5, 1000}))*s.Res))
		u.Hits = append(u.Hits, "period")
	}
	if len(gb) > 0 {
		tail += " GROUP BY " + strings.Join(gb, ", ")
	}
	noHaving := tail
	if r.Chance(1, 2) {
		var ops []operand
		for _, f := range all {
			ops = append(ops, operand{f.Name, f.Node})
		}
		h, text := genHaving(r, ops)
		std.Having = h
		tail += " HAVING " + text
		u.Hits = append(u.Hits, "having")
	}
	if r.Chance(1, 5) {
		// the first LIMIT rows of a total preorder whose ties agree on the selected dimension:
		// the SET of its values is determined although sort.Sort is not stable
		ob := ""
		switch r.Intn(3) {
		case 0:
			ob = u.SubDim
		case 1:
			ob = u.SubDim + " DESC"
		default:
			ob = "_points DESC, " + u.SubDim
		}
		lim := fmt.Sprintf(" ORDER BY %s LIMIT %d", ob, r.Range(1, 3))
		tail += lim
		noHaving += lim
		u.Limit = true
		u.Hits = append(u.Hits, "limit")
	}
	u.Tail = tail
	std.SQL = "SELECT _points FROM " + s.Table + tail
	if std.Having != nil {
		u.NoHaving = "SELECT _points FROM " + s.Table + noHaving
	}
	u.Std = std
	return u
}

func (u *inSub) nested(table string) string {
	return fmt.Sprintf("%s IN (SELECT %s FROM %s%s)", u.OuterDim, u.SubDim, table, u.Tail)
}

func litValue(v interface{}) string {
	switch t := v.(type) {
	case string:
		return "'" + strings.ReplaceAll(t, "'", "''") + "'"
	default:
		return fmt.Sprint(t)
	}
}

// literalPredicate renders `dim IN <the list>` in SQL.  Empty list: a list of one value that
// occurs nowhere (the grammar has no `IN ()`); nil member: `OR dim IS NULL` (no literal for it).
func literalPredicate(dim string, vals []interface{}) string {
	var lits []string
	hasNil := false
	for _, v := range vals {
		if v == nil {
			hasNil = true
		} else {
			lits = append(lits, litValue(v))
		}
	}
	switch {
	case len(lits) == 0 && !hasNil:
		return dim + " IN ('__no_such_value__')"
	case len(lits) == 0:
		return dim + " IS NULL"
	case hasNil:
		return fmt.Sprintf("(%s IN (%s) OR %s IS NULL)", dim, strings.Join(lits, ", "), dim)
	}
	return fmt.Sprintf("%s IN (%s)", dim, strings.Join(lits, ", "))
}

// nilMember: does a sub-query row whose key lacks the dimension put nil into the list (as found:
// yes — finding C08-insub-null-member)?  The oracle follows the code; the witness asks it.
var nilMember = true

// inSubNilWitness: points {d: x} and {g: 1}; `… WHERE d IN (SELECT d FROM t)` keeps the row
// without d exactly when nil is a member of the list.
func inSubNilWitness(ctx *hk.RunCtx) {
	s := &dbk.Schema{Table: "t", Stream: "inbound", WhereC: -1, Res: time.Second, Retention: 100 * time.Second,
		Fields: []dbk.FieldDef{{Name: "f0", Node: &gen.Node{Kind: "agg", Name: "SUM", Kids: []*gen.Node{{Kind: "field", Name: "a"}}}}}}
	db, err := dbk.Open(dbk.Opts{})
	if err != nil {
		return
	}
	defer db.CloseAndRemove()
	if db.CreateTable(s) != nil {
		return
	}
	db.Insert(s.Stream, dbk.Point{TS: dbk.Base, Dims: map[string]interface{}{"d": "x"}, Vals: map[string]interface{}{"a": 1.0}})
	db.Insert(s.Stream, dbk.Point{TS: dbk.Base, Dims: map[string]interface{}{"g": "1"}, Vals: map[string]interface{}{"a": 1.0}})
	if !db.Quiesce(10 * time.Second) {
		return
	}
	_, rows, err := db.Query("SELECT f0 FROM t WHERE d IN (SELECT d FROM t) GROUP BY d", true, 0)
	if err != nil || len(rows) == 0 {
		return
	}
	nilMember = len(rows) == 2
	if ctx.From == 0 {
		ctx.Res.Hit("insub-nil-witness-run")
		if nilMember {
			ctx.Res.KnownFinding("C08-insub-null-member")
		} else {
			ctx.Res.Hit("insub-nil-witness:repaired")
		}
	}
}

// distinctDim collects what planner/subquery.go collects: row.Key.Get(dim) of every row, distinct
// (nil for a key without the dimension), in a canonical order.
func distinctDim(rows []dbk.FlatRow, dim string) []interface{} {
	seen := map[string]interface{}{}
	for _, r := range rows {
		v := r.Key[dim]
		if v == nil && !nilMember {
			continue
		}
		seen[dimTextOf(v)] = v
	}
	ks := make([]string, 0, len(seen))
	for k := range seen {
		ks = append(ks, k)
	}
	sort.Strings(ks)
	out := make([]interface{}, 0, len(ks))
	for _, k := range ks {
		out = append(out, seen[k])
	}
	return out
}

func dimTextOf(v interface{}) string {
	if v == nil {
		return "nil"
	}
	return fmt.Sprintf("%T:%v", v, v)
}

func valuesJSON(vs []interface{}) []string {
	out := []string{}
	for _, v := range vs {
		out = append(out, dimTextOf(v))
	}
	return out
}

// queryPreset runs a query whose IN-subqueries are not executed: their results are supplied
// (the API a cluster leader uses for its followers).
func queryPreset(db *dbk.DB, sqlText string, includeMem bool, results [][]interface{}) (rows []dbk.FlatRow, err error) {
	if pn := hk.Recover(func() {
		var src core.FlatRowSource
		src, err = db.DB.Query(sqlText, false, results, includeMem)
		if err != nil {
			return
		}
		_, err = src.Iterate(context.Background(), func(fs core.Fields) error { return nil }, func(row *core.FlatRow) (bool, error) {
			vals := append([]float64(nil), row.Values...)
			rows = append(rows, dbk.FlatRow{TS: row.TS, Key: row.Key.AsMap(), Values: vals})
			return true, nil
		})
	}); pn != nil {
		err = fmt.Errorf("panic: %v", pn)
	}
	return
}

// sameRowsMulti compares two results as multisets of (key, ts, values), exactly.
func sameRowsMulti(a, b []dbk.FlatRow) string {
	count := func(rows []dbk.FlatRow) map[string]int {
		m := map[string]int{}
		for _, r := range rows {
			m[rowKey(r.Key, r.TS)+" "+fmt.Sprint(r.Values)]++
		}
		return m
	}
	ma, mb := count(a), count(b)
	for k, n := range ma {
		if mb[k] != n {
			return fmt.Sprintf("row %s: %d time(s) vs %d", k, n, mb[k])
		}
	}
	for k, n := range mb {
		if ma[k] != n {
			return fmt.Sprintf("row %s: %d time(s) vs %d", k, ma[k], n)
		}
	}
	return ""
}

var inTemplates1 = []string{"@0", "@0", "@0 AND #0", "#0 AND @0", "@0 OR #0", "NOT (@0)", "NOT (@0) AND #0", "(@0 OR #0) AND #1", "NOT (@0 OR #0)"}
var inTemplates2 = []string{"@0 AND @1", "@0 OR @1", "@0 AND NOT (@1)", "(@0 OR #0) AND @1"}

func (c *caseCtx) inSubCase() {
	ctx, r, s := c.ctx, c.r, c.s
	hit := func(k string) { ctx.Res.Hit("insub:" + k) }
	n := 1
	tmpl := hk.Pick(r, inTemplates1)
	if r.Chance(1, 6) {
		n = 2
		tmpl = hk.Pick(r, inTemplates2)
	}
	tkind := tmpl2kind(tmpl)
	tmpl = strings.ReplaceAll(tmpl, "#0", genDimCond(r))
	tmpl = strings.ReplaceAll(tmpl, "#1", genDimCond(r))
	var subs []*inSub
	for j := 0; j < n; j++ {
		subs = append(subs, genInSub(r, s, c.now))
	}
	outer := genQuery(r, s, c.now, genOpts{Where: tmpl, RichHaving: r.Chance(1, 2), MaxBack: c.maxBack()})
	fill := func(text string, pred func(j int) string) string {
		for j := range subs {
			text = strings.ReplaceAll(text, fmt.Sprintf("@%d", j), pred(j))
		}
		return text
	}
	hit(fmt.Sprintf("slots n=%d", n))
	hit("template " + tkind)

	// (1) the sub-queries standalone, (2) their values
	var values [][]interface{}
	var stdSQL []string
	var subErr error
	for _, u := range subs {
		u.Std.Mem = outer.Mem
		stdSQL = append(stdSQL, u.Std.SQL)
		var rows []dbk.FlatRow
		var err error
		if u.Limit {
			_, rows, err = c.db.Query(u.Std.SQL, outer.Mem, 0)
		} else {
			sm := c.submit(u.Std, nil)
			if !sm.ok {
				hit("abandoned:standalone-not-modelled")
				return
			}
			rows, err = sm.rows, sm.err
		}
		if err != nil {
			subErr = err
		}
		vals := distinctDim(rows, u.SubDim)
		values = append(values, vals)
		for _, h := range u.Hits {
			hit(h)
		}
		if subErr == nil {
			if len(vals) == 0 {
				hit("empty-list")
			}
			if len(rows) > len(vals) {
				hit("duplicate-values")
			}
			for _, v := range vals {
				if v == nil {
					hit("nil-in-list")
				}
			}
			hit(fmt.Sprintf("list-size=%d", len(vals)))
			if u.NoHaving != "" {
				if _, rows0, err0 := c.db.Query(u.NoHaving, outer.Mem, 0); err0 == nil &&
					fmt.Sprint(valuesJSON(distinctDim(rows0, u.SubDim))) != fmt.Sprint(valuesJSON(vals)) {
					hit("having-changes-list")
				}
			}
		}
	}
	nestedWhere := fill(tmpl, func(j int) string { return subs[j].nested(s.Table) })
	nestedSQL := fill(outer.SQL, func(j int) string { return subs[j].nested(s.Table) })
	desc := map[string]interface{}{"nested": nestedSQL, "standalone": stdSQL, "mem": outer.Mem}
	kase := func() map[string]interface{} {
		return map[string]interface{}{"engine": "query", "cfg": s.CfgJSON(), "ops": c.mops, "insub": desc}
	}
	fail := func(detail string, impl, model interface{}) {
		ctx.Res.Disagree(hk.Disagreement{Kind: "property", PropertyFails: true, Prop: "C08", Case: kase(), Impl: impl, Model: model,
			Detail: "C08: " + detail, Index: c.idx})
	}
	if subErr != nil {
		// a sub-query that cannot be planned or run fails the whole query
		hit("sub-query-error")
		_, rows, err := c.db.Query(nestedSQL, outer.Mem, 0)
		c.insubs = append(c.insubs, desc)
		if err == nil {
			fail(fmt.Sprintf("sub-query fails standalone (%v) but the nested query %q answers", subErr, nestedSQL), rows, subErr.Error())
		}
		return
	}
	var vj [][]string
	for _, v := range values {
		vj = append(vj, valuesJSON(v))
	}
	desc["values"] = vj

	// (3) nested, through the model path as well
	nq := *outer
	nq.SQL = nestedSQL
	nq.WhereSQL = nestedWhere
	nq.Tag = "insub-outer"
	sm := c.submit(&nq, func(pq *sql.Query) bool {
		if len(pq.WhereSubQueries) != len(subs) {
			hit("abandoned:subquery-count")
			return false
		}
		for j, sq := range pq.WhereSubQueries {
			if sq.Dim != subs[j].SubDim {
				hit("abandoned:subquery-dim")
				return false
			}
			sq.SetResult(values[j])
		}
		return true
	})
	if !sm.ok {
		hit("abandoned:outer-not-modelled")
		return
	}
	// (4) literal list, (5) preset values
	literalSQL := fill(outer.SQL, func(j int) string { return literalPredicate(subs[j].OuterDim, values[j]) })
	desc["literal"] = literalSQL
	c.insubs = append(c.insubs, desc)
	_, litRows, litErr := c.db.Query(literalSQL, outer.Mem, 0)
	preRows, preErr := queryPreset(c.db, nestedSQL, outer.Mem, values)
	hit("compared")
	switch {
	case sm.err != nil && litErr != nil && preErr != nil:
		hit("outer-error")
	case sm.err != nil || litErr != nil || preErr != nil:
		fail(fmt.Sprintf("nested query %q: error %v; literal list %q: error %v; preset values: error %v", nestedSQL, sm.err, literalSQL, litErr, preErr),
			fmt.Sprint(sm.err), fmt.Sprint(litErr))
	default:
		if d := sameRowsMulti(sm.rows, litRows); d != "" {
			fail(fmt.Sprintf("%q differs from the same query over the literal list %q (values %v of %q): %s", nestedSQL, literalSQL, vj, stdSQL, d), sm.rows, litRows)
		}
		if d := sameRowsMulti(sm.rows, preRows); d != "" {
			fail(fmt.Sprintf("%q differs from the same query with the sub-query results preset to %v: %s", nestedSQL, vj, d), sm.rows, preRows)
		}
		if len(sm.rows) > 0 {
			hit("outer-has-rows")
		}
	}
	if outer.Having != nil {
		hit("outer-having")
	}
	if len(sm.pq.GroupBy) > 0 || sm.pq.Resolution > 0 {
		hit("outer-regrouped")
	}
	if outer.Bounded {
		hit("outer-range")
	}
	// how the filter splits the table's keys; and the nil member (finding C08-insub-null-member)
	kept, dropped := 0, 0
	for _, km := range c.keys {
		if b, isb := sm.pq.Where.Eval(bytemap.New(km)).(bool); isb && b {
			kept++
		} else {
			dropped++
		}
	}
	if kept > 0 && dropped > 0 {
		hit("filter-splits-keys")
	}
	hasNil := false
	strict := make([][]interface{}, len(values))
	for j, vs := range values {
		for _, v := range vs {
			if v == nil {
				hasNil = true
			} else {
				strict[j] = append(strict[j], v)
			}
		}
	}
	if hasNil {
		if pq2, err := sql.Parse(nestedSQL); err == nil && len(pq2.WhereSubQueries) == len(subs) {
			for j, sq := range pq2.WhereSubQueries {
				sq.SetResult(strict[j])
			}
			for _, km := range c.keys {
				bm := bytemap.New(km)
				b1, _ := sm.pq.Where.Eval(bm).(bool)
				b2, _ := pq2.Where.Eval(bm).(bool)
				if b1 != b2 {
					ctx.Res.KnownFinding("C08-insub-null-member")
					hit("nil-member-changes-result")
					break
				}
			}
		}
	}
}

// tmpl2kind abstracts the companion predicates away for the histogram.
func tmpl2kind(t string) string {
	k := ""
	if strings.Contains(t, "NOT (@") {
		k += "not "
	}
	if strings.Contains(t, " AND ") {
		k += "and "
	}
	if strings.Contains(t, " OR ") {
		k += "or "
	}
	if k == "" {
		k = "bare"
	}
	return strings.TrimSpace(k)
}
