package query

// FROM-subqueries (C08): an outer query that names its fields over `FROM (sub-query)` equals
// evaluating it over the materialised sub-query result.
//
// One slot of a case generates an inner table query (any shape the engine generates, run
// standalone and checked against the model and the raw-point spec like every table query) and an
// outer query over its output columns: bare names (= SUM), explicit aggregates, arithmetic,
// comparisons, IF on the row key; WHERE over the dimensions of the inner rows; GROUP BY a subset of
// them (or `_`) and a multiple of the inner resolution; ASOF/UNTIL; HAVING over selected — and,
// for the record of finding C08-fromsub-having-unselected, unselected — columns.
//
// The nested query is answered by the real planner/executor.  The materialised rows of the inner
// query (its standalone result) go to the model driver engine `subquery` as POINTS (key, ts, values
// by column name), together with the outer query's summary taken from the real parser; the model
// derives the window the inner plan offers to the outer one (`planWin`: the inner group operator's
// resolution / asOf / until, else the table's — compared with the real sub-plan's
// GetResolution/GetAsOf/GetUntil) and answers with
//
//	runOver  — the code path: unflatten → row filter → group (sub-merge) → flatten → having;
//	specOver — the property: the raw-point spec of C06/C07/C08 over those points.
//
// Exactness: sums and products of the small dyadic inputs are exact in float64.  When an inner
// column holds quotients (AVG, `/`), the outer query is restricted to forms whose float64 result is
// within 1e-9 (relative, with an absolute floor) of the exact value over the SAME float inputs: no
// subtraction, division, comparison or HAVING.

import (
	"encoding/json"
	"fmt"
	"math"
	"strings"
	"time"

	"github.com/getlantern/bytemap"
	"github.com/getlantern/zenodb/sql"

	"zvh/dbk"
	"zvh/gen"
	"zvh/hk"
)

type fromSubCheck struct {
	Inner            *qspec
	InnerMQ          interface{}
	InnerRows        []dbk.FlatRow
	InnerErr         error
	Names            []string // the inner query's output columns
	SQL              string   // the nested query
	OuterMQ          map[string]interface{}
	Items            []item
	Having           *item
	HavingUnselected bool
	Exact            bool
	Rows             []dbk.FlatRow
	Err              error
	SrcOK            bool
	SrcRes           time.Duration
	SrcAsOf          time.Time
	SrcUntil         time.Time
	Hits             []string
}

// unflattenHaving: does the real Unflatten hand the HAVING helper of a FROM-subquery's outer query
// to the group operator?  As found it does not (sourceForSubQuery passes query.FieldsNoHaving), so a
// HAVING over a column that the outer query does not select sees no data: finding
// C08-fromsub-having-unselected.  The model follows whichever the code does; the witness asks it.
var unflattenHaving bool

// fromSubHavingWitness: `SELECT f0 FROM (SELECT f0, f1 FROM t GROUP BY d) HAVING f1 > 0` over one
// point a=1, b=2 (f0 = SUM(a), f1 = SUM(b)) must return the row; it returns nothing as found.
func fromSubHavingWitness(ctx *hk.RunCtx) {
	fld := func(n string) *gen.Node { return &gen.Node{Kind: "field", Name: n} }
	s := &dbk.Schema{Table: "t", Stream: "inbound", WhereC: -1, Res: time.Second, Retention: 100 * time.Second,
		Fields: []dbk.FieldDef{
			{Name: "f0", Node: &gen.Node{Kind: "agg", Name: "SUM", Kids: []*gen.Node{fld("a")}}},
			{Name: "f1", Node: &gen.Node{Kind: "agg", Name: "SUM", Kids: []*gen.Node{fld("b")}}}}}
	v, ok := witnessValue(s, []map[string]interface{}{{"a": 1.0, "b": 2.0}}, "SELECT f0 FROM (SELECT f0, f1 FROM t GROUP BY d) HAVING f1 > 0")
	unflattenHaving = ok && v == 1
	if ctx.From == 0 {
		ctx.Res.Hit("fromsub-having-witness-run")
		if unflattenHaving {
			ctx.Res.Hit("fromsub-having-witness:repaired")
		} else {
			ctx.Res.KnownFinding("C08-fromsub-having-unselected")
		}
	}
}

func fromSubCanon(fs []*fromSubCheck) []interface{} {
	out := []interface{}{}
	for _, f := range fs {
		out = append(out, map[string]interface{}{"sql": f.SQL, "outer": f.OuterMQ})
	}
	return out
}

func nodeHasField(n *gen.Node, name string) bool {
	if n.Kind == "field" && n.Name == name {
		return true
	}
	for _, k := range n.Kids {
		if nodeHasField(k, name) {
			return true
		}
	}
	return false
}

func sumOf(name string) *gen.Node {
	return &gen.Node{Kind: "agg", Name: "SUM", Kids: []*gen.Node{{Kind: "field", Name: name}}}
}

// genOuter generates the outer query's clauses over the inner query's columns.
func genOuter(r *hk.Rng, s *dbk.Schema, inner *qspec, innerRes time.Duration, now time.Time, exact bool) (f *fromSubCheck, sel []string, tail string) {
	f = &fromSubCheck{Inner: inner, Exact: exact}
	for _, it := range inner.Items {
		f.Names = append(f.Names, it.Name)
	}
	hit := func(k string) { f.Hits = append(f.Hits, k) }
	maxBack := int(s.Retention / s.Res)
	back := func(k int) int {
		if k > maxBack && r.Chance(3, 4) {
			return 1 + k%maxBack
		}
		return k
	}
	col := func() string {
		if r.Chance(1, 30) {
			hit("unknown-column")
			return "zz"
		}
		return hk.Pick(r, f.Names)
	}
	printed := map[string]bool{}
	add := func(it item) {
		p := it.Node.Build().String()
		for _, x := range f.Items {
			if x.Name == it.Name {
				return
			}
		}
		if printed[p] {
			return
		}
		printed[p] = true
		f.Items = append(f.Items, it)
		sel = append(sel, it.SQL)
	}
	k := r.Range(1, 3)
	for i := 0; i < k; i++ {
		name := fmt.Sprintf("o%d", i)
		a, b := col(), col()
		form := r.Intn(10)
		if !exact && (form == 6 || form == 7) {
			form = 4
		}
		switch form {
		case 0, 1, 2:
			add(item{Name: a, Node: sumOf(a), SQL: a})
			hit("item:bare")
		case 3:
			ag := hk.Pick(r, []string{"MAX", "MIN", "COUNT", "SUM"})
			add(item{Name: name, Node: &gen.Node{Kind: "agg", Name: ag, Kids: []*gen.Node{{Kind: "field", Name: a}}},
				SQL: fmt.Sprintf("%s(%s) AS %s", ag, a, name)})
			hit("item:aggregate")
		case 4:
			op := "+"
			if exact {
				op = hk.Pick(r, []string{"+", "-", "*"})
			}
			add(item{Name: name, Node: &gen.Node{Kind: "bin", Name: op, Kids: []*gen.Node{sumOf(a), sumOf(b)}},
				SQL: fmt.Sprintf("%s %s %s AS %s", a, op, b, name)})
			hit("item:arith")
		case 5:
			add(item{Name: name, Node: &gen.Node{Kind: "bin", Name: "*", Kids: []*gen.Node{sumOf(a), {Kind: "const", Const: 2}}},
				SQL: fmt.Sprintf("%s * 2 AS %s", a, name)})
			hit("item:times-const")
		case 6:
			add(item{Name: name, Node: &gen.Node{Kind: "bin", Name: "/", Kids: []*gen.Node{sumOf(a), sumOf(b)}},
				SQL: fmt.Sprintf("%s / %s AS %s", a, b, name)})
			hit("item:quotient")
		case 7:
			op := hk.Pick(r, []string{">", "<=", "="})
			add(item{Name: name, Node: &gen.Node{Kind: "bin", Name: op, Kids: []*gen.Node{sumOf(a), sumOf(b)}},
				SQL: fmt.Sprintf("%s %s %s AS %s", a, op, b, name)})
			hit("item:comparison")
		case 8:
			add(item{Name: name, Node: &gen.Node{Kind: "avg", Kids: []*gen.Node{{Kind: "field", Name: a}, {Kind: "const", Const: 1}}},
				SQL: fmt.Sprintf("AVG(%s) AS %s", a, name)})
			hit("item:avg")
		default:
			c := r.Intn(len(gen.Conds))
			add(item{Name: name, Node: qIf(c, sumOf(a)), SQL: fmt.Sprintf("IF(%s, %s) AS %s", gen.CondText[c], a, name)})
			hit("item:if")
		}
	}
	known := false
	for _, it := range f.Items {
		for _, n := range f.Names {
			if nodeHasField(it.Node, n) {
				known = true
			}
		}
	}
	if !known {
		a := f.Names[0]
		add(item{Name: a, Node: sumOf(a), SQL: a})
	}
	// time range
	bounded := false
	switch r.Intn(8) {
	case 0:
		tail += fmt.Sprintf(" ASOF '-%v'", time.Duration(back(r.Range(1, 12)))*s.Res)
		bounded = true
	case 1:
		a := time.Duration(back(r.Range(3, 14))) * s.Res
		u := time.Duration(r.Range(0, 2)) * s.Res
		tail += fmt.Sprintf(" ASOF '-%v' UNTIL '-%v'", a, u+time.Duration(r.Range(0, 1))*s.Res/2)
		bounded = true
	case 2:
		a := now.Add(-time.Duration(back(r.Range(2, 14)))*s.Res + time.Duration(r.Range(0, 1))*s.Res/3)
		u := now.Add(-time.Duration(r.Range(0, 3)) * s.Res)
		tail += fmt.Sprintf(" ASOF '%s' UNTIL '%s'", fmtTime(a), fmtTime(u))
		bounded = true
	}
	if bounded {
		hit("range")
	}
	if r.Chance(1, 3) {
		tail += " WHERE " + genDimCond(r)
		hit("where")
	}
	var gb []string
	switch r.Intn(6) {
	case 0:
		hit("group=none")
	case 1:
		gb = append(gb, "_")
		hit("group=underscore")
	case 2:
		gb = append(gb, "*")
		hit("group=star")
	default:
		for _, d := range []string{"d", "g", "n"} {
			if r.Chance(1, 2) {
				gb = append(gb, d)
			}
		}
		hit(fmt.Sprintf("group=%d-dims", len(gb)))
	}
	if r.Chance(1, 2) {
		base := innerRes
		if r.Chance(1, 10) {
			base = s.Res
			hit("period-of-table-resolution")
		}
		gb = append(gb, fmt.Sprintf("period(%v)", time.Duration(hk.Pick(r, []int{1, 1, 2, 3, 5, 1000}))*base))
		hit("period")
	}
	if len(gb) > 0 {
		tail += " GROUP BY " + strings.Join(gb, ", ")
	}
	if exact && r.Chance(1, 3) {
		if r.Chance(1, 4) {
			// a column of the inner query that the outer query does not select under that name
			var cand []string
			for _, n := range f.Names {
				selected := false
				for _, it := range f.Items {
					if it.Name == n {
						selected = true
					}
				}
				if !selected {
					cand = append(cand, n)
				}
			}
			if len(cand) > 0 {
				h, text := genHaving(r, []operand{{cand[0], sumOf(cand[0])}})
				f.Having, f.HavingUnselected = h, true
				tail += " HAVING " + text
				hit("having:unselected")
			}
		}
		if f.Having == nil {
			var ops []operand
			for _, it := range f.Items {
				ops = append(ops, operand{it.Name, it.Node})
			}
			h, text := genHaving(r, ops)
			f.Having = h
			tail += " HAVING " + text
			hit("having:selected")
		}
	}
	return f, sel, tail
}

func (c *caseCtx) fromSubCase() {
	ctx, r, s := c.ctx, c.r, c.s
	hit := func(k string) { ctx.Res.Hit("fromsub:" + k) }
	inner := genQuery(r, s, c.now, genOpts{RichWhere: true, RichHaving: r.Chance(1, 2), MaxBack: c.maxBack()})
	inner.Tag = "fromsub-inner"
	if r.Chance(1, 8) {
		inner.SQL += " ORDER BY _time"
	}
	sm := c.submit(inner, nil)
	if !sm.ok {
		hit("abandoned:inner-not-modelled")
		return
	}
	// exact: the inner columns hold no quotients — or every value actually returned is a small
	// dyadic rational (then sums, differences and products of them are exact in float64 as well)
	exact := true
	for _, it := range inner.Items {
		if tolFor(it.Node) != 0 {
			exact = false
		}
	}
	if !exact {
		exact = true
		for _, row := range sm.rows {
			for _, v := range row.Values {
				if math.IsNaN(v) || math.Abs(v) > 1<<20 || v*1024 != math.Trunc(v*1024) {
					exact = false
				}
			}
		}
		if exact {
			hit("inner-quotients-all-dyadic")
		}
	}
	innerRes := sm.pq.Resolution
	if innerRes == 0 {
		innerRes = s.Res
	}
	f, sel, tail := genOuter(r, s, inner, innerRes, c.now, exact)
	f.InnerMQ = c.mqs[len(c.mqs)-1]
	f.InnerRows, f.InnerErr = sm.rows, sm.err
	f.SQL = "SELECT " + strings.Join(sel, ", ") + " FROM (" + inner.SQL + ")" + tail
	pq, perr := sql.Parse(f.SQL)
	if perr != nil || pq.FromSubQuery == nil {
		hit("abandoned:unparsable")
		ctx.Res.Note("unparsable FROM-subquery: %s: %v", f.SQL, perr)
		return
	}
	// the real field expressions: what Unflatten computes (FieldsNoHaving over nothing known) and
	// what the group operator computes (Fields over Unflatten's output)
	want := append([]item{}, f.Items...)
	unfl, ferr := pq.FieldsNoHaving.Get(nil)
	ok := ferr == nil && len(unfl) == len(want)
	if ok {
		for j := range want {
			if unfl[j].Name != want[j].Name || unfl[j].Expr.String() != want[j].Node.Build().String() {
				ok = false
			}
		}
	}
	if f.Having != nil {
		want = append(want, *f.Having)
	}
	var grp interface{ Names() []string }
	if ok {
		gf, gerr := pq.Fields.Get(unfl)
		grp = gf
		ok = gerr == nil && len(gf) == len(want)
		if ok {
			for j := range want {
				if gf[j].Name != want[j].Name || gf[j].Expr.String() != want[j].Node.Build().String() {
					ok = false
				}
			}
		}
	}
	if !ok {
		hit("abandoned:field-mismatch")
		ctx.Res.Note("FROM-subquery field mismatch for %s: unflatten %v group %v err %v", f.SQL, unfl, grp, ferr)
		return
	}
	mq, plain := querySummary(pq, want, inner.Mem)
	if !plain || pq.Crosstab != nil {
		hit("abandoned:shape")
		return
	}
	// WHERE and IF conditions per key of the materialised rows
	metas := []interface{}{}
	seen := map[string]bool{}
	for _, row := range f.InnerRows {
		ks := dbk.KeyString(row.Key)
		if seen[ks] {
			continue
		}
		seen[ks] = true
		bm := bytemap.New(row.Key)
		whereOk := true
		if pq.Where != nil {
			b, isb := pq.Where.Eval(bm).(bool)
			whereOk = isb && b
		}
		metas = append(metas, map[string]interface{}{"key": dbk.KeyJSON(row.Key), "where": whereOk, "conds": condBits(bm)})
	}
	mq["metas"] = metas
	f.OuterMQ = mq
	// the window the real sub-plan offers
	if pn := hk.Recover(func() {
		if src, err := c.db.DB.Query(inner.SQL, false, nil, inner.Mem); err == nil {
			f.SrcOK, f.SrcRes, f.SrcAsOf, f.SrcUntil = true, src.GetResolution(), src.GetAsOf(), src.GetUntil()
		}
	}); pn != nil {
		f.SrcOK = false
	}
	_, f.Rows, f.Err = c.db.Query(f.SQL, inner.Mem, 0)
	_, probe1, _ := c.db.Query(c.probeSQL, true, 0)
	if d := sameRows(c.probe0, probe1); d != "" {
		c.propFail = append(c.propFail, pf{"C04", fmt.Sprintf("probe changed after query %q: %s", f.SQL, d)})
	}
	c.fromsubs = append(c.fromsubs, f)
	hit("run")
	for _, h := range f.Hits {
		hit(h)
	}
	if !exact {
		hit("inexact-inner-columns")
	}
	if inner.Having != nil {
		hit("inner-having")
	}
	if inner.WhereC >= 0 || inner.WhereSQL != "" {
		hit("inner-where")
	}
	if len(sm.pq.GroupBy) > 0 {
		hit("inner-dims")
	}
	if sm.pq.Resolution > 0 {
		hit("inner-period")
	}
	if inner.Bounded {
		hit("inner-range")
	}
	if len(pq.GroupBy) > 0 && (len(sm.pq.GroupBy) == 0 || len(pq.GroupBy) < len(sm.pq.GroupBy)) {
		hit("coarser-dims")
	}
	if pq.Resolution > innerRes {
		hit("coarser-period")
	}
}

// checkFromSub compares the nested query's real result with the model and the spec over the
// materialised rows.
func (c *caseCtx) checkFromSub(f *fromSubCheck, modelNow string) error {
	ctx := c.ctx
	hit := func(k string) { ctx.Res.Hit("fromsub:" + k) }
	kase := map[string]interface{}{"engine": "query", "cfg": c.s.CfgJSON(), "ops": c.mops,
		"fromsub": map[string]interface{}{"sql": f.SQL, "inner": f.Inner.SQL, "mem": f.Inner.Mem}}
	if f.InnerErr != nil {
		hit("inner-error")
		if f.Err == nil {
			ctx.Res.Disagree(hk.Disagreement{Kind: "property", PropertyFails: true, Prop: "C08", Case: kase, Impl: f.Rows, Model: f.InnerErr.Error(),
				Detail: fmt.Sprintf("C08: the sub-query fails standalone (%v) but the nested query %q answers", f.InnerErr, f.SQL), Index: c.idx})
		}
		return nil
	}
	if modelNow == "zero" {
		// no point was accepted: the virtual clock has not started, windows lie around Go's zero
		// time where UnixNano() is not defined
		hit("skipped:clock-not-started")
		return nil
	}
	rows := []interface{}{}
	maxAbs := 1.0
	for _, r := range f.InnerRows {
		vals := map[string]interface{}{}
		for i, v := range r.Values {
			if math.IsNaN(v) || math.IsInf(v, 0) || math.Abs(v) > 1e100 {
				hit("skipped:non-finite-inner-value")
				return nil
			}
			if i < len(f.Names) {
				vals[f.Names[i]] = hk.RatOfFloat(v)
			}
			maxAbs = math.Max(maxAbs, math.Abs(v))
		}
		if len(r.Values) != len(f.Names) {
			ctx.Res.Disagree(hk.Disagreement{Kind: "model-vs-impl", Case: kase, Impl: r.Values, Model: f.Names,
				Detail: "inner query returns a row whose width is not its column count", Index: c.idx})
			return nil
		}
		rows = append(rows, map[string]interface{}{"ts": fmt.Sprint(r.TS), "key": dbk.KeyJSON(r.Key), "vals": vals})
	}
	req := map[string]interface{}{"engine": "subquery", "cfg": c.s.CfgJSON(), "now": modelNow, "inner": f.InnerMQ, "rows": rows, "outer": f.OuterMQ,
		"unflattenHaving": unflattenHaving}
	kase["request"] = req
	out, err := ctx.Model.Call(req)
	if err != nil {
		if strings.Contains(err.Error(), "unknown engine") {
			// a zmodel built before lean/Main.lean dispatches "subquery": the FROM-subquery is
			// run (and its inner query compared) but not compared itself
			hit("skipped:driver-lacks-subquery-engine")
			return nil
		}
		return err
	}
	var mo struct {
		InnerErr string `json:"innerErr"`
		Err      string `json:"err"`
		Src      *struct {
			Res   string `json:"res"`
			AsOf  string `json:"asOf"`
			Until string `json:"until"`
		} `json:"src"`
		Rows  []mrow          `json:"rows"`
		Spec  json.RawMessage `json:"spec"`
		Empty []string        `json:"emptyVals"`
	}
	if err := json.Unmarshal(out, &mo); err != nil {
		return err
	}
	if mo.InnerErr != "" {
		// reported by the table-query comparison of the inner query already
		hit("model-inner-error")
		return nil
	}
	if f.SrcOK && mo.Src != nil {
		got := fmt.Sprintf("res=%d asOf=%d until=%d", int64(f.SrcRes), f.SrcAsOf.UnixNano(), f.SrcUntil.UnixNano())
		want := fmt.Sprintf("res=%s asOf=%s until=%s", mo.Src.Res, mo.Src.AsOf, mo.Src.Until)
		if got != want {
			ctx.Res.Disagree(hk.Disagreement{Kind: "model-vs-impl", Case: kase, Impl: got, Model: want,
				Detail: "the window the sub-plan offers (GetResolution/GetAsOf/GetUntil) differs", Index: c.idx})
			return nil
		}
		hit("source-window-agrees")
	}
	if mo.Err != "" {
		if f.Err == nil {
			ctx.Res.Disagree(hk.Disagreement{Kind: "model-vs-impl", Case: kase, Impl: fmt.Sprintf("%d rows", len(f.Rows)), Model: mo.Err,
				Detail: "FROM-subquery: model reports a planning error, implementation answered", Index: c.idx})
		} else {
			hit("both-error:" + mo.Err)
		}
		return nil
	}
	if f.Err != nil {
		ctx.Res.Disagree(hk.Disagreement{Kind: "model-vs-impl", Case: kase, Impl: f.Err.Error(), Model: fmt.Sprintf("%d rows", len(mo.Rows)),
			Detail: "FROM-subquery: implementation reports an error, model answered", Index: c.idx})
		return nil
	}
	tols := []float64{}
	for _, it := range f.Items {
		t := tolFor(it.Node)
		if !f.Exact {
			t = 1e-9
		}
		tols = append(tols, t)
	}
	abs := 0.0
	if !f.Exact {
		abs = 1e-9 * maxAbs * float64(len(f.InnerRows)+1)
	}
	hit("compared")
	if len(f.Rows) > 0 {
		hit("outer-has-rows")
	}
	modelDiff := compareRowsAbs(f.Rows, mo.Rows, tols, abs)
	var spec []mrow
	if json.Unmarshal(mo.Spec, &spec) != nil {
		ctx.Res.Disagree(hk.Disagreement{Kind: "model-vs-impl", Case: kase, Impl: fmt.Sprintf("%d rows", len(f.Rows)), Model: string(mo.Spec),
			Detail: "FROM-subquery: the spec reports an error, model and implementation answered", Index: c.idx})
		return nil
	}
	d, emptyRows := compareWithSpecAbs(f.Rows, spec, tols, mo.Empty, abs)
	if d != "" && f.HavingUnselected && modelDiff == "" && !unflattenHaving {
		// the code path (HAVING helper sub-merged from the selected columns only) explains the result
		ctx.Res.KnownFinding("C08-fromsub-having-unselected")
		hit("having-unselected-differs")
		return nil
	}
	if modelDiff != "" {
		ctx.Res.Disagree(hk.Disagreement{Kind: "model-vs-impl", Case: kase, Impl: f.Rows, Model: mo.Rows,
			Detail: "FROM-subquery rows differ from the model over the materialised rows: " + modelDiff, Index: c.idx})
	}
	if d != "" {
		ctx.Res.Disagree(hk.Disagreement{Kind: "property", PropertyFails: true, Prop: "C08", Case: kase, Impl: f.Rows, Model: spec,
			Detail: fmt.Sprintf("C08: %q differs from its outer query evaluated over the materialised rows of %q: %s", f.SQL, f.Inner.SQL, d), Index: c.idx})
	}
	if emptyRows > 0 {
		ctx.Res.KnownFinding("empty-bucket-row")
		hit("empty-bucket-rows")
	}
	return nil
}
