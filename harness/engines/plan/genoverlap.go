package plan

import (
	"zvh/hk"
)

// genOverlap generates a case whose select list has fields that overlap by expression: one
// field's expression is a sub-expression or a wrapped form of another selected field
// (IF(c, f) with f; f + g with f; IF(c, f) + g with f and g; the same aggregate under two
// names; f through * and again by another name).  On the non-pushdown path the leader
// re-groups over the partitions' columns with pass-through fields, so every output column
// finds several input columns its sub-mergers could match; only the exact match may be merged.
// IF conditions are on a GROUP BY dimension (true or false on the leader's reduced key) or on
// a dimension that is not grouped by; GROUP BY and partition keys are chosen so that both
// plans (pushdown / pre-aggregation) occur.
func genOverlap(r *hk.Rng) (*Data, *Q, string) {
	d := &Data{}
	d.Fields = []TField{{Name: "_points", Kind: "SUM", Arg: "_point"}, {Name: "a", Kind: "SUM", Arg: "a"}, {Name: "b", Kind: "SUM", Arg: "b"}}
	d.PartBy = append([]string{}, hk.Pick(r, [][]string{{"x", "y"}, {"x"}, {"y"}, {"w"}})...)
	d.NumPart = r.Range(1, 5)
	xs := []interface{}{"a", "b", "cc"}
	ys := []interface{}{1, 2, 3}
	ws := []interface{}{"k", "l"}
	maxBack := r.Range(0, 2)
	nPts := r.Range(5, 16)
	for i := 0; i < nPts; i++ {
		dims := map[string]interface{}{"x": hk.Pick(r, xs), "y": hk.Pick(r, ys)}
		if r.Chance(4, 5) {
			dims["w"] = hk.Pick(r, ws)
		}
		d.Points = append(d.Points, Point{Dims: dims, Back: r.Range(0, maxBack),
			Vals: map[string]float64{"_point": 1, "a": float64(r.Range(1, 9)), "b": float64(r.Range(1, 9))}})
	}
	d.fix()

	q := &Q{Table: "t"}
	ref := func(n string) *FX { return &FX{Kind: "ref", Name: n} }
	cond := func(c string) int {
		for i, e := range q.Conds {
			if e == c {
				return i
			}
		}
		q.Conds = append(q.Conds, c)
		return len(q.Conds) - 1
	}
	// GROUP BY first: the IF conditions refer to it
	var gdims []string
	switch r.Intn(6) {
	case 0:
		gdims = []string{"x", "y"}
	case 1:
		gdims = []string{"x"}
	case 2, 3:
		gdims = []string{"y"}
	case 4:
		gdims = []string{"y", "w"}
	default: // no GROUP BY clause
	}
	for _, g := range gdims {
		q.GroupBy = append(q.GroupBy, GB{Kind: "dim", Name: g, Args: []string{g}})
	}
	conds := []string{"y = 1", "y > 1", "x = 'a'", "w <> 'k'", "x <> 'cc'"}
	ifOf := func(x *FX) *FX {
		return &FX{Kind: "if", Cond: cond(hk.Pick(r, conds)), Kids: []*FX{x}}
	}
	f := hk.Pick(r, []string{"a", "b", "_points"})
	g := "b"
	if f == "b" {
		g = "a"
	}
	class := ""
	switch r.Intn(8) {
	case 0, 1, 2:
		q.Fields = []Sel{{Name: f, X: ref(f)}, {Name: "f_if", X: ifOf(ref(f))}}
		class = "if-with-its-field"
	case 3:
		q.Fields = []Sel{{Name: "f_if", X: ifOf(ref(f))}, {Name: f, X: ref(f)}, {Name: g, X: ref(g)}}
		class = "if-before-its-field"
	case 4:
		q.Fields = []Sel{{Name: f, X: ref(f)}, {Name: "fg", X: &FX{Kind: "bin", Name: hk.Pick(r, []string{"+", "-", "*"}), Kids: []*FX{ref(f), ref(g)}}}}
		class = "binary-with-its-operand"
	case 5:
		q.Fields = []Sel{{Name: f, X: ref(f)}, {Name: g, X: ref(g)},
			{Name: "mix", X: &FX{Kind: "bin", Name: "+", Kids: []*FX{ifOf(ref(f)), ref(g)}}}, {Name: "f_if", X: ifOf(ref(f))}}
		class = "if-inside-binary-with-operands"
	case 6:
		agg := "SUM"
		arg := f
		if f == "_points" {
			arg = "_point"
		}
		q.Fields = []Sel{{Name: f, X: ref(f)}, {Name: "again", X: &FX{Kind: "agg", Name: agg, Kids: []*FX{ref(arg)}}}, {Name: "f_if", X: ifOf(ref(f))}}
		class = "same-aggregate-under-two-names"
	default:
		q.Fields = []Sel{{Star: true}, {Name: "again", X: ref(f)}, {Name: "f_if", X: ifOf(ref(f))}}
		class = "star-and-by-name"
	}
	if r.Chance(1, 4) {
		q.Period = 2
	}
	if r.Chance(1, 5) {
		q.Having = &FX{Kind: "bin", Name: ">", Kids: []*FX{ref(f), {Kind: "const", Const: float64(r.Range(0, 6))}}}
	}
	if r.Chance(1, 4) && len(gdims) > 0 {
		q.Order = []Ord{{Field: gdims[0]}, {Field: "_time"}}
	}
	return d, q, class
}
