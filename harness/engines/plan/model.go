package plan

import (
	"context"
	"encoding/json"
	"fmt"
	"math"
	"os"
	"sort"
	"strings"

	"github.com/getlantern/bytemap"
	"github.com/getlantern/goexpr"
	"github.com/getlantern/sqlparser"
	"github.com/getlantern/zenodb/core"
	"github.com/getlantern/zenodb/planner"
	"github.com/getlantern/zenodb/sql"

	"zvh/gen"
	"zvh/hk"
)

// ---------------------------------------------------------------- pushdown decision

func chainOf(sqlText string) []*sql.Query {
	q, err := sql.Parse(sqlText)
	if err != nil {
		return nil
	}
	var out []*sql.Query
	for cur := q; cur != nil; cur = cur.FromSubQuery {
		out = append(out, cur)
	}
	return out
}

func gbSummary(gbs []core.GroupBy) []interface{} {
	out := []interface{}{}
	for _, g := range gbs {
		one := map[string]bool{}
		g.Expr.WalkOneToOneParams(func(p string) { one[p] = true })
		params := []interface{}{}
		seen := map[string]bool{}
		g.Expr.WalkParams(func(p string) {
			if !seen[p] {
				seen[p] = true
				params = append(params, []interface{}{p, one[p]})
			}
		})
		// a param may be reported one-to-one without being walked by WalkParams (P(...)): add it
		for p := range one {
			if !seen[p] {
				params = append(params, []interface{}{p, true})
			}
		}
		out = append(out, map[string]interface{}{"name": g.Name, "params": params})
	}
	return out
}

func levelJSON(q *sql.Query) map[string]interface{} {
	return map[string]interface{}{
		"crosstab":     q.Crosstab != nil,
		"order_by":     len(q.OrderBy),
		"limit":        q.Limit,
		"offset":       q.Offset,
		"group_by_all": q.GroupByAll,
		"group_by":     gbSummary(q.GroupBy),
		"where_sub":    whereHasSubQuery(q),
	}
}

func whereHasSubQuery(q *sql.Query) bool {
	found := false
	if q.Where != nil {
		q.Where.WalkLists(func(l goexpr.List) {
			if _, ok := l.(*sql.SubQuery); ok {
				found = true
			}
		})
	}
	return found
}

// clusterLine finds the single "<- cluster [flat] <sql>" line of a formatted plan.
func clusterLine(plan string) (found bool, flat bool, sqlText string) {
	for _, l := range strings.Split(plan, "\n") {
		if i := strings.Index(l, "<- cluster flat "); i >= 0 {
			return true, true, l[i+len("<- cluster flat "):]
		}
		if i := strings.Index(l, "<- cluster "); i >= 0 {
			return true, false, l[i+len("<- cluster "):]
		}
	}
	return false, false, ""
}

func (e *run) model(req map[string]interface{}, out interface{}) error {
	raw, err := e.ctx.Model.Call(req)
	if err != nil {
		return err
	}
	return json.Unmarshal(raw, out)
}

func (e *run) disagree(kind string, caseJSON map[string]interface{}, impl, model interface{}, idx uint64) {
	if pat := os.Getenv("ZVH_PLAN_DUMP"); pat != "" && strings.Contains(kind, pat) {
		b, _ := json.Marshal(map[string]interface{}{"detail": kind, "case": caseJSON, "impl": impl, "model": model, "index": idx})
		fmt.Fprintf(os.Stderr, "MDUMP %s\n", b)
	}
	// The model is of the tree with the C11 fixes.  Where a fix has not been taken and its
	// defect is listed as a known finding instead, the model and the code differ on exactly
	// the cases of that shape.
	for _, id := range e.curShapes {
		if fixFallback[id] && e.known[id] {
			e.ctx.Res.KnownFinding(id)
			return
		}
	}
	e.ctx.Res.Disagree(hk.Disagreement{Kind: "model-vs-impl", Case: caseJSON, Impl: impl, Model: model, Detail: kind, Index: idx})
}

func (e *run) modelChecks(c Case, w *world, local, cluster Outcome, calls []clusterCall, caseJSON map[string]interface{}, idx uint64, propertyFailed bool) error {
	if e.ctx.Model == nil {
		return nil
	}
	chain := chainOf(c.SQL)
	if chain == nil || cluster.Err != "" {
		e.hit("model:skip-no-plan")
		return nil
	}
	found, flat, lineSQL := clusterLine(cluster.Plan)
	if !found {
		e.hit("model:skip-no-cluster-source")
		return nil
	}
	// which statement of the FROM chain was handed to the cluster: by its nesting depth
	lineChain := chainOf(lineSQL)
	if lineChain == nil {
		e.hit("model:skip-unparsable-plan-line")
		return nil
	}
	level := len(chain) - len(lineChain)
	if level < 0 {
		return fmt.Errorf("plan line deeper than the query: %s", lineSQL)
	}
	// ---- pushdown decisions of every statement planned for the cluster
	for i := 0; i <= level; i++ {
		levels := []interface{}{}
		for _, q := range chain[i:] {
			levels = append(levels, levelJSON(q))
		}
		req := map[string]interface{}{"engine": "plan", "op": "pushdown", "partition_by": nonNil(c.Data.PartBy), "table_group_by": c.Data.keptNames(), "chain": levels}
		var m struct {
			Allowed bool `json:"allowed"`
			Pre     bool `json:"allowed_pre_fix02"`
		}
		if err := e.model(req, &m); err != nil {
			return err
		}
		impl := i == level && flat
		e.hit(fmt.Sprintf("model:pushdown-decision:%v", impl))
		if m.Allowed != impl {
			d := "pushdown decision"
			if m.Pre == impl {
				d = "pushdown decision (implementation behaves like the pre-fix model: only the immediate FROM-subquery is inspected for ORDER BY/LIMIT/CROSSTAB)"
			}
			e.disagree(d, caseJSON, map[string]interface{}{"pushdown": impl, "level": i, "plan": cluster.Plan}, map[string]interface{}{"pushdown": m.Allowed, "request": req}, idx)
		}
	}
	// ---- the sub-query results shipped with every statement handed to the partitions
	if err := e.shippedCheck(c, w, calls, caseJSON, idx, propertyFailed); err != nil {
		return err
	}
	// ---- the IN-subqueries the leader resolves: decision and partition-side SQL of each
	used := make([]bool, len(calls))
	if err := e.subQueryTie(c, chain, level, calls, used, caseJSON, idx); err != nil {
		return err
	}
	e.leftoverSubQueryCalls(calls, used, caseJSON, idx)
	// ---- the partition-side SQL of the non-pushdown path
	if !flat {
		var main *clusterCall
		for i := range calls {
			if !calls[i].IsSubQuery && calls[i].Unflat {
				main = &calls[i]
			}
		}
		got := lineSQL
		if main != nil && main.SQL != lineSQL {
			e.disagree("the SQL in the plan differs from the SQL handed to QueryCluster", caseJSON, main.SQL, lineSQL, idx)
		}
		req, err := rewriteRequest(chain[level])
		if err != nil {
			e.hit("model:rewrite-skip:" + err.Error())
		} else {
			var m struct {
				SQL       string  `json:"sql"`
				Pre       *string `json:"pre_fix_sql"`
				Canonical string  `json:"canonical"`
			}
			if err := e.model(req, &m); err != nil {
				return err
			}
			e.hit("model:rewrite")
			if m.Canonical != chain[level].SQL {
				e.disagree("render of the parsed clauses differs from sqlparser's formatting", caseJSON, chain[level].SQL, m.Canonical, idx)
			}
			want := canonSQL(m.SQL)
			if want != got {
				d := "partition-side SQL"
				if m.Pre != nil && canonSQL(*m.Pre) == got {
					d = "partition-side SQL (implementation behaves like the pre-fix model: text surgery, defect D6)"
				}
				e.disagree(d, caseJSON, got, map[string]interface{}{"sql": m.SQL, "canonical": want, "pre_fix_sql": m.Pre}, idx)
			}
		}
	}
	// ---- rows: the spec evaluator against the local plan, the model's cluster plan against the cluster rows
	return e.evalCheck(c, w, local, cluster, flat, caseJSON, idx, propertyFailed)
}

func nonNil(s []string) []string {
	if s == nil {
		return []string{}
	}
	return s
}

// canonSQL normalises SQL text through the real parser (whitespace, case, "2s" → "2 as s").
func canonSQL(s string) string {
	q, err := sql.Parse(s)
	if err != nil {
		return "unparsable: " + s
	}
	return q.SQL
}

func trimPrefix(s, p string) string {
	return strings.TrimPrefix(s, p)
}

// rewriteRequest builds the model's view of one statement: the clause texts as
// sqlparser renders them plus what planClusterNonPushdown reads from sql.Query.
func rewriteRequest(q *sql.Query) (map[string]interface{}, error) {
	parsed, err := sqlparser.Parse(q.SQL)
	if err != nil {
		return nil, fmt.Errorf("reparse")
	}
	stmt, ok := parsed.(*sqlparser.Select)
	if !ok {
		return nil, fmt.Errorf("not-select")
	}
	if len(stmt.Comments) > 0 || stmt.Distinct != "" || stmt.Lock != "" {
		return nil, fmt.Errorf("decorations")
	}
	syn := map[string]interface{}{
		"sel":        sqlparser.String(stmt.SelectExprs),
		"from":       sqlparser.String(stmt.From),
		"time_range": sqlparser.String(stmt.TimeRange),
	}
	if stmt.TimeRange == nil {
		syn["time_range"] = ""
	}
	if stmt.Where != nil {
		syn["where"] = sqlparser.String(stmt.Where.Expr)
	}
	var crosstabArgs interface{}
	if len(stmt.GroupBy) > 0 {
		syn["group_by"] = sqlparser.String(stmt.GroupBy)
		for _, ge := range stmt.GroupBy {
			if nse, ok := ge.(*sqlparser.NonStarExpr); ok {
				if fn, ok := nse.Expr.(*sqlparser.FuncExpr); ok && strings.HasPrefix(strings.ToUpper(string(fn.Name)), "CROSSTAB") {
					crosstabArgs = sqlparser.String(fn.Exprs)
				}
			}
		}
	}
	if stmt.Having != nil {
		syn["having"] = sqlparser.String(stmt.Having.Expr)
	}
	if len(stmt.OrderBy) > 0 {
		syn["order_by"] = trimPrefix(sqlparser.String(stmt.OrderBy), " order by ")
	}
	if stmt.Limit != nil {
		syn["limit"] = trimPrefix(sqlparser.String(stmt.Limit), " limit ")
	}
	set := map[string]bool{}
	for _, g := range q.GroupBy {
		g.Expr.WalkParams(func(p string) { set[p] = true })
	}
	params := []string{}
	for p := range set {
		params = append(params, p)
	}
	sort.Strings(params)
	info := map[string]interface{}{
		"has_having":   q.HasHaving,
		"having_sql":   q.HavingSQL,
		"group_by_all": q.GroupByAll,
		"params":       params,
		"has_group_by": len(q.GroupBy) > 0,
		"period":       "",
		"stride":       "",
	}
	if q.Resolution != 0 {
		info["period"] = fmt.Sprintf("period(%v)", q.Resolution)
	}
	if q.Stride > 0 {
		info["stride"] = fmt.Sprintf("stride(%v)", q.Stride)
	}
	return map[string]interface{}{"engine": "plan", "op": "rewrite", "syn": syn, "info": info, "crosstab_args": crosstabArgs}, nil
}

// ---------------------------------------------------------------- rows

func dimValJSON(v interface{}) interface{} {
	switch t := v.(type) {
	case nil:
		return nil
	case string:
		return map[string]interface{}{"t": "str", "v": t}
	case int:
		return map[string]interface{}{"t": "int", "k": "int", "v": fmt.Sprint(t)}
	case int64:
		return map[string]interface{}{"t": "int", "k": "i64", "v": fmt.Sprint(t)}
	case bool:
		return map[string]interface{}{"t": "bool", "v": t}
	case float64:
		return map[string]interface{}{"t": "float", "k": "f64", "v": hk.RatOfFloat(t)}
	}
	return map[string]interface{}{"t": "other", "v": 0}
}

func keyJSON(dims map[string]interface{}) []interface{} {
	names := make([]string, 0, len(dims))
	for k := range dims {
		names = append(names, k)
	}
	sort.Strings(names)
	out := []interface{}{}
	for _, n := range names {
		out = append(out, []interface{}{n, dimValJSON(dims[n])})
	}
	return out
}

func hasConst(n *gen.Node) bool { return n.HasKind("const") && !onlyAvgConst(n) }

// onlyAvgConst: the CONST(1) weight of AVG is not an operand
func onlyAvgConst(n *gen.Node) bool {
	if n.Kind == "const" {
		return false
	}
	if n.Kind == "avg" {
		return !n.Kids[0].HasKind("const")
	}
	for _, k := range n.Kids {
		if k.HasKind("const") && !onlyAvgConst(k) {
			return false
		}
	}
	return true
}

// leafOK: every stateful leaf of the expression is the expression of a table field
func leafOK(n *gen.Node, fields []TField) bool {
	switch n.Kind {
	case "agg", "avg":
		kind, arg := n.Name, n.Kids[0].Name
		if n.Kind == "avg" {
			kind = "AVG"
		}
		for _, f := range fields {
			if f.Kind == kind && f.Arg == arg {
				return true
			}
		}
		return false
	}
	for _, k := range n.Kids {
		if !leafOK(k, fields) {
			return false
		}
	}
	return true
}

// resolveSubQueries runs the IN-subqueries of a WHERE with the local plan and sets their results
// (what planner.planSubQueries does).
func (w *world) resolveSubQueries(where goexpr.Expr) error {
	var sqs []*sql.SubQuery
	where.WalkLists(func(l goexpr.List) {
		if sq, ok := l.(*sql.SubQuery); ok {
			sqs = append(sqs, sq)
		}
	})
	for _, sq := range sqs {
		opts := w.localOpts(w.union, "union")
		opts.IsSubQuery = true
		plan, err := planner.Plan(sq.SQL, opts)
		if err != nil {
			return err
		}
		uniq := map[interface{}]bool{}
		_, err = plan.Iterate(context.Background(), core.FieldsIgnored, func(row *core.FlatRow) (bool, error) {
			// since /repo 4ea8e1b a sub-query row that lacks the dimension contributes no value
			if v := row.Key.Get(sq.Dim); v != nil {
				uniq[v] = true
			}
			return true, nil
		})
		if err != nil {
			return err
		}
		vals := make([]interface{}, 0, len(uniq))
		for v := range uniq {
			vals = append(vals, v)
		}
		sq.SetResult(vals)
	}
	return nil
}

type modelRow struct {
	TS     string          `json:"ts"`
	Key    [][]interface{} `json:"key"`
	Fields [][]string      `json:"fields"`
}

func modelDim(v interface{}) interface{} {
	m, ok := v.(map[string]interface{})
	if !ok {
		return nil
	}
	switch m["t"] {
	case "str":
		return m["v"]
	case "int":
		var i int
		fmt.Sscan(fmt.Sprint(m["v"]), &i)
		return i
	case "bool":
		return m["v"]
	}
	return fmt.Sprint(m)
}

// compareModelRows: model rows (exact rationals) against implementation rows, as multisets.
func compareModelRows(mrows []modelRow, rows []OutRow, fields []string, tol float64) string {
	if len(mrows) != len(rows) {
		return fmt.Sprintf("row count: model %d, implementation %d", len(mrows), len(rows))
	}
	used := make([]bool, len(rows))
	for _, mr := range mrows {
		dims := map[string]interface{}{}
		for _, kv := range mr.Key {
			dims[fmt.Sprint(kv[0])] = modelDim(kv[1])
		}
		ks := keyString(dims)
		var tsNs int64
		fmt.Sscan(mr.TS, &tsNs)
		back := (epoch.UnixNano() - tsNs) / int64(tableRes)
		ok := false
		for j, r := range rows {
			if used[j] || r.Key != ks || r.TS != back || len(r.Vals) != len(mr.Fields) {
				continue
			}
			same := true
			for i, f := range mr.Fields {
				if i >= len(fields) || f[0] != fields[i] || !hk.RatEqFloat(f[1], r.Vals[i], tol) {
					same = false
					break
				}
			}
			if same {
				used[j] = true
				ok = true
				break
			}
		}
		if !ok {
			return fmt.Sprintf("model row %v %s %v has no counterpart", ks, mr.TS, mr.Fields)
		}
	}
	return ""
}

func nonFinite(rows []OutRow) bool {
	for _, r := range rows {
		for _, v := range r.Vals {
			if math.IsNaN(v) || math.IsInf(v, 0) || math.Abs(v) > 1e300 {
				return true
			}
		}
	}
	return false
}

func (e *run) evalCheck(c Case, w *world, local, cluster Outcome, flat bool, caseJSON map[string]interface{}, idx uint64, propertyFailed bool) error {
	q := c.Query
	skip := func(why string) error {
		e.hit("model:eval-skip:" + why)
		return nil
	}
	if q == nil {
		return skip("hand-written-sql")
	}
	if q.Sub != nil {
		return skip("from-subquery")
	}
	if len(c.Data.TableGB) > 0 {
		return skip("table-with-its-own-group-by")
	}
	if q.AsOf != "" {
		return skip("asof-until")
	}
	if local.Err != "" {
		return skip("local-error")
	}
	parsed, err := sql.Parse(c.SQL)
	if err != nil {
		return skip("unparsable")
	}
	if parsed.GroupByAll && len(parsed.GroupBy) > 0 {
		return skip("wildcard-plus-dims")
	}
	// ---- fields
	known := map[string]*gen.Node{}
	for _, f := range c.Data.Fields {
		known[f.Name] = f.Node
	}
	var fields []interface{}
	var names []string
	seen := map[string]bool{}
	anyConst := false
	add := func(name string, n *gen.Node) {
		if seen[name] {
			return
		}
		seen[name] = true
		names = append(names, name)
		fields = append(fields, map[string]interface{}{"name": name, "e": n.JSON()})
		known[name] = n
		if hasConst(n) {
			anyConst = true
		}
	}
	for _, s := range q.Fields {
		if s.Star {
			for _, f := range c.Data.Fields {
				add(f.Name, f.Node)
			}
			continue
		}
		n := s.X.Resolve(known)
		if !leafOK(n, c.Data.Fields) {
			return skip("field-not-derivable-from-table")
		}
		add(s.Name, n)
	}
	var having interface{}
	if q.Having != nil {
		n := q.Having.Resolve(known)
		if !leafOK(n, c.Data.Fields) {
			return skip("having-not-derivable-from-table")
		}
		having = n.JSON()
		anyConst = anyConst || hasConst(n)
	}
	// ---- goexpr functions evaluated per point
	if parsed.Where != nil {
		if err := w.resolveSubQueries(parsed.Where); err != nil {
			return skip("in-subquery-error")
		}
	}
	var conds []goexpr.Expr
	for _, ct := range q.Conds {
		cq, err := sql.Parse("SELECT phcol FROM phtable WHERE " + ct)
		if err != nil || cq.Where == nil {
			return skip("if-condition-unparsable")
		}
		conds = append(conds, cq.Where)
	}
	resP := 1
	if parsed.Resolution > 0 {
		resP = int(parsed.Resolution / tableRes)
	}
	slice := resP
	if parsed.Stride > 0 {
		resP = int(parsed.Stride / tableRes)
	}
	rowJSON := func(p Point) (map[string]interface{}, string, int, bool) {
		key := bytemap.New(p.Dims)
		where := true
		if parsed.Where != nil {
			v := parsed.Where.Eval(key)
			b, ok := v.(bool)
			where = ok && b
		}
		cs := []int{}
		for i, ce := range conds {
			if b, ok := ce.Eval(key).(bool); ok && b {
				cs = append(cs, i)
			}
		}
		gb := []interface{}{}
		var gk strings.Builder
		for _, g := range parsed.GroupBy {
			v := g.Expr.Eval(key)
			gb = append(gb, dimValJSON(v))
			gk.WriteString(dimText(v) + "|")
		}
		if len(parsed.GroupBy) == 0 && parsed.Crosstab == nil {
			gk.WriteString(keyString(p.Dims))
		}
		ctab := ""
		if parsed.Crosstab != nil {
			ctab, _ = parsed.Crosstab.Eval(key).(string)
		}
		vals := [][]string{}
		vn := make([]string, 0, len(p.Vals))
		for k := range p.Vals {
			vn = append(vn, k)
		}
		sort.Strings(vn)
		for _, k := range vn {
			vals = append(vals, []string{k, hk.RatOfFloat(p.Vals[k])})
		}
		admitted := where && (parsed.Stride == 0 || p.Back%resP < slice)
		return map[string]interface{}{
			"key": keyJSON(p.Dims), "ts": fmt.Sprint(p.ts().UnixNano()), "vals": vals,
			"where": where, "conds": cs, "gb": gb, "ctab": ctab,
		}, gk.String(), (p.Back / resP) * resP, admitted
	}
	rows := []interface{}{}
	periods := map[string]map[int]bool{}
	var partRows [][]interface{}
	for i := 0; i < c.Data.NumPart; i++ {
		partRows = append(partRows, []interface{}{})
	}
	for _, p := range c.Data.Points {
		rj, gk, bucket, admitted := rowJSON(p)
		rows = append(rows, rj)
		part := partitionFor(bytemap.New(p.Dims), c.Data.PartBy, c.Data.NumPart)
		partRows[part] = append(partRows[part], rj)
		if admitted {
			if periods[gk] == nil {
				periods[gk] = map[int]bool{}
			}
			periods[gk][bucket] = true
		}
	}
	if parsed.Stride > 0 && (anyConst || parsed.Crosstab != nil) {
		// rows dropped by the stride slice still create (empty) groups in the real group operator:
		// they show up as all-zero rows under a constant operand and as crosstab columns
		return skip("stride-with-constant-operand-or-crosstab")
	}
	if anyConst {
		// flatten emits a row for every period between a group's first and last period when a
		// constant operand makes a column "found"; the spec evaluator has no such rows
		for _, ps := range periods {
			lo, hi := 1<<30, -1
			for b := range ps {
				if b < lo {
					lo = b
				}
				if b > hi {
					hi = b
				}
			}
			if (hi-lo)/resP+1 != len(ps) {
				return skip("constant-operand-with-period-gap")
			}
		}
	}
	query := map[string]interface{}{
		"fields": fields, "having": having, "by": gbSummary(parsed.GroupBy), "by_all": parsed.GroupByAll,
		"crosstab": parsed.Crosstab != nil, "crosstab_total": parsed.CrosstabIncludesTotal,
		"res": fmt.Sprint(int64(parsed.Resolution)), "stride": fmt.Sprint(int64(parsed.Stride)),
		"order_by": []interface{}{}, "limit": 0, "offset": 0,
	}
	src := map[string]interface{}{"res": fmt.Sprint(int64(tableRes)), "hi": fmt.Sprint(epoch.UnixNano())}
	tol := 0.0
	if usesQuotient(c.SQL, c.Data) {
		tol = 1e-9
	}
	limited := q.Limit > 0 || q.Offset > 0
	// ---- local plan
	ref := local
	if limited {
		ref = w.execLocal(q.noLimit().SQL())
		if ref.Err != "" {
			return skip("local-error")
		}
	}
	if nonFinite(ref.Rows) || nonFinite(cluster.Rows) {
		// division by a zero sum: float64 overflow / Inf is outside the Rat model
		return skip("non-finite-value")
	}
	var m struct {
		Rows     []modelRow `json:"rows"`
		Pushdown bool       `json:"pushdown"`
	}
	req := map[string]interface{}{"engine": "plan", "op": "eval", "query": query, "src": src, "rows": rows}
	if err := e.model(req, &m); err != nil {
		return err
	}
	e.hit("model:eval")
	if len(m.Rows) > 0 {
		e.hit("model:eval-with-rows")
	}
	if d := compareModelRows(m.Rows, ref.Rows, ref.Fields, tol); d != "" {
		e.disagree("rows of the local plan vs the spec evaluator", caseJSON, map[string]interface{}{"local": ref},
			map[string]interface{}{"rows": m.Rows, "detail": d, "request": req}, idx)
		return nil
	}
	// ---- the model's cluster plan against the implementation's cluster rows
	if limited || cluster.Err != "" || propertyFailed {
		// (a property failure is reported by the oracle; the model's cluster plan is the fixed one)
		return nil
	}
	parts := []interface{}{}
	for _, pr := range partRows {
		parts = append(parts, pr)
	}
	m.Rows = nil
	req = map[string]interface{}{"engine": "plan", "op": "cluster", "query": query, "src": src,
		"partition_by": nonNil(c.Data.PartBy), "parts": parts}
	if err := e.model(req, &m); err != nil {
		return err
	}
	e.hit("model:cluster")
	if m.Pushdown != flat {
		return nil // already reported by the decision check
	}
	if d := compareModelRows(m.Rows, cluster.Rows, cluster.Fields, tol); d != "" {
		e.disagree("rows of the cluster plan vs the model's cluster plan", caseJSON, map[string]interface{}{"cluster": cluster},
			map[string]interface{}{"rows": m.Rows, "detail": d}, idx)
	}
	return nil
}

// keptNames renders the table's GROUP BY for the model's partitionKeysKept: per dimension its
// name when goexpr reports the param of that same name as a one-to-one param of the
// expression (the "param == name" rule of planner.partitionKeysKept), else a placeholder that
// no partition key can equal.  Empty = GROUP BY *.
func (d *Data) keptNames() []string {
	out := []string{}
	for _, g := range d.tableGroupBy() {
		kept := false
		g.Expr.WalkOneToOneParams(func(p string) {
			if p == g.Name {
				kept = true
			}
		})
		if kept {
			out = append(out, g.Name)
		} else {
			out = append(out, "#"+g.Name)
		}
	}
	return out
}
