package plan

import (
	"fmt"
	"sort"
	"strings"

	"github.com/getlantern/goexpr"
	"github.com/getlantern/zenodb/sql"

	"zvh/hk"
)

// IN-subqueries.  planner.planSubQueries plans every IN-subquery of a WHERE with
// planner.Plan and Opts.IsSubQuery = true; with QueryCluster set the sub-query is a
// statement planned for the cluster like any other (pushed down whole or pre-aggregated),
// and the distinct values of its dimension become the IN list of the enclosing statement.

func whereSubQueries(q *sql.Query) []*sql.SubQuery {
	var out []*sql.SubQuery
	if q.Where != nil {
		q.Where.WalkLists(func(l goexpr.List) {
			if sq, ok := l.(*sql.SubQuery); ok {
				out = append(out, sq)
			}
		})
	}
	return out
}

// allSubQueries lists every IN-subquery of the query text, at every FROM level and nested.
func allSubQueries(sqlText string) []*sql.SubQuery {
	var out []*sql.SubQuery
	for _, q := range chainOf(sqlText) {
		for _, sq := range whereSubQueries(q) {
			out = append(out, sq)
			out = append(out, allSubQueries(sq.SQL)...)
		}
	}
	return out
}

func inListOf(o Outcome, dim string) []string {
	seen := map[string]bool{}
	for _, r := range o.Rows {
		// since /repo 4ea8e1b a sub-query row that lacks the dimension contributes no value
		if v, ok := r.Dims[dim]; ok && v != nil {
			seen[dimText(v)] = true
		}
	}
	out := make([]string, 0, len(seen))
	for k := range seen {
		out = append(out, k)
	}
	sort.Strings(out)
	return out
}

// inListOracle is the property oracle applied to every IN-subquery as a statement of its
// own: planned as planSubQueries plans it (IsSubQuery), the cluster plan must yield the IN
// list of the local plan.  Implementation only.
func (e *run) inListOracle(c Case, w *world, caseJSON map[string]interface{}, idx uint64) bool {
	failed := false
	seen := map[string]bool{}
	for _, sq := range allSubQueries(c.SQL) {
		if seen[sq.SQL+"|"+sq.Dim] {
			continue
		}
		seen[sq.SQL+"|"+sq.Dim] = true
		e.hit("in-subquery:oracle")
		local := w.execLocalAs(sq.SQL, true)
		cluster, calls, _ := w.execClusterAs(sq.SQL, true)
		detail := ""
		if (local.Err == "") != (cluster.Err == "") {
			detail = fmt.Sprintf("IN-subquery: local plan: %s, cluster plan: %s", orNone(local.Err), orNone(cluster.Err))
		} else if local.Err == "" {
			l, cl := inListOf(local, sq.Dim), inListOf(cluster, sq.Dim)
			if strings.Join(l, ",") != strings.Join(cl, ",") {
				detail = "IN list of a sub-query differs between cluster plan and local plan"
			}
			if len(l) > 0 {
				e.hit("in-subquery:oracle-nonempty-list")
			}
		}
		if detail == "" {
			continue
		}
		failed = true
		d := hk.Disagreement{Kind: "property", Case: caseJSON,
			Impl:   map[string]interface{}{"sub_query": sq.SQL, "dim": sq.Dim, "cluster": cluster, "partition_side": calls},
			Model:  map[string]interface{}{"local": local},
			Detail: detail, PropertyFails: true, Index: idx}
		for _, id := range e.curShapes {
			if e.known[id] {
				d.Finding = id
				break
			}
		}
		if len(e.curShapes) > 0 {
			d.Detail = "[" + strings.Join(e.curShapes, ",") + "] " + classify(detail)
		}
		e.ctx.Res.Disagree(d)
	}
	return failed
}

// ---------------------------------------------------------------- model tie

func (e *run) modelAllowed(chain []*sql.Query, partBy []string) (bool, map[string]interface{}, error) {
	levels := []interface{}{}
	for _, q := range chain {
		levels = append(levels, levelJSON(q))
	}
	req := map[string]interface{}{"engine": "plan", "op": "pushdown", "partition_by": nonNil(partBy), "table_group_by": e.curTableGB, "chain": levels}
	var m struct {
		Allowed bool `json:"allowed"`
	}
	err := e.model(req, &m)
	return m.Allowed, req, err
}

// subQueryTie compares, for every IN-subquery the leader resolves (the sub-queries of the
// WHERE clauses of chain[0..level], recursively), the QueryCluster call the implementation
// made with the model: a sub-query handed over whole (flat) must be allowed by the model's
// pushdownAllowed for the sub-query's own tree — the planner applies the same decision to an
// IN-subquery as to any statement; IsSubQuery only replaces the fields —, a rewritten one
// must carry the model's partition-side SQL.  A sub-query that is NOT pushed down although
// the model would allow it is correct (the non-pushdown plan is right for every query:
// nonpushdown_equiv) and only counted.
func (e *run) subQueryTie(c Case, chain []*sql.Query, level int, calls []clusterCall, used []bool, caseJSON map[string]interface{}, idx uint64) error {
	for i := 0; i <= level && i < len(chain); i++ {
		for _, sq := range whereSubQueries(chain[i]) {
			sc := chainOf(sq.SQL)
			if sc == nil {
				continue
			}
			// the model's plan for the sub-query
			mLevel, mFlat := len(sc)-1, false
			for j := range sc {
				ok, _, err := e.modelAllowed(sc[j:], c.Data.PartBy)
				if err != nil {
					return err
				}
				if ok {
					mLevel, mFlat = j, true
					break
				}
			}
			wantSQL := sc[mLevel].SQL
			rewritten := ""
			if req, err := rewriteRequest(sc[len(sc)-1]); err == nil {
				var m struct {
					SQL string `json:"sql"`
				}
				if err := e.model(req, &m); err != nil {
					return err
				}
				rewritten = canonSQL(m.SQL)
			}
			if !mFlat {
				wantSQL = rewritten
			}
			find := func(unflat bool, sqlText string) int {
				for k, cl := range calls {
					if !used[k] && cl.IsSubQuery && cl.Unflat == unflat && cl.SQL == sqlText {
						return k
					}
				}
				return -1
			}
			implLevel := -1
			if k := find(!mFlat, wantSQL); k >= 0 {
				used[k] = true
				implLevel = mLevel
				e.hit(fmt.Sprintf("model:in-subquery-decision:pushdown=%v", mFlat))
			} else {
				// pushed down at another level?
				for j := range sc {
					if k := find(false, sc[j].SQL); k >= 0 {
						used[k] = true
						implLevel = j
						ok, req, err := e.modelAllowed(sc[j:], c.Data.PartBy)
						if err != nil {
							return err
						}
						if !ok {
							e.disagree("pushdown decision of an IN-subquery: handed to the partitions whole although the model's pushdownAllowed refuses (its groups are not confined to one partition)",
								caseJSON, map[string]interface{}{"sub_query": sq.SQL, "pushdown": true, "level": j, "calls": calls},
								map[string]interface{}{"pushdown": false, "request": req}, idx)
						} else {
							e.hit("model:in-subquery-pushed-down-at-lower-level")
						}
						break
					}
				}
				if implLevel < 0 && rewritten != "" {
					if k := find(true, rewritten); k >= 0 {
						used[k] = true
						implLevel = len(sc) - 1
						e.hit("model:in-subquery-not-pushed-down-though-allowed(harmless)")
					}
				}
			}
			if implLevel < 0 {
				e.hit("model:in-subquery-no-call(not executed or unmatched)")
				continue
			}
			// the sub-query's own IN-subqueries
			if err := e.subQueryTie(c, sc, implLevel, calls, used, caseJSON, idx); err != nil {
				return err
			}
		}
	}
	return nil
}

// leftoverSubQueryCalls: every QueryCluster call with isSubQuery set must be the plan of
// one of the query's IN-subqueries in one of the two forms above.
func (e *run) leftoverSubQueryCalls(calls []clusterCall, used []bool, caseJSON map[string]interface{}, idx uint64) {
	for k, cl := range calls {
		if cl.IsSubQuery && !used[k] {
			e.disagree("partition-side SQL of an IN-subquery: QueryCluster received a statement that is neither a whole sub-query nor the model's rewrite of one",
				caseJSON, map[string]interface{}{"call": cl, "calls": calls}, nil, idx)
			return
		}
	}
}

// ---------------------------------------------------------------- shipped results

// shippedCheck checks the sub-query protocol between leader and partitions on every
// QueryCluster call: the statement must come with exactly one result list per IN-subquery of
// its WHERE (query.WhereSubQueries order), each equal to the IN list of that sub-query (the
// local plan's: what the leader has to resolve), and no partition may run more than one table
// scan for it (a second scan is a partition planning and running an IN-subquery itself,
// against its own rows).  Compared with the model's `partitionLists` contract (op "shipped").
func (e *run) shippedCheck(c Case, w *world, calls []clusterCall, caseJSON map[string]interface{}, idx uint64, propertyFailed bool) error {
	cache := map[string][]string{}
	for _, cl := range calls {
		stmt, err := sql.Parse(cl.SQL)
		if err != nil {
			continue
		}
		subs := stmt.WhereSubQueries
		for _, n := range cl.PartScans {
			if n > 1 {
				e.hit("shipped:partition-ran-sub-queries-itself")
				if !propertyFailed {
					e.disagree("sub-query protocol: a partition ran more than one table scan for the statement it was sent (it planned and ran IN-subqueries on its own rows instead of using shipped results)",
						caseJSON, map[string]interface{}{"call": cl}, map[string]interface{}{"partition_table_scans": 1}, idx)
				}
				break
			}
		}
		if len(subs) == 0 {
			continue
		}
		e.hit(fmt.Sprintf("shipped:statement-with-%d-in-subqueries", len(subs)))
		leader := [][]string{}
		ok := true
		for _, sq := range subs {
			k := sq.SQL + "|" + sq.Dim
			l, have := cache[k]
			if !have {
				o := w.execLocalAs(sq.SQL, true)
				if o.Err != "" {
					ok = false
					break
				}
				l = inListOf(o, sq.Dim)
				cache[k] = l
			}
			leader = append(leader, l)
		}
		if !ok {
			e.hit("shipped:skip-sub-query-error")
			continue
		}
		var shipped interface{}
		if cl.Shipped {
			shipped = cl.Results
		}
		req := map[string]interface{}{"engine": "plan", "op": "shipped", "slots": len(subs), "shipped": shipped, "leader": leader}
		if e.ctx.Model == nil {
			continue
		}
		var m struct {
			Accepted   bool `json:"accepted"`
			Positional bool `json:"positional"`
		}
		if err := e.model(req, &m); err != nil {
			return err
		}
		e.hit("shipped:checked")
		if propertyFailed {
			continue // the row oracle has the failing input; the IN lists themselves may be wrong
		}
		if !m.Accepted {
			e.disagree(fmt.Sprintf("sub-query protocol: %d result list(s) shipped for a statement with %d IN-subqueries (the partitions fall back to their own data)", len(cl.Results), len(subs)),
				caseJSON, map[string]interface{}{"call": cl}, map[string]interface{}{"request": req}, idx)
		} else if !m.Positional {
			e.disagree("sub-query protocol: a shipped result list is not the IN list of the sub-query at its position",
				caseJSON, map[string]interface{}{"call": cl}, map[string]interface{}{"request": req}, idx)
		}
	}
	return nil
}
