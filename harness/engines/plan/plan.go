// Package plan is the correspondence engine for C11 (the distributed query plan is
// equivalent to the local plan).  Translation validation per generated query: the
// generated SQL is planned with planner.Plan twice — once with Opts.QueryCluster set
// to a function that executes the partition-side SQL with planner.Plan on each of N
// per-partition mock tables (split by the real murmur3 partition rule) and once
// locally on the union — and the flat rows are compared (property oracle).  The
// pushdown decision (FormatSource: "cluster flat" vs "cluster"), the partition-side
// SQL captured inside the QueryCluster function and the local rows are compared with
// the Lean model (driver engine "plan": ops pushdown, rewrite, eval).
package plan

import (
	"encoding/json"
	"fmt"
	"math"
	"os"
	"path/filepath"
	"sort"
	"strings"

	"zvh/hk"
)

type Engine struct{}

// Case is the self-contained, replayable form of a case.
type Case struct {
	Comment string `json:"comment,omitempty"`
	SQL     string `json:"sql"`             // what is executed
	Query   *Q     `json:"query,omitempty"` // generator AST (nil for hand-written SQL: model eval is skipped)
	Data    *Data  `json:"data"`
}

type run struct {
	ctx        *hk.RunCtx
	known      map[string]bool
	curShapes  []string // known-finding shapes of the case being run
	curTableGB []string // Data.keptNames() of the case being run
}

func (e *run) hit(k string) { e.ctx.Res.Hit(k) }

func loadKnown() map[string]bool {
	out := map[string]bool{}
	p := os.Getenv("ZV_KNOWN")
	if p == "" {
		return out
	}
	b, err := os.ReadFile(p)
	if err != nil {
		return out
	}
	var kf struct {
		Known []map[string]interface{} `json:"known"`
	}
	if json.Unmarshal(b, &kf) == nil {
		for _, k := range kf.Known {
			id, _ := k["id"].(string)
			// "property" is one id or a list of ids
			match := false
			switch p := k["property"].(type) {
			case string:
				match = p == "C11"
			case []interface{}:
				for _, x := range p {
					if x == "C11" {
						match = true
					}
				}
			}
			if match && id != "" {
				out[id] = true
			}
		}
	}
	return out
}

func (Engine) Run(ctx *hk.RunCtx) error {
	e := &run{ctx: ctx, known: loadKnown()}
	ctx.Res.Rule = "case = generated SQL (fields, derived fields, WHERE with keyword-bearing literals and IN-subqueries, GROUP BY dims/expressions/period/stride, CROSSTAB, HAVING, ORDER BY, LIMIT, FROM-subqueries) x table content x partition keys x N in 1..6; distinct by hash of (SQL, data, partition keys, N); non-trivial = the local plan returns at least one row and the query is planned for the cluster (a QueryCluster call is made) with N >= 2"
	if ctx.Replay != "" {
		return e.replayFile(ctx.Replay, 0)
	}
	if ctx.Corpus != "" {
		files, _ := filepath.Glob(filepath.Join(ctx.Corpus, "*.json"))
		sort.Strings(files)
		for i, f := range files {
			e.hit("corpus")
			if err := e.replayFile(f, uint64(1<<40)+uint64(i)); err != nil {
				return fmt.Errorf("corpus %s: %v", f, err)
			}
		}
	}
	for i := ctx.From; i < ctx.From+ctx.N; i++ {
		r := hk.Derive(ctx.Seed, uint64(i))
		var data *Data
		var q *Q
		if c := r.Intn(24); c < 3 {
			data, q = genBoundary(r)
			e.hit("class:pushdown-boundary")
		} else if c < 7 {
			var cl string
			data, q, cl = genInBoundary(r)
			e.hit("class:in-subquery-boundary")
			e.hit("in-subquery-boundary:" + cl)
		} else if c < 10 {
			var cl string
			data, q, cl = genOverlap(r)
			e.hit("class:overlapping-select-expressions")
			e.hit("overlap:" + cl)
		} else if c < 12 {
			var cl string
			data, q, cl = genTableGB(r)
			e.hit("class:table-group-by")
			e.hit("table-group-by:" + cl)
		} else {
			data = genData(r)
			q = genQuery(r, data)
			e.hit("class:general")
		}
		c := Case{SQL: q.SQL(), Query: q, Data: data}
		if err := e.runCase(c, uint64(i)); err != nil {
			return err
		}
	}
	return nil
}

func (e *run) replayFile(path string, idx uint64) error {
	b, err := os.ReadFile(path)
	if err != nil {
		return err
	}
	var top map[string]json.RawMessage
	if err := json.Unmarshal(b, &top); err != nil {
		return err
	}
	raw := json.RawMessage(b)
	if c, ok := top["case"]; ok {
		raw = c
	}
	var c Case
	if err := json.Unmarshal(raw, &c); err != nil {
		return err
	}
	if c.Data == nil {
		return fmt.Errorf("case without data")
	}
	c.Data.fix()
	if c.Query != nil && c.SQL == "" {
		c.SQL = c.Query.SQL()
	}
	return e.runCase(c, idx)
}

// ---------------------------------------------------------------- comparison

// usesQuotient: values that are quotients (DIV, AVG) are compared with a relative tolerance.
func usesQuotient(sqlText string, d *Data) bool {
	l := strings.ToLower(sqlText)
	if strings.Contains(l, "/") || strings.Contains(l, "avg(") {
		return true
	}
	for _, f := range d.Fields {
		if f.Kind == "AVG" {
			return true
		}
	}
	return false
}

func floatEq(a, b float64, tol float64) bool {
	if a == b || (math.IsNaN(a) && math.IsNaN(b)) {
		return true
	}
	if tol == 0 || math.IsNaN(a) || math.IsNaN(b) || math.IsInf(a, 0) || math.IsInf(b, 0) {
		return false
	}
	d := math.Abs(a - b)
	m := math.Max(math.Abs(a), math.Abs(b))
	return d <= tol*m
}

func rowLess(a, b OutRow) bool {
	if a.Key != b.Key {
		return a.Key < b.Key
	}
	if a.TS != b.TS {
		return a.TS < b.TS
	}
	for i := range a.Vals {
		if i < len(b.Vals) && a.Vals[i] != b.Vals[i] {
			return a.Vals[i] < b.Vals[i]
		}
	}
	return false
}

func sortedRows(rows []OutRow) []OutRow {
	out := append([]OutRow{}, rows...)
	sort.SliceStable(out, func(i, j int) bool { return rowLess(out[i], out[j]) })
	return out
}

func rowEq(a, b OutRow, tol float64) bool {
	if a.Key != b.Key || a.TS != b.TS || len(a.Vals) != len(b.Vals) {
		return false
	}
	for i := range a.Vals {
		if !floatEq(a.Vals[i], b.Vals[i], tol) {
			return false
		}
	}
	return true
}

func multisetEq(a, b []OutRow, tol float64) bool {
	if len(a) != len(b) {
		return false
	}
	sa, sb := sortedRows(a), sortedRows(b)
	for i := range sa {
		if !rowEq(sa[i], sb[i], tol) {
			// sorting with inexact values may misalign: fall back to matching
			return matchRows(a, b, tol)
		}
	}
	return true
}

func matchRows(a, b []OutRow, tol float64) bool {
	used := make([]bool, len(b))
outer:
	for _, ra := range a {
		for j, rb := range b {
			if !used[j] && rowEq(ra, rb, tol) {
				used[j] = true
				continue outer
			}
		}
		return false
	}
	return true
}

func subMultiset(a, b []OutRow, tol float64) bool {
	used := make([]bool, len(b))
outer:
	for _, ra := range a {
		for j, rb := range b {
			if !used[j] && rowEq(ra, rb, tol) {
				used[j] = true
				continue outer
			}
		}
		return false
	}
	return true
}

// orderKey renders the ORDER BY key tuple of a row.
func orderKey(order []Ord, fields []string, r OutRow) string {
	var sb strings.Builder
	for _, o := range order {
		f := strings.ToLower(o.Field)
		if f == "_time" {
			sb.WriteString(fmt.Sprintf("t:%d|", r.TS))
			continue
		}
		found := false
		for i, n := range fields {
			if n == f && i < len(r.Vals) {
				v := r.Vals[i]
				if v == 0 {
					v = 0 // -0 and +0 tie in core.compare
				}
				sb.WriteString(fmt.Sprintf("v:%v|", v))
				found = true
				break
			}
		}
		if !found {
			sb.WriteString(dimText(r.Dims[f]) + "|")
		}
	}
	return sb.String()
}

func orderKeys(order []Ord, fields []string, rows []OutRow) []string {
	out := make([]string, len(rows))
	for i, r := range rows {
		out[i] = orderKey(order, fields, r)
	}
	return out
}

func errClass(s string) string {
	if s == "" {
		return "none"
	}
	if strings.HasPrefix(s, "panic") {
		return "panic"
	}
	if strings.HasPrefix(s, "plan") {
		return "plan"
	}
	return "run"
}

// compareOutcomes is the property oracle: cluster-plan rows vs local-plan rows.
// localFull is the local result without the outermost LIMIT/OFFSET (nil if the
// query has none).
func compareOutcomes(order []Ord, limited bool, local, cluster Outcome, localFull *Outcome, tol float64) string {
	if local.Err != "" || cluster.Err != "" {
		if (local.Err == "") != (cluster.Err == "") {
			return fmt.Sprintf("local plan: %s, cluster plan: %s", orNone(local.Err), orNone(cluster.Err))
		}
		return ""
	}
	if strings.Join(local.Fields, ",") != strings.Join(cluster.Fields, ",") {
		return fmt.Sprintf("fields differ: local %v, cluster %v", local.Fields, cluster.Fields)
	}
	if len(local.Rows) != len(cluster.Rows) {
		return fmt.Sprintf("row count differs: local %d, cluster %d", len(local.Rows), len(cluster.Rows))
	}
	if len(order) > 0 {
		lk, ck := orderKeys(order, local.Fields, local.Rows), orderKeys(order, cluster.Fields, cluster.Rows)
		if tol == 0 {
			for i := range lk {
				if lk[i] != ck[i] {
					return fmt.Sprintf("ORDER BY key sequence differs at row %d: local %s, cluster %s", i, lk[i], ck[i])
				}
			}
		}
	}
	if !limited {
		if !multisetEq(local.Rows, cluster.Rows, tol) {
			return "row multisets differ"
		}
		return ""
	}
	// LIMIT/OFFSET: which of several tied (or unordered) rows are returned is not
	// determined; every returned row must be a row of the unlimited result, and when
	// the order is total the sequences must coincide.
	if localFull != nil && localFull.Err == "" {
		if !subMultiset(cluster.Rows, localFull.Rows, tol) {
			return "cluster plan returns a row that is not in the unlimited local result"
		}
		if len(order) > 0 {
			fk := orderKeys(order, localFull.Fields, localFull.Rows)
			seen := map[string]bool{}
			total := true
			for _, k := range fk {
				if seen[k] {
					total = false
				}
				seen[k] = true
			}
			if total {
				for i := range local.Rows {
					if !rowEq(local.Rows[i], cluster.Rows[i], tol) {
						return fmt.Sprintf("ORDER BY is total but row %d differs", i)
					}
				}
			}
		}
	}
	return ""
}

func orNone(s string) string {
	if s == "" {
		return "ok"
	}
	return s
}

// ---------------------------------------------------------------- one case

func (e *run) runCase(c Case, idx uint64) error {
	w := newWorld(c.Data)
	local := w.execLocal(c.SQL)
	cluster, calls, fieldMismatch := w.execCluster(c.SQL)

	canon := map[string]interface{}{"sql": c.SQL, "data": c.Data}
	nontrivial := local.Err == "" && len(local.Rows) > 0 && len(calls) > 0 && c.Data.NumPart >= 2
	e.ctx.Res.Count(canon, nontrivial)
	caseJSON := map[string]interface{}{"sql": c.SQL, "query": c.Query, "data": c.Data}

	e.histogram(c, local, cluster, calls)
	if fieldMismatch {
		e.hit("partitions-report-different-fields")
	}

	e.curShapes = e.matchShapes(c, w, local, cluster, calls)
	e.curTableGB = c.Data.keptNames()
	var order []Ord
	limited := false
	var localFull *Outcome
	if c.Query != nil {
		order = c.Query.Order
		limited = c.Query.Limit > 0 || c.Query.Offset > 0
		if limited {
			lf := w.execLocal(c.Query.noLimit().SQL())
			localFull = &lf
		}
	} else {
		order, limited = sniffOrderLimit(c.SQL)
	}
	tol := 0.0
	if usesQuotient(c.SQL, c.Data) {
		tol = 1e-9
	}
	detail := compareOutcomes(order, limited, local, cluster, localFull, tol)
	if detail != "" {
		d := hk.Disagreement{Kind: "property", Case: caseJSON,
			Impl:   map[string]interface{}{"cluster": cluster, "partition_side": calls},
			Model:  map[string]interface{}{"local": local},
			Detail: detail, PropertyFails: true, Index: idx}
		shapes := e.curShapes
		for _, id := range shapes {
			e.hit("known-finding-shape:" + id)
		}
		for _, id := range shapes {
			if e.known[id] {
				d.Finding = id
				break
			}
		}
		if len(shapes) > 0 {
			detail = "[" + strings.Join(shapes, ",") + "] " + detail
		}
		d.Detail = classify(detail)
		if pat := os.Getenv("ZVH_PLAN_DUMP"); pat != "" && strings.Contains(d.Detail, pat) {
			b, _ := json.Marshal(d)
			fmt.Fprintf(os.Stderr, "DUMP %s\n", b)
		}
		e.ctx.Res.Disagree(d)
	}

	subFailed := e.inListOracle(c, w, caseJSON, idx)
	return e.modelChecks(c, w, local, cluster, calls, caseJSON, idx, detail != "" || subFailed)
}

// classify shortens a detail to a stable class (Result.ByDetail keys).
func classify(d string) string {
	if strings.HasPrefix(d, "[") {
		i := strings.Index(d, "] ")
		return d[:i+2] + classify(d[i+2:])
	}
	for _, p := range []string{"row count differs", "row multisets differ", "fields differ", "ORDER BY key sequence differs", "ORDER BY is total", "cluster plan returns a row"} {
		if strings.HasPrefix(d, p) {
			return p
		}
	}
	if strings.HasPrefix(d, "local plan:") {
		if strings.Contains(d, "cluster plan: ok") {
			return "local plan fails, cluster plan succeeds"
		}
		if strings.HasPrefix(d, "local plan: ok") {
			i := strings.Index(d, "cluster plan: ")
			s := d[i+len("cluster plan: "):]
			if len(s) > 60 {
				s = s[:60]
			}
			return "cluster plan fails where the local plan succeeds: " + s
		}
	}
	return d
}

// sniffOrderLimit handles hand-written SQL (corpus): ORDER BY/LIMIT of the outer statement.
func sniffOrderLimit(sqlText string) ([]Ord, bool) {
	l := strings.ToLower(sqlText)
	depth, last := 0, -1
	for i := 0; i < len(l); i++ {
		switch l[i] {
		case '(':
			depth++
		case ')':
			depth--
		}
		if depth == 0 && strings.HasPrefix(l[i:], " order by ") {
			last = i
		}
	}
	limited := false
	if i := strings.LastIndex(l, " limit "); i >= 0 && !strings.Contains(l[i:], ")") {
		limited = true
	}
	var order []Ord
	if last >= 0 {
		rest := sqlText[last+len(" order by "):]
		if i := strings.Index(strings.ToLower(rest), " limit "); i >= 0 {
			rest = rest[:i]
		}
		for _, p := range strings.Split(rest, ",") {
			f := strings.Fields(p)
			if len(f) == 0 {
				continue
			}
			order = append(order, Ord{Field: f[0], Desc: len(f) > 1 && strings.EqualFold(f[1], "desc")})
		}
	}
	return order, limited
}

func (e *run) histogram(c Case, local, cluster Outcome, calls []clusterCall) {
	e.hit(fmt.Sprintf("partitions:%d", c.Data.NumPart))
	e.hit(fmt.Sprintf("partition-keys:%d", len(c.Data.PartBy)))
	switch {
	case cluster.Err != "":
		e.hit("cluster:error:" + errClass(cluster.Err))
	case strings.HasPrefix(cluster.Plan, "<- cluster flat") || strings.Contains(firstClusterLine(cluster.Plan), "cluster flat"):
		e.hit("cluster:pushdown")
	case strings.Contains(cluster.Plan, "<- cluster flat"):
		e.hit("cluster:subquery-pushdown-leader-outer")
	case strings.Contains(cluster.Plan, "<- cluster "):
		e.hit("cluster:non-pushdown")
	default:
		e.hit("cluster:none")
	}
	if local.Err != "" {
		e.hit("local:error:" + errClass(local.Err))
	} else if len(local.Rows) == 0 {
		e.hit("local:no-rows")
	} else {
		e.hit("local:rows")
	}
	if q := c.Query; q != nil {
		e.hit(fmt.Sprintf("from-subquery-depth:%d", q.depth()))
		if len(q.Crosstab) > 0 {
			e.hit("q:crosstab")
		}
		if q.Having != nil {
			e.hit("q:having")
		}
		if len(q.Order) > 0 {
			e.hit("q:order-by")
		}
		if q.Limit > 0 {
			e.hit("q:limit")
		}
		if q.Offset > 0 {
			e.hit("q:offset")
		}
		if q.Period > 0 {
			e.hit("q:period")
		}
		if q.Stride > 0 {
			e.hit("q:stride")
		}
		if q.Where != nil {
			e.hit("q:where")
			if q.Where.has("insub") {
				e.hit("q:where-in-subquery")
			}
		}
		for _, g := range q.GroupBy {
			if g.Kind != "dim" {
				e.hit("q:group-by-expression:" + g.Kind)
				if cluster.Err == "" && strings.Contains(firstClusterLine(cluster.Plan), "cluster flat") {
					e.hit("q:group-by-expression-pushed-down:" + g.Kind)
				}
			}
		}
		if q.GroupStar {
			e.hit("q:group-by-star")
		}
	}
	l := strings.ToLower(c.SQL)
	for _, kw := range []string{"group by ", "having ", "order by ", "limit ", "from t", "crosstab"} {
		if strings.Contains(l, "'"+kw) || strings.Contains(l, " "+kw+"'") || strings.Contains(l, kw+"b'") || strings.Contains(l, "by q'") {
			e.hit("q:keyword-in-literal")
			break
		}
	}
	if !outerClauseFirst(c.SQL) {
		e.hit("q:searched-keyword-before-outer-clause")
	}
}

func firstClusterLine(plan string) string {
	for _, l := range strings.Split(plan, "\n") {
		if strings.Contains(l, "<- cluster") {
			return l
		}
	}
	return ""
}
