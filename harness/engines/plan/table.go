package plan

import (
	"context"
	"encoding/json"
	"fmt"
	"math"
	"sort"
	"strings"
	"sync"
	"sync/atomic"
	"time"

	"github.com/getlantern/bytemap"
	"github.com/getlantern/goexpr"
	"github.com/getlantern/zenodb/core"
	"github.com/getlantern/zenodb/encoding"
	"github.com/getlantern/zenodb/expr"
	"github.com/getlantern/zenodb/planner"
	"github.com/spaolacci/murmur3"

	"zvh/gen"
	"zvh/hk"
)

// ---------------------------------------------------------------- data set

var (
	epoch    = time.Date(2015, 1, 1, 0, 0, 0, 0, time.UTC)
	tableRes = 1 * time.Second
	tableAs  = epoch.Add(-1 * time.Hour)
)

// TField is one field of the mock table: a stateful leaf over a raw point value.
type TField struct {
	Name string    `json:"name"`
	Node *gen.Node `json:"-"`
	Kind string    `json:"kind"` // SUM | MAX | AVG  (rebuilds Node on replay)
	Arg  string    `json:"arg"`
}

func (f *TField) fix() {
	arg := &gen.Node{Kind: "field", Name: f.Arg}
	if f.Kind == "AVG" {
		f.Node = &gen.Node{Kind: "avg", Kids: []*gen.Node{arg, {Kind: "const", Const: 1}}}
	} else {
		f.Node = &gen.Node{Kind: "agg", Name: f.Kind, Kids: []*gen.Node{arg}}
	}
}

// Point is one inserted point: dims, timestamp (Back table periods before the
// table's until) and raw values.
type Point struct {
	Dims map[string]interface{} `json:"dims"`
	Back int                    `json:"back"`
	Vals map[string]float64     `json:"vals"`
}

func (p Point) ts() time.Time { return epoch.Add(-time.Duration(p.Back) * tableRes) }

// Data is a table's content plus its cluster layout.
type Data struct {
	Fields  []TField `json:"fields"` // _points first
	Points  []Point  `json:"points"`
	PartBy  []string `json:"partition_by"`
	NumPart int      `json:"num_partitions"`
	// the table's own GROUP BY (empty = GROUP BY *): the stored row key of a point is the
	// projection of its dimensions through these expressions, while the point is ROUTED to a
	// partition by its own dimensions
	TableGB []TGB `json:"table_group_by,omitempty"`
}

// TGB is one dimension of the table's own GROUP BY.
type TGB struct {
	Kind string `json:"k"` // dim (x) | alias (y AS yy) | len (LEN(y) AS ylen)
	Name string `json:"n"`
	Arg  string `json:"arg"`
}

func (g TGB) expr() goexpr.Expr {
	if g.Kind == "len" {
		return goexpr.Len(goexpr.Param(g.Arg))
	}
	return goexpr.Param(g.Arg)
}

func (g TGB) SQL() string {
	switch g.Kind {
	case "len":
		return "LEN(" + g.Arg + ") AS " + g.Name
	case "alias":
		return g.Arg + " AS " + g.Name
	}
	return g.Arg
}

func (d *Data) tableGroupBy() []core.GroupBy {
	out := []core.GroupBy{}
	for _, g := range d.TableGB {
		out = append(out, core.NewGroupBy(g.Name, g.expr()))
	}
	return out
}

// storedDims projects a point's dimensions through the table's GROUP BY.
func (d *Data) storedDims(dims map[string]interface{}) map[string]interface{} {
	if len(d.TableGB) == 0 {
		return dims
	}
	key := bytemap.New(dims)
	out := map[string]interface{}{}
	for _, g := range d.TableGB {
		if v := g.expr().Eval(key); v != nil {
			out[g.Name] = v
		}
	}
	return out
}

func (d *Data) fix() {
	for i := range d.Fields {
		d.Fields[i].fix()
	}
	// JSON turns ints into float64: dims y are ints
	for _, p := range d.Points {
		for k, v := range p.Dims {
			if f, ok := v.(float64); ok {
				p.Dims[k] = int(f)
			}
		}
	}
}

func dimText(v interface{}) string {
	switch t := v.(type) {
	case nil:
		return "nil"
	case string:
		return "s:" + t
	case int:
		return fmt.Sprintf("i:%d", t)
	case int64:
		return fmt.Sprintf("i:%d", t)
	case uint64:
		return fmt.Sprintf("i:%d", t)
	case float64:
		return fmt.Sprintf("f:%v", t)
	case bool:
		return fmt.Sprintf("b:%v", t)
	}
	return fmt.Sprintf("?%T:%v", v, v)
}

func keyString(m map[string]interface{}) string {
	names := make([]string, 0, len(m))
	for k := range m {
		names = append(names, k)
	}
	sort.Strings(names)
	var sb strings.Builder
	for _, k := range names {
		sb.WriteString(k)
		sb.WriteByte('=')
		sb.WriteString(dimText(m[k]))
		sb.WriteByte(';')
	}
	return sb.String()
}

// ---------------------------------------------------------------- mock table

type tableRow struct {
	key  bytemap.ByteMap
	dims map[string]interface{}
	vals map[string]encoding.Sequence // by table field name
}

// mockTable is a planner.Table whose rows hold one sequence per field, built
// with the real Sequence.UpdateValue from the points of the data set.
type mockTable struct {
	name    string
	all     []TField
	fields  core.Fields // included fields
	rows    []*tableRow
	partBy  []string
	label   string
	groupBy []core.GroupBy
	iters   *int32 // counts Iterate calls (a partition runs one table scan per statement it is sent)
}

func coreFields(fs []TField) core.Fields {
	out := make(core.Fields, 0, len(fs))
	for _, f := range fs {
		if f.Name == "_points" {
			out = append(out, core.PointsField)
		} else {
			out = append(out, core.NewField(f.Name, f.Node.Build()))
		}
	}
	return out
}

// buildRows accumulates the points into one row per distinct key.
func buildRows(fs []TField, points []Point) []*tableRow {
	cf := coreFields(fs)
	byKey := map[string]*tableRow{}
	var order []string
	for _, p := range points {
		ks := keyString(p.Dims)
		row := byKey[ks]
		if row == nil {
			row = &tableRow{key: bytemap.New(p.Dims), dims: p.Dims, vals: map[string]encoding.Sequence{}}
			byKey[ks] = row
			order = append(order, ks)
		}
		params := expr.Map(p.Vals)
		for _, f := range cf {
			row.vals[f.Name] = row.vals[f.Name].UpdateValue(p.ts(), params, row.key, f.Expr, tableRes, tableAs)
		}
	}
	sort.Strings(order)
	out := make([]*tableRow, 0, len(order))
	for _, ks := range order {
		out = append(out, byKey[ks])
	}
	return out
}

func (t *mockTable) GetGroupBy() []core.GroupBy   { return t.groupBy }
func (t *mockTable) GetResolution() time.Duration { return tableRes }
func (t *mockTable) GetAsOf() time.Time           { return tableAs }
func (t *mockTable) GetUntil() time.Time          { return epoch }
func (t *mockTable) GetPartitionBy() []string     { return t.partBy }
func (t *mockTable) String() string               { return t.label }

func (t *mockTable) Iterate(ctx context.Context, onFields core.OnFields, onRow core.OnRow) (interface{}, error) {
	if t.iters != nil {
		atomic.AddInt32(t.iters, 1)
	}
	if err := onFields(t.fields); err != nil {
		return nil, err
	}
	for _, r := range t.rows {
		vals := make(core.Vals, len(t.fields))
		for i, f := range t.fields {
			vals[i] = r.vals[f.Name]
		}
		more, err := onRow(r.key, vals)
		if err != nil || !more {
			return nil, err
		}
	}
	return nil, nil
}

// partitionFor mirrors (*zenodb.DB).partitionFor in /repo/cluster_follow.go:
// murmur3 over the bytes of the partition keys that are present (keys sorted as
// sortedPartitionKeys does), or over all dims when the table has no keys.
func partitionFor(dims bytemap.ByteMap, partitionKeys []string, n int) int {
	h := murmur3.New32()
	if len(partitionKeys) > 0 {
		keys := append([]string{}, partitionKeys...)
		sort.Strings(keys)
		for _, k := range keys {
			b := dims.GetBytes(k)
			if len(b) > 0 {
				h.Write(b)
			}
		}
	} else {
		h.Write(dims)
	}
	return int(h.Sum32()) % n
}

// world holds the union table and its partitions.
type world struct {
	data  *Data
	union []*tableRow
	parts [][]*tableRow
}

func newWorld(d *Data) *world {
	w := &world{data: d}
	if len(d.TableGB) == 0 {
		w.union = buildRows(d.Fields, d.Points)
		w.parts = make([][]*tableRow, d.NumPart)
		for _, r := range w.union {
			p := partitionFor(r.key, d.PartBy, d.NumPart)
			w.parts[p] = append(w.parts[p], r)
		}
		return w
	}
	// a table with its own GROUP BY: every point is routed by its own dimensions
	// (cluster_follow.go partitionFor on the inserted point), each partition stores it under
	// the projected key; the single node stores all points under their projected keys
	all := make([]Point, 0, len(d.Points))
	byPart := make([][]Point, d.NumPart)
	for _, p := range d.Points {
		sp := Point{Dims: d.storedDims(p.Dims), Back: p.Back, Vals: p.Vals}
		all = append(all, sp)
		part := partitionFor(bytemap.New(p.Dims), d.PartBy, d.NumPart)
		byPart[part] = append(byPart[part], sp)
	}
	w.union = buildRows(d.Fields, all)
	w.parts = make([][]*tableRow, d.NumPart)
	for i := range byPart {
		w.parts[i] = buildRows(d.Fields, byPart[i])
	}
	return w
}

func (w *world) getTable(rows []*tableRow, label string) func(string, func(core.Fields) (core.Fields, error)) (planner.Table, error) {
	return w.getTableCounting(rows, label, nil)
}

func (w *world) getTableCounting(rows []*tableRow, label string, iters *int32) func(string, func(core.Fields) (core.Fields, error)) (planner.Table, error) {
	return func(table string, includedFields func(core.Fields) (core.Fields, error)) (planner.Table, error) {
		if table != "t" {
			return nil, fmt.Errorf("table %v not found", table)
		}
		included, err := includedFields(coreFields(w.data.Fields))
		if err != nil {
			return nil, err
		}
		return &mockTable{name: table, all: w.data.Fields, fields: included, rows: rows, partBy: w.data.PartBy, label: label, iters: iters, groupBy: w.data.tableGroupBy()}, nil
	}
}

func (w *world) localOpts(rows []*tableRow, label string) *planner.Opts {
	return &planner.Opts{
		GetTable: w.getTable(rows, label),
		Now:      func(string) time.Time { return epoch },
	}
}

// ---------------------------------------------------------------- execution

// OutRow is one flat result row in comparable form.
type OutRow struct {
	Key  string                 `json:"key"`
	Dims map[string]interface{} `json:"-"`
	TS   int64                  `json:"ts"` // table periods back from epoch (may be negative)
	Vals Floats                 `json:"vals"`
}

// Floats marshals NaN and ±Inf as strings (encoding/json refuses them).
type Floats []float64

func (f Floats) MarshalJSON() ([]byte, error) {
	out := make([]interface{}, len(f))
	for i, v := range f {
		if math.IsNaN(v) || math.IsInf(v, 0) {
			out[i] = fmt.Sprint(v)
		} else {
			out[i] = v
		}
	}
	return json.Marshal(out)
}

type Outcome struct {
	Err    string   `json:"err,omitempty"`
	Fields []string `json:"fields"`
	Rows   []OutRow `json:"rows"`
	Plan   string   `json:"plan,omitempty"`
}

func runPlan(plan core.FlatRowSource) (fields []string, rows []OutRow, err error) {
	_, err = plan.Iterate(context.Background(), func(fs core.Fields) error {
		fields = fs.Names()
		return nil
	}, func(row *core.FlatRow) (bool, error) {
		dims := row.Key.AsMap()
		vals := append([]float64{}, row.Values...)
		rows = append(rows, OutRow{Key: keyString(dims), Dims: dims, TS: (epoch.UnixNano() - row.TS) / int64(tableRes), Vals: vals})
		return true, nil
	})
	return
}

func (w *world) execLocal(sqlText string) Outcome { return w.execLocalAs(sqlText, false) }

// execLocalAs: isSub = plan the statement the way planSubQueries plans an IN-subquery
// (Opts.IsSubQuery: the fields are replaced by _points and _having).
func (w *world) execLocalAs(sqlText string, isSub bool) (out Outcome) {
	p := hk.Recover(func() {
		lopts := w.localOpts(w.union, "union")
		lopts.IsSubQuery = isSub
		plan, err := planner.Plan(sqlText, lopts)
		if err != nil {
			out.Err = "plan: " + err.Error()
			return
		}
		out.Plan = core.FormatSource(plan)
		fields, rows, err := runPlan(plan)
		if err != nil {
			out.Err = "run: " + err.Error()
			return
		}
		out.Fields, out.Rows = fields, rows
	})
	if p != nil {
		out.Err = fmt.Sprintf("panic: %v", p)
	}
	return
}

// clusterCall records one invocation of the QueryCluster function.
type clusterCall struct {
	SQL        string `json:"sql"`
	Unflat     bool   `json:"unflat"`
	IsSubQuery bool   `json:"is_sub_query"`
	// the sub-query results the leader ships with the statement: one list per IN-subquery of
	// the statement's WHERE, in the order of query.WhereSubQueries (nil = none shipped)
	Results [][]string `json:"sub_query_results"`
	Shipped bool       `json:"results_shipped"`
	// table scans each partition ran while answering the call: 1 per statement; more means
	// the partition planned and ran IN-subqueries itself, against its own rows
	PartScans []int32 `json:"partition_table_scans"`
}

func shippedLists(rs [][]interface{}) [][]string {
	if rs == nil {
		return nil
	}
	out := make([][]string, len(rs))
	for i, l := range rs {
		out[i] = []string{}
		for _, v := range l {
			out[i] = append(out[i], dimText(v))
		}
		sort.Strings(out[i])
	}
	return out
}

// execCluster plans with Opts.QueryCluster set to a function that runs the
// partition-side SQL with planner.Plan (local) on each partition's mock table
// and streams the rows back, the way (*DB).queryCluster / queryForRemote do.
func (w *world) execCluster(sqlText string) (Outcome, []clusterCall, bool) {
	return w.execClusterAs(sqlText, false)
}

func (w *world) execClusterAs(sqlText string, isSub bool) (out Outcome, calls []clusterCall, fieldMismatch bool) {
	var mu sync.Mutex // IN-subqueries are run in goroutines of their own
	p := hk.Recover(func() {
		// the leader of a cluster holds no rows: its table only answers questions about fields,
		// resolution and partition keys, so anything the plan computes on the leader from "its
		// own" table instead of asking the partitions comes out empty
		opts := w.localOpts(nil, "leader (no rows)")
		opts.IsSubQuery = isSub
		opts.QueryCluster = func(ctx context.Context, sqlString string, isSubQuery bool, subQueryResults [][]interface{}, unflat bool, onFields core.OnFields, onRow core.OnRow, onFlatRow core.OnFlatRow) (interface{}, error) {
			mu.Lock()
			callIdx := len(calls)
			calls = append(calls, clusterCall{SQL: sqlString, Unflat: unflat, IsSubQuery: isSubQuery,
				Results: shippedLists(subQueryResults), Shipped: subQueryResults != nil})
			mu.Unlock()
			var canonical []string
			stopped := false
			if onRow != nil {
				inner := onRow
				onRow = func(key bytemap.ByteMap, vals core.Vals) (bool, error) {
					if stopped {
						return false, nil
					}
					more, err := inner(key, vals)
					if !more {
						stopped = true
					}
					return more, err
				}
			}
			if onFlatRow != nil {
				inner := onFlatRow
				onFlatRow = func(row *core.FlatRow) (bool, error) {
					if stopped {
						return false, nil
					}
					more, err := inner(row)
					if !more {
						stopped = true
					}
					return more, err
				}
			}
			for i := 0; i < w.data.NumPart && !stopped; i++ {
				scans := new(int32)
				popts := w.localOpts(w.parts[i], fmt.Sprintf("partition %d/%d", i, w.data.NumPart))
				popts.GetTable = w.getTableCounting(w.parts[i], fmt.Sprintf("partition %d/%d", i, w.data.NumPart), scans)
				defer func() {
					mu.Lock()
					calls[callIdx].PartScans = append(calls[callIdx].PartScans, atomic.LoadInt32(scans))
					mu.Unlock()
				}()
				popts.IsSubQuery = isSubQuery
				popts.SubQueryResults = subQueryResults
				plan, err := planner.Plan(sqlString, popts)
				if err != nil {
					return nil, err
				}
				partOnFields := func(fs core.Fields) error {
					if canonical == nil {
						canonical = fs.Names()
						return onFields(fs)
					}
					if strings.Join(canonical, ",") != strings.Join(fs.Names(), ",") {
						mu.Lock()
						fieldMismatch = true
						mu.Unlock()
					}
					return nil
				}
				if unflat {
					_, err = core.UnflattenOptimized(plan).Iterate(ctx, partOnFields, onRow)
				} else {
					_, err = plan.Iterate(ctx, partOnFields, onFlatRow)
				}
				if err != nil {
					return nil, err
				}
			}
			return nil, nil
		}
		plan, err := planner.Plan(sqlText, opts)
		if err != nil {
			out.Err = "plan: " + err.Error()
			return
		}
		out.Plan = core.FormatSource(plan)
		fields, rows, err := runPlan(plan)
		if err != nil {
			out.Err = "run: " + err.Error()
			return
		}
		out.Fields, out.Rows = fields, rows
	})
	if p != nil {
		out.Err = fmt.Sprintf("panic: %v", p)
	}
	return
}
