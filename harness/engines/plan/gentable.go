package plan

import (
	"zvh/hk"
)

// genTableGB generates a case over a table with its OWN GROUP BY: points are routed to the
// partitions by their own dimensions, but every partition stores them under the key the
// table's GROUP BY projects them to.  When that projection loses a partition key — dropped,
// or kept only through a derived dimension of another name such as LEN(y) AS ylen, which goexpr
// declares one-to-one although it is not — one stored key lives on several partitions and a
// query may not be pushed down whole (planner/cluster.go partitionKeysKept).  Controls: the key
// kept under its own name, an identity alias, tables without partition keys.  Queries are
// mostly "group by all" ones (no GROUP BY dimensions), which take the pushdown branch.
func genTableGB(r *hk.Rng) (*Data, *Q, string) {
	d := &Data{}
	d.Fields = []TField{{Name: "_points", Kind: "SUM", Arg: "_point"}, {Name: "a", Kind: "SUM", Arg: "a"}, {Name: "b", Kind: "SUM", Arg: "b"}}
	x := TGB{Kind: "dim", Name: "x", Arg: "x"}
	class := ""
	switch r.Intn(8) {
	case 0, 1:
		d.TableGB, d.PartBy, class = []TGB{x, {Kind: "len", Name: "ylen", Arg: "y"}}, []string{"y"}, "key-kept-only-through-LEN-under-another-name"
	case 2:
		d.TableGB, d.PartBy, class = []TGB{x, {Kind: "len", Name: "ylen", Arg: "y"}}, []string{"x", "y"}, "key-kept-only-through-LEN-under-another-name"
	case 3:
		d.TableGB, d.PartBy, class = []TGB{x}, nil, "dimension-dropped-no-partition-keys"
	case 4:
		d.TableGB, d.PartBy, class = []TGB{x}, []string{"y"}, "partition-key-dropped"
	case 5:
		d.TableGB, d.PartBy, class = []TGB{x, {Kind: "dim", Name: "y", Arg: "y"}}, []string{"y"}, "control:key-kept-under-its-own-name"
	case 6:
		d.TableGB, d.PartBy, class = []TGB{x, {Kind: "alias", Name: "yy", Arg: "y"}}, []string{"y"}, "control:identity-alias"
	default:
		d.TableGB, d.PartBy, class = []TGB{x}, []string{"x"}, "control:dropped-dimension-is-no-partition-key"
	}
	d.NumPart = r.Range(2, 6)
	xs := []interface{}{"a", "b"}
	ys := []interface{}{"p", "q", "r", "ss", "tt"}
	nPts := r.Range(6, 16)
	for i := 0; i < nPts; i++ {
		dims := map[string]interface{}{"x": hk.Pick(r, xs), "y": hk.Pick(r, ys)}
		d.Points = append(d.Points, Point{Dims: dims, Back: r.Range(0, 1),
			Vals: map[string]float64{"_point": 1, "a": float64(r.Range(1, 9)), "b": float64(r.Range(1, 9))}})
	}
	d.fix()
	q := &Q{Table: "t"}
	ref := func(n string) *FX { return &FX{Kind: "ref", Name: n} }
	if r.Chance(1, 4) {
		q.Fields = []Sel{{Star: true}}
	} else {
		q.Fields = []Sel{{Name: "a", X: ref("a")}, {Name: "b", X: ref("b")}}
	}
	if r.Chance(1, 4) {
		q.Where = &Cond{Kind: "cmp", Dim: "x", Op: hk.Pick(r, []string{"=", "<>"}), Val: "a"}
	}
	switch r.Intn(8) {
	case 0:
		q.GroupBy = []GB{{Kind: "dim", Name: "x", Args: []string{"x"}}}
	case 1:
		q.GroupStar = true
		q.Period = 2
	}
	if r.Chance(1, 4) {
		q.Having = &FX{Kind: "bin", Name: ">", Kids: []*FX{ref("a"), {Kind: "const", Const: float64(r.Range(0, 8))}}}
	}
	if r.Chance(1, 4) {
		q.Order = []Ord{{Field: "x"}, {Field: "_time"}, {Field: "a"}}
	}
	return d, q, class
}
