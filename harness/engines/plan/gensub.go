package plan

import (
	"fmt"
	"sort"

	"github.com/getlantern/bytemap"

	"zvh/hk"
)

// genInBoundary generates a case on the pushdown decision boundary of an IN-subquery:
// `WHERE d IN (SELECT d FROM t [WHERE ..] GROUP BY G [HAVING agg cmp thr] [ORDER BY _points
// DESC, d LIMIT k])` over a table partitioned by pk, where G is a strict subset of, exactly,
// or a superset of pk (or absent: group by all).  When G does not cover pk the groups of the
// sub-query are deliberately spread over several partitions (few dimension values, one or
// two periods), and the HAVING threshold is taken from the data so that the aggregate of a
// whole group and the partial aggregate of one partition fall on different sides of it.  The
// sub-query may only be pushed down whole when its groups are confined to one partition;
// otherwise its IN list — and with it the rows of the outer statement — would be computed
// from partial aggregates.
func genInBoundary(r *hk.Rng) (*Data, *Q, string) {
	d := &Data{}
	d.Fields = []TField{{Name: "_points", Kind: "SUM", Arg: "_point"}, {Name: "a", Kind: "SUM", Arg: "a"}, {Name: "b", Kind: "SUM", Arg: "b"}}
	pks := [][]string{{"x"}, {"y"}, {"x", "y"}, {"w", "y"}, {"w"}}
	d.PartBy = append([]string{}, hk.Pick(r, pks)...)
	d.NumPart = r.Range(2, 6)
	xs := []interface{}{"a", "b", "cc"}
	ys := []interface{}{1, 2, 3}
	ws := []interface{}{"k", "l", "b_k"}
	maxBack := 0
	if r.Chance(1, 3) {
		maxBack = 1
	}
	nPts := r.Range(6, 18)
	for i := 0; i < nPts; i++ {
		dims := map[string]interface{}{"x": hk.Pick(r, xs), "y": hk.Pick(r, ys)}
		if r.Chance(5, 6) {
			dims["w"] = hk.Pick(r, ws)
		}
		d.Points = append(d.Points, Point{Dims: dims, Back: r.Range(0, maxBack),
			Vals: map[string]float64{"_point": 1, "a": float64(10 * r.Range(1, 9)), "b": float64(r.Range(1, 9))}})
	}
	d.fix()

	// ---- the sub-query
	dim := hk.Pick(r, []string{"x", "y"})
	sub, class := boundarySub(r, d, dim)

	// ---- the statement that uses it
	in := &Cond{Kind: "insub", Dim: dim, Sub: sub}
	q := &Q{Table: "t", Fields: []Sel{{Name: "a", X: &FX{Kind: "ref", Name: "a"}}, {Name: "b", X: &FX{Kind: "ref", Name: "b"}}}}
	switch r.Intn(16) {
	case 10, 11:
		// the same sub-query text twice: on the same dimension and on another one
		o := hk.Pick(r, []string{"x", "w", "y"})
		q.Where = &Cond{Kind: hk.Pick(r, []string{"or", "and"}), Kids: []*Cond{in, {Kind: "insub", Dim: o, Sub: sub}}}
		if r.Chance(1, 3) {
			q.Where.Kids[1] = &Cond{Kind: "not", Kids: []*Cond{q.Where.Kids[1]}}
		}
		class += ":two-in-same-text"
	case 12, 13:
		// two different sub-queries
		dim2 := "x"
		if dim == "x" {
			dim2 = "y"
		}
		sub2, _ := boundarySub(r, d, dim2)
		q.Where = &Cond{Kind: hk.Pick(r, []string{"or", "and"}), Kids: []*Cond{in, {Kind: "insub", Dim: dim2, Sub: sub2}}}
		class += ":two-in"
	case 14, 15:
		// three IN-subqueries, the first and the last textually identical
		dim2 := "x"
		if dim == "x" {
			dim2 = "y"
		}
		sub2, _ := boundarySub(r, d, dim2)
		q.Where = &Cond{Kind: "and", Kids: []*Cond{
			{Kind: "or", Kids: []*Cond{in, {Kind: "insub", Dim: dim2, Sub: sub2}}},
			{Kind: "or", Kids: []*Cond{{Kind: "not", Kids: []*Cond{{Kind: "insub", Dim: hk.Pick(r, []string{dim, "w"}), Sub: sub}}}, {Kind: "cmp", Dim: "w", Op: "=", Val: "k"}}}}}
		class += ":three-in-first-and-last-same-text"
	case 0, 1:
		q.Where = &Cond{Kind: "not", Kids: []*Cond{in}}
	case 2:
		q.Where = &Cond{Kind: "and", Kids: []*Cond{in, {Kind: "cmp", Dim: "w", Op: "<>", Val: "l"}}}
	case 3:
		q.Where = &Cond{Kind: "or", Kids: []*Cond{in, {Kind: "cmp", Dim: "w", Op: "=", Val: "b_k"}}}
	case 4:
		// the IN-subquery inside an IN-subquery
		other := "y"
		if dim == "y" {
			other = "x"
		}
		mid := &Q{Table: "t", Fields: []Sel{{Name: other, X: &FX{Kind: "ref", Name: other}}}, Where: in,
			GroupBy: []GB{{Kind: "dim", Name: other, Args: []string{other}}}}
		q.Where = &Cond{Kind: "insub", Dim: other, Sub: mid}
		class += ":nested-in"
	default:
		q.Where = in
	}
	switch r.Intn(4) {
	case 0:
		q.GroupBy = []GB{{Kind: "dim", Name: dim, Args: []string{dim}}}
	case 1:
		q.GroupBy = []GB{{Kind: "dim", Name: "x", Args: []string{"x"}}, {Kind: "dim", Name: "y", Args: []string{"y"}}}
	}
	if r.Chance(1, 5) {
		// the statement as a FROM-subquery: the leader runs the outer SELECT
		if len(q.GroupBy) == 0 {
			q.GroupBy = []GB{{Kind: "dim", Name: "x", Args: []string{"x"}}, {Kind: "dim", Name: "y", Args: []string{"y"}}}
		}
		keep := q.GroupBy[0].Name
		outer := &Q{Sub: q, Fields: []Sel{{Name: "a", X: &FX{Kind: "ref", Name: "a"}}},
			GroupBy: []GB{{Kind: "dim", Name: keep, Args: []string{keep}}}}
		q = outer
		class += ":in-from-subquery"
	}
	return d, q, class
}

// boundarySub generates one sub-query of the boundary class over dimension dim; the tag says
// whether its GROUP BY covers the partition keys and which clause puts it on the boundary.
func boundarySub(r *hk.Rng, d *Data, dim string) (*Q, string) {
	ys := []interface{}{1, 2, 3}
	sub := &Q{Table: "t", Fields: []Sel{{Name: dim, X: &FX{Kind: "ref", Name: dim}}}}
	var G []string
	switch r.Intn(8) {
	case 0: // no GROUP BY: group by all
	case 1, 2, 3:
		G = []string{dim}
	default:
		G = []string{dim, hk.Pick(r, []string{"x", "y", "w"})}
		if G[1] == dim {
			G = G[:1]
		}
	}
	for _, g := range G {
		sub.GroupBy = append(sub.GroupBy, GB{Kind: "dim", Name: g, Args: []string{g}})
	}
	if r.Chance(1, 5) {
		sub.Where = &Cond{Kind: "cmp", Dim: "y", Op: hk.Pick(r, []string{"<>", ">", "<"}), Val: hk.Pick(r, ys)}
	}
	covers := len(G) == 0
	if !covers {
		covers = true
		for _, k := range d.PartBy {
			in := false
			for _, g := range G {
				if g == k {
					in = true
				}
			}
			covers = covers && in
		}
	}
	class := "sub-group-by-misses-partition-key"
	if covers {
		class = "sub-group-by-covers-partition-keys"
	}
	switch c := r.Intn(10); {
	case c < 6:
		sub.Having = straddlingHaving(r, d, G, sub.Where)
		class += ":having"
	case c < 8:
		sub.Order = []Ord{{Field: "_points", Desc: true}, {Field: dim}}
		sub.Limit = r.Range(1, 2)
		class += ":order-by-aggregate-limit"
	default:
		class += ":plain"
	}

	return sub, class
}

// straddlingHaving picks a HAVING condition over SUM(a), SUM(b), the point count or the
// ratio a/_points whose threshold lies between the value of some whole group and the value
// the same group has on one partition alone (when the data has such a group).
func straddlingHaving(r *hk.Rng, d *Data, G []string, where *Cond) *FX {
	type agg struct{ a, b, n float64 }
	total := map[string]*agg{}
	partial := map[string]*agg{}
	for _, p := range d.Points {
		if where != nil && !evalCmp(where, p.Dims) {
			continue
		}
		gk := fmt.Sprintf("t%d|", p.Back)
		if len(G) == 0 {
			gk += keyString(p.Dims)
		}
		for _, g := range G {
			gk += dimText(p.Dims[g]) + "|"
		}
		part := partitionFor(bytemap.New(p.Dims), d.PartBy, d.NumPart)
		pk := fmt.Sprintf("%s#%d", gk, part)
		for _, m := range []struct {
			k string
			t map[string]*agg
		}{{gk, total}, {pk, partial}} {
			if m.t[m.k] == nil {
				m.t[m.k] = &agg{}
			}
			m.t[m.k].a += p.Vals["a"]
			m.t[m.k].b += p.Vals["b"]
			m.t[m.k].n++
		}
	}
	kind := r.Intn(4)
	val := func(g *agg) float64 {
		switch kind {
		case 0:
			return g.a
		case 1:
			return g.b
		case 2:
			return g.n
		}
		return g.a / g.n
	}
	var lhs *FX
	switch kind {
	case 0:
		lhs = &FX{Kind: "ref", Name: "a"}
	case 1:
		lhs = &FX{Kind: "ref", Name: "b"}
	case 2:
		lhs = &FX{Kind: "ref", Name: "_points"}
	default:
		lhs = &FX{Kind: "bin", Name: "/", Kids: []*FX{{Kind: "ref", Name: "a"}, {Kind: "ref", Name: "_points"}}}
	}
	// candidate thresholds strictly between a total and one of its partials
	var cands []float64
	pkeys := make([]string, 0, len(partial))
	for k := range partial {
		pkeys = append(pkeys, k)
	}
	sort.Strings(pkeys)
	for _, k := range pkeys {
		gk := k[:len(k)-len(k[lastIndexByte(k, '#'):])]
		t, p := val(total[gk]), val(partial[k])
		if t != p {
			cands = append(cands, (t+p)/2)
		}
	}
	var thr float64
	if len(cands) > 0 && r.Chance(5, 6) {
		thr = hk.Pick(r, cands)
	} else {
		thr = float64(r.Range(0, 12)) * 10
		if kind == 1 || kind == 2 {
			thr = float64(r.Range(0, 12))
		}
	}
	return &FX{Kind: "bin", Name: hk.Pick(r, []string{">", ">", "<", ">=", "<="}), Kids: []*FX{lhs, {Kind: "const", Const: thr}}}
}

func lastIndexByte(s string, c byte) int {
	for i := len(s) - 1; i >= 0; i-- {
		if s[i] == c {
			return i
		}
	}
	return 0
}

// evalCmp evaluates the simple comparisons genInBoundary puts into a sub-query's WHERE.
func evalCmp(c *Cond, dims map[string]interface{}) bool {
	v, ok := dims[c.Dim].(int)
	w, ok2 := c.Val.(int)
	if !ok || !ok2 {
		return c.Op == "<>" // goexpr: a missing dimension differs from any constant
	}
	switch c.Op {
	case "<>":
		return v != w
	case ">":
		return v > w
	case "<":
		return v < w
	}
	return true
}
