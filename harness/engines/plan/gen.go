package plan

import (
	"fmt"
	"sort"
	"strings"

	"zvh/gen"
	"zvh/hk"
)

// ---------------------------------------------------------------- query AST (generator side)

// FX is a field expression as written in the SELECT / HAVING clause.
type FX struct {
	Kind  string  `json:"k"` // ref | agg | bin | if | const
	Name  string  `json:"n,omitempty"`
	Const float64 `json:"c,omitempty"`
	Cond  int     `json:"cond,omitempty"`
	Kids  []*FX   `json:"kids,omitempty"`
}

func (f *FX) SQL(conds []string) string {
	switch f.Kind {
	case "ref":
		return f.Name
	case "const":
		return fmt.Sprint(f.Const)
	case "agg":
		return fmt.Sprintf("%s(%s)", f.Name, f.Kids[0].SQL(conds))
	case "bin":
		return fmt.Sprintf("(%s %s %s)", f.Kids[0].SQL(conds), f.Name, f.Kids[1].SQL(conds))
	case "if":
		return fmt.Sprintf("IF(%s, %s)", conds[f.Cond], f.Kids[0].SQL(conds))
	}
	panic("fx sql")
}

func aggNode(kind, arg string) *gen.Node {
	a := &gen.Node{Kind: "field", Name: arg}
	if kind == "AVG" {
		return &gen.Node{Kind: "avg", Kids: []*gen.Node{a, {Kind: "const", Const: 1}}}
	}
	return &gen.Node{Kind: "agg", Name: kind, Kids: []*gen.Node{a}}
}

// Resolve turns the expression into the model's Ex (gen.Node) the way
// sql.fielded.exprFor resolves column names: a known field name stands for that
// field's expression, any other name for SUM(name); inside an aggregate a name
// is the raw value.
func (f *FX) Resolve(known map[string]*gen.Node) *gen.Node {
	switch f.Kind {
	case "ref":
		if n, ok := known[f.Name]; ok {
			return n
		}
		return aggNode("SUM", f.Name)
	case "const":
		return &gen.Node{Kind: "const", Const: f.Const}
	case "agg":
		return aggNode(f.Name, f.Kids[0].Name)
	case "bin":
		return &gen.Node{Kind: "bin", Name: f.Name, Kids: []*gen.Node{f.Kids[0].Resolve(known), f.Kids[1].Resolve(known)}}
	case "if":
		return &gen.Node{Kind: "if", C: f.Cond, Kids: []*gen.Node{f.Kids[0].Resolve(known)}}
	}
	panic("fx resolve")
}

// Sel is one select expression.
type Sel struct {
	Star bool   `json:"star,omitempty"`
	Name string `json:"name,omitempty"` // output name
	X    *FX    `json:"x,omitempty"`
}

// GB is one GROUP BY dimension expression.
type GB struct {
	Kind string   `json:"k"` // dim | alias | concat | len | substr
	Name string   `json:"n"` // output dim name
	Args []string `json:"args"`
}

func (g GB) SQL() string {
	switch g.Kind {
	case "dim":
		return g.Args[0]
	case "alias":
		return fmt.Sprintf("%s AS %s", g.Args[0], g.Name)
	case "concat":
		return fmt.Sprintf("CONCAT('_', %s) AS %s", strings.Join(g.Args, ", "), g.Name)
	case "len":
		return fmt.Sprintf("LEN(%s) AS %s", g.Args[0], g.Name)
	case "substr":
		return fmt.Sprintf("SUBSTR(%s, 0, 1) AS %s", g.Args[0], g.Name)
	}
	panic("gb sql")
}

// Cond is a WHERE condition.
type Cond struct {
	Kind string        `json:"k"` // cmp | and | or | not | in | insub | null
	Dim  string        `json:"d,omitempty"`
	Op   string        `json:"op,omitempty"`
	Val  interface{}   `json:"v,omitempty"`
	Vals []interface{} `json:"vs,omitempty"`
	Kids []*Cond       `json:"kids,omitempty"`
	Sub  *Q            `json:"sub,omitempty"`
}

func lit(v interface{}) string {
	switch t := v.(type) {
	case string:
		return "'" + strings.ReplaceAll(t, "'", "''") + "'"
	case float64:
		return fmt.Sprint(int(t))
	}
	return fmt.Sprint(v)
}

func (c *Cond) SQL() string {
	switch c.Kind {
	case "cmp":
		return fmt.Sprintf("%s %s %s", c.Dim, c.Op, lit(c.Val))
	case "and":
		return fmt.Sprintf("(%s AND %s)", c.Kids[0].SQL(), c.Kids[1].SQL())
	case "or":
		return fmt.Sprintf("(%s OR %s)", c.Kids[0].SQL(), c.Kids[1].SQL())
	case "not":
		return fmt.Sprintf("NOT (%s)", c.Kids[0].SQL())
	case "in":
		parts := make([]string, len(c.Vals))
		for i, v := range c.Vals {
			parts[i] = lit(v)
		}
		return fmt.Sprintf("%s IN (%s)", c.Dim, strings.Join(parts, ", "))
	case "insub":
		return fmt.Sprintf("%s IN (%s)", c.Dim, c.Sub.SQL())
	case "null":
		return fmt.Sprintf("%s IS %s NULL", c.Dim, c.Op)
	}
	panic("cond sql")
}

func (c *Cond) has(kind string) bool {
	if c == nil {
		return false
	}
	if c.Kind == kind {
		return true
	}
	for _, k := range c.Kids {
		if k.has(kind) {
			return true
		}
	}
	return false
}

type Ord struct {
	Field string `json:"f"`
	Desc  bool   `json:"d,omitempty"`
}

// Q is one generated SELECT statement.
type Q struct {
	Fields    []Sel    `json:"fields"`
	Table     string   `json:"table,omitempty"`
	Sub       *Q       `json:"sub,omitempty"`
	AsOf      string   `json:"asof,omitempty"`
	Until     string   `json:"until,omitempty"`
	Where     *Cond    `json:"where,omitempty"`
	GroupBy   []GB     `json:"group_by,omitempty"`
	GroupStar bool     `json:"group_star,omitempty"`
	Crosstab  []string `json:"crosstab,omitempty"`
	CrosstabT bool     `json:"crosstab_t,omitempty"`
	Period    int      `json:"period,omitempty"` // seconds
	Stride    int      `json:"stride,omitempty"` // seconds
	Having    *FX      `json:"having,omitempty"`
	Order     []Ord    `json:"order,omitempty"`
	Limit     int      `json:"limit,omitempty"`
	Offset    int      `json:"offset,omitempty"`
	Conds     []string `json:"conds,omitempty"` // IF conditions used by the fields of this level
}

func (q *Q) hasGroupClause() bool {
	return len(q.GroupBy) > 0 || q.GroupStar || len(q.Crosstab) > 0 || q.Period > 0 || q.Stride > 0
}

func (q *Q) SQL() string {
	var sb strings.Builder
	sb.WriteString("SELECT ")
	for i, s := range q.Fields {
		if i > 0 {
			sb.WriteString(", ")
		}
		if s.Star {
			sb.WriteString("*")
		} else if s.X.Kind == "ref" && s.X.Name == s.Name {
			sb.WriteString(s.Name)
		} else {
			sb.WriteString(s.X.SQL(q.Conds) + " AS " + s.Name)
		}
	}
	sb.WriteString(" FROM ")
	if q.Sub != nil {
		sb.WriteString("(" + q.Sub.SQL() + ")")
	} else {
		sb.WriteString(q.Table)
	}
	if q.AsOf != "" {
		sb.WriteString(" ASOF '" + q.AsOf + "'")
		if q.Until != "" {
			sb.WriteString(" UNTIL '" + q.Until + "'")
		}
	}
	if q.Where != nil {
		sb.WriteString(" WHERE " + q.Where.SQL())
	}
	if q.hasGroupClause() {
		var parts []string
		if q.GroupStar {
			parts = append(parts, "*")
		}
		for _, g := range q.GroupBy {
			parts = append(parts, g.SQL())
		}
		if len(q.Crosstab) > 0 {
			fn := "CROSSTAB"
			if q.CrosstabT {
				fn = "CROSSTABT"
			}
			parts = append(parts, fmt.Sprintf("%s(%s)", fn, strings.Join(q.Crosstab, ", ")))
		}
		if q.Period > 0 {
			parts = append(parts, fmt.Sprintf("period(%ds)", q.Period))
		}
		if q.Stride > 0 {
			parts = append(parts, fmt.Sprintf("stride(%ds)", q.Stride))
		}
		sb.WriteString(" GROUP BY " + strings.Join(parts, ", "))
	}
	if q.Having != nil {
		sb.WriteString(" HAVING " + q.Having.SQL(q.Conds))
	}
	if len(q.Order) > 0 {
		var parts []string
		for _, o := range q.Order {
			if o.Desc {
				parts = append(parts, o.Field+" DESC")
			} else {
				parts = append(parts, o.Field)
			}
		}
		sb.WriteString(" ORDER BY " + strings.Join(parts, ", "))
	}
	if q.Limit > 0 {
		if q.Offset > 0 {
			sb.WriteString(fmt.Sprintf(" LIMIT %d, %d", q.Offset, q.Limit))
		} else {
			sb.WriteString(fmt.Sprintf(" LIMIT %d", q.Limit))
		}
	}
	return sb.String()
}

// noLimit returns a copy of the outermost statement without LIMIT/OFFSET.
func (q *Q) noLimit() *Q {
	c := *q
	c.Limit, c.Offset = 0, 0
	return &c
}

func (q *Q) depth() int {
	if q.Sub == nil {
		return 0
	}
	return 1 + q.Sub.depth()
}

// ---------------------------------------------------------------- data generation

var (
	dimX = []interface{}{"a", "b", "cc", "dd", "ab", "a_b"}
	dimY = []interface{}{1, 2, 3}
	dimZ = []interface{}{"p", "order by q", "limit 5 ", "a group by b"}
	dimW = []interface{}{"k", "l", "b_k"}
	dims = []string{"x", "y", "z", "w"}
)

func dimDomain(d string) []interface{} {
	switch d {
	case "x":
		return dimX
	case "y":
		return dimY
	case "z":
		return dimZ
	}
	return dimW
}

func genData(r *hk.Rng) *Data {
	d := &Data{}
	d.Fields = []TField{{Name: "_points", Kind: "SUM", Arg: "_point"}, {Name: "a", Kind: "SUM", Arg: "a"}, {Name: "b", Kind: "SUM", Arg: "b"}}
	if r.Chance(1, 3) {
		d.Fields = append(d.Fields, TField{Name: "c", Kind: "MAX", Arg: "c"})
	}
	if r.Chance(1, 3) {
		d.Fields = append(d.Fields, TField{Name: "d", Kind: "AVG", Arg: "d"})
	}
	// partition keys: every subset of the dims, the empty one included
	switch r.Intn(10) {
	case 0:
		d.PartBy = nil
	case 1, 2:
		d.PartBy = []string{"x"}
	case 3:
		d.PartBy = []string{"y"}
	case 4, 5:
		d.PartBy = []string{"x", "y"}
	case 6:
		d.PartBy = []string{"z"}
	case 7:
		d.PartBy = []string{"w", "x"}
	default:
		for _, n := range dims {
			if r.Chance(1, 3) {
				d.PartBy = append(d.PartBy, n)
			}
		}
	}
	d.NumPart = r.Range(1, 6)
	// keys
	nKeys := r.Range(1, 10)
	// "tight" data sets: few periods and few dimensions, so that rows that differ only in one
	// dimension meet in the same output group (what a wrong pushdown decision needs to show)
	tight := r.Chance(1, 3)
	maxBack := 11
	if tight {
		maxBack = r.Range(0, 2)
	}
	var keys []map[string]interface{}
	for i := 0; i < nKeys; i++ {
		k := map[string]interface{}{}
		for _, n := range dims {
			miss := 10
			if n == "w" {
				miss = 40
			}
			if tight && (n == "z" || n == "w") {
				miss = 80
			}
			if r.Intn(100) >= miss {
				k[n] = hk.Pick(r, dimDomain(n))
			}
		}
		keys = append(keys, k)
	}
	nPts := r.Range(1, 24)
	for i := 0; i < nPts; i++ {
		p := Point{Dims: hk.Pick(r, keys), Back: r.Range(0, maxBack), Vals: map[string]float64{"_point": 1}}
		for _, f := range d.Fields[1:] {
			if r.Chance(4, 5) {
				p.Vals[f.Arg] = float64(r.Range(0, 9))
			}
		}
		d.Points = append(d.Points, p)
	}
	d.fix()
	return d
}

// ---------------------------------------------------------------- query generation

var ifConds = []string{"x = 'a'", "y > 1", "z = 'from t'", "w <> 'k'", "z = 'crosstab(z)'"}

var kwLits = []string{"a group by b", "x having y", "order by q", "limit 5 ", "from t", "crosstab(z)", "group by "}

type scope struct {
	fields []string        // field names offered by the source
	dims   []string        // dim names offered by the source
	strs   map[string]bool // dims known to hold strings
	table  bool
}

var tableStrs = map[string]bool{"x": true, "z": true, "w": true}

func (sc scope) strDims() []string {
	var out []string
	for _, d := range sc.dims {
		if sc.strs[d] {
			out = append(out, d)
		}
	}
	return out
}

type qgen struct {
	r       *hk.Rng
	data    *Data
	lastSub *Cond // the IN-subquery generated last (re-used for textually identical sub-queries)
}

func (g *qgen) cmpCond(sc scope) *Cond {
	r := g.r
	d := hk.Pick(r, sc.dims)
	dom := dimDomain(d)
	if d != "x" && d != "y" && d != "z" && d != "w" {
		dom = []interface{}{"a", "a_1", 1, "p"}
	}
	switch r.Intn(8) {
	case 0:
		return &Cond{Kind: "cmp", Dim: d, Op: hk.Pick(r, []string{"=", "<>"}), Val: hk.Pick(r, kwLits)}
	case 1:
		n := r.Range(1, 3)
		var vs []interface{}
		for i := 0; i < n; i++ {
			vs = append(vs, hk.Pick(r, dom))
		}
		if r.Chance(1, 4) {
			vs = append(vs, hk.Pick(r, kwLits))
		}
		return &Cond{Kind: "in", Dim: d, Vals: vs}
	case 2:
		return &Cond{Kind: "null", Dim: d, Op: hk.Pick(r, []string{"", "NOT"})}
	default:
		v := hk.Pick(r, dom)
		ops := []string{"=", "<>"}
		if _, ok := v.(int); ok {
			ops = []string{"=", "<>", ">", "<", ">=", "<="}
		}
		return &Cond{Kind: "cmp", Dim: d, Op: hk.Pick(r, ops), Val: v}
	}
}

func (g *qgen) inSub() *Cond {
	r := g.r
	if g.lastSub != nil && r.Chance(1, 3) {
		// the same sub-query text once more (same or another outer dimension)
		d := g.lastSub.Dim
		if r.Bool() {
			d = hk.Pick(r, []string{"x", "y", "z"})
		}
		return &Cond{Kind: "insub", Dim: d, Sub: g.lastSub.Sub}
	}
	d := hk.Pick(r, []string{"x", "y", "z"})
	sub := &Q{Table: "t", Fields: []Sel{{Name: d, X: &FX{Kind: "ref", Name: d}}}}
	tsc := scope{fields: g.tableFields(), dims: dims, strs: tableStrs, table: true}
	if r.Chance(1, 3) {
		sub.Where = g.cmpCond(tsc)
	}
	if r.Chance(2, 3) {
		sub.GroupBy = []GB{{Kind: "dim", Name: d, Args: []string{d}}}
		if r.Chance(1, 3) {
			d2 := hk.Pick(r, []string{"x", "y", "w"})
			if d2 != d {
				sub.GroupBy = append(sub.GroupBy, GB{Kind: "dim", Name: d2, Args: []string{d2}})
			}
		}
		if r.Chance(1, 2) {
			lhs := &FX{Kind: "ref", Name: hk.Pick(r, []string{"a", "b", "_points"})}
			sub.Having = &FX{Kind: "bin", Name: hk.Pick(r, []string{">", "<", ">="}), Kids: []*FX{lhs, {Kind: "const", Const: float64(r.Range(0, 20))}}}
		}
		if r.Chance(1, 3) {
			sub.Order = []Ord{{Field: d, Desc: r.Bool()}}
			if r.Chance(1, 2) {
				sub.Order = []Ord{{Field: "_points", Desc: true}, {Field: d}}
			}
			sub.Limit = r.Range(1, 3)
		}
	}
	g.lastSub = &Cond{Kind: "insub", Dim: d, Sub: sub}
	return g.lastSub
}

func (g *qgen) where(sc scope, depth int) *Cond {
	r := g.r
	switch r.Intn(10) {
	case 0, 1:
		if depth < 2 {
			return &Cond{Kind: hk.Pick(r, []string{"and", "or"}), Kids: []*Cond{g.where(sc, depth+1), g.where(sc, depth+1)}}
		}
	case 2:
		if depth < 2 {
			return &Cond{Kind: "not", Kids: []*Cond{g.where(sc, depth+1)}}
		}
	case 3, 4, 5:
		if sc.table {
			return g.inSub()
		}
	}
	return g.cmpCond(sc)
}

func (g *qgen) tableFields() []string {
	out := []string{}
	for _, f := range g.data.Fields {
		out = append(out, f.Name)
	}
	return out
}

// fx generates a field expression over the fields of the scope.
func (g *qgen) fx(sc scope, q *Q, depth int) *FX {
	r := g.r
	ref := func() *FX {
		n := hk.Pick(r, sc.fields)
		if sc.table {
			// at table level a bare name is the table's own expression; an explicit
			// aggregate must repeat it to be mergeable
			for _, f := range g.data.Fields {
				if f.Name == n && r.Chance(1, 4) && n != "_points" {
					return &FX{Kind: "agg", Name: f.Kind, Kids: []*FX{{Kind: "ref", Name: f.Arg}}}
				}
			}
			if r.Chance(1, 40) && n != "_points" {
				return &FX{Kind: "agg", Name: "MIN", Kids: []*FX{{Kind: "ref", Name: n}}} // not derivable: stays empty
			}
			return &FX{Kind: "ref", Name: n}
		}
		if r.Chance(1, 2) {
			return &FX{Kind: "agg", Name: hk.Pick(r, []string{"SUM", "AVG", "MAX", "MIN", "COUNT"}), Kids: []*FX{{Kind: "ref", Name: n}}}
		}
		return &FX{Kind: "ref", Name: n}
	}
	if depth <= 0 {
		return ref()
	}
	switch r.Intn(10) {
	case 0, 1, 2:
		op := hk.Pick(r, []string{"+", "-", "*", "+", "/"})
		rt := g.fx(sc, q, depth-1)
		if r.Chance(1, 4) {
			rt = &FX{Kind: "const", Const: float64(r.Range(1, 4))}
		}
		return &FX{Kind: "bin", Name: op, Kids: []*FX{g.fx(sc, q, depth-1), rt}}
	case 3:
		if sc.table || r.Chance(1, 2) {
			c := hk.Pick(r, ifConds)
			idx := -1
			for i, e := range q.Conds {
				if e == c {
					idx = i
				}
			}
			if idx < 0 {
				q.Conds = append(q.Conds, c)
				idx = len(q.Conds) - 1
			}
			return &FX{Kind: "if", Cond: idx, Kids: []*FX{g.fx(sc, q, depth-1)}}
		}
	}
	return ref()
}

func (g *qgen) having(sc scope, q *Q, outNames []string) *FX {
	r := g.r
	var l *FX
	if len(outNames) > 0 && r.Chance(1, 2) {
		l = &FX{Kind: "ref", Name: hk.Pick(r, outNames)}
	} else {
		l = g.fx(sc, q, 1)
	}
	h := &FX{Kind: "bin", Name: hk.Pick(r, []string{">", ">=", "<", "<>", "="}), Kids: []*FX{l, {Kind: "const", Const: float64(r.Range(0, 14))}}}
	if r.Chance(1, 6) {
		h = &FX{Kind: "bin", Name: hk.Pick(r, []string{"AND", "OR"}), Kids: []*FX{h,
			{Kind: "bin", Name: ">", Kids: []*FX{g.fx(sc, q, 0), {Kind: "const", Const: float64(r.Range(0, 6))}}}}}
	}
	return h
}

// level generates one SELECT over the given scope and returns the scope it offers.
func (g *qgen) level(sc scope, top bool) (*Q, scope) {
	r := g.r
	if len(sc.fields) == 0 {
		sc.fields = []string{"_points"}
	}
	if len(sc.dims) == 0 {
		sc.dims = []string{"x"}
	}
	q := &Q{}
	// ---- fields
	var outNames []string
	star := r.Chance(1, 4)
	if star {
		q.Fields = append(q.Fields, Sel{Star: true})
		if sc.table {
			outNames = append(outNames, sc.fields...)
		}
	}
	n := r.Range(1, 3)
	if star {
		n = r.Intn(2)
	}
	used := map[string]bool{}
	for _, f := range outNames {
		used[f] = true
	}
	for i := 0; i < n; i++ {
		x := g.fx(sc, q, r.Intn(3))
		name := ""
		if x.Kind == "ref" {
			name = x.Name
		} else {
			name = hk.Pick(r, []string{"total", "f1", "f2", "ratio", "v"})
		}
		if used[name] {
			continue
		}
		used[name] = true
		q.Fields = append(q.Fields, Sel{Name: name, X: x})
		outNames = append(outNames, name)
	}
	if len(q.Fields) == 0 {
		q.Fields = append(q.Fields, Sel{Name: "_points", X: &FX{Kind: "ref", Name: "_points"}})
		outNames = append(outNames, "_points")
	}
	// ---- where
	if r.Chance(2, 5) {
		q.Where = g.where(sc, 0)
	}
	// ---- group by
	outDims := sc.dims
	outStrs := map[string]bool{}
	for k, v := range sc.strs {
		outStrs[k] = v
	}
	switch c := r.Intn(20); {
	case c < 5: // none
	case c < 6:
		q.GroupStar = true
	default:
		nd := r.Range(0, 3)
		if c >= 18 {
			q.GroupStar = true
		}
		seen := map[string]bool{}
		for i := 0; i < nd; i++ {
			d := hk.Pick(r, sc.dims)
			var gb GB
			switch r.Intn(10) {
			case 0:
				gb = GB{Kind: "alias", Name: "g" + d, Args: []string{d}}
			case 1, 2:
				d2 := hk.Pick(r, sc.dims)
				gb = GB{Kind: "concat", Name: d + d2, Args: []string{d, d2}}
			case 3, 4:
				sd := sc.strDims()
				if len(sd) == 0 {
					gb = GB{Kind: "dim", Name: d, Args: []string{d}}
					break
				}
				d = hk.Pick(r, sd)
				if r.Bool() {
					gb = GB{Kind: "len", Name: "len_" + d, Args: []string{d}}
				} else {
					gb = GB{Kind: "substr", Name: d + "1", Args: []string{d}}
				}
			default:
				gb = GB{Kind: "dim", Name: d, Args: []string{d}}
			}
			if seen[gb.Name] {
				continue
			}
			seen[gb.Name] = true
			q.GroupBy = append(q.GroupBy, gb)
		}
		if r.Chance(1, 5) {
			nc := r.Range(1, 2)
			for i := 0; i < nc; i++ {
				q.Crosstab = append(q.Crosstab, hk.Pick(r, sc.dims))
			}
			q.CrosstabT = r.Chance(1, 3)
		}
		if r.Chance(1, 4) {
			q.Period = hk.Pick(r, []int{2, 3, 4, 6})
		}
		if r.Chance(1, 10) {
			q.Stride = hk.Pick(r, []int{4, 6, 12})
			if q.Period > 0 && q.Stride%q.Period != 0 {
				q.Period = 2
			}
			// a stride SHORTER than the period is legal too: the stride is then the output
			// resolution and every slice is kept (resolutionFor: resolution = stride,
			// strideSlice = period)
			if r.Chance(1, 3) {
				q.Stride = hk.Pick(r, []int{2, 3})
				q.Period = q.Stride * hk.Pick(r, []int{2, 3})
			}
		}
		if len(q.GroupBy) > 0 {
			outDims = nil
			for _, gb := range q.GroupBy {
				outDims = append(outDims, gb.Name)
				switch gb.Kind {
				case "dim", "alias":
					if sc.strs[gb.Args[0]] {
						outStrs[gb.Name] = true
					}
				case "concat", "substr":
					outStrs[gb.Name] = true
				}
			}
			sort.Strings(outDims)
		}
	}
	// ---- time range (rare)
	if r.Chance(1, 15) {
		q.AsOf = hk.Pick(r, []string{"-8s", "-6s", "-20s"})
		if r.Chance(1, 2) {
			q.Until = hk.Pick(r, []string{"-1s", "-2s"})
		}
	}
	// ---- having
	if r.Chance(1, 4) {
		q.Having = g.having(sc, q, outNames)
	}
	// ---- order / limit
	pOrder, pLimit := 3, 4
	if !top {
		pOrder, pLimit = 12, 12
	}
	if r.Chance(1, pOrder) {
		cands := append([]string{"_time"}, outNames...)
		cands = append(cands, outDims...)
		no := r.Range(1, 3)
		for i := 0; i < no; i++ {
			q.Order = append(q.Order, Ord{Field: hk.Pick(r, cands), Desc: r.Bool()})
		}
	}
	if r.Chance(1, pLimit) {
		q.Limit = r.Range(1, 6)
		if r.Chance(1, 3) {
			q.Offset = r.Range(1, 3)
		}
		if !top {
			// an inner LIMIT is only deterministic under a total order: all dims, then time
			q.Order = nil
			for _, d := range outDims {
				q.Order = append(q.Order, Ord{Field: d, Desc: r.Chance(1, 4)})
			}
			q.Order = append(q.Order, Ord{Field: "_time", Desc: r.Bool()})
		}
	}
	if len(q.Crosstab) > 0 {
		outNames = []string{"_points"} // crosstabbed names are data dependent
	}
	return q, scope{fields: outNames, dims: outDims, strs: outStrs}
}

// genBoundary generates a case on the pushdown decision boundary: one derived GROUP BY
// expression over string dimensions, the table partitioned by exactly the params of that
// expression, and a data set in which different values of those dimensions meet in one group
// (same prefix / same length / same concatenation).  Whether the query may be pushed down
// depends on the expression being one-to-one in its params and on nothing else.
func genBoundary(r *hk.Rng) (*Data, *Q) {
	d := &Data{}
	d.Fields = []TField{{Name: "_points", Kind: "SUM", Arg: "_point"}, {Name: "a", Kind: "SUM", Arg: "a"}, {Name: "b", Kind: "SUM", Arg: "b"}}
	var gb GB
	switch r.Intn(6) {
	case 0:
		gb = GB{Kind: "dim", Name: "x", Args: []string{"x"}}
	case 1:
		gb = GB{Kind: "alias", Name: "gx", Args: []string{"x"}}
	case 2:
		gb = GB{Kind: "len", Name: "len_x", Args: []string{"x"}}
	case 3, 4:
		gb = GB{Kind: "substr", Name: "x1", Args: []string{"x"}}
	default:
		gb = GB{Kind: "concat", Name: "xw", Args: []string{"x", "w"}}
	}
	d.PartBy = append([]string{}, gb.Args...)
	d.NumPart = r.Range(2, 6)
	nPts := r.Range(4, 14)
	for i := 0; i < nPts; i++ {
		dims := map[string]interface{}{"x": hk.Pick(r, dimX)}
		if gb.Kind == "concat" || r.Chance(1, 4) {
			dims["w"] = hk.Pick(r, dimW)
		}
		if r.Chance(1, 3) {
			dims["y"] = hk.Pick(r, dimY)
		}
		d.Points = append(d.Points, Point{Dims: dims, Back: r.Range(0, 1), Vals: map[string]float64{"_point": 1, "a": float64(r.Range(0, 9)), "b": float64(r.Range(1, 9))}})
	}
	d.fix()
	q := &Q{Table: "t", GroupBy: []GB{gb}}
	q.Fields = []Sel{{Name: "a", X: &FX{Kind: "ref", Name: "a"}}}
	if r.Bool() {
		q.Fields = append(q.Fields, Sel{Name: "ratio", X: &FX{Kind: "bin", Name: "/", Kids: []*FX{{Kind: "ref", Name: "a"}, {Kind: "ref", Name: "b"}}}})
	}
	if r.Chance(1, 3) {
		q.Period = 2
	}
	if r.Chance(1, 3) {
		q.Having = &FX{Kind: "bin", Name: ">", Kids: []*FX{{Kind: "ref", Name: "a"}, {Kind: "const", Const: float64(r.Range(0, 6))}}}
	}
	if r.Chance(1, 3) {
		q.Order = []Ord{{Field: gb.Name, Desc: r.Bool()}, {Field: "_time"}}
		if r.Bool() {
			q.Limit = r.Range(1, 4)
			if r.Bool() {
				q.Offset = r.Range(1, 2)
			}
		}
	}
	if r.Chance(1, 4) {
		// the same statement as a FROM-subquery of a statement that keeps the dimension
		outer := &Q{Sub: q, GroupBy: []GB{{Kind: "dim", Name: gb.Name, Args: []string{gb.Name}}}}
		outer.Fields = []Sel{{Name: "a", X: &FX{Kind: "ref", Name: "a"}}}
		q.Order, q.Limit, q.Offset = nil, 0, 0
		q = outer
	}
	return d, q
}

func genQuery(r *hk.Rng, data *Data) *Q {
	g := &qgen{r: r, data: data}
	depth := 0
	switch c := r.Intn(20); {
	case c < 13:
		depth = 0
	case c < 18:
		depth = 1
	default:
		depth = 2
	}
	sc := scope{fields: g.tableFields(), dims: dims, strs: tableStrs, table: true}
	q, out := g.level(sc, depth == 0)
	q.Table = "t"
	for i := 1; i <= depth; i++ {
		outer, o2 := g.level(out, i == depth)
		outer.Sub = q
		q, out = outer, o2
	}
	return q
}
