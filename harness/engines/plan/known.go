package plan

import (
	"regexp"
	"strings"

	"github.com/getlantern/goexpr"
	"github.com/getlantern/zenodb/sql"
)

// Known-finding matchers: decidable predicates on the query text (through the
// parser) and on the observable plan.  A failing case that matches none of them
// is reported as a violation; a matcher only suppresses a failure when its id is
// listed for C11 in known_findings.json.

const (
	kfTextSurgery = "C11-D6-text-surgery"
	kfOffset      = "C11-offset-applied-twice"
	kfStarDims    = "C11-wildcard-plus-dims-pushdown"
	kfDupExpr     = "C11-duplicate-field-expression"
	kfLen         = "C11-len-declared-one-to-one"
	kfNested      = "C11-nested-subquery-clauses-unchecked"
	kfNilKey      = "C11-where-over-nil-key-subquery"
	kfNestedInSub = "C11-in-subquery-below-pushdown"
)

// shapes whose defect has a fix in handoff/C11-fix-*.diff; listed as known findings only when
// the fix is not applied
var fixFallback = map[string]bool{kfTextSurgery: true, kfOffset: true, kfDupExpr: true, kfNested: true, kfNestedInSub: true}

// statements returns every SELECT of the query: the FROM chain (outermost first)
// and, recursively, the IN-subqueries of each WHERE.
func statements(sqlText string) []*sql.Query {
	q, err := sql.Parse(sqlText)
	if err != nil {
		return nil
	}
	var out []*sql.Query
	for cur := q; cur != nil; cur = cur.FromSubQuery {
		out = append(out, cur)
		if cur.Where != nil {
			cur.Where.WalkLists(func(l goexpr.List) {
				if sq, ok := l.(*sql.SubQuery); ok {
					out = append(out, statements(sq.SQL)...)
				}
			})
		}
	}
	return out
}

// splitOuter cuts canonical statement text at the outer " group by " (paren depth
// 0, outside string literals).  ok = false if there is no outer GROUP BY.
func splitOuter(text string, kw string) (before, after string, ok bool) {
	l := strings.ToLower(text)
	depth, inStr := 0, false
	for i := 0; i < len(l); i++ {
		c := l[i]
		switch {
		case c == '\'' && (i == 0 || l[i-1] != '\\'):
			inStr = !inStr
		case inStr:
		case c == '(':
			depth++
		case c == ')':
			depth--
		default:
			if depth == 0 && strings.HasPrefix(l[i:], kw) {
				return text[:i], text[i+len(kw):], true
			}
		}
	}
	return text, "", false
}

// outerClauseFirstStmt is the hypothesis of the Lean theorem
// rewriteTextPre_refines_ast on the canonical text of one statement: every
// substring the pre-fix code searches for is found first at the outer clause.
func outerClauseFirstStmt(q *sql.Query) bool {
	text := q.SQL
	before, after, has := splitOuter(text, " group by ")
	lb := strings.ToLower(before) + " "
	if strings.Contains(lb, "group by ") {
		return false
	}
	// concatForCrosstab: first CROSSTABT, else first CROSSTAB, anywhere in the text
	up := strings.ToUpper(text)
	if strings.Contains(up, "CROSSTAB") {
		if q.Crosstab == nil || !has {
			return false
		}
		if strings.Contains(strings.ToUpper(before), "CROSSTAB") {
			return false
		}
		kw := "CROSSTAB"
		if strings.Contains(up, "CROSSTABT") {
			kw = "CROSSTABT"
		}
		// the first occurrence inside the GROUP BY clause must be the call itself
		ua := strings.ToUpper(after)
		i := strings.Index(ua, kw)
		if i < 0 || !strings.HasPrefix(ua[i+len(kw):], "(") {
			return false
		}
		if i > 0 && ua[i-1] != ' ' && ua[i-1] != ',' {
			return false
		}
		// and the argument list must not contain parentheses inside string literals
		depth, inStr := 0, false
		for _, c := range after[i+len(kw):] {
			if c == '\'' {
				inStr = !inStr
			} else if inStr && (c == '(' || c == ')') {
				return false
			} else if c == '(' {
				depth++
			} else if c == ')' {
				depth--
				if depth == 0 {
					break
				}
			}
		}
	}
	if q.HasHaving {
		re, err := regexp.Compile("from\\s+" + strings.ToLower(q.FromSQL))
		if err != nil {
			return false
		}
		loc := re.FindStringIndex(strings.ToLower(text))
		sel, _, _ := splitOuter(text, " from ")
		if loc == nil || loc[0] != len(sel)+1 {
			return false
		}
	}
	return true
}

func outerClauseFirst(sqlText string) bool {
	for _, s := range statements(sqlText) {
		if s.FromSubQuery == nil && !outerClauseFirstStmt(s) {
			return false
		}
	}
	return true
}

// matchShapes returns the ids of all known-finding shapes the case has.
func (e *run) matchShapes(c Case, w *world, local, cluster Outcome, calls []clusterCall) []string {
	var out []string
	add := func(id string) {
		for _, o := range out {
			if o == id {
				return
			}
		}
		out = append(out, id)
	}
	stmts := statements(c.SQL)
	var callStmts []*sql.Query
	for _, cl := range calls {
		callStmts = append(callStmts, statements(cl.SQL)...)
	}
	// D6: a statement that reaches planClusterNonPushdown is cut at the wrong place
	for _, s := range stmts {
		if s.FromSubQuery == nil && !outerClauseFirstStmt(s) {
			add(kfTextSurgery)
		}
	}
	// OFFSET of a pushed-down statement is applied by every partition and again by the leader
	for _, cl := range calls {
		if !cl.Unflat {
			if q, err := sql.Parse(cl.SQL); err == nil {
				for cur := q; cur != nil; cur = cur.FromSubQuery {
					if cur.Offset > 0 {
						add(kfOffset)
					}
				}
			}
		}
	}
	// GROUP BY *, <dims>: grouped by the dims only when something else forces a group
	// operator, not grouped at all otherwise; planned as "group by all" for the cluster
	for _, s := range append(append([]*sql.Query{}, stmts...), callStmts...) {
		if s.GroupByAll && len(s.GroupBy) > 0 {
			add(kfStarDims)
		}
	}
	// two partition-side fields with the same expression are each merged into both
	// leader-side fields (bytetree matches sub-mergers by expression text)
	for _, cl := range calls {
		if cl.Unflat {
			if q, err := sql.Parse(cl.SQL); err == nil && q.Fields != nil {
				if fs, err := q.Fields.Get(coreFields(w.data.Fields)); err == nil {
					seen := map[string]bool{}
					for _, f := range fs {
						if seen[f.Expr.String()] {
							add(kfDupExpr)
						}
						seen[f.Expr.String()] = true
					}
				}
			}
		}
	}
	for _, s := range stmts {
		for _, g := range s.GroupBy {
			if strings.Contains(g.Expr.String(), "LEN(") {
				add(kfLen)
			}
		}
	}
	// pushdownAllowed inspects ORDER BY / LIMIT / CROSSTAB of the immediate FROM-subquery only
	if q, err := sql.Parse(c.SQL); err == nil && q.FromSubQuery != nil {
		for cur := q.FromSubQuery.FromSubQuery; cur != nil; cur = cur.FromSubQuery {
			if len(cur.OrderBy) > 0 || cur.Crosstab != nil || cur.Limit > 0 || cur.Offset > 0 {
				add(kfNested)
			}
		}
	}
	// an IN-subquery in the WHERE of a FROM-subquery of a pushed-down statement is evaluated by
	// every partition on its own data
	for _, cl := range calls {
		if !cl.Unflat {
			if q, err := sql.Parse(cl.SQL); err == nil {
				for cur := q.FromSubQuery; cur != nil; cur = cur.FromSubQuery {
					if whereHasSubQuery(cur) {
						add(kfNestedInSub)
					}
				}
			}
		}
	}
	// a FROM-subquery with CROSSTAB and no dimension yields rows with a nil key; the
	// enclosing statement's WHERE (core.RowFilter) treats a nil key as "excluded"
	if q, err := sql.Parse(c.SQL); err == nil {
		for cur := q; cur != nil && cur.FromSubQuery != nil; cur = cur.FromSubQuery {
			if cur.Where == nil {
				continue
			}
			// the nil key survives FROM-subquery levels that have no GROUP BY dimension
			for in := cur.FromSubQuery; in != nil && len(in.GroupBy) == 0; in = in.FromSubQuery {
				if in.Crosstab != nil {
					add(kfNilKey)
					break
				}
			}
		}
	}
	return out
}
