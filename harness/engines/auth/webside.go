package auth

import (
	"bytes"
	"encoding/json"
	"fmt"
	"io"
	"log"
	"net/http"
	"net/http/httptest"
	"net/url"
	"os"
	"path/filepath"
	"strings"
	"time"

	"github.com/getlantern/zenodb/web"
	"github.com/gorilla/mux"
	"github.com/gorilla/securecookie"

	"zvh/hk"
)

const (
	authCookieName = "authcookie"        // web/auth.go const authcookie
	authHeaderName = "X-Zeno-Auth-Token" // web/auth.go const authheader
	oauthURLPrefix = "https://github.com/login/oauth/authorize"
)

// cookieSpec describes the session cookie of a request; Kind:
//
//	"none"      no cookie
//	"garbage"   a value that is not a securecookie at all
//	"wrongkey"  AuthData sealed with other keys
//	"wrongname" AuthData sealed with the right keys under the name "xsrftoken"
//	"sealed"    AuthData sealed with the server's keys under "authcookie"
type cookieSpec struct {
	Kind      string `json:"kind"`
	ExpOffset int64  `json:"expOffsetSeconds"` // AuthData.Expiration = now + offset
}

// modelCookie is the abstract cookie the model sees.
type modelCookie struct {
	Decodes bool   `json:"decodes"`
	Exp     string `json:"exp"`
	Org     bool   `json:"org"`
}

// webCase is the canonical case and, with engine/op, the model request.
type webCase struct {
	Engine       string       `json:"engine"`
	Op           string       `json:"op"`
	Route        string       `json:"route"`  // path template as registered
	Method       string       `json:"method"` // HTTP method used
	ClientID     string       `json:"clientID"`
	ClientSecret string       `json:"clientSecret"`
	Password     string       `json:"password"` // configured static token
	Header       string       `json:"header"`   // presented X-Zeno-Auth-Token ("" = absent)
	Cookie       *modelCookie `json:"cookie"`   // abstract cookie for the model (null = absent)
	Now          string       `json:"now"`
	Cred         string       `json:"cred"`
	CookieSpec   cookieSpec   `json:"cookieSpec"`
	HashKey      string       `json:"hashKey"`
	BlockKey     string       `json:"blockKey"`
}

type webCfg struct {
	ClientID, ClientSecret, Password, HashKey, BlockKey string
}

func (c webCase) webCfg() webCfg {
	return webCfg{c.ClientID, c.ClientSecret, c.Password, c.HashKey, c.BlockKey}
}

// the property's specification, independent of the model: which registered routes
// serve data (must be refused without credentials) and which are public
var webRouteClass = map[string]string{
	"/async": "data", "/immediate": "data", "/run": "data", "/cached/{permalink}": "data",
	"/report/{permalink}": "data", "/metrics": "data", "/": "data",
	"/insert/{stream}": "public", "/oauth/code": "public", "/favicon": "public",
}

// routes the lattice exercises (all data routes + the public insert route as control;
// /oauth/code talks to GitHub and /favicon is a constant 404)
var webRoutes = []string{"/run", "/async", "/immediate", "/cached/{permalink}", "/report/{permalink}", "/metrics", "/", "/insert/{stream}"}

type webEnv struct {
	cfg      webCfg
	dir      string
	srv      *httptest.Server
	stop     func()
	router   *mux.Router
	sc       *securecookie.SecureCookie
	perma    string
	client   *http.Client
	inserted int
}

// primeCache runs the query once through an unauthenticated handler so that the cache
// database holds a finished result (and a permalink) that /run, /async, /immediate and
// /cached can serve instantly.
func (e *env) primeCache() error {
	if e.primedCache != "" {
		return nil
	}
	dir := filepath.Join(e.dir, "cache-primer")
	router := mux.NewRouter()
	stop, err := web.Configure(e.db, router, &web.Opts{CacheDir: dir})
	if err != nil {
		return err
	}
	srv := httptest.NewServer(router)
	defer srv.Close()
	defer stop()
	c := &http.Client{Timeout: 30 * time.Second}
	resp, err := c.Get(srv.URL + "/immediate?" + url.QueryEscape(querySQL))
	if err != nil {
		return err
	}
	defer resp.Body.Close()
	body, _ := io.ReadAll(resp.Body)
	if resp.StatusCode != 200 {
		return fmt.Errorf("priming query: status %d: %s", resp.StatusCode, body)
	}
	var qr struct {
		Permalink string
		Rows      []json.RawMessage
	}
	if err := json.Unmarshal(body, &qr); err != nil {
		return fmt.Errorf("priming query: %v", err)
	}
	if qr.Permalink == "" || len(qr.Rows) == 0 || !bytes.Contains(body, []byte(secretDim)) {
		return fmt.Errorf("priming query returned no data: %s", body)
	}
	e.permalink = qr.Permalink
	e.primedCache = filepath.Join(dir, "webcache.db")
	return nil
}

func (e *env) webEnvFor(cfg webCfg) (*webEnv, error) {
	if err := e.primeCache(); err != nil {
		return nil, err
	}
	dir, err := os.MkdirTemp(e.dir, "web-*")
	if err != nil {
		return nil, err
	}
	b, err := os.ReadFile(e.primedCache)
	if err != nil {
		return nil, err
	}
	if err := os.WriteFile(filepath.Join(dir, "webcache.db"), b, 0o600); err != nil {
		return nil, err
	}
	router := mux.NewRouter()
	stop, err := web.Configure(e.db, router, &web.Opts{
		OAuthClientID: cfg.ClientID, OAuthClientSecret: cfg.ClientSecret, GitHubOrg: "zvh-org",
		HashKey: cfg.HashKey, BlockKey: cfg.BlockKey, CacheDir: dir, Password: cfg.Password,
	})
	if err != nil {
		return nil, err
	}
	we := &webEnv{cfg: cfg, dir: dir, router: router, stop: stop, perma: e.permalink,
		sc: securecookie.New([]byte(cfg.HashKey), []byte(cfg.BlockKey)),
		client: &http.Client{Timeout: 30 * time.Second,
			CheckRedirect: func(*http.Request, []*http.Request) error { return http.ErrUseLastResponse }}}
	we.srv = httptest.NewUnstartedServer(router)
	// net/http logs "superfluous response.WriteHeader" for the 403 that follows a redirect
	we.srv.Config.ErrorLog = log.New(io.Discard, "", 0)
	we.srv.Start()
	return we, nil
}

func (we *webEnv) close() {
	we.srv.Close()
	we.stop()
	os.RemoveAll(we.dir)
}

// registeredRoutes lists the path templates actually registered on the real router.
func (we *webEnv) registeredRoutes() []string {
	var out []string
	we.router.Walk(func(route *mux.Route, _ *mux.Router, _ []*mux.Route) error {
		if t, err := route.GetPathTemplate(); err == nil {
			out = append(out, t)
		}
		return nil
	})
	return out
}

func otherKey(k string) string {
	// a different key of the same length
	b := []byte(k)
	for i := range b {
		if b[i] == 'a' {
			b[i] = 'b'
		} else {
			b[i] = 'a'
		}
	}
	return string(b)
}

// mint builds the concrete cookie value for a spec; ok=false when none is sent.
func (we *webEnv) mint(cs cookieSpec, now time.Time) (string, bool, error) {
	ad := &web.AuthData{AccessToken: "gho_zvh_not_a_real_token", Expiration: now.Add(time.Duration(cs.ExpOffset) * time.Second)}
	switch cs.Kind {
	case "", "none":
		return "", false, nil
	case "garbage":
		return "Z2FyYmFnZS1ub3QtYS1zZWN1cmVjb29raWU", true, nil
	case "wrongkey":
		v, err := securecookie.New([]byte(otherKey(we.cfg.HashKey)), []byte(otherKey(we.cfg.BlockKey))).Encode(authCookieName, ad)
		return v, true, err
	case "wrongname":
		v, err := we.sc.Encode("xsrftoken", ad)
		return v, true, err
	case "sealed":
		v, err := we.sc.Encode(authCookieName, ad)
		return v, true, err
	}
	return "", false, fmt.Errorf("unknown cookie kind %q", cs.Kind)
}

func concretePath(we *webEnv, tpl string) string {
	p := strings.ReplaceAll(tpl, "{permalink}", we.perma)
	p = strings.ReplaceAll(p, "{stream}", "inbound")
	// any other variable of a route this engine does not know
	for strings.Contains(p, "{") && strings.Contains(p, "}") {
		i, j := strings.Index(p, "{"), strings.Index(p, "}")
		if j < i {
			break
		}
		p = p[:i] + "x" + p[j+1:]
	}
	switch tpl {
	case "/run", "/async", "/immediate":
		p += "?" + url.QueryEscape(querySQL)
	}
	return p
}

type webObs struct {
	Decision string `json:"decision"` // allow | deny | redirect | "" (inconclusive)
	Status   int    `json:"status"`
	Location string `json:"location,omitempty"`
	BodyLen  int    `json:"bodyLen"`
	Data     string `json:"data,omitempty"` // what was disclosed
	Err      string `json:"err,omitempty"`
}

func (we *webEnv) request(c webCase) webObs {
	now := time.Now()
	method := c.Method
	if method == "" {
		method = "GET"
	}
	var body io.Reader
	if method == "POST" {
		body = strings.NewReader(`{"dims":{"d":"by-web"},"vals":{"v":1}}`)
	}
	req, err := http.NewRequest(method, we.srv.URL+concretePath(we, c.Route), body)
	if err != nil {
		return webObs{Err: err.Error()}
	}
	if method == "POST" {
		req.Header.Set("Content-Type", "application/json")
	}
	if c.Header != "" {
		req.Header.Set(authHeaderName, c.Header)
	}
	v, send, err := we.mint(c.CookieSpec, now)
	if err != nil {
		return webObs{Err: "mint: " + err.Error()}
	}
	if send {
		req.AddCookie(&http.Cookie{Name: authCookieName, Value: v})
	}
	resp, err := we.client.Do(req)
	if err != nil {
		return webObs{Err: err.Error()}
	}
	defer resp.Body.Close()
	b, _ := io.ReadAll(resp.Body)
	o := webObs{Status: resp.StatusCode, Location: resp.Header.Get("Location"), BodyLen: len(b)}
	if len(o.Location) > 60 {
		o.Location = o.Location[:60] + "…"
	}
	switch {
	case resp.StatusCode == http.StatusTemporaryRedirect && strings.HasPrefix(resp.Header.Get("Location"), oauthURLPrefix):
		o.Decision = "redirect"
	case resp.StatusCode == http.StatusForbidden || resp.StatusCode == http.StatusUnauthorized:
		o.Decision = "deny"
	case resp.StatusCode == http.StatusOK && len(b) == 0:
		// `if !h.authenticate(resp, req) { return }` without a redirect: empty 200
		o.Decision = "deny"
	default:
		o.Decision = "allow"
		switch {
		case bytes.Contains(b, []byte(secretDim)):
			o.Data = "query result containing the stored dimension value"
		case bytes.Contains(b, []byte("<title>ZenoDB</title>")):
			o.Data = "query UI page"
		case resp.StatusCode == 200 && bytes.HasPrefix(bytes.TrimSpace(b), []byte("{")):
			o.Data = "JSON document"
		case resp.StatusCode == http.StatusCreated:
			o.Data = "insert accepted"
		default:
			o.Data = fmt.Sprintf("status %d", resp.StatusCode)
		}
	}
	return o
}

type webCred struct {
	name   string
	header string // "", "wrong", "right"
	cookie cookieSpec
}

var webCreds = []webCred{
	{"none", "", cookieSpec{Kind: "none"}},
	{"static-token-wrong", "wrong", cookieSpec{Kind: "none"}},
	{"static-token-right", "right", cookieSpec{Kind: "none"}},
	{"cookie-garbage", "", cookieSpec{Kind: "garbage"}},
	{"cookie-sealed-with-other-keys", "", cookieSpec{Kind: "wrongkey", ExpOffset: 3600}},
	{"cookie-sealed-under-other-name", "", cookieSpec{Kind: "wrongname", ExpOffset: 3600}},
	{"cookie-expired-1h-ago", "", cookieSpec{Kind: "sealed", ExpOffset: -3600}},
	{"cookie-expired-1s-ago", "", cookieSpec{Kind: "sealed", ExpOffset: -1}},
	{"cookie-valid-1min", "", cookieSpec{Kind: "sealed", ExpOffset: 60}},
	{"cookie-valid-1h", "", cookieSpec{Kind: "sealed", ExpOffset: 3600}},
	{"static-token-wrong+cookie-valid-1h", "wrong", cookieSpec{Kind: "sealed", ExpOffset: 3600}},
	{"static-token-right+cookie-garbage", "right", cookieSpec{Kind: "garbage"}},
}

func (rn *runner) webLattice(sec secrets) error {
	res := rn.ctx.Res
	type oc struct{ name, id, secret string }
	oauths := []oc{{"unset", "", ""}, {"id-only", sec.ClientID, ""}, {"secret-only", "", sec.Secret}, {"set", sec.ClientID, sec.Secret}}
	for _, o := range oauths {
		for _, static := range []string{sec.Token, ""} {
			cfg := webCfg{o.id, o.secret, static, sec.HashKey, sec.BlockKey}
			we, err := rn.env.webEnvFor(cfg)
			if err != nil {
				res.Note("cannot configure the web handler (oauth %s, static %v): %v", o.name, static != "", err)
				res.Inconclusive++
				continue
			}
			// every route of the real router must be classified by this engine's table;
			// an unknown one is probed without credentials
			for _, tpl := range we.registeredRoutes() {
				if _, ok := webRouteClass[tpl]; !ok {
					c := webCase{Engine: "auth", Op: "web-unclassified-route", Route: tpl, Method: "GET", ClientID: cfg.ClientID, ClientSecret: cfg.ClientSecret,
						Password: cfg.Password, Now: "0", Cred: "none", CookieSpec: cookieSpec{Kind: "none"}, HashKey: cfg.HashKey, BlockKey: cfg.BlockKey}
					rn.probeUnclassified(we, c)
				}
			}
			for _, route := range webRoutes {
				for _, cr := range webCreds {
					c := webCase{Engine: "auth", Op: "web", Route: route, Method: "GET", ClientID: cfg.ClientID, ClientSecret: cfg.ClientSecret,
						Password: cfg.Password, Now: "0", Cred: cr.name, CookieSpec: cr.cookie, HashKey: cfg.HashKey, BlockKey: cfg.BlockKey}
					if route == "/insert/{stream}" {
						c.Method = "POST"
					}
					switch cr.header {
					case "wrong":
						c.Header = "nope-" + sec.Token[len(sec.Token)-4:]
					case "right":
						c.Header = sec.Token
					}
					res.Hit("web-oauth:" + o.name)
					if err := rn.runWeb(we, c); err != nil {
						we.close()
						return err
					}
				}
			}
			we.close()
		}
	}
	return nil
}

func abstractCookie(cs cookieSpec) *modelCookie {
	switch cs.Kind {
	case "", "none":
		return nil
	case "sealed":
		// org membership can never be confirmed here: GitHub is unreachable
		return &modelCookie{Decodes: true, Exp: fmt.Sprint(cs.ExpOffset), Org: false}
	default:
		return &modelCookie{Decodes: false, Exp: fmt.Sprint(cs.ExpOffset), Org: false}
	}
}

func (rn *runner) runWeb(we *webEnv, c webCase) error {
	res := rn.ctx.Res
	idx := rn.next()
	c.Cookie = abstractCookie(c.CookieSpec)
	oauthSet := c.ClientID != "" && c.ClientSecret != ""
	class := webRouteClass[c.Route]
	// specification (credential table): with OAuth configured a data route may be
	// served only for the right static token or a well-sealed, unexpired cookie
	// (organisation re-verification cannot succeed here)
	staticOK := c.Password != "" && c.Header == c.Password
	sessionOK := c.CookieSpec.Kind == "sealed" && c.CookieSpec.ExpOffset > 0
	mustRefuse := oauthSet && class == "data" && !staticOK && !sessionOK
	res.Count(c, oauthSet && class == "data")
	res.Hit("web-route:" + c.Route)
	res.Hit("web-cred:" + c.Cred)
	if c.Password != "" {
		res.Hit("web-config:static-token-set")
	} else {
		res.Hit("web-config:static-token-unset")
	}

	var obs webObs
	for attempt := 0; attempt < 2; attempt++ {
		t0 := time.Now()
		pn := hk.Recover(func() { obs = we.request(c) })
		if d := time.Since(t0); d > 2*time.Second {
			res.Hit("web-slow-case(>2s):" + c.Route + "/" + c.Cred)
		}
		if pn != nil {
			obs = webObs{Err: fmt.Sprintf("panic: %v", pn)}
		}
		if obs.Decision != "" {
			break
		}
	}
	if obs.Decision == "" {
		res.Inconclusive++
		res.Note("web case inconclusive (%s %s): %s", c.Route, c.Cred, obs.Err)
		return nil
	}
	res.Hit("web-observed:" + obs.Decision)
	if obs.Decision == "allow" {
		res.Hit("web-disclosed:" + obs.Data)
	}

	if mustRefuse && obs.Decision == "allow" {
		res.Disagree(hk.Disagreement{Kind: "property", PropertyFails: true, Case: c, Impl: obs,
			Model:  map[string]interface{}{"decision": "redirect or deny"},
			Detail: fmt.Sprintf("web route %s served a request without the static token or a valid unexpired session (%s)", c.Route, c.Cred),
			Index:  idx})
	}
	dec, guarded, branch, err := rn.modelDecision(c)
	if err != nil {
		return err
	}
	if rn.ctx.Model == nil {
		return nil
	}
	res.Hit("web-model-branch:" + branch)
	if dec != obs.Decision {
		res.Disagree(hk.Disagreement{Kind: "model-vs-impl", Case: c, Impl: obs,
			Model:  map[string]interface{}{"decision": dec, "guarded": guarded, "branch": branch},
			Detail: fmt.Sprintf("web %s decision", c.Route), Index: idx})
	}
	return nil
}

// probeUnclassified requests a route this engine has no classification for, without
// credentials: it is reported in any case (the tie no longer covers the router), and
// as a property failure when OAuth is configured and it answers with anything but a
// refusal.
func (rn *runner) probeUnclassified(we *webEnv, c webCase) {
	res := rn.ctx.Res
	idx := rn.next()
	res.Count(c, true)
	res.Hit("web-unclassified-route")
	obs := we.request(c)
	oauthSet := c.ClientID != "" && c.ClientSecret != ""
	if oauthSet && obs.Decision == "allow" {
		res.Disagree(hk.Disagreement{Kind: "property", PropertyFails: true, Case: c, Impl: obs,
			Model:  map[string]interface{}{"decision": "redirect or deny"},
			Detail: fmt.Sprintf("web route %s is not classified as public and answers a request without credentials", c.Route), Index: idx})
		return
	}
	res.Disagree(hk.Disagreement{Kind: "model-vs-impl", Case: c, Impl: obs,
		Detail: fmt.Sprintf("web route %s is registered but not classified (data/public) by the engine", c.Route), Index: idx})
}
