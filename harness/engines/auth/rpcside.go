package auth

import (
	"context"
	"fmt"
	"net"
	"os"
	"strings"
	"sync"
	"time"

	"github.com/getlantern/bytemap"
	"github.com/getlantern/wal"
	"github.com/getlantern/zenodb"
	"github.com/getlantern/zenodb/common"
	"github.com/getlantern/zenodb/core"
	"github.com/getlantern/zenodb/planner"
	"github.com/getlantern/zenodb/rpc"
	rpcserver "github.com/getlantern/zenodb/rpc/server"
	"google.golang.org/grpc/metadata"

	"zvh/hk"
)

const (
	secretDim   = "zvh-secret-dim-value" // a dimension value stored in the embedded database
	querySQL    = "SELECT * FROM t"
	remoteSQL   = "SELECT zvh_confidential_query_text FROM t"
	followBytes = "zvh-confidential-wal-entry"
	callTimeout = 15 * time.Second
)

// env is the embedded zenodb shared by all cases of a run.
type env struct {
	dir string
	db  *zenodb.DB
	// primed web cache (see webside.go)
	primedCache string
	permalink   string
}

func newEnv() (*env, error) {
	dir, err := os.MkdirTemp("", "zvh-auth-*")
	if err != nil {
		return nil, err
	}
	db, err := zenodb.NewDB(&zenodb.DBOpts{Dir: dir + "/db", IterationCoalesceInterval: time.Millisecond})
	if err != nil {
		os.RemoveAll(dir)
		return nil, err
	}
	e := &env{dir: dir, db: db}
	if err := db.CreateTable(&zenodb.TableOpts{
		Name: "t", RetentionPeriod: 24 * time.Hour, MaxFlushLatency: time.Millisecond,
		SQL: "SELECT SUM(v) AS v FROM inbound GROUP BY d, period(1h)",
	}); err != nil {
		e.close()
		return nil, err
	}
	if err := db.Insert("inbound", time.Now().Add(-2*time.Minute), map[string]interface{}{"d": secretDim}, map[string]interface{}{"v": 42.0}); err != nil {
		e.close()
		return nil, err
	}
	// inserts are applied asynchronously: wait until the row is queryable from disk
	// (the web API queries without the memstore)
	deadline := time.Now().Add(20 * time.Second)
	for {
		db.FlushAll()
		n, err := e.countRows(false)
		if err == nil && n > 0 {
			break
		}
		if time.Now().After(deadline) {
			e.close()
			return nil, fmt.Errorf("inserted row did not become queryable (rows=%d err=%v)", n, err)
		}
		time.Sleep(100 * time.Millisecond)
	}
	return e, nil
}

func (e *env) countRows(includeMem bool) (int, error) {
	src, err := e.db.Query(querySQL, false, nil, includeMem)
	if err != nil {
		return 0, err
	}
	n := 0
	ctx, cancel := context.WithTimeout(context.Background(), 10*time.Second)
	defer cancel()
	_, err = src.Iterate(ctx, func(core.Fields) error { return nil }, func(*core.FlatRow) (bool, error) {
		n++
		return true, nil
	})
	return n, err
}

func (e *env) close() {
	done := make(chan struct{})
	go func() { e.db.Close(); close(done) }()
	select {
	case <-done:
	case <-time.After(10 * time.Second):
	}
	os.RemoveAll(e.dir)
}

// recDB sits behind the rpcserver.DB interface: Query and InsertRaw go to the real
// embedded zenodb; Follow and RegisterQueryHandler (which on a real node need a
// passthrough leader with a WAL and never return) are answered by a stand-in that
// discloses one marker entry / sends one marker query, so that what an unauthorized
// client would learn is observable at the client.  Every call is recorded: "refused"
// must mean that none of them happened.
type recDB struct {
	real *zenodb.DB
	mu   sync.Mutex
	log  []string
	// what the registered remote-query handler returned to the server side
	injectedRows int
	regDone      chan struct{}
}

func (d *recDB) touch(what string) {
	d.mu.Lock()
	d.log = append(d.log, what)
	d.mu.Unlock()
}

func (d *recDB) touched() []string {
	d.mu.Lock()
	defer d.mu.Unlock()
	return append([]string{}, d.log...)
}

func (d *recDB) InsertRaw(stream string, ts time.Time, dims bytemap.ByteMap, vals bytemap.ByteMap) error {
	d.touch("InsertRaw")
	return d.real.InsertRaw(stream, ts, dims, vals)
}

func (d *recDB) Query(sqlString string, isSubQuery bool, subQueryResults [][]interface{}, includeMemStore bool) (core.FlatRowSource, error) {
	d.touch("Query")
	return d.real.Query(sqlString, isSubQuery, subQueryResults, includeMemStore)
}

func (d *recDB) Follow(f *common.Follow, cb func([]byte, wal.Offset) error) {
	d.touch("Follow")
	cb([]byte(followBytes), wal.NewOffset(1, 1))
}

func (d *recDB) RegisterQueryHandler(partition int, query planner.QueryClusterFN) {
	d.touch("RegisterQueryHandler")
	go func() {
		defer close(d.regDone)
		ctx, cancel := context.WithTimeout(context.Background(), callTimeout)
		defer cancel()
		// what the leader does with a registered handler: send it a query, take its rows
		query(ctx, remoteSQL, false, nil, false,
			func(core.Fields) error { return nil },
			nil,
			func(row *core.FlatRow) (bool, error) {
				d.mu.Lock()
				d.injectedRows++
				d.mu.Unlock()
				return true, nil
			})
	}()
}

// ---------------------------------------------------------------- cases

type mdEntry struct {
	K string   `json:"k"`
	V []string `json:"v"`
}

// rpcCase is the canonical case and, with engine/op, the model request.
type rpcCase struct {
	Engine   string    `json:"engine"`
	Op       string    `json:"op"`
	Handler  string    `json:"handler"`
	Password string    `json:"password"` // server's configured password, "" = none
	HasMd    bool      `json:"hasMd"`
	Md       []mdEntry `json:"md"`   // what the client puts in the gRPC metadata
	Cred     string    `json:"cred"` // label of the credential
	Via      string    `json:"via"`  // "clientopts": rpc.ClientOpts.Password; "ctx": outgoing metadata
}

var rpcHandlers = []string{"Query", "Follow", "HandleRemoteQueries", "Insert"}

// streams registered in rpc.ServiceDesc and the handler method each one reaches
var rpcStreams = map[string]string{"query": "Query", "follow": "Follow", "remoteQuery": "HandleRemoteQueries", "insert": "Insert"}

// the property's specification, independent of the model: RPCs that disclose stored
// data or query traffic
var rpcDisclosing = map[string]bool{"Query": true, "Follow": true, "HandleRemoteQueries": true, "Insert": false}

func rpcCreds(right string) []rpcCase {
	wrong := "nope-" + right[len(right)-4:]
	return []rpcCase{
		{Cred: "none", Via: "ctx", Md: []mdEntry{}},
		{Cred: "empty", Via: "ctx", Md: []mdEntry{{rpc.PasswordKey, []string{""}}}},
		{Cred: "wrong", Via: "ctx", Md: []mdEntry{{rpc.PasswordKey, []string{wrong}}}},
		{Cred: "right-upper-cased", Via: "ctx", Md: []mdEntry{{rpc.PasswordKey, []string{strings.ToUpper(right)}}}},
		{Cred: "right-under-other-key", Via: "ctx", Md: []mdEntry{{"password", []string{right}}}},
		{Cred: "two-wrong", Via: "ctx", Md: []mdEntry{{rpc.PasswordKey, []string{wrong, right + "x"}}}},
		{Cred: "right", Via: "clientopts", Md: []mdEntry{{rpc.PasswordKey, []string{right}}}},
		{Cred: "wrong-then-right", Via: "ctx", Md: []mdEntry{{rpc.PasswordKey, []string{wrong, right}}}},
	}
}

func (rn *runner) rpcLattice(sec secrets) error {
	// the stream table of the real service must be the one this engine enumerates
	for _, sd := range rpc.ServiceDesc.Streams {
		if _, ok := rpcStreams[sd.StreamName]; !ok {
			rn.ctx.Res.Disagree(hk.Disagreement{Kind: "model-vs-impl", Case: map[string]interface{}{"op": "rpc-stream-table", "stream": sd.StreamName},
				Detail: "rpc.ServiceDesc registers a stream the model does not know", Index: rn.next()})
		}
	}
	for _, configured := range []string{sec.Password, ""} {
		for _, h := range rpcHandlers {
			for _, c := range rpcCreds(sec.Password) {
				c.Engine, c.Op, c.Handler, c.Password, c.HasMd = "auth", "rpc", h, configured, true
				if err := rn.runRPC(c); err != nil {
					return err
				}
			}
		}
	}
	return nil
}

type rpcObs struct {
	Decision  string   `json:"decision"` // "allow" (handler body ran) | "refuse" (authorization error) | "" inconclusive
	DBCalls   []string `json:"dbCalls"`
	Disclosed string   `json:"disclosed,omitempty"` // what the client got to see
	Err       string   `json:"err,omitempty"`
}

func isAuthErr(err error) bool {
	if err == nil {
		return false
	}
	s := err.Error()
	return strings.Contains(s, "not authorized") || strings.Contains(s, "unable to authenticate")
}

// callRPC starts a fresh server with the case's password, performs the call with the
// real client and reports what happened.
func (rn *runner) callRPC(c rpcCase) (obs rpcObs) {
	l, err := net.Listen("tcp", "127.0.0.1:0")
	if err != nil {
		return rpcObs{Err: "listen: " + err.Error()}
	}
	defer l.Close()
	db := &recDB{real: rn.env.db, regDone: make(chan struct{})}
	serve, stop := rpcserver.PrepareServer(db, l, &rpcserver.Opts{ID: 7, Password: c.Password})
	go serve()
	defer stop()

	opts := &rpc.ClientOpts{}
	ctx, cancel := context.WithTimeout(context.Background(), callTimeout)
	defer cancel()
	if c.Via == "clientopts" {
		// the real client's own way of presenting a password
		for _, e := range c.Md {
			if e.K == rpc.PasswordKey && len(e.V) == 1 {
				opts.Password = e.V[0]
			}
		}
	} else if len(c.Md) > 0 {
		md := metadata.MD{}
		for _, e := range c.Md {
			md[e.K] = append(md[e.K], e.V...)
		}
		ctx = metadata.NewOutgoingContext(ctx, md)
	}
	client, err := rpc.Dial(l.Addr().String(), opts)
	if err != nil {
		return rpcObs{Err: "dial: " + err.Error()}
	}
	defer client.Close()

	var callErr error
	served := false
	switch c.Handler {
	case "Query":
		md, iterate, err := client.Query(ctx, querySQL, true)
		callErr = err
		if err == nil && md != nil {
			served = true
			rows := 0
			sawSecret := false
			_, ierr := iterate(func(row *core.FlatRow) (bool, error) {
				rows++
				if v, ok := row.Key.AsMap()["d"]; ok && fmt.Sprint(v) == secretDim {
					sawSecret = true
				}
				return true, nil
			})
			obs.Disclosed = fmt.Sprintf("fields=%v rows=%d secretDimSeen=%v", md.FieldNames, rows, sawSecret)
			if ierr != nil {
				obs.Disclosed += " iterateErr=" + ierr.Error()
			}
		}
	case "Follow":
		src, next, err := client.Follow(ctx, &common.Follow{FollowerID: common.FollowerID{Partition: 0, ID: 1}, Stream: "inbound"})
		callErr = err
		if err == nil {
			served = true
			data, _, nerr := next()
			obs.Disclosed = fmt.Sprintf("sourceID=%d entry=%q", src, string(data))
			if nerr != nil {
				obs.Disclosed += " nextErr=" + nerr.Error()
			}
		}
	case "HandleRemoteQueries":
		gotSQL := ""
		var mu sync.Mutex
		err := client.ProcessRemoteQuery(ctx, 0, func(qctx context.Context, sqlString string, isSubQuery bool, subQueryResults [][]interface{}, unflat bool, onFields core.OnFields, onRow core.OnRow, onFlatRow core.OnFlatRow) (interface{}, error) {
			mu.Lock()
			gotSQL = sqlString
			mu.Unlock()
			// a rogue handler answers with a made-up row
			onFields(core.Fields{})
			if onFlatRow != nil {
				onFlatRow(&core.FlatRow{TS: 1, Key: bytemap.New(map[string]interface{}{"d": "forged"}), Values: []float64{666}})
			}
			return nil, nil
		}, 8*time.Second)
		callErr = err
		mu.Lock()
		sql := gotSQL
		mu.Unlock()
		if sql != "" {
			served = true
			select {
			case <-db.regDone:
			case <-time.After(5 * time.Second):
			}
			db.mu.Lock()
			inj := db.injectedRows
			db.mu.Unlock()
			obs.Disclosed = fmt.Sprintf("query text received=%q forgedRowsAccepted=%d", sql, inj)
		}
	case "Insert":
		ins, err := client.NewInserter(ctx, "inbound")
		callErr = err
		if err == nil {
			err = ins.Insert(time.Now(), map[string]interface{}{"d": "by-rpc"}, func(cb func(string, interface{})) { cb("v", 1.0) })
			callErr = err
			if err == nil {
				report, cerr := ins.Close()
				callErr = cerr
				if cerr == nil && report != nil {
					served = report.Succeeded == 1
					obs.Disclosed = fmt.Sprintf("received=%d succeeded=%d", report.Received, report.Succeeded)
				}
			}
		}
	default:
		return rpcObs{Err: "unknown handler " + c.Handler}
	}
	obs.DBCalls = db.touched()
	if obs.DBCalls == nil {
		obs.DBCalls = []string{}
	}
	if callErr != nil {
		obs.Err = callErr.Error()
	}
	switch {
	case served:
		obs.Decision = "allow"
	case isAuthErr(callErr):
		obs.Decision = "refuse"
	default:
		obs.Decision = "" // neither: infrastructure (timeout, connection) — never a verdict
	}
	return obs
}

func (rn *runner) runRPC(c rpcCase) error {
	res := rn.ctx.Res
	idx := rn.next()
	presented := []string{}
	for _, e := range c.Md {
		if e.K == rpc.PasswordKey {
			presented = append(presented, e.V...)
		}
	}
	hasRight := false
	for _, p := range presented {
		if p == c.Password {
			hasRight = true
		}
	}
	mustRefuse := rpcDisclosing[c.Handler] && c.Password != "" && !hasRight
	res.Count(c, c.Password != "" && rpcDisclosing[c.Handler])
	res.Hit("rpc:" + c.Handler)
	res.Hit("rpc-cred:" + c.Cred)
	if c.Password == "" {
		res.Hit("rpc-config:password-unset")
	} else {
		res.Hit("rpc-config:password-set")
	}

	var obs rpcObs
	for attempt := 0; attempt < 2; attempt++ {
		t0 := time.Now()
		pn := hk.Recover(func() { obs = rn.callRPC(c) })
		if d := time.Since(t0); d > 2*time.Second {
			res.Hit("rpc-slow-case(>2s):" + c.Handler + "/" + c.Cred)
		}
		if pn != nil {
			obs = rpcObs{Err: fmt.Sprintf("panic: %v", pn)}
		}
		if obs.Decision != "" {
			break
		}
	}
	if obs.Decision == "" {
		res.Inconclusive++
		res.Note("rpc case inconclusive (%s/%s/password %v): %s", c.Handler, c.Cred, c.Password != "", obs.Err)
		return nil
	}
	res.Hit("rpc-observed:" + obs.Decision)
	if obs.Decision == "allow" && strings.Contains(obs.Disclosed, "secretDimSeen=true") {
		res.Hit("rpc-disclosed:stored-rows")
	} else if obs.Decision == "allow" && strings.Contains(obs.Disclosed, followBytes) {
		res.Hit("rpc-disclosed:wal-entry")
	} else if obs.Decision == "allow" && strings.Contains(obs.Disclosed, remoteSQL) {
		res.Hit("rpc-disclosed:query-text")
	}

	// property oracle, implementation only
	if mustRefuse && (obs.Decision == "allow" || len(obs.DBCalls) > 0) {
		res.Disagree(hk.Disagreement{Kind: "property", PropertyFails: true, Case: c, Impl: obs,
			Model:  map[string]interface{}{"decision": "refuse", "dbCalls": []string{}},
			Detail: fmt.Sprintf("rpc %s served (or reached the database) although a password is configured and was not presented", c.Handler),
			Index:  idx})
	}

	dec, guarded, branch, err := rn.modelDecision(c)
	if err != nil {
		return err
	}
	if rn.ctx.Model == nil {
		return nil
	}
	res.Hit("rpc-model-branch:" + branch)
	model := map[string]interface{}{"decision": dec, "guarded": guarded, "branch": branch}
	if dec != obs.Decision {
		res.Disagree(hk.Disagreement{Kind: "model-vs-impl", Case: c, Impl: obs, Model: model,
			Detail: fmt.Sprintf("rpc %s decision", c.Handler), Index: idx})
	} else if dec == "refuse" && len(obs.DBCalls) > 0 {
		res.Disagree(hk.Disagreement{Kind: "model-vs-impl", Case: c, Impl: obs, Model: model,
			Detail: fmt.Sprintf("rpc %s refused only after touching the database", c.Handler), Index: idx})
	}
	return nil
}
