package auth

// Stateful credential flows (mode "seq"): request SEQUENCES against the real web handler
// with a stubbed identity provider.
//
// What a single request cannot show is a credential that the server hands out in one
// response and accepts in a later one.  A sequence is 2–5 steps; every step is a data
// request or an OAuth callback, advances a virtual clock, scripts what GitHub answers
// during that request (token exchange: token / error reply without token / garbage /
// unreachable; organisation list: in org / not in org / HTTP error / garbage /
// unreachable — so membership can be revoked or GitHub can fail between two steps), and
// draws its credential from: nothing, the static token, a forged cookie, a session the
// harness vouches for as issued earlier (initial state), or ANYTHING an earlier response
// of the same sequence returned — the `Set-Cookie: authcookie` of any response (served,
// refused, redirected, failed) and the xsrf `state` of any redirect.
//
// GitHub is stubbed by replacing http.DefaultTransport (the handler's http.Client has no
// transport of its own); requests to other hosts pass through.  The clock is virtual: the
// server keeps no session table (the cookie IS the session), so "t seconds later" is
// presenting the same sealed AuthData / xsrf token with its timestamp moved back by t
// (re-sealed with the Opts keys); with no time in between the returned bytes are replayed
// verbatim.
//
// Indices 0 .. nSeqExhaustive-1 enumerate ALL two-step sequences over a reduced alphabet;
// larger indices are random sequences from hk.Derive(seed, index).
//
// Oracle (implementation only): a ghost record of which cookies are legitimate — those of
// the initial state and those set by a response that (a) asked GitHub during that very
// request and got "in org" and (b) is itself an authorised response (served / logged in).
// A Set-Cookie on any other response, and a served data route whose credential is neither
// the static token nor a legitimate cookie that is unexpired or was re-verified during the
// request, is a property failure; the replay is the shrunk sequence (when only the
// issuing is seen, the engine appends the step that replays the cookie to show it served).

import (
	"encoding/json"
	"fmt"
	"io"
	"net/http"
	"net/url"
	"strings"
	"sync"
	"time"

	"github.com/getlantern/zenodb/web"
	"github.com/gorilla/securecookie"

	"zvh/hk"
)

const (
	gitHubOrg      = "zvh-org"
	xsrfCookieName = "xsrftoken" // web/auth.go const xsrftoken
	sessionSeconds = 3600        // web/auth.go sessionTimeout
	xsrfSeconds    = 60          // requestAuthorization: 1 minute
)

// ---------------------------------------------------------------- identity provider stub

type tokenAns struct {
	Kind      string `json:"kind"` // token | noToken | garbage | unreachable
	Principal int    `json:"principal"`
	Variant   int    `json:"variant,omitempty"`
}

type idpCall struct {
	Endpoint  string // "token" | "orgs"
	Principal int    // orgs: principal of the presented access token (-1 unknown)
	Answer    string
}

type idpStub struct {
	mu      sync.Mutex
	next    http.RoundTripper
	token   tokenAns
	org     string
	variant int
	calls   []idpCall
}

var (
	theStub     *idpStub
	installStub sync.Once
)

// stub installs (once) the GitHub stand-in; until a step scripts something else GitHub is
// unreachable, which is what the single-request lattice assumes.
func stub() *idpStub {
	installStub.Do(func() {
		theStub = &idpStub{next: http.DefaultTransport, token: tokenAns{Kind: "unreachable"}, org: "unreachable"}
		http.DefaultTransport = theStub
	})
	return theStub
}

func (s *idpStub) script(t tokenAns, org string, variant int) {
	s.mu.Lock()
	s.token, s.org, s.variant, s.calls = t, org, variant, nil
	s.mu.Unlock()
}

func (s *idpStub) taken() []idpCall {
	s.mu.Lock()
	defer s.mu.Unlock()
	out := s.calls
	s.calls = nil
	s.token, s.org = tokenAns{Kind: "unreachable"}, "unreachable"
	return out
}

func tokenString(p int) string {
	if p == 0 {
		return ""
	}
	return fmt.Sprintf("gho_zvh_%d", p)
}

func principalOf(tok string) int {
	if tok == "" {
		return 0
	}
	var p int
	if _, err := fmt.Sscanf(tok, "gho_zvh_%d", &p); err != nil {
		return -1
	}
	return p
}

func reply(req *http.Request, status int, body string) *http.Response {
	return &http.Response{StatusCode: status, Status: fmt.Sprintf("%d %s", status, http.StatusText(status)),
		Proto: "HTTP/1.1", ProtoMajor: 1, ProtoMinor: 1, Header: http.Header{"Content-Type": []string{"application/json"}},
		Body: io.NopCloser(strings.NewReader(body)), ContentLength: int64(len(body)), Request: req}
}

func (s *idpStub) RoundTrip(req *http.Request) (*http.Response, error) {
	host := req.URL.Hostname()
	if host != "github.com" && host != "api.github.com" {
		return s.next.RoundTrip(req)
	}
	s.mu.Lock()
	defer s.mu.Unlock()
	switch {
	case host == "github.com" && req.URL.Path == "/login/oauth/access_token":
		s.calls = append(s.calls, idpCall{Endpoint: "token", Principal: -1, Answer: s.token.Kind})
		switch s.token.Kind {
		case "token":
			return reply(req, 200, fmt.Sprintf(`{"access_token":%q,"token_type":"bearer","scope":"read:org"}`, tokenString(s.token.Principal))), nil
		case "noToken":
			// GitHub's reply to a bad code: HTTP 200 and an error document
			return reply(req, 200, `{"error":"bad_verification_code","error_description":"The code passed is incorrect or expired.","error_uri":"https://docs.github.com/"}`), nil
		case "garbage":
			if s.token.Variant%2 == 0 {
				return reply(req, 200, `{"access_token":12345,"scope":["read:org"]}`), nil
			}
			return reply(req, 502, `<html>bad gateway</html>`), nil
		}
		if s.token.Variant%2 == 0 {
			return nil, fmt.Errorf("dial tcp: lookup github.com: no such host (zvh stub)")
		}
		return nil, fmt.Errorf("net/http: timeout awaiting response headers (zvh stub)")
	case host == "api.github.com" && req.URL.Path == "/user/orgs":
		p := principalOf(strings.TrimPrefix(req.Header.Get("Authorization"), "token "))
		s.calls = append(s.calls, idpCall{Endpoint: "orgs", Principal: p, Answer: s.org})
		switch s.org {
		case "inOrg":
			return reply(req, 200, `[{"login":"some-other-org","id":1},{"login":"`+gitHubOrg+`","id":2}]`), nil
		case "notInOrg":
			if s.variant%2 == 0 {
				return reply(req, 200, `[{"login":"some-other-org","id":1}]`), nil
			}
			return reply(req, 200, `[]`), nil
		case "httpError":
			switch s.variant % 3 {
			case 0:
				return reply(req, 401, `{"message":"Bad credentials"}`), nil
			case 1:
				return reply(req, 403, `{"message":"API rate limit exceeded"}`), nil
			}
			return reply(req, 500, `{"message":"Server Error"}`), nil
		case "garbage":
			return reply(req, 200, `{"message":"this is not a list"}`), nil
		}
		if s.variant%2 == 0 {
			return nil, fmt.Errorf("dial tcp: lookup api.github.com: no such host (zvh stub)")
		}
		return nil, fmt.Errorf("net/http: timeout awaiting response headers (zvh stub)")
	}
	s.calls = append(s.calls, idpCall{Endpoint: "unexpected:" + req.URL.String(), Principal: -1})
	return nil, fmt.Errorf("zvh stub: unexpected GitHub request %s", req.URL)
}

// ---------------------------------------------------------------- cases

type seqSession struct {
	Principal int   `json:"principal"`
	Exp       int64 `json:"exp"` // virtual seconds
}

// credRef says where a step takes its cookie / xsrf state from.
//
//	cookie: none | forged | pre (Idx into Init) | resp (Set-Cookie of step Idx) | latest (most recent Set-Cookie)
//	state : none | garbage | minted (sealed by the harness, valid) | stale (sealed, expired) | resp | latest (state of a redirect)
type credRef struct {
	Kind string `json:"kind"`
	Idx  int    `json:"idx,omitempty"`
}

type seqStep struct {
	Advance    int64    `json:"advance"` // virtual seconds that pass before this step
	Target     string   `json:"target"`  // data | callback
	Route      string   `json:"route,omitempty"`
	Header     string   `json:"header"`
	Cookie     credRef  `json:"cookie"`
	State      credRef  `json:"state"`
	Token      tokenAns `json:"token"`
	Org        string   `json:"org"`
	OrgVariant int      `json:"orgVariant,omitempty"`
}

type seqCase struct {
	Engine       string       `json:"engine"`
	Op           string       `json:"op"`
	ClientID     string       `json:"clientID"`
	ClientSecret string       `json:"clientSecret"`
	Password     string       `json:"password"`
	HashKey      string       `json:"hashKey"`
	BlockKey     string       `json:"blockKey"`
	Init         []seqSession `json:"init"`
	Steps        []seqStep    `json:"steps"`
}

func (c seqCase) webCfg() webCfg {
	return webCfg{c.ClientID, c.ClientSecret, c.Password, c.HashKey, c.BlockKey}
}

// what the model is asked (one entry per step, credentials resolved)
type modelCookieCred struct {
	Kind string `json:"kind"`
	ID   int    `json:"id"`
}
type modelStep struct {
	Target  string          `json:"target"`
	Route   string          `json:"route"`
	Header  string          `json:"header"`
	Cookie  modelCookieCred `json:"cookie"`
	Now     string          `json:"now"`
	StateOk bool            `json:"stateOk"`
	Token   tokenAns        `json:"token"`
	Org     string          `json:"org"`
}
type modelSession struct {
	Principal int    `json:"principal"`
	Exp       string `json:"exp"`
	Verified  bool   `json:"verified"`
}

type setCookieObs struct {
	Principal int   `json:"principal"`
	Exp       int64 `json:"exp"` // virtual seconds
}

type stepObs struct {
	Outcome    string        `json:"outcome"` // served | deny | redirect | loggedIn | nothing | other
	Status     int           `json:"status"`
	SetCookie  *setCookieObs `json:"setCookie"`
	AskedToken bool          `json:"askedToken"`
	AskedOrgs  *int          `json:"askedOrgs"`
	Data       string        `json:"data,omitempty"`
	Err        string        `json:"err,omitempty"`
}

type propFail struct {
	step   int
	kind   string // "served" | "issue"
	detail string
}

// an artifact handed out by the server during the sequence
type artifact struct {
	raw     string
	token   string
	exp     time.Time // as stamped by the server (real clock)
	vIssue  int64
	legit   bool
	modelID int
	expV    int64
}

type seqResult struct {
	obs     []stepObs
	model   []modelStep
	fails   []propFail
	infra   string
	touched bool // some step used something an earlier response returned, or hit the re-check
}

// ---------------------------------------------------------------- running one sequence

func (rn *runner) seqEnv(cfg webCfg) (*webEnv, error) {
	if rn.webEnvs == nil {
		rn.webEnvs = map[webCfg]*webEnv{}
	}
	if we := rn.webEnvs[cfg]; we != nil {
		return we, nil
	}
	we, err := rn.env.webEnvFor(cfg)
	if err != nil {
		return nil, err
	}
	rn.webEnvs[cfg] = we
	return we, nil
}

func (rn *runner) closeSeqEnvs() {
	for _, we := range rn.webEnvs {
		we.close()
	}
	rn.webEnvs = nil
}

func (we *webEnv) seal(name string, v interface{}) string {
	s, err := we.sc.Encode(name, v)
	if err != nil {
		return "seal-error"
	}
	return s
}

func classify(target string, resp *http.Response, body []byte) (string, string) {
	loc := resp.Header.Get("Location")
	switch {
	case resp.StatusCode == http.StatusTemporaryRedirect && strings.HasPrefix(loc, oauthURLPrefix):
		return "redirect", ""
	case target == "callback" && resp.StatusCode == http.StatusTemporaryRedirect && loc == "/":
		return "loggedIn", ""
	case target == "callback" && resp.StatusCode == http.StatusOK && len(body) == 0:
		return "nothing", ""
	case target == "callback":
		return "other", fmt.Sprintf("status %d", resp.StatusCode)
	case resp.StatusCode == http.StatusForbidden || resp.StatusCode == http.StatusUnauthorized:
		return "deny", ""
	case resp.StatusCode == http.StatusOK && len(body) == 0:
		return "deny", ""
	}
	switch {
	case strings.Contains(string(body), secretDim):
		return "served", "query result containing the stored dimension value"
	case strings.Contains(string(body), "<title>ZenoDB</title>"):
		return "served", "query UI page"
	case resp.StatusCode == 200:
		return "served", "document"
	}
	return "served", fmt.Sprintf("status %d", resp.StatusCode)
}

// runSeq executes the sequence against the real handler and evaluates the oracle.
func (rn *runner) runSeq(c seqCase) seqResult {
	var out seqResult
	we, err := rn.seqEnv(c.webCfg())
	if err != nil {
		out.infra = "configure: " + err.Error()
		return out
	}
	st := stub()
	oauthSet := c.ClientID != "" && c.ClientSecret != ""
	var V int64
	cookies := map[int]*artifact{} // by step
	states := map[int]*artifact{}
	latestCookie, latestState := -1, -1
	issued := len(c.Init)
	for k, s := range c.Steps {
		V += s.Advance
		now := time.Now()
		ms := modelStep{Target: s.Target, Route: s.Route, Header: s.Header, Now: fmt.Sprint(V), Token: s.Token, Org: s.Org,
			Cookie: modelCookieCred{Kind: "none"}}
		if ms.Token.Kind == "" {
			ms.Token.Kind = "unreachable"
		}
		ms.Token.Variant = 0
		var cookieVal string
		var presented *artifact // server-issued cookie presented
		preIdx := -1
		switch s.Cookie.Kind {
		case "forged":
			if s.Cookie.Idx%2 == 0 {
				cookieVal = "Z2FyYmFnZS1ub3QtYS1zZWN1cmVjb29raWU"
			} else {
				cookieVal, _ = securecookie.New([]byte(otherKey(c.HashKey)), []byte(otherKey(c.BlockKey))).Encode(authCookieName,
					&web.AuthData{AccessToken: tokenString(1), Expiration: now.Add(time.Hour)})
			}
			ms.Cookie = modelCookieCred{Kind: "forged"}
		case "pre":
			if s.Cookie.Idx >= 0 && s.Cookie.Idx < len(c.Init) {
				in := c.Init[s.Cookie.Idx]
				preIdx = s.Cookie.Idx
				cookieVal = we.seal(authCookieName, &web.AuthData{AccessToken: tokenString(in.Principal), Expiration: now.Add(time.Duration(in.Exp-V) * time.Second)})
				ms.Cookie = modelCookieCred{Kind: "issued", ID: s.Cookie.Idx}
			}
		case "resp", "latest":
			j := s.Cookie.Idx
			if s.Cookie.Kind == "latest" {
				j = latestCookie
			}
			if a := cookies[j]; a != nil && j < k {
				presented = a
				out.touched = true
				if V == a.vIssue {
					cookieVal = a.raw // the very bytes of the Set-Cookie
				} else {
					cookieVal = we.seal(authCookieName, &web.AuthData{AccessToken: a.token, Expiration: a.exp.Add(time.Duration(a.vIssue-V) * time.Second)})
				}
				ms.Cookie = modelCookieCred{Kind: "issued", ID: a.modelID}
			}
		}
		path := ""
		if s.Target == "callback" {
			q := url.Values{"code": []string{"zvh-code"}}
			switch s.State.Kind {
			case "garbage":
				q.Set("state", "not-a-sealed-token")
			case "minted":
				q.Set("state", we.seal(xsrfCookieName, now.Add(xsrfSeconds*time.Second)))
				ms.StateOk = true
			case "stale":
				q.Set("state", we.seal(xsrfCookieName, now.Add(-xsrfSeconds*time.Second)))
			case "resp", "latest":
				j := s.State.Idx
				if s.State.Kind == "latest" {
					j = latestState
				}
				if a := states[j]; a != nil && j < k {
					out.touched = true
					if V == a.vIssue {
						q.Set("state", a.raw)
					} else {
						q.Set("state", we.seal(xsrfCookieName, a.exp.Add(time.Duration(a.vIssue-V)*time.Second)))
					}
					ms.StateOk = V-a.vIssue < xsrfSeconds
				}
			}
			path = "/oauth/code?" + q.Encode()
			ms.Route = ""
		} else {
			path = concretePath(we, s.Route)
		}
		out.model = append(out.model, ms)

		req, err := http.NewRequest("GET", we.srv.URL+path, nil)
		if err != nil {
			out.infra = err.Error()
			return out
		}
		if s.Header != "" {
			req.Header.Set(authHeaderName, s.Header)
		}
		if cookieVal != "" {
			req.AddCookie(&http.Cookie{Name: authCookieName, Value: cookieVal})
		}
		st.script(s.Token, s.Org, s.OrgVariant)
		resp, err := we.client.Do(req)
		calls := st.taken()
		if err != nil {
			out.infra = fmt.Sprintf("step %d: %v", k, err)
			return out
		}
		body, _ := io.ReadAll(resp.Body)
		resp.Body.Close()
		o := stepObs{Status: resp.StatusCode}
		o.Outcome, o.Data = classify(s.Target, resp, body)
		saidInOrg := false
		for _, cl := range calls {
			switch cl.Endpoint {
			case "token":
				o.AskedToken = true
			case "orgs":
				p := cl.Principal
				o.AskedOrgs = &p
				if cl.Answer == "inOrg" {
					saidInOrg = true
				}
				out.touched = out.touched || s.Target == "data"
			default:
				o.Err = cl.Endpoint
			}
		}
		// what the response hands out
		for _, ck := range resp.Cookies() {
			if ck.Name != authCookieName {
				continue
			}
			ad := &web.AuthData{}
			a := &artifact{raw: ck.Value, vIssue: V, modelID: issued}
			issued++
			if derr := we.sc.Decode(authCookieName, ck.Value, ad); derr == nil {
				a.token, a.exp = ad.AccessToken, ad.Expiration
				a.expV = V + int64(ad.Expiration.Sub(now).Round(time.Second)/time.Second)
				o.SetCookie = &setCookieObs{Principal: principalOf(ad.AccessToken), Exp: a.expV}
			} else {
				o.SetCookie = &setCookieObs{Principal: -1}
				o.Err = "Set-Cookie does not decode: " + derr.Error()
			}
			a.legit = saidInOrg && (o.Outcome == "served" || o.Outcome == "loggedIn")
			cookies[k] = a
			latestCookie = k
			if !a.legit {
				out.fails = append(out.fails, propFail{k, "issue", fmt.Sprintf(
					"step %d: a %s response (GitHub said %q during the request) set a session cookie for principal %d", k, o.Outcome, answerOf(calls), principalOf(a.token))})
			}
		}
		if o.Outcome == "redirect" {
			if u, perr := url.Parse(resp.Header.Get("Location")); perr == nil {
				if sv := u.Query().Get("state"); sv != "" {
					var exp time.Time
					if we.sc.Decode(xsrfCookieName, sv, &exp) == nil {
						states[k] = &artifact{raw: sv, exp: exp, vIssue: V}
						latestState = k
					}
				}
			}
		}
		// served data must be explained
		if s.Target == "data" && oauthSet && webRouteClass[s.Route] == "data" && o.Outcome == "served" {
			explained := c.Password != "" && s.Header == c.Password
			if !explained && presented != nil && presented.legit && (V < presented.expV || saidInOrg) {
				explained = true
			}
			if !explained && preIdx >= 0 && (V < c.Init[preIdx].Exp || saidInOrg) {
				explained = true
			}
			if !explained {
				what := "no credential"
				if presented != nil {
					what = fmt.Sprintf("the cookie that the %s response of step %d handed out", out.obs[presentedStep(cookies, presented)].Outcome, presentedStep(cookies, presented))
				} else if preIdx >= 0 {
					what = "an expired session that GitHub did not re-verify"
				} else if cookieVal != "" {
					what = "a forged cookie"
				}
				out.fails = append(out.fails, propFail{k, "served", fmt.Sprintf("step %d: %s served (%s) to %s", k, s.Route, o.Data, what)})
			}
		}
		out.obs = append(out.obs, o)
	}
	return out
}

func presentedStep(cookies map[int]*artifact, a *artifact) int {
	for k, v := range cookies {
		if v == a {
			return k
		}
	}
	return 0
}

func answerOf(calls []idpCall) string {
	for _, c := range calls {
		if c.Endpoint == "orgs" {
			return c.Answer
		}
	}
	return "nothing (not asked)"
}

// ---------------------------------------------------------------- generation

var (
	seqDataRoutes = []string{"/immediate", "/run", "/async", "/cached/{permalink}", "/metrics", "/", "/report/{permalink}"}
	seqOrgAnswers = []string{"inOrg", "notInOrg", "httpError", "garbage", "unreachable"}
	seqAdvances   = []int64{0, 0, 0, 700, 1900, 4100, 7300}
	seqPreExps    = []int64{-5000, 1000, 2500, 5000, 9000}
)

// reduced alphabet of the exhaustive two-step sweep
type seqLetter struct {
	target string
	cookie credRef
	state  credRef
	token  tokenAns
}

var seqLetters = []seqLetter{
	{"data", credRef{Kind: "pre", Idx: 0}, credRef{Kind: "none"}, tokenAns{Kind: "unreachable"}}, // timed-out session
	{"data", credRef{Kind: "pre", Idx: 1}, credRef{Kind: "none"}, tokenAns{Kind: "unreachable"}}, // live session
	{"data", credRef{Kind: "latest"}, credRef{Kind: "none"}, tokenAns{Kind: "unreachable"}},      // whatever came back
	{"data", credRef{Kind: "none"}, credRef{Kind: "none"}, tokenAns{Kind: "unreachable"}},
	{"callback", credRef{Kind: "none"}, credRef{Kind: "minted"}, tokenAns{Kind: "token", Principal: 3}},
	{"callback", credRef{Kind: "none"}, credRef{Kind: "latest"}, tokenAns{Kind: "noToken"}},
}
var seqLetterOrgs = []string{"inOrg", "notInOrg", "httpError", "unreachable"}

var nSeqExhaustive = len(seqLetters) * len(seqLetterOrgs) * len(seqLetters) * len(seqLetterOrgs)

func (rn *runner) seqSecrets() secrets {
	return newSecrets(hk.Derive(rn.ctx.Seed, 0xA17))
}

func (rn *runner) genSeq(idx uint64) seqCase {
	sec := rn.seqSecrets()
	c := seqCase{Engine: "auth", Op: "webseq", ClientID: sec.ClientID, ClientSecret: sec.Secret, HashKey: sec.HashKey, BlockKey: sec.BlockKey}
	if idx < uint64(nSeqExhaustive) {
		c.Init = []seqSession{{Principal: 1, Exp: -1800}, {Principal: 2, Exp: 1800}}
		n := int(idx)
		for i := 0; i < 2; i++ {
			l := seqLetters[n%len(seqLetters)]
			n /= len(seqLetters)
			org := seqLetterOrgs[n%len(seqLetterOrgs)]
			n /= len(seqLetterOrgs)
			c.Steps = append(c.Steps, seqStep{Target: l.target, Route: "/immediate", Cookie: l.cookie, State: l.state, Token: l.token, Org: org})
		}
		for i := range c.Steps {
			if c.Steps[i].Target == "callback" {
				c.Steps[i].Route = ""
			}
		}
		return c
	}
	r := hk.Derive(rn.ctx.Seed, idx)
	if r.Chance(1, 2) {
		c.Password = sec.Token
	}
	for i, n := 0, r.Intn(3); i < n; i++ {
		c.Init = append(c.Init, seqSession{Principal: r.Range(1, 3), Exp: hk.Pick(r, seqPreExps)})
	}
	nsteps := r.Range(2, 5)
	var V int64
	bounds := []int64{}
	for _, in := range c.Init {
		bounds = append(bounds, in.Exp)
	}
	for k := 0; k < nsteps; k++ {
		s := seqStep{Cookie: credRef{Kind: "none"}, State: credRef{Kind: "none"}, Token: tokenAns{Kind: "unreachable"}}
		// keep the virtual clock away from every expiry it could be compared with
		for try := 0; ; try++ {
			s.Advance = hk.Pick(r, seqAdvances)
			ok := true
			for _, b := range bounds {
				d := V + s.Advance - b
				if d < 0 {
					d = -d
				}
				if d < 45 {
					ok = false
				}
			}
			if ok || try > 20 {
				if !ok {
					s.Advance += 333
				}
				break
			}
		}
		V += s.Advance
		bounds = append(bounds, V+sessionSeconds, V+xsrfSeconds)
		s.Org = seqOrgAnswers[weighted(r, []int{35, 30, 15, 5, 15})]
		s.OrgVariant = r.Intn(6)
		if r.Chance(3, 10) {
			s.Target = "callback"
			switch weighted(r, []int{55, 25, 8, 7, 5}) {
			case 0:
				s.State = credRef{Kind: "minted"}
			case 1:
				s.State = credRef{Kind: "latest"}
			case 2:
				s.State = credRef{Kind: "garbage"}
			case 3:
				s.State = credRef{Kind: "none"}
			case 4:
				s.State = credRef{Kind: "stale"}
			}
			switch weighted(r, []int{65, 20, 7, 8}) {
			case 0:
				s.Token = tokenAns{Kind: "token", Principal: r.Range(1, 3)}
			case 1:
				s.Token = tokenAns{Kind: "noToken"}
			case 2:
				s.Token = tokenAns{Kind: "garbage", Variant: r.Intn(2)}
			case 3:
				s.Token = tokenAns{Kind: "unreachable", Variant: r.Intn(2)}
			}
		} else {
			s.Target = "data"
			s.Route = hk.Pick(r, seqDataRoutes)
			if r.Chance(1, 2) {
				s.Route = "/immediate"
			}
			switch weighted(r, []int{45, 25, 10, 8, 12}) {
			case 0:
				s.Cookie = credRef{Kind: "latest"}
			case 1:
				if len(c.Init) > 0 {
					s.Cookie = credRef{Kind: "pre", Idx: r.Intn(len(c.Init))}
				} else {
					s.Cookie = credRef{Kind: "latest"}
				}
			case 2:
				s.Cookie = credRef{Kind: "none"}
			case 3:
				s.Cookie = credRef{Kind: "forged", Idx: r.Intn(2)}
			case 4:
				if k > 0 {
					s.Cookie = credRef{Kind: "resp", Idx: r.Intn(k)}
				}
			}
			if c.Password != "" {
				switch weighted(r, []int{75, 10, 15}) {
				case 1:
					s.Header = sec.Token
				case 2:
					s.Header = "nope-" + sec.Token[len(sec.Token)-4:]
				}
			} else if r.Chance(1, 10) {
				s.Header = sec.Token // a token although none is configured
			}
		}
		c.Steps = append(c.Steps, s)
	}
	return c
}

func weighted(r *hk.Rng, w []int) int {
	t := 0
	for _, x := range w {
		t += x
	}
	n := r.Intn(t)
	for i, x := range w {
		if n < x {
			return i
		}
		n -= x
	}
	return len(w) - 1
}

// ---------------------------------------------------------------- shrinking

// dropStep removes step j, renumbering references; ok=false when a later step refers to it.
func dropStep(c seqCase, j int) (seqCase, bool) {
	n := c
	n.Steps = nil
	for k, s := range c.Steps {
		if k == j {
			continue
		}
		for _, ref := range []*credRef{&s.Cookie, &s.State} {
			if ref.Kind == "resp" {
				if ref.Idx == j {
					return c, false
				}
				if ref.Idx > j {
					ref.Idx--
				}
			}
		}
		if k == j+1 {
			s.Advance += c.Steps[j].Advance
		}
		n.Steps = append(n.Steps, s)
	}
	return n, true
}

func dropInit(c seqCase, j int) (seqCase, bool) {
	n := c
	n.Init = append(append([]seqSession{}, c.Init[:j]...), c.Init[j+1:]...)
	n.Steps = nil
	for _, s := range c.Steps {
		if s.Cookie.Kind == "pre" {
			if s.Cookie.Idx == j {
				return c, false
			}
			if s.Cookie.Idx > j {
				s.Cookie.Idx--
			}
		}
		n.Steps = append(n.Steps, s)
	}
	return n, true
}

func firstFail(res seqResult, kind string) *propFail {
	for i := range res.fails {
		if res.fails[i].kind == kind {
			return &res.fails[i]
		}
	}
	return nil
}

// minimise cuts the sequence after the failing step and drops what is not needed.
func (rn *runner) minimise(c seqCase, kind string) (seqCase, seqResult) {
	res := rn.runSeq(c)
	f := firstFail(res, kind)
	if f == nil {
		return c, res
	}
	c.Steps = c.Steps[:f.step+1]
	res = rn.runSeq(c)
	for changed := true; changed; {
		changed = false
		for j := 0; j < len(c.Steps)-1; j++ {
			if n, ok := dropStep(c, j); ok {
				if r2 := rn.runSeq(n); r2.infra == "" && firstFail(r2, kind) != nil && firstFail(r2, kind).step == len(n.Steps)-1 {
					c, res, changed = n, r2, true
					break
				}
			}
		}
		for j := 0; !changed && j < len(c.Init); j++ {
			if n, ok := dropInit(c, j); ok {
				if r2 := rn.runSeq(n); r2.infra == "" && firstFail(r2, kind) != nil {
					c, res, changed = n, r2, true
					break
				}
			}
		}
	}
	// cosmetic: concrete references instead of "latest"
	return c, res
}

// ---------------------------------------------------------------- one case

func (rn *runner) runSeqCase(c seqCase) error {
	res := rn.ctx.Res
	idx := rn.next()
	var r seqResult
	for attempt := 0; attempt < 2; attempt++ {
		if pn := hk.Recover(func() { r = rn.runSeq(c) }); pn != nil {
			r = seqResult{infra: fmt.Sprintf("panic: %v", pn)}
		}
		if r.infra == "" {
			break
		}
	}
	if r.infra != "" {
		res.Inconclusive++
		res.Note("sequence inconclusive: %s", r.infra)
		return nil
	}
	res.Count(c, r.touched)
	res.Hit(fmt.Sprintf("seq-len:%d", len(c.Steps)))
	for k, o := range r.obs {
		res.Hit("seq-step:" + c.Steps[k].Target + "/" + o.Outcome)
		if o.SetCookie != nil {
			res.Hit("seq-set-cookie-on:" + o.Outcome)
		}
		if c.Steps[k].Cookie.Kind == "resp" || c.Steps[k].Cookie.Kind == "latest" {
			if r.model[k].Cookie.Kind == "issued" {
				res.Hit("seq-replayed-set-cookie")
			}
		}
		if o.AskedOrgs != nil && c.Steps[k].Target == "data" {
			res.Hit("seq-recheck:" + c.Steps[k].Org)
		}
	}

	// property oracle
	if len(r.fails) > 0 {
		kind := "served"
		work := c
		if firstFail(r, "served") == nil {
			// only the issuing was seen: replay the cookie to show what it buys
			f := firstFail(r, "issue")
			probe := c
			probe.Steps = append(append([]seqStep{}, c.Steps[:f.step+1]...), seqStep{Target: "data", Route: "/immediate",
				Cookie: credRef{Kind: "resp", Idx: f.step}, State: credRef{Kind: "none"}, Token: tokenAns{Kind: "unreachable"}, Org: "unreachable"})
			if pr := rn.runSeq(probe); pr.infra == "" && firstFail(pr, "served") != nil {
				work = probe
			} else {
				kind = "issue"
			}
		}
		mc, mr := rn.minimise(work, kind)
		f := firstFail(mr, kind)
		detail := "a session cookie is issued by a response that did not verify organisation membership"
		if kind == "served" {
			detail = "a data route is served to a session that was never (re)verified"
		}
		d := hk.Disagreement{Kind: "property", PropertyFails: true, Case: mc, Impl: mr.obs,
			Model: "every served data request is backed by the static token or a cookie sealed after an in-org answer (unexpired or re-verified now); refusals set no cookie", Detail: detail, Index: idx}
		if f != nil {
			d.Model = map[string]interface{}{"violated": f.detail, "spec": d.Model}
		}
		res.Disagree(d)
	}

	if rn.ctx.Model == nil {
		return nil
	}
	// model comparison
	init := []modelSession{}
	for _, in := range c.Init {
		init = append(init, modelSession{in.Principal, fmt.Sprint(in.Exp), true})
	}
	req := map[string]interface{}{"engine": "auth", "op": "webseq", "clientID": c.ClientID, "clientSecret": c.ClientSecret,
		"password": c.Password, "init": init, "steps": r.model}
	mo, err := rn.ctx.Model.Call(req)
	if err != nil {
		return err
	}
	var m struct {
		Steps []struct {
			Outcome   string `json:"outcome"`
			SetCookie *struct {
				Principal int    `json:"principal"`
				Exp       string `json:"exp"`
			} `json:"setCookie"`
			AskedToken bool   `json:"askedToken"`
			AskedOrgs  *int   `json:"askedOrgs"`
			Branch     string `json:"branch"`
		} `json:"steps"`
	}
	if err := json.Unmarshal(mo, &m); err != nil {
		return err
	}
	for k := range r.obs {
		if k >= len(m.Steps) {
			break
		}
		o, e := r.obs[k], m.Steps[k]
		res.Hit("seq-model-branch:" + e.Branch)
		diff := ""
		switch {
		case o.Outcome != e.Outcome:
			diff = "outcome"
		case (o.SetCookie == nil) != (e.SetCookie == nil):
			diff = "Set-Cookie presence"
		case o.SetCookie != nil && (o.SetCookie.Principal != e.SetCookie.Principal || !near(fmt.Sprint(o.SetCookie.Exp), e.SetCookie.Exp, 30)):
			diff = "Set-Cookie principal/expiry"
		case o.AskedToken != e.AskedToken:
			diff = "token endpoint asked"
		case (o.AskedOrgs == nil) != (e.AskedOrgs == nil) || (o.AskedOrgs != nil && *o.AskedOrgs != *e.AskedOrgs):
			diff = "orgs endpoint asked / principal"
		case o.Err != "":
			diff = o.Err
		}
		if diff != "" {
			res.Disagree(hk.Disagreement{Kind: "model-vs-impl", Case: c, Impl: r.obs, Model: json.RawMessage(mo),
				Detail: fmt.Sprintf("web sequence: %s differs (%s %s)", diff, c.Steps[k].Target, e.Branch), Index: idx})
			break
		}
	}
	return nil
}

func near(a, b string, tol int64) bool {
	var x, y int64
	fmt.Sscan(a, &x)
	fmt.Sscan(b, &y)
	d := x - y
	if d < 0 {
		d = -d
	}
	return d <= tol
}

func (rn *runner) seqRun() error {
	ctx := rn.ctx
	ctx.Res.Exhaustive = false
	ctx.Res.Rule = fmt.Sprintf("web request sequences against the real handler with a scripted GitHub stand-in: indices 0..%d enumerate every two-step sequence over {timed-out session, live session, whatever the previous response set, no credential, callback with valid state, callback with the state of the previous redirect} × {in org, not in org, HTTP error, unreachable}; higher indices are random sequences of 2–5 steps (virtual clock, 5 org answers, 4 token answers, Set-Cookie / xsrf state of any earlier response replayed); distinct by canonical sequence JSON; non-trivial = some step presents something an earlier response returned, or reaches the GitHub re-check", nSeqExhaustive-1)
	defer rn.closeSeqEnvs()
	for i := 0; i < ctx.N; i++ {
		idx := uint64(ctx.From + i)
		if err := rn.runSeqCase(rn.genSeq(idx)); err != nil {
			return err
		}
	}
	return nil
}
