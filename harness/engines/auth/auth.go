// Package auth is the correspondence engine for the access decisions of the RPC
// server and the web API (M-AUTH, property C19).
//
// It enumerates the COMPLETE credential lattice (nothing is sampled):
//
//	RPC : {password set, unset} × {no credential, empty, wrong, upper-cased, right under
//	      another metadata key, right (real client option), wrong+right (two values),
//	      two wrong values} × {Query, Follow, HandleRemoteQueries, Insert}
//	      against rpcserver.PrepareServer on 127.0.0.1:0 with the real rpc client;
//	web : {OAuth unset, id only, secret only, set} × {static token set, unset} ×
//	      {no credential, wrong / right static token, garbage cookie, cookie sealed with
//	      other keys, cookie sealed under another cookie name, well-sealed cookie expired
//	      1 h / 1 s ago, well-sealed cookie valid for 1 min / 1 h, wrong token + valid
//	      cookie, right token + garbage cookie} × every route web.Configure registers
//	      (data routes and the public /insert control) on an httptest server.
//
// Every request is run against the real code and against the Lean model (`zmodel`,
// engine "auth"); the observed served/refused is compared with the model's decision,
// and the property oracle — a credential table evaluated here, independent of the
// model — flags every request that the property says must be refused but was served.
//
// ctx.N is the number of rounds: each round repeats the lattice with fresh secrets
// derived from hk.Derive(ctx.Seed, round).  Exhaustive in both tiers.
package auth

import (
	"encoding/hex"
	"encoding/json"
	"fmt"
	"io"
	"os"
	"sort"
	"time"

	"github.com/getlantern/golog"

	"zvh/hk"
)

type Engine struct{}

// secrets of one round; every string derives from hk.Derive(seed, round)
type secrets struct {
	Password string `json:"password"` // rpc password
	Token    string `json:"token"`    // web static token
	HashKey  string `json:"hashKey"`  // 64 bytes
	BlockKey string `json:"blockKey"` // 32 bytes
	ClientID string `json:"clientID"`
	Secret   string `json:"clientSecret"`
}

func hexOf(r *hk.Rng, nbytes int) string {
	b := make([]byte, nbytes)
	for i := range b {
		b[i] = byte(r.Intn(256))
	}
	return hex.EncodeToString(b)
}

func newSecrets(r *hk.Rng) secrets {
	return secrets{
		Password: "pw-" + hexOf(r, 6),
		Token:    "tok-" + hexOf(r, 6),
		HashKey:  hexOf(r, 32), // 64 ASCII bytes
		BlockKey: hexOf(r, 16), // 32 ASCII bytes
		ClientID: "cid-" + hexOf(r, 4),
		Secret:   "cs-" + hexOf(r, 4),
	}
}

type runner struct {
	ctx     *hk.RunCtx
	env     *env
	idx     uint64
	webEnvs map[webCfg]*webEnv // handlers shared by the sequences of a run (mode "seq")
}

func (Engine) Run(ctx *hk.RunCtx) error {
	res := ctx.Res
	res.Exhaustive = true
	res.Rule = "complete credential lattice (rpc: password config × credential × stream handler; web: OAuth config × static-token config × credential × registered route), repeated per round with fresh secrets; distinct by canonical request JSON; non-trivial = an access check is configured (rpc password set / OAuth id and secret set) and the endpoint is one the model says is guarded"
	// GitHub must be unreachable deterministically and fast: the OAuth membership check of
	// web/auth.go goes through http.DefaultTransport, which honours the proxy environment
	// (loopback targets, i.e. our own httptest servers, bypass the proxy).
	os.Setenv("HTTPS_PROXY", "http://127.0.0.1:1")
	os.Setenv("https_proxy", "http://127.0.0.1:1")
	os.Unsetenv("NO_PROXY")
	os.Unsetenv("no_proxy")
	// ... and in front of that the GitHub stand-in (seqside.go): unreachable unless a sequence
	// step scripts an answer
	stub()
	if os.Getenv("ZV_AUTH_LOG") == "" {
		golog.SetOutputs(io.Discard, io.Discard)
	}

	e, err := newEnv()
	if err != nil {
		// infrastructure, not a verdict
		res.Note("cannot set up the embedded database: %v", err)
		res.Inconclusive++
		return nil
	}
	defer e.close()
	rn := &runner{ctx: ctx, env: e}
	defer rn.closeSeqEnvs()

	if ctx.Replay != "" {
		return rn.replay(ctx.Replay, "")
	}
	if ctx.Corpus != "" {
		if files, _ := os.ReadDir(ctx.Corpus); len(files) > 0 {
			names := []string{}
			for _, f := range files {
				names = append(names, f.Name())
			}
			sort.Strings(names)
			// each corpus file is run by the mode it belongs to (sequences by "seq")
			only := "single"
			if ctx.Mode == "seq" {
				only = "webseq"
			}
			for _, n := range names {
				if err := rn.replay(ctx.Corpus+"/"+n, only); err != nil {
					res.Note("corpus %s: %v", n, err)
				}
			}
		}
	}
	if ctx.Mode == "seq" {
		return rn.seqRun()
	}
	rounds := ctx.N
	if rounds < 1 {
		rounds = 1
	}
	start := time.Now()
	for round := 0; round < rounds; round++ {
		sec := newSecrets(hk.Derive(ctx.Seed, uint64(round)))
		if err := rn.rpcLattice(sec); err != nil {
			return err
		}
		if err := rn.webLattice(sec); err != nil {
			return err
		}
		if ctx.Tier == "quick" && time.Since(start) > 40*time.Second {
			res.Note("quick tier: stopped after %d of %d rounds (time budget); every round is a complete lattice", round+1, rounds)
			break
		}
	}
	return nil
}

// replay runs the single case stored in a replay / corpus file; only = "webseq" / "single"
// restricts it to sequence / single-request cases ("" = whatever the file holds).
func (rn *runner) replay(path string, only string) error {
	b, err := os.ReadFile(path)
	if err != nil {
		return err
	}
	var rp struct {
		Case json.RawMessage `json:"case"`
	}
	if err := json.Unmarshal(b, &rp); err != nil {
		return err
	}
	raw := rp.Case
	if len(raw) == 0 {
		raw = b
	}
	var probe struct {
		Op string `json:"op"`
	}
	if err := json.Unmarshal(raw, &probe); err != nil {
		return err
	}
	if (only == "webseq") != (probe.Op == "webseq") && only != "" {
		return nil
	}
	switch probe.Op {
	case "webseq":
		var c seqCase
		if err := json.Unmarshal(raw, &c); err != nil {
			return err
		}
		rn.ctx.Res.Exhaustive = false
		return rn.runSeqCase(c)
	case "rpc":
		var c rpcCase
		if err := json.Unmarshal(raw, &c); err != nil {
			return err
		}
		return rn.runRPC(c)
	case "web", "web-unclassified-route":
		var c webCase
		if err := json.Unmarshal(raw, &c); err != nil {
			return err
		}
		we, err := rn.env.webEnvFor(c.webCfg())
		if err != nil {
			rn.ctx.Res.Note("replay: cannot configure the web handler: %v", err)
			rn.ctx.Res.Inconclusive++
			return nil
		}
		defer we.close()
		if probe.Op == "web-unclassified-route" {
			rn.probeUnclassified(we, c)
			return nil
		}
		return rn.runWeb(we, c)
	}
	return fmt.Errorf("replay %s: unknown op %q", path, probe.Op)
}

func (rn *runner) next() uint64 {
	i := rn.idx
	rn.idx++
	return i
}

// modelDecision calls the Lean model and returns (decision, guarded, branch).
func (rn *runner) modelDecision(req interface{}) (string, bool, string, error) {
	if rn.ctx.Model == nil {
		return "", false, "", nil
	}
	out, err := rn.ctx.Model.Call(req)
	if err != nil {
		return "", false, "", err
	}
	var m struct {
		Decision string `json:"decision"`
		Guarded  bool   `json:"guarded"`
		Branch   string `json:"branch"`
	}
	if err := json.Unmarshal(out, &m); err != nil {
		return "", false, "", err
	}
	return m.Decision, m.Guarded, m.Branch, nil
}
