// Package alter is the correspondence engine for C15 (altering a table keeps the stored values
// of every retained field): histories interleaving inserts, forced flushes, restarts and schema
// applications through the real API (DB.ApplySchema -> table.Alter) with permuted / extended /
// reduced field lists (incl. a wide PERCENTILE column and AVG <-> WAVG swaps) and changed WHERE
// are run against an embedded zenodb and its never-altered twin, and against the Lean model
// (driver engine "alter"); raw scans of all fields and of subsets (incl. ONLY newly added fields)
// are compared row by row, and the property's oracles are evaluated on the implementation alone.
package alter

import (
	"encoding/json"
	"fmt"
	"os"
	"path/filepath"
	"sort"

	"zvh/hk"
)

type Engine struct{}

const corpusBase = uint64(1) << 40

type replayFile struct {
	Engine string  `json:"engine"`
	Mode   string  `json:"mode"`
	Seed   *uint64 `json:"seed"`
	Index  *uint64 `json:"index"`
	Script *Script `json:"script"`
	Case   *struct {
		Script *Script `json:"script"`
	} `json:"case"`
	Disagreement *struct {
		Case *struct {
			Script *Script `json:"script"`
		} `json:"case"`
	} `json:"disagreement"`
}

func corpusFiles(dir string) []string {
	files, _ := filepath.Glob(filepath.Join(dir, "*.json"))
	sort.Strings(files)
	return files
}

func runFile(ctx *hk.RunCtx, path string, idx uint64) error {
	b, err := os.ReadFile(path)
	if err != nil {
		return err
	}
	var rf replayFile
	if err := json.Unmarshal(b, &rf); err != nil {
		return fmt.Errorf("%s: %v", path, err)
	}
	if rf.Engine != "" && rf.Engine != "alter" {
		return nil
	}
	sc := rf.Script
	if sc == nil && rf.Case != nil {
		sc = rf.Case.Script
	}
	if sc == nil && rf.Disagreement != nil && rf.Disagreement.Case != nil {
		sc = rf.Disagreement.Case.Script
	}
	label := filepath.Base(path)
	switch {
	case sc != nil:
		return runScript(ctx, sc, idx, label)
	case rf.Seed != nil && rf.Index != nil && *rf.Index >= corpusBase && ctx.Corpus != "":
		files := corpusFiles(ctx.Corpus)
		if i := int(*rf.Index - corpusBase); i < len(files) {
			return runFile(ctx, files[i], *rf.Index)
		}
		return fmt.Errorf("%s: corpus case %d not found in %s", path, *rf.Index-corpusBase, ctx.Corpus)
	case rf.Seed != nil && rf.Index != nil:
		mode := ctx.Mode
		if rf.Mode != "" {
			mode = rf.Mode
		}
		return runScript(ctx, genCase(*rf.Seed, *rf.Index, mode, ctx.Tier, func(string) {}), *rf.Index, label)
	}
	return fmt.Errorf("%s: neither a script nor (seed, index)", path)
}

func (Engine) Run(ctx *hk.RunCtx) error {
	ctx.Res.Rule = "generated (initial definition, history of inserts / forced flushes / restarts / ApplySchema alters / raw scans); distinct by canonical model request; non-trivial = at least 2 inserts and one alter"
	if ctx.Mode == "dump" {
		// writes the hand-made histories as corpus files into -corpus
		for name, sc := range Witnesses() {
			b, _ := json.MarshalIndent(map[string]interface{}{"engine": "alter", "script": sc}, "", " ")
			if err := os.WriteFile(filepath.Join(ctx.Corpus, name+".json"), append(b, '\n'), 0o644); err != nil {
				return err
			}
		}
		return nil
	}
	if ctx.Replay != "" {
		ctx.Res.Hit("corpus-or-replay-case")
		return runFile(ctx, ctx.Replay, 0)
	}
	if ctx.Corpus != "" && ctx.From == 0 && ctx.Mode != "targeted" {
		for i, f := range corpusFiles(ctx.Corpus) {
			ctx.Res.Hit("corpus-or-replay-case")
			if err := runFile(ctx, f, corpusBase+uint64(i)); err != nil {
				return fmt.Errorf("corpus %s: %v", f, err)
			}
		}
	}
	for i := 0; i < ctx.N; i++ {
		idx := uint64(ctx.From + i)
		sc := genCase(ctx.Seed, idx, ctx.Mode, ctx.Tier, ctx.Res.Hit)
		if err := runScript(ctx, sc, idx, ""); err != nil {
			return err
		}
	}
	return nil
}
