package alter

import (
	"fmt"
	"time"

	"zvh/dbk"
	"zvh/gen"
	"zvh/hk"
)

// Op is one step of a history.
type Op struct {
	Kind   string     // ingest flush alter restart iterate
	P      *dbk.Point `json:",omitempty"`
	Fields []FDef     `json:",omitempty"` // alter: the new definition (without _points); restart: nil = unchanged definition,
	// else the definition the table is re-created with (permutation + additions only)
	WhereC int      // alter / restart with Fields: the new WHERE (-1 none)
	Sel    []string `json:",omitempty"` // iterate: field names (nil = all current fields)
	Mem    bool     `json:",omitempty"` // iterate: include the memstore
	Note   string   `json:",omitempty"`
}

// Script is a complete history; it is also the replay format (corpus/C15/*.json: {"engine":"alter","script":{...}}).
type Script struct {
	Base   Base
	Fields []FDef // initial definition (without _points)
	WhereC int    // initial WHERE (-1 none)
	Ops    []Op
}

func genPointTS(r *hk.Rng, cur time.Time, b Base) time.Time {
	switch r.Intn(10) {
	case 0:
		return cur.Add(-time.Duration(r.Range(0, 6)) * b.Res) // late / out of order
	case 1:
		return cur.Add(-b.Retention + time.Duration(r.Range(-2, 2))*b.Res) // at the retention edge
	case 2:
		return cur.Truncate(b.Res) // exact boundary
	case 3:
		return cur.Add(time.Duration(r.Range(1, 8)) * b.Res) // jump ahead
	default:
		return cur.Add(time.Duration(r.Range(0, int(b.Res/time.Millisecond))) * time.Millisecond)
	}
}

// genPoint: a point with at least one value (a point without values inserts nothing and does
// not advance the table's WAL offset: it is read again after a restart, which belongs to C02).
func genPoint(r *hk.Rng, ts time.Time) dbk.Point {
	p := dbk.GenPointAt(r, ts, false)
	if len(p.Vals) == 0 {
		p.Vals[hk.Pick(r, valueFields)] = float64(r.Range(0, 5))
	}
	return p
}

func hasName(fs []FDef, name string) int {
	for i, f := range fs {
		if f.Name == name {
			return i
		}
	}
	return -1
}

func hasNameS(ns []string, name string) int {
	for i, n := range ns {
		if n == name {
			return i
		}
	}
	return -1
}

func copyDefs(fs []FDef) []FDef { return append([]FDef(nil), fs...) }

// mutate derives the next definition from the current one.
func mutate(r *hk.Rng, cur []FDef, pool []FDef, avgAlt *FDef, hit func(string)) []FDef {
	next := copyDefs(cur)
	kinds := r.Range(1, 2)
	for k := 0; k < kinds; k++ {
		switch r.Intn(8) {
		case 7: // replace: remove k fields and add at least k others in ONE schema application
			k := r.Range(1, 2)
			if k >= len(next) {
				k = 1
			}
			if len(next) < 2 {
				break
			}
			var removed []string
			for n := 0; n < k; n++ {
				i := r.Intn(len(next))
				removed = append(removed, next[i].Name)
				next = append(next[:i], next[i+1:]...)
			}
			added := 0
			for _, p := range pool {
				if added > k || (added == k && r.Bool()) {
					break
				}
				if hasName(next, p.Name) < 0 && hasNameS(removed, p.Name) < 0 {
					pos := r.Intn(len(next) + 1)
					next = append(next[:pos], append([]FDef{p}, next[pos:]...)...)
					added++
				}
			}
			for ; added < k; added++ {
				o := gen.ExprOpts{Fields: valueFields, MaxDepth: 1, NoShift: true, NoUnary: true}
				next = append(next, FDef{Name: fmt.Sprintf("g%d", r.Intn(1000)), Node: gen.GenLeaf(r, o)})
			}
			hit("alter:replace(remove-k-add-at-least-k)")
		case 0: // permutation
			for i := len(next) - 1; i > 0; i-- {
				j := r.Intn(i + 1)
				next[i], next[j] = next[j], next[i]
			}
			hit("alter:permute")
		case 1, 2: // add one or two pool fields that are not present, at random positions
			for n := r.Range(1, 2); n > 0; n-- {
				var cand []FDef
				for _, p := range pool {
					if hasName(next, p.Name) < 0 {
						cand = append(cand, p)
					}
				}
				if len(cand) == 0 {
					break
				}
				f := hk.Pick(r, cand)
				pos := r.Intn(len(next) + 1)
				next = append(next[:pos], append([]FDef{f}, next[pos:]...)...)
				hit("alter:add")
				if f.Ptile {
					hit("alter:add-ptile")
				}
			}
		case 3, 4: // remove one or two fields (keep at least one)
			for n := r.Range(1, 2); n > 0 && len(next) > 1; n-- {
				i := r.Intn(len(next))
				if next[i].Ptile {
					hit("alter:remove-ptile")
				}
				next = append(next[:i], next[i+1:]...)
				hit("alter:remove")
			}
		case 5: // AVG(b) <-> WAVG(b, a) under the same name
			if avgAlt != nil {
				if i := hasName(next, "x"); i >= 0 {
					if next[i].Ident() == avgAlt.Ident() {
						next[i] = pool[hasName(pool, "x")]
					} else {
						next[i] = *avgAlt
					}
					hit("alter:avg-wavg-swap")
				}
			}
		case 6: // replace the expression of a field under the same name (printed identity changes)
			i := r.Intn(len(next))
			if !next[i].Ptile && next[i].Name != "x" {
				o := gen.ExprOpts{Fields: valueFields, MaxDepth: 1, NoShift: true, NoUnary: true}
				next[i] = FDef{Name: next[i].Name, Node: gen.GenLeaf(r, o)}
				hit("alter:replace-expr")
			}
		}
	}
	return next
}

func genScript(r *hk.Rng, tier string, hit func(string)) *Script {
	b := Base{}
	b.Res = hk.Pick(r, []time.Duration{time.Second, 5 * time.Second, time.Minute})
	b.Retention = b.Res * time.Duration(hk.Pick(r, []int{1, 2, 4, 10, 50, 200}))
	switch r.Intn(4) {
	case 0:
		b.GroupBy = nil
	case 1:
		b.GroupBy = []string{"d"}
	case 2:
		b.GroupBy = []string{"d", "g"}
	default:
		b.GroupBy = []string{"d", "g", "n"}
	}
	pool, avgAlt := genPool(r, b.Res)
	sc := &Script{Base: b, WhereC: -1}
	if r.Chance(1, 4) {
		sc.WhereC = r.Intn(len(gen.Conds))
	}
	// initial definition: a random non-empty subset of the pool in random order
	for _, p := range pool {
		if r.Chance(3, 5) {
			sc.Fields = append(sc.Fields, p)
		}
	}
	if len(sc.Fields) == 0 {
		sc.Fields = []FDef{pool[0]}
	}
	cur := copyDefs(sc.Fields)
	where := sc.WhereC
	now := dbk.Base
	n := r.Range(8, 30)
	if tier == "thorough" && r.Chance(1, 4) {
		n = r.Range(30, 70)
	}
	var lastAdded []string
	for i := 0; i < n; i++ {
		c := r.Intn(100)
		switch {
		case c < 55:
			ts := genPointTS(r, now, b)
			if ts.After(now) {
				now = ts
			}
			p := genPoint(r, ts)
			sc.Ops = append(sc.Ops, Op{Kind: "ingest", P: &p})
		case c < 63:
			sc.Ops = append(sc.Ops, Op{Kind: "flush"})
		case c < 78:
			next := cur
			nw := where
			switch r.Intn(8) {
			case 0: // WHERE only
				nw = r.Range(-1, len(gen.Conds)-1)
				hit("alter:where-only")
			case 1: // fields and WHERE
				next = mutate(r, cur, pool, avgAlt, hit)
				nw = r.Range(-1, len(gen.Conds)-1)
			default:
				next = mutate(r, cur, pool, avgAlt, hit)
			}
			if nw != where {
				hit("alter:where-changed")
			}
			lastAdded = nil
			for _, f := range next {
				found := false
				for _, g := range cur {
					if g.Ident() == f.Ident() {
						found = true
					}
				}
				if !found {
					lastAdded = append(lastAdded, f.Name)
				}
			}
			sc.Ops = append(sc.Ops, Op{Kind: "alter", Fields: copyDefs(next), WhereC: nw})
			cur, where = copyDefs(next), nw
			// a scan of ONLY the added fields right after the alter, or after a few more points
			if len(lastAdded) > 0 && r.Chance(1, 2) {
				sc.Ops = append(sc.Ops, Op{Kind: "iterate", Sel: lastAdded, Mem: true, Note: "only-added"})
			}
		case c < 84:
			o := Op{Kind: "restart"}
			if r.Chance(1, 3) {
				// the definition changed while the database was down: permutation and additions only
				next := copyDefs(cur)
				if r.Bool() {
					for i := len(next) - 1; i > 0; i-- {
						j := r.Intn(i + 1)
						next[i], next[j] = next[j], next[i]
					}
				}
				lastAdded = nil
				for _, p := range pool {
					if hasName(next, p.Name) < 0 && r.Chance(1, 2) {
						pos := r.Intn(len(next) + 1)
						next = append(next[:pos], append([]FDef{p}, next[pos:]...)...)
						lastAdded = append(lastAdded, p.Name)
					}
				}
				o.Fields, o.WhereC = copyDefs(next), where
				if r.Chance(1, 4) {
					o.WhereC = r.Range(-1, len(gen.Conds)-1)
				}
				cur, where = copyDefs(next), o.WhereC
				hit("restart:with-new-definition")
				sc.Ops = append(sc.Ops, o)
				if len(lastAdded) > 0 {
					hit("restart:adds-fields")
					if r.Chance(1, 2) {
						// new keys first, so that memstore-only rows exist when only the added fields are scanned
						ts := genPointTS(r, now, b)
						if ts.After(now) {
							now = ts
						}
						p := genPoint(r, ts)
						sc.Ops = append(sc.Ops, Op{Kind: "ingest", P: &p})
					}
					sc.Ops = append(sc.Ops, Op{Kind: "iterate", Sel: lastAdded, Mem: true, Note: "only-added"})
				}
				continue
			}
			sc.Ops = append(sc.Ops, o)
		default:
			o := Op{Kind: "iterate", Mem: r.Chance(3, 4)}
			switch r.Intn(4) {
			case 0: // all fields
			case 1: // only the fields added by the last alter
				if len(lastAdded) > 0 {
					o.Sel, o.Note = lastAdded, "only-added"
				}
			default: // random subset (may lack _points)
				all := append([]string{"_points"}, names(cur)...)
				for _, nm := range all {
					if r.Chance(1, 2) {
						o.Sel = append(o.Sel, nm)
					}
				}
			}
			sc.Ops = append(sc.Ops, o)
		}
	}
	sc.Ops = append(sc.Ops, Op{Kind: "iterate", Mem: true}, Op{Kind: "iterate", Mem: false})
	return sc
}

func names(fs []FDef) []string {
	out := make([]string, len(fs))
	for i, f := range fs {
		out[i] = f.Name
	}
	return out
}

// genTargeted generates histories of the shape of corpus 02 (D14a) and 07: data on disk, one
// schema application that removes fields — alone, together with fewer additions, or as a
// REPLACE (remove k, add at least k) — with an empty (or not) memstore, an interlude without a
// data flush, then the removed fields added again with the same name and expression, scanned
// alone, filled, flushed and restarted.  Every fourth generated case and the whole search phase
// (mode "targeted") use it.
func genTargeted(r *hk.Rng, tier string, hit func(string)) *Script {
	b := Base{}
	b.Res = hk.Pick(r, []time.Duration{time.Second, 5 * time.Second, time.Minute})
	b.Retention = b.Res * time.Duration(hk.Pick(r, []int{10, 50, 200}))
	switch r.Intn(3) {
	case 0:
		b.GroupBy = nil
	case 1:
		b.GroupBy = []string{"d"}
	default:
		b.GroupBy = []string{"d", "g"}
	}
	pool, _ := genPool(r, b.Res)
	o := gen.ExprOpts{Fields: valueFields, MaxDepth: 1, NoShift: true, NoUnary: true}
	fresh := 0
	newField := func() FDef {
		fresh++
		return FDef{Name: fmt.Sprintf("g%d", fresh), Node: gen.GenLeaf(r, o)}
	}
	sc := &Script{Base: b, WhereC: -1}
	nInit := r.Range(2, 3)
	if nInit > len(pool) {
		nInit = len(pool)
	}
	sc.Fields = copyDefs(pool[:nInit])
	spare := copyDefs(pool[nInit:])
	takeSpare := func() FDef {
		if len(spare) > 0 && r.Chance(2, 3) {
			f := spare[0]
			spare = spare[1:]
			return f
		}
		return newField()
	}
	cur := copyDefs(sc.Fields)
	where := -1
	now := dbk.Base
	ingest := func(n int) {
		for ; n > 0; n-- {
			ts := now.Add(time.Duration(r.Range(0, int(b.Res/time.Millisecond))) * time.Millisecond)
			if r.Chance(1, 4) {
				ts = now.Add(time.Duration(r.Range(1, 3)) * b.Res)
			}
			if ts.After(now) {
				now = ts
			}
			p := genPoint(r, ts)
			// make sure the fields in play get values
			for _, f := range valueFields {
				if _, ok := p.Vals[f]; !ok && r.Chance(2, 3) {
					p.Vals[f] = float64(r.Range(1, 9))
				}
			}
			sc.Ops = append(sc.Ops, Op{Kind: "ingest", P: &p})
		}
	}
	insertAt := func(fs []FDef, f FDef) []FDef {
		pos := r.Intn(len(fs) + 1)
		return append(fs[:pos:pos], append([]FDef{f}, fs[pos:]...)...)
	}
	alter := func(next []FDef, nw int) {
		sc.Ops = append(sc.Ops, Op{Kind: "alter", Fields: copyDefs(next), WhereC: nw})
		cur, where = copyDefs(next), nw
	}

	ingest(r.Range(2, 5))
	if r.Chance(3, 4) {
		sc.Ops = append(sc.Ops, Op{Kind: "flush"})
		hit("targeted:remove-with-empty-memstore")
	} else {
		hit("targeted:remove-with-data-in-memstore")
	}
	// the removal
	k := 1
	if len(cur) >= 3 && r.Chance(1, 3) {
		k = 2
	}
	next := copyDefs(cur)
	var victims []FDef
	for n := 0; n < k; n++ {
		i := r.Intn(len(next))
		victims = append(victims, next[i])
		next = append(next[:i:i], next[i+1:]...)
	}
	adds := 0
	switch c := r.Intn(20); {
	case c < 12: // replace: at least as many additions as removals
		adds = k + r.Intn(2)
		hit("targeted:replace(remove-k-add-at-least-k)")
	case c < 17: // plain removal
		hit("targeted:plain-removal")
	default: // fewer additions than removals
		adds = k - 1
		hit("targeted:remove-more-than-add")
	}
	for n := 0; n < adds; n++ {
		next = insertAt(next, takeSpare())
	}
	if len(next) == 0 {
		next = []FDef{takeSpare()}
	}
	nw := where
	if r.Chance(1, 6) {
		nw = r.Range(-1, len(gen.Conds)-1)
	}
	alter(next, nw)
	// interlude without a forced flush
	for n := r.Intn(3); n > 0; n-- {
		switch r.Intn(5) {
		case 0, 1:
			ingest(r.Range(1, 2))
			hit("targeted:interlude-inserts")
		case 2:
			alter(cur, r.Range(-1, len(gen.Conds)-1))
			hit("targeted:interlude-where-only-alter")
		case 3:
			alter(insertAt(copyDefs(cur), takeSpare()), where)
			hit("targeted:interlude-adding-alter")
		default:
			p := copyDefs(cur)
			for i := len(p) - 1; i > 0; i-- {
				j := r.Intn(i + 1)
				p[i], p[j] = p[j], p[i]
			}
			alter(p, where)
			hit("targeted:interlude-permuting-alter")
		}
	}
	if r.Chance(1, 12) {
		sc.Ops = append(sc.Ops, Op{Kind: "restart"})
		hit("targeted:interlude-restart")
	}
	// the re-add: same name, same expression
	next = copyDefs(cur)
	var readded []string
	for i, v := range victims {
		if i == 0 || r.Bool() {
			next = insertAt(next, v)
			readded = append(readded, v.Name)
		}
	}
	if len(next) > 2 && r.Chance(1, 4) {
		// ... while something else goes (the count may stay the same or shrink)
		for i := range next {
			if hasNameS(readded, next[i].Name) < 0 {
				next = append(next[:i:i], next[i+1:]...)
				break
			}
		}
	}
	alter(next, where)
	sc.Ops = append(sc.Ops, Op{Kind: "iterate", Sel: readded, Mem: true, Note: "only-added"})
	ingest(r.Intn(3))
	sc.Ops = append(sc.Ops, Op{Kind: "iterate", Mem: true}, Op{Kind: "flush"}, Op{Kind: "iterate", Mem: false})
	if r.Bool() {
		sc.Ops = append(sc.Ops, Op{Kind: "restart"})
	}
	ingest(r.Intn(2))
	sc.Ops = append(sc.Ops, Op{Kind: "iterate", Mem: true}, Op{Kind: "iterate", Mem: false})
	return sc
}

// genCase is THE map from (seed, index, mode) to a history: every fourth case is a targeted one.
func genCase(seed, idx uint64, mode, tier string, hit func(string)) *Script {
	r := hk.Derive(seed, idx)
	if mode == "targeted" || idx%4 == 3 {
		hit("generator:targeted(remove/replace-then-re-add)")
		return genTargeted(r, tier, hit)
	}
	return genScript(r, tier, hit)
}

// ---------------------------------------------------------------- hand-made histories

func sum(name, field string) FDef {
	return FDef{Name: name, Node: &gen.Node{Kind: "agg", Name: "SUM", Kids: []*gen.Node{{Kind: "field", Name: field}}}}
}

func avg(name, field string, weight *gen.Node) FDef {
	if weight == nil {
		weight = &gen.Node{Kind: "const", Const: 1}
	}
	return FDef{Name: name, Node: &gen.Node{Kind: "avg", Kids: []*gen.Node{{Kind: "field", Name: field}, weight}}}
}

func pt(sec int, d string, vals map[string]interface{}) *dbk.Point {
	return &dbk.Point{TS: dbk.Base.Add(time.Duration(sec) * time.Second), Dims: map[string]interface{}{"d": d}, Vals: vals}
}

// Witnesses are the hand-made histories of the defects found while building this check; they
// run before the generated cases and are stored in corpus/C15.
func Witnesses() map[string]*Script {
	b := Base{Res: time.Second, Retention: time.Hour, GroupBy: []string{"d"}}
	f := func(v ...float64) map[string]interface{} {
		m := map[string]interface{}{}
		for i, x := range v {
			m[valueFields[i]] = x
		}
		return m
	}
	return map[string]*Script{
		// D15/D17 (fixed in dd8e0db): ALTER ADD c with an empty memstore left the old file (no
		// column c); a scan of c alone stopped at the first file row that has no memstore row:
		// key z (memstore only) and every later file row were never delivered.
		"01-d17-scan-only-added-field": {Base: b, Fields: []FDef{sum("a", "a")}, WhereC: -1, Ops: []Op{
			{Kind: "ingest", P: pt(1, "x", f(1))}, {Kind: "ingest", P: pt(1, "y", f(2))}, {Kind: "flush"},
			{Kind: "alter", Fields: []FDef{sum("a", "a"), sum("c", "c")}, WhereC: -1},
			{Kind: "ingest", P: pt(2, "z", f(3, 0, 7))}, {Kind: "ingest", P: pt(2, "x", f(3, 0, 9))},
			{Kind: "iterate", Sel: []string{"c"}, Mem: true, Note: "only-added"},
			{Kind: "iterate", Mem: true}, {Kind: "iterate", Mem: false}}},
		// D15/D17 again, reachable also with repair D14a applied: the definition gains field c
		// while the database is down; the newest file has no column c.
		"06-d17-restart-with-added-field": {Base: b, Fields: []FDef{sum("a", "a")}, WhereC: -1, Ops: []Op{
			{Kind: "ingest", P: pt(1, "x", f(1))}, {Kind: "ingest", P: pt(1, "y", f(2))}, {Kind: "flush"},
			{Kind: "restart", Fields: []FDef{sum("c", "c"), sum("a", "a")}, WhereC: -1},
			{Kind: "ingest", P: pt(2, "z", f(3, 0, 7))}, {Kind: "ingest", P: pt(2, "x", f(3, 0, 9))},
			{Kind: "iterate", Sel: []string{"c"}, Mem: true, Note: "only-added"},
			{Kind: "iterate", Mem: true}, {Kind: "flush"}, {Kind: "iterate", Sel: []string{"c"}, Mem: false}}},
		// D14a (repaired by handoff/C15-fix-2-D14a.diff): b removed while the memstore is empty
		// (no flush: the file kept column b), then re-added: the "added" field showed its old
		// file data (5).
		"02-d14a-readd-after-empty-memstore-remove": {Base: b, Fields: []FDef{sum("a", "a"), sum("b", "b")}, WhereC: -1, Ops: []Op{
			{Kind: "ingest", P: pt(1, "x", f(1, 5))}, {Kind: "flush"},
			{Kind: "alter", Fields: []FDef{sum("a", "a")}, WhereC: -1},
			{Kind: "alter", Fields: []FDef{sum("a", "a"), sum("b", "b")}, WhereC: -1},
			{Kind: "iterate", Sel: []string{"b"}, Mem: true, Note: "only-added"},
			{Kind: "ingest", P: pt(2, "x", f(1, 2))},
			{Kind: "iterate", Mem: true}, {Kind: "flush"}, {Kind: "restart"}, {Kind: "iterate", Mem: true}}},
		// D14b: AVG(b) -> WAVG(b, a) under the same name prints alike: the alter is ignored, the
		// "new" field keeps the old AVG data and goes on averaging without weights.
		"03-d14b-avg-to-wavg-ignored": {Base: b, Fields: []FDef{sum("a", "a"), avg("x", "b", nil)}, WhereC: -1, Ops: []Op{
			{Kind: "ingest", P: pt(1, "x", f(2, 5))},
			{Kind: "alter", Fields: []FDef{sum("a", "a"), avg("x", "b", &gen.Node{Kind: "field", Name: "a"})}, WhereC: -1},
			{Kind: "iterate", Mem: true},
			{Kind: "ingest", P: pt(1, "x", f(4, 11))},
			{Kind: "iterate", Mem: true}, {Kind: "flush"}, {Kind: "restart"}, {Kind: "iterate", Mem: true}}},
		// D14b, second shape: the swap comes with another change, so the alter IS applied and the
		// file column written as AVG is read and continued as WAVG.
		"04-d14b-avg-to-wavg-with-other-change": {Base: b, Fields: []FDef{sum("a", "a"), avg("x", "b", nil)}, WhereC: -1, Ops: []Op{
			{Kind: "ingest", P: pt(1, "x", f(2, 5))}, {Kind: "flush"},
			{Kind: "alter", Fields: []FDef{avg("x", "b", &gen.Node{Kind: "field", Name: "a"}), sum("c", "c"), sum("a", "a")}, WhereC: -1},
			{Kind: "ingest", P: pt(1, "x", f(4, 11, 1))},
			{Kind: "iterate", Mem: true}, {Kind: "restart"}, {Kind: "iterate", Mem: true}}},
		// replace-then-re-add (seeded regression "spare the rewrite when no column has to be
		// dropped", decided by field COUNT): ONE schema application removes b and adds c while the
		// memstore is empty; b added again before any flush that carries data must start empty
		// (b = 40 from the later points only, not 50), also after the next flush and a restart.
		"07-replace-then-readd-empty-memstore": {Base: b, Fields: []FDef{sum("a", "a"), sum("b", "b")}, WhereC: -1, Ops: []Op{
			{Kind: "ingest", P: pt(1, "x", f(1, 10))}, {Kind: "ingest", P: pt(1, "y", f(2, 20))}, {Kind: "flush"},
			{Kind: "alter", Fields: []FDef{sum("a", "a"), sum("c", "c")}, WhereC: -1},
			{Kind: "ingest", P: pt(2, "x", f(1, 0, 3))},
			{Kind: "alter", Fields: []FDef{sum("b", "b"), sum("a", "a"), sum("c", "c")}, WhereC: -1},
			{Kind: "iterate", Sel: []string{"b"}, Mem: true, Note: "only-added"},
			{Kind: "ingest", P: pt(1, "x", f(1, 40))},
			{Kind: "iterate", Mem: true}, {Kind: "flush"}, {Kind: "iterate", Mem: false},
			{Kind: "restart"}, {Kind: "iterate", Mem: true}}},
		// the same with the re-add directly after the replace (both with an empty memstore) and
		// two fields replaced by two
		"08-replace-two-by-two-then-readd": {Base: b, Fields: []FDef{sum("a", "a"), sum("b", "b"), sum("c", "c")}, WhereC: -1, Ops: []Op{
			{Kind: "ingest", P: pt(1, "x", f(1, 10, 100))}, {Kind: "flush"},
			{Kind: "alter", Fields: []FDef{sum("a", "a"), sum("m", "b"), sum("n", "c")}, WhereC: -1},
			{Kind: "alter", Fields: []FDef{sum("a", "a"), sum("m", "b"), sum("n", "c"), sum("c", "c"), sum("b", "b")}, WhereC: -1},
			{Kind: "iterate", Sel: []string{"c", "b"}, Mem: true, Note: "only-added"},
			{Kind: "ingest", P: pt(2, "x", f(1, 4, 5))},
			{Kind: "iterate", Mem: true}, {Kind: "flush"}, {Kind: "restart"}, {Kind: "iterate", Mem: true}}},
		// permutation + insertion + deletion around the wide column, WHERE change, restart
		"05-permute-add-remove-ptile-where": {Base: b, Fields: []FDef{sum("a", "a"), {Name: "pt", Ptile: true}, sum("b", "b")}, WhereC: -1, Ops: []Op{
			{Kind: "ingest", P: pt(1, "x", f(1, 5))}, {Kind: "ingest", P: pt(1, "y", f(2, 6))}, {Kind: "flush"},
			{Kind: "ingest", P: pt(2, "x", f(3, 7))},
			{Kind: "alter", Fields: []FDef{sum("b", "b"), sum("c", "c"), {Name: "pt", Ptile: true}}, WhereC: 0},
			{Kind: "ingest", P: pt(3, "y", f(9, 9, 9))}, {Kind: "ingest", P: pt(3, "x", f(4, 8, 1))},
			{Kind: "iterate", Sel: []string{"c"}, Mem: true, Note: "only-added"},
			{Kind: "alter", Fields: []FDef{{Name: "pt", Ptile: true}, sum("a", "a"), sum("b", "b")}, WhereC: -1},
			{Kind: "ingest", P: pt(4, "y", f(1, 1))},
			{Kind: "iterate", Mem: true}, {Kind: "restart"}, {Kind: "iterate", Mem: true}, {Kind: "iterate", Mem: false}}},
	}
}
